(* PlanBuilder::sort_plan: the frontier loop emits every entry of the depth-first plan exactly
   once, each only after all of its dependencies are resolved, and never runs out of fuel. *)
From RV Require Import Prelude.
From Coq Require Import Permutation.
From Planner Require Import Graph Graph_proofs PlannerModel Planner_dfs.
Open Scope N_scope.

(* ---------------------------------------------------------------- list helpers *)
Lemma find_pos_lt f l p : find_pos f l = Some p -> (p < length l)%nat.
Proof.
  revert p. induction l as [|x r IH]; intros p; cbn [find_pos length]; [discriminate|].
  destruct (f x).
  - intros H. injection H as <-. lia.
  - destruct (find_pos f r) as [q|]; cbn [option_map]; [|discriminate].
    intros H. injection H as <-. specialize (IH q eq_refl). lia.
Qed.

Lemma pick_pos_lt g fr : fr <> [] -> (pick_pos g fr < length fr)%nat.
Proof.
  intros Hne. unfold pick_pos. destruct (find_pos _ fr) as [p|] eqn:E.
  - eapply find_pos_lt; exact E.
  - destruct fr; [contradiction|cbn [length]; lia].
Qed.

Lemma remove_nth_perm {A} (d : A) : forall n l, (n < length l)%nat ->
  Permutation l (nth n l d :: remove_nth n l).
Proof.
  induction n as [|n IH]; intros [|x r] Hl; cbn [length] in Hl; try lia; cbn [nth remove_nth].
  - apply Permutation_refl.
  - eapply perm_trans; [apply perm_skip; apply IH; lia|apply perm_swap].
Qed.

Lemma forallb_false_ex {A} (f : A -> bool) l :
  forallb f l = false -> exists x, In x l /\ f x = false.
Proof.
  induction l as [|x r IH]; cbn [forallb]; [discriminate|].
  destruct (f x) eqn:E; cbn [andb].
  - intros H. destruct (IH H) as [y [Hy Hf]]. exists y. split; [right; exact Hy|exact Hf].
  - intros _. exists x. split; [left; reflexivity|exact E].
Qed.

(* ---------------------------------------------------------------- model helpers *)
Lemma outs_of_produced g o v : In v (outs_of g o) <-> produced_by g o v.
Proof.
  unfold outs_of, produced_by. destruct (get_op g o) as [n|].
  - split; [intros H; exists n; split; [reflexivity|exact H]|].
    intros [n' [Hn Hv]]. injection Hn as <-. exact Hv.
  - split; [intros []|intros [n' [Hn _]]; discriminate].
Qed.

Lemma ready_op g res o : ready g res o = true ->
  exists n, get_op g o = Some n /\ forall d, In d (deps g n) -> resolved_contains g res d = true.
Proof.
  unfold ready. destruct (get_op g o) as [n|]; [|discriminate].
  intros H. exists n. split; [reflexivity|]. apply forallb_forall. exact H.
Qed.

Lemma ready_mono g res res' o : incl res res' -> ready g res o = true -> ready g res' o = true.
Proof.
  intros Hi H. unfold ready in *. destruct (get_op g o) as [n|]; [|discriminate].
  apply forallb_forall. intros d Hd. eapply resolved_contains_mono; [exact Hi|].
  revert d Hd. apply forallb_forall. exact H.
Qed.

Lemma dependents_In g dfs v x :
  In x (dependents g dfs v) <-> In x dfs /\ exists n, get_op g x = Some n /\ In v (deps g n).
Proof.
  unfold dependents. rewrite in_flat_map. split.
  - intros [o [Ho Hx]]. destruct (get_op g o) as [n|] eqn:En; [|destruct Hx].
    apply in_map_iff in Hx. destruct Hx as [d [<- Hd]]. apply filter_In in Hd. destruct Hd as [Hd He].
    apply N.eqb_eq in He. subst d. split; [exact Ho|]. exists n. split; [exact En|exact Hd].
  - intros [Hx [n [Hn Hv]]]. exists x. split; [exact Hx|]. rewrite Hn.
    apply in_map_iff. exists v. split; [reflexivity|]. apply filter_In. split; [exact Hv|apply N.eqb_refl].
Qed.

Lemma push_candidates_spec g res em : forall cands fr,
  let fr' := push_candidates g res em fr cands in
  incl fr fr' /\
  (forall x, In x fr' -> In x fr \/ (In x cands /\ mem x em = false /\ ready g res x = true)) /\
  (forall x, In x cands -> mem x em = false -> ready g res x = true -> In x fr') /\
  (NoDup fr -> NoDup fr').
Proof.
  induction cands as [|c cs IH]; intros fr; cbn [push_candidates fold_left].
  - split; [apply incl_refl|]. split; [intros x Hx; left; exact Hx|]. split; [intros x []|auto].
  - fold (push_candidates g res em) in *.
    set (fr1 := if mem c em || mem c fr then fr else if ready g res c then fr ++ [c] else fr).
    change (fold_left _ cs fr1) with (push_candidates g res em fr1 cs).
    destruct (IH fr1) as [H1 [H2 [H3 H4]]].
    assert (Hf1 : incl fr fr1).
    { subst fr1. destruct (mem c em || mem c fr); [apply incl_refl|].
      destruct (ready g res c); [|apply incl_refl]. intros x Hx. apply in_or_app. left. exact Hx. }
    assert (Hf2 : forall x, In x fr1 -> In x fr \/ (x = c /\ mem x em = false /\ ready g res x = true)).
    { subst fr1. intros x Hx. destruct (mem c em || mem c fr) eqn:E1; [left; exact Hx|].
      destruct (ready g res c) eqn:E2; [|left; exact Hx].
      apply in_app_or in Hx. destruct Hx as [Hx|[<-|[]]]; [left; exact Hx|].
      right. apply orb_false_iff in E1. destruct E1 as [E1 _]. auto. }
    split; [eapply incl_tran; eassumption|]. split; [|split].
    + intros x Hx. destruct (H2 x Hx) as [Hx1|[Hx1 Hx2]].
      * destruct (Hf2 x Hx1) as [Hx3|[-> Hx3]]; [left; exact Hx3|right; split; [left; reflexivity|exact Hx3]].
      * right. split; [right; exact Hx1|exact Hx2].
    + intros x [<-|Hx] Hm Hr; [|apply H3; assumption].
      apply H1. subst fr1. rewrite Hm. cbn [orb].
      destruct (mem c fr) eqn:E; [apply mem_In; exact E|]. rewrite Hr. apply in_or_app. right. left. reflexivity.
    + intros Hnd. apply H4. subst fr1. destruct (mem c em || mem c fr) eqn:E1; [exact Hnd|].
      destruct (ready g res c); [|exact Hnd].
      apply orb_false_iff in E1. destruct E1 as [_ E1]. apply mem_false in E1.
      apply Permutation_NoDup with (l := c :: fr); [apply Permutation_cons_append|].
      constructor; assumption.
Qed.

Lemma fold_push_flat g res em dfs : forall outs fr,
  fold_left (fun fr v => push_candidates g res em fr (dependents g dfs v)) outs fr =
  push_candidates g res em fr (flat_map (dependents g dfs) outs).
Proof.
  induction outs as [|v vs IH]; intros fr; cbn [fold_left flat_map]; [reflexivity|].
  rewrite IH. unfold push_candidates. rewrite fold_left_app. reflexivity.
Qed.

(* ---------------------------------------------------------------- the loop *)
Section Sort.
  Variable g : graph.
  Variables r0 dfs : list id.
  Hypothesis Hnd : NoDup dfs.
  Hypothesis Hex : plan_ops_exist g dfs.
  Hypothesis Hval : plan_valid g false r0 dfs.

  Record sinv (fr res em : list id) : Prop := {
    s_res : forall v, In v res <-> (In v r0 \/ exists e, In e em /\ produced_by g e v);
    s_em_nd : NoDup em;
    s_em_sub : incl em dfs;
    s_fr_nd : NoDup fr;
    s_fr_sub : incl fr dfs;
    s_fr_disj : forall x, In x fr -> ~ In x em;
    s_fr_ready : forall x, In x fr -> ready g res x = true;
    s_fr_all : forall x, In x dfs -> ~ In x em -> ready g res x = true -> In x fr;
    s_valid : valid_rev g false r0 em
  }.

  Lemma resolved_dep_ok_s fr res em d :
    sinv fr res em -> resolved_contains g res d = true -> dep_ok g false r0 em d.
  Proof.
    intros Hi H. apply resolved_contains_iff in H. destruct H as [H|H].
    - apply (s_res _ _ _ Hi) in H. destruct H as [H|[e [He Hp]]]; [left; exact H|].
      right; right; left. exists e. split; assumption.
    - right; left. exact H.
  Qed.

  Lemma dep_ok_resolved fr res em d :
    sinv fr res em -> dep_ok g false r0 em d -> resolved_contains g res d = true.
  Proof.
    intros Hi [H|[H|[[e [He Hp]]|[H _]]]]; apply resolved_contains_iff.
    - left. apply (s_res _ _ _ Hi). left. exact H.
    - right. exact H.
    - left. apply (s_res _ _ _ Hi). right. exists e. split; assumption.
    - discriminate.
  Qed.

  (* when the frontier is empty, everything has been emitted *)
  Lemma all_emitted res em : sinv [] res em ->
    forall pre post, dfs = pre ++ post -> forall x, In x pre -> In x em.
  Proof.
    intros Hi. induction pre as [|y pre IH] using rev_ind; intros post E x Hx; [destruct Hx|].
    apply in_app_or in Hx. destruct Hx as [Hx|[<-|[]]].
    - apply (IH (y :: post)); [rewrite E, <- app_assoc; reflexivity|exact Hx].
    - rewrite <- app_assoc in E. cbn [app] in E.
      destruct (in_dec N.eq_dec y em) as [Hin|Hnin]; [exact Hin|exfalso].
      assert (Hy : In y dfs) by (rewrite E; apply in_or_app; right; left; reflexivity).
      destruct (Hex y Hy) as [n Hn].
      assert (Hr : ready g res y = true).
      { unfold ready. rewrite Hn. apply forallb_forall. intros d Hd.
        eapply dep_ok_resolved; [exact Hi|].
        eapply dep_ok_mono; [|eapply (Hval pre y post n E Hn d Hd)].
        intros z Hz. apply (IH (y :: post) E z Hz). }
      exact (s_fr_all _ _ _ Hi y Hy Hnin Hr).
  Qed.

  Lemma step_inv fr res em :
    sinv fr res em -> fr <> [] ->
    let o := nth (pick_pos g fr) fr 0 in
    let res' := outs_of g o ++ res in
    let em' := o :: em in
    sinv (push_candidates g res' em' (remove_nth (pick_pos g fr) fr)
                          (flat_map (dependents g dfs) (outs_of g o))) res' em'.
  Proof.
    intros Hi Hne o res' em'.
    set (pos := pick_pos g fr) in *. set (fr1 := remove_nth pos fr).
    set (cands := flat_map (dependents g dfs) (outs_of g o)).
    assert (Hpos : (pos < length fr)%nat) by (apply pick_pos_lt; exact Hne).
    assert (Hperm : Permutation fr (o :: fr1)) by (apply remove_nth_perm; exact Hpos).
    assert (Ho_fr : In o fr) by (eapply Permutation_in; [apply Permutation_sym; exact Hperm|left; reflexivity]).
    assert (Hnd1 : NoDup (o :: fr1)) by (eapply Permutation_NoDup; [exact Hperm|apply (s_fr_nd _ _ _ Hi)]).
    assert (Ho_fr1 : ~ In o fr1) by (inversion Hnd1; assumption).
    assert (Hfr1 : forall x, In x fr1 -> In x fr /\ x <> o).
    { intros x Hx. split; [eapply Permutation_in; [apply Permutation_sym; exact Hperm|right; exact Hx]|].
      intros ->. contradiction. }
    assert (Hfr_split : forall x, In x fr -> x = o \/ In x fr1).
    { intros x Hx. apply (Permutation_in _ Hperm) in Hx. destruct Hx as [<-|Hx]; auto. }
    assert (Ho_em : ~ In o em) by (apply (s_fr_disj _ _ _ Hi); exact Ho_fr).
    assert (Hres_incl : incl res res') by (intros x Hx; apply in_or_app; right; exact Hx).
    destruct (ready_op g res o (s_fr_ready _ _ _ Hi o Ho_fr)) as [n [Hn Hdeps]].
    destruct (push_candidates_spec g res' em' cands fr1) as [P1 [P2 [P3 P4]]].
    assert (Hcands : forall x, In x cands -> In x dfs).
    { intros x Hx. apply in_flat_map in Hx. destruct Hx as [v [_ Hx]]. apply dependents_In in Hx. tauto. }
    constructor.
    - intros v. unfold res', em'. rewrite in_app_iff, outs_of_produced, (s_res _ _ _ Hi v). split.
      + intros [H|[H|[e [He Hp]]]].
        * right. exists o. split; [left; reflexivity|exact H].
        * left. exact H.
        * right. exists e. split; [right; exact He|exact Hp].
      + intros [H|[e [[<-|He] Hp]]].
        * right; left. exact H.
        * left. exact Hp.
        * right; right. exists e. split; assumption.
    - constructor; [exact Ho_em|apply (s_em_nd _ _ _ Hi)].
    - intros x [<-|Hx]; [apply (s_fr_sub _ _ _ Hi); exact Ho_fr|apply (s_em_sub _ _ _ Hi); exact Hx].
    - apply P4. inversion Hnd1; assumption.
    - intros x Hx. destruct (P2 x Hx) as [H|[H _]].
      + apply (s_fr_sub _ _ _ Hi). apply Hfr1. exact H.
      + apply Hcands. exact H.
    - intros x Hx Hin. destruct (P2 x Hx) as [H|[_ [H _]]].
      + destruct (Hfr1 x H) as [Hxf Hxo]. destruct Hin as [<-|Hin]; [congruence|].
        exact (s_fr_disj _ _ _ Hi x Hxf Hin).
      + apply mem_false in H. contradiction.
    - intros x Hx. destruct (P2 x Hx) as [H|[_ [_ H]]]; [|exact H].
      eapply ready_mono; [exact Hres_incl|]. apply (s_fr_ready _ _ _ Hi). apply Hfr1. exact H.
    - intros x Hx Hnin Hr.
      assert (Hxo : x <> o) by (intros ->; apply Hnin; left; reflexivity).
      assert (Hnin0 : ~ In x em) by (intros H; apply Hnin; right; exact H).
      destruct (ready g res x) eqn:Er0.
      + apply P1. destruct (Hfr_split x (s_fr_all _ _ _ Hi x Hx Hnin0 Er0)) as [->|H]; [congruence|exact H].
      + apply P3; [|apply mem_false; exact Hnin|exact Hr].
        destruct (ready_op g res' x Hr) as [nx [Hnx Hdx]].
        unfold ready in Er0. rewrite Hnx in Er0.
        destruct (forallb_false_ex _ _ Er0) as [d [Hd Hdf]].
        specialize (Hdx d Hd). unfold resolved_contains in Hdx, Hdf. unfold res' in Hdx.
        rewrite mem_app in Hdx.
        apply orb_false_iff in Hdf. destruct Hdf as [Hdf1 Hdf2]. rewrite Hdf1, Hdf2 in Hdx.
        rewrite !orb_false_r in Hdx. apply mem_In in Hdx.
        unfold cands. apply in_flat_map. exists d. split; [exact Hdx|].
        apply dependents_In. split; [exact Hx|]. exists nx. split; assumption.
    - apply vr_cons with n; [exact Hn| |apply (s_valid _ _ _ Hi)].
      intros d Hd. eapply resolved_dep_ok_s; [exact Hi|]. apply Hdeps. exact Hd.
  Qed.

  Lemma sort_loop_ok : forall fuel fr res em,
    sinv fr res em -> (fuel + length em > length dfs)%nat ->
    exists plan, sort_loop g dfs fuel fr res em = Ok plan /\
                 NoDup plan /\ (forall x, In x plan <-> In x dfs) /\ plan_valid g false r0 plan.
  Proof.
    induction fuel as [|f IH]; intros fr res em Hi Hlen.
    - exfalso. pose proof (NoDup_incl_length (s_em_nd _ _ _ Hi) (s_em_sub _ _ _ Hi)). lia.
    - cbn [sort_loop]. destruct fr as [|a fr'].
      + exists (rev em). split; [reflexivity|]. split; [apply NoDup_rev; apply (s_em_nd _ _ _ Hi)|].
        split.
        * intros x. rewrite <- in_rev. split; [apply (s_em_sub _ _ _ Hi)|].
          intros Hx. apply (all_emitted res em Hi dfs [] (eq_sym (app_nil_r dfs)) x Hx).
        * apply valid_rev_plan_valid. apply (s_valid _ _ _ Hi).
      + rewrite fold_push_flat. apply IH.
        * apply (step_inv (a :: fr') res em Hi). discriminate.
        * cbn [length]. lia.
  Qed.

  Lemma sort_plan_ok :
    exists plan, sort_plan g r0 dfs = Ok plan /\
                 NoDup plan /\ (forall x, In x plan <-> In x dfs) /\ plan_valid g false r0 plan.
  Proof.
    unfold sort_plan. apply sort_loop_ok; [|cbn [length]; lia].
    constructor.
    - intros v. split; [intros H; left; exact H|]. intros [H|[e [[] _]]]. exact H.
    - constructor.
    - intros x [].
    - apply NoDup_filter. exact Hnd.
    - intros x Hx. apply filter_In in Hx. tauto.
    - intros x _ [].
    - intros x Hx. apply filter_In in Hx. tauto.
    - intros x Hx _ Hr. apply filter_In. split; assumption.
    - constructor.
  Qed.
End Sort.
