(* C22 -- Concurrent use of one model gives sequential results (the plan-cache part).
   Only statements; proofs are `exact <lemma>` (Examples: vm_compute).
   Model: PlanCache.v. One atomic step = Graph::get_cached_plan under the cache mutex; a schedule
   (interleaving) of concurrent calls = the list of calls in lock-acquisition order.
   sg = is_subgraph (false for Model::run). *)
From RV Require Import Prelude.
From Planner Require Import Graph Graph_proofs PlannerModel Planner_main Planner_errors PlanCache PlanCache_proofs.
Open Scope N_scope.

(* (1) CachedPlan::matches (fixed, F12): a query matches iff it has no repeated ids and the same
       id sets as the cached request *)
Theorem C22_matches_iff : forall c ins outs,
  NoDup (cp_ins c) -> NoDup (cp_outs c) ->
  (matches c ins outs = true <->
   (NoDup ins /\ forall x, In x ins <-> In x (cp_ins c)) /\
   (NoDup outs /\ forall x, In x outs <-> In x (cp_outs c))).
Proof. exact matches_iff. Qed.

(* finding F12 (fixed): the former test matched [1;1;2] against the cached inputs {1,2,3} *)
Theorem C22_matches_old_refuted :
  exists c ins outs, NoDup (cp_ins c) /\ NoDup (cp_outs c) /\
                     matches_old c ins outs = true /\ ~ NoDup ins /\ matches c ins outs = false.
Proof. exact matches_old_refuted. Qed.

(* (2) for EVERY schedule of calls, starting from the empty cache (or any state reachable from
       it): each call obtains a duplicate-free, valid, complete and minimal plan for its OWN
       inputs and outputs, or exactly the error that planning its request on a cold cache
       reports; no other outcome (no panic, no exhausted budget) *)
Theorem C22_cache_transparent : forall g sg calls,
  wf_graph g ->
  Forall2 (fun call res =>
             match res with
             | Ok p => NoDup (fst call) /\ NoDup (snd call) /\
                       NoDup p /\ plan_ops_exist g p /\
                       plan_valid g false (init_resolved g (fst call) sg) p /\
                       plan_complete g false (init_resolved g (fst call) sg) (snd call) p /\
                       plan_minimal g (init_resolved g (fst call) sg) (snd call) p
             | Err e => create_plan g (fst call) (snd call) false sg = Err e
             | _ => False
             end) calls (run_calls g sg None calls).
Proof. intros g sg calls Hwf. exact (cache_transparent g sg Hwf calls None (cache_ok_empty g sg)). Qed.

Theorem C22_cache_transparent_from : forall g sg calls st,
  wf_graph g -> cache_ok g sg st -> Forall2 (call_ok g sg) calls (run_calls g sg st calls).
Proof. intros g sg calls st Hwf Hok. exact (cache_transparent g sg Hwf calls st Hok). Qed.

(* (3) when no value has two producers, a call is served from the cache only if planning it on
       a cold cache succeeds too: the Ok/Err verdict of every call is schedule independent *)
Theorem C22_hit_only_if_cold_ok : forall g sg st ins outs p st',
  wf_graph g -> unique_producers g -> cache_ok g sg st ->
  get_cached_plan g sg st ins outs = (Ok p, st') ->
  exists p', create_plan g ins outs false sg = Ok p'.
Proof. exact hit_only_if_cold_ok. Qed.

(* (4) no step blocks: it ends with a plan or an error *)
Theorem C22_step_total : forall g sg st ins outs,
  wf_graph g -> cache_ok g sg st ->
  (exists p, fst (get_cached_plan g sg st ins outs) = Ok p) \/
  (exists e, fst (get_cached_plan g sg st ins outs) = Err e).
Proof. exact step_total. Qed.

(* non-vacuity: requests alternate between two output sets; the permuted query [3;2] hits the
   cache (it replays the cached order [4;5], a cold call would give [5;4]); [2;2] is rejected *)
Example C22_example :
  let g := mk_graph [(0, Value); (1, Value); (2, Value); (3, Value);
                     (4, Op (mkop [Some 0] [Some 2] [] false));
                     (5, Op (mkop [Some 1] [Some 3] [] false))] [] in
  run_calls g false None [([0; 1], [2; 3]); ([1; 0], [3; 2]); ([0; 1], [3]); ([1; 0], [3; 2]); ([0; 1], [2; 2]); ([0; 0], [2; 3])]
  = [Ok [4; 5]; Ok [4; 5]; Ok [5]; Ok [5; 4]; Err (EDupOutput 2); Err (EDupInput 0)].
Proof. vm_compute. reflexivity. Qed.
