(* C03 -- Execution plans are valid, complete and minimal.
   Only statements; every proof is `exact <lemma>` (Examples: vm_compute).
   Model: Graph.v (graph), PlannerModel.v (create_plan = Planner::create_plan as fixed for F11).
   am = allow_missing_inputs, ca = captures_available, init_resolved = run inputs (+ captures). *)
From RV Require Import Prelude.
From Planner Require Import Graph Graph_proofs PlannerModel Planner_dfs Planner_sort Planner_main
     Planner_errors Planner_oracle.
Open Scope N_scope.

(* graphs built with add_value / add_constant / add_op (distinct node ids) are well-formed *)
Theorem C03_mk_graph_wf : forall nodes caps,
  NoDup (map fst nodes) -> wf_graph (mk_graph nodes caps).
Proof. exact mk_graph_wf. Qed.

(* (1) planning terminates: the recursion budgets |ops|+1 (visit) and |plan|+1 (sort_plan) are
       never exhausted, and the outcome is a plan or an error *)
Theorem C03_create_plan_terminates : forall g ins outs am ca,
  wf_graph g -> create_plan g ins outs am ca <> OutOfFuel.
Proof. exact create_plan_terminates. Qed.

Theorem C03_create_plan_total : forall g ins outs am ca,
  wf_graph g ->
  (exists plan, create_plan g ins outs am ca = Ok plan) \/
  (exists e, create_plan g ins outs am ca = Err e).
Proof. exact create_plan_total. Qed.

(* (2) every operator appears once *)
Theorem C03_plan_nodup : forall g ins outs am ca plan,
  wf_graph g -> create_plan g ins outs am ca = Ok plan -> NoDup plan.
Proof. intros g ins outs am ca plan Hwf E. exact (proj1 (create_plan_good g ins outs am ca plan Hwf E)). Qed.

(* (3) every entry is an operator node of the graph *)
Theorem C03_plan_ops_exist : forall g ins outs am ca plan,
  wf_graph g -> create_plan g ins outs am ca = Ok plan -> plan_ops_exist g plan.
Proof. intros g ins outs am ca plan Hwf E. exact (proj1 (proj2 (create_plan_good g ins outs am ca plan Hwf E))). Qed.

(* (4) every dependency (inputs and subgraph captures) of an entry is a run input / available
       capture, a constant, or an output of an EARLIER entry (with allow_missing_inputs: or a
       value without producer, to be supplied later) *)
Theorem C03_plan_valid : forall g ins outs am ca plan,
  wf_graph g -> create_plan g ins outs am ca = Ok plan ->
  plan_valid g am (init_resolved g ins ca) plan.
Proof. intros g ins outs am ca plan Hwf E. exact (proj1 (proj2 (proj2 (create_plan_good g ins outs am ca plan Hwf E)))). Qed.

(* (5) every requested output is available after the plan *)
Theorem C03_plan_complete : forall g ins outs am ca plan,
  wf_graph g -> create_plan g ins outs am ca = Ok plan ->
  plan_complete g am (init_resolved g ins ca) outs plan.
Proof. intros g ins outs am ca plan Hwf E. exact (proj1 (proj2 (proj2 (proj2 (create_plan_good g ins outs am ca plan Hwf E))))). Qed.

(* (6) every entry is needed by a requested output *)
Theorem C03_plan_minimal : forall g ins outs am ca plan,
  wf_graph g -> create_plan g ins outs am ca = Ok plan ->
  plan_minimal g (init_resolved g ins ca) outs plan.
Proof. intros g ins outs am ca plan Hwf E. exact (proj2 (proj2 (proj2 (proj2 (create_plan_good g ins outs am ca plan Hwf E))))). Qed.

(* (7) errors are exact: Err iff duplicate ids, non-value ids, or a requested output that is
       not computable from the inputs (no source operator, or only through a dependency cycle).
       Needs that no value is produced by two operators. *)
Theorem C03_plan_errors_exact : forall g ins outs am ca,
  wf_graph g -> unique_producers g ->
  ((exists e, create_plan g ins outs am ca = Err e) <-> ~ request_plannable g ins outs am ca).
Proof. exact plan_errors_exact. Qed.

(* without the single-producer hypothesis: a plannable request is never rejected *)
Theorem C03_plannable_never_rejected : forall g ins outs am ca,
  wf_graph g -> request_plannable g ins outs am ca ->
  exists plan, create_plan g ins outs am ca = Ok plan.
Proof. exact plannable_ok. Qed.

(* (8) the debug_assert of sort_plan holds: a non-empty depth-first plan has a ready operator *)
Theorem C03_initial_frontier_nonempty : forall g am r0 outs st,
  wf_graph g -> plan_outputs g am (S (num_ops g)) outs (mkst r0 []) = VOk st -> am = false ->
  rev (st_plan st) <> [] -> filter (ready g r0) (rev (st_plan st)) <> [].
Proof. exact initial_frontier_nonempty. Qed.

(* (9) the executable oracles applied to the implementation's answers in the correspondence
       check are EXACT: a plan passes plan_okb iff it satisfies (2)-(6); a request passes
       request_plannableb iff it is plannable (so Err on it is unjustified, and Err on a request
       that fails it is justified) *)
Theorem C03_oracle_exact : forall g am r0 outs plan,
  plan_okb g am r0 outs plan = true <->
  NoDup plan /\ plan_ops_exist g plan /\ plan_valid g am r0 plan /\
  plan_complete g am r0 outs plan /\ plan_minimal g r0 outs plan.
Proof. exact plan_okb_iff. Qed.

Theorem C03_plannable_oracle_exact : forall g ins outs am ca,
  wf_graph g ->
  (request_plannableb g ins outs am ca = true <-> request_plannable g ins outs am ca).
Proof. exact request_plannableb_iff. Qed.

(* ---- non-vacuity: a 9-node graph (multi-output Split, a constant, an optional input, an
   in-place capable operator, a capture); a plan whose sorted order differs from the DFS order;
   a cycle; a missing input; F11's graph, where an output of a planned operator is a run input *)
Definition ex_graph : graph := mk_graph
  [(0, Value); (1, Constant); (2, Value); (3, Value); (4, Value); (8, Value);
   (5, Op (mkop [Some 0] [Some 2; Some 3] [] false));
   (6, Op (mkop [Some 2; Some 1] [Some 4] [] true));
   (7, Op (mkop [Some 3; None; Some 4] [Some 8] [0] false))] [].

Example C03_example_wf : wf_graph ex_graph /\ unique_producers ex_graph.
Proof.
  split.
  - apply mk_graph_wf. apply nodupb_iff. vm_compute. reflexivity.
  - intros v o n Ho Hv. unfold get_op, get_node in Ho. cbn [ex_graph mk_graph g_nodes assoc] in Ho.
    repeat match type of Ho with
           | context [if ?a =? ?b then _ else _] =>
               let E := fresh in destruct (a =? b) eqn:E;
               [apply N.eqb_eq in E; subst|]
           end; try discriminate; injection Ho as <-; cbn in Hv;
      repeat (destruct Hv as [<-|Hv]; [vm_compute; reflexivity|]); destruct Hv.
Qed.

Example C03_example_plans :
  create_plan ex_graph [0] [8] false false = Ok [5; 6; 7] /\
  create_plan ex_graph [0] [4; 3] false false = Ok [5; 6] /\
  create_plan ex_graph [2; 3] [8] false false = Err (EMissing 0 7) /\
  create_plan ex_graph [] [8] false false = Err (EMissing 0 5) /\
  create_plan ex_graph [] [8] true false = Ok [5; 6; 7] /\
  create_plan ex_graph [0; 0] [8] false false = Err (EDupInput 0) /\
  create_plan ex_graph [0] [8; 5] false false = Err (EBadOutput 1) /\
  plan_okb ex_graph false [0] [8] [5; 6; 7] = true /\
  plan_okb ex_graph false [0] [8] [6; 5; 7] = false /\
  plan_okb ex_graph false [0] [4] [5; 6; 7] = false.
Proof. vm_compute. repeat split; reflexivity. Qed.

(* in-place capable operators are scheduled after the other ready operators *)
Example C03_example_sorted :
  let g := mk_graph [(0, Value); (1, Value); (2, Value); (3, Value);
                     (4, Op (mkop [Some 0] [Some 1] [] true));
                     (5, Op (mkop [Some 0] [Some 2] [] false));
                     (6, Op (mkop [Some 1; Some 2] [Some 3] [] false))] [] in
  create_plan g [0] [3] false false = Ok [5; 4; 6] /\ create_plan g [0] [3] true false = Ok [4; 5; 6].
Proof. vm_compute. split; reflexivity. Qed.

Example C03_example_cycle :
  let g := mk_graph [(0, Value); (1, Value); (2, Value);
                     (3, Op (mkop [Some 2] [Some 1] [] false));
                     (4, Op (mkop [Some 1; Some 0] [Some 2] [] false))] [] in
  create_plan g [0] [2] false false = Err (ECycle 2 3) /\
  create_plan g [0; 1] [2] false false = Ok [4].
Proof. vm_compute. split; reflexivity. Qed.

(* finding F11 (fixed): before the fix the second request yielded [5;4;5], and the third one
   (an operator consuming its own output, that output also being a run input) never terminated *)
Example C03_example_F11 :
  let g := mk_graph [(0, Value); (1, Value); (2, Value); (3, Constant);
                     (4, Op (mkop [Some 3] [Some 1; Some 0] [] false));
                     (5, Op (mkop [Some 0] [Some 2] [] false))] [] in
  let g2 := mk_graph [(0, Value); (1, Value); (2, Value);
                      (3, Op (mkop [Some 0] [Some 0; Some 1] [] false))] [] in
  create_plan g [0] [1; 2] false false = Ok [4; 5] /\
  create_plan g [0] [2; 1] false false = Ok [5; 4] /\
  create_plan g2 [0] [1] false false = Ok [3].
Proof. vm_compute. repeat split; reflexivity. Qed.
