(* Reflection lemmas for the executable plan checker used as the property oracle. *)
From RV Require Import Prelude.
From Planner Require Import Graph Graph_proofs PlannerModel Planner_dfs Planner_sort Planner_main Planner_errors.
Open Scope N_scope.

Lemma nodupb_iff l : nodupb l = true <-> NoDup l.
Proof.
  induction l as [|x r IH]; cbn [nodupb].
  - split; [constructor|reflexivity].
  - rewrite andb_true_iff, negb_true_iff, IH, mem_false. split.
    + intros [H1 H2]. constructor; assumption.
    + intros H. inversion H; auto.
Qed.

Lemma no_source_iff g v : no_source g v = true <-> get_source g v = None.
Proof. unfold no_source. destruct (get_source g v); split; congruence. Qed.

(* [res] represents r0 plus the outputs of the entries in [pre] *)
Definition represents (g : graph) (r0 pre res : list id) : Prop :=
  forall v, In v res <-> (In v r0 \/ exists e, In e pre /\ produced_by g e v).

Lemma dep_okb_iff g am r0 pre res d :
  represents g r0 pre res -> (dep_okb g am res d = true <-> dep_ok g am r0 pre d).
Proof.
  intros Hrep. unfold dep_okb, dep_ok.
  rewrite orb_true_iff, resolved_contains_iff, andb_true_iff, no_source_iff, (Hrep d). tauto.
Qed.

Lemma represents_step g r0 pre res o n :
  get_op g o = Some n -> represents g r0 pre res -> represents g r0 (pre ++ [o]) (op_outs n ++ res).
Proof.
  intros Ho Hrep v. rewrite in_app_iff, (Hrep v). split.
  - intros [H|[H|[e [He Hp]]]].
    + right. exists o. split; [apply in_or_app; right; left; reflexivity|exists n; split; assumption].
    + left. exact H.
    + right. exists e. split; [apply in_or_app; left; exact He|exact Hp].
  - intros [H|[e [He Hp]]]; [right; left; exact H|].
    apply in_app_or in He. destruct He as [He|[<-|[]]].
    + right; right. exists e. split; assumption.
    + left. destruct Hp as [n' [Hn' Hv]]. rewrite Ho in Hn'. injection Hn' as <-. exact Hv.
Qed.

Lemma valid_fromb_iff g am r0 : forall post pre res,
  represents g r0 pre res ->
  (valid_fromb g am res post = true <->
   plan_ops_exist g post /\
   forall p1 o p2 n, post = p1 ++ o :: p2 -> get_op g o = Some n ->
     forall d, In d (deps g n) -> dep_ok g am r0 (pre ++ p1) d).
Proof.
  induction post as [|x post IH]; intros pre res Hrep; cbn [valid_fromb].
  - split; [|reflexivity]. intros _. split; [intros o []|].
    intros p1 o p2 n E. destruct p1; discriminate.
  - destruct (get_op g x) as [nx|] eqn:Ex.
    + rewrite andb_true_iff, (IH (pre ++ [x]) (op_outs nx ++ res) (represents_step g r0 pre res x nx Ex Hrep)).
      rewrite forallb_forall. split.
      * intros [Hd [Hex Hv]]. split.
        -- intros o [<-|Ho]; [exists nx; exact Ex|apply Hex; exact Ho].
        -- intros p1 o p2 n E Ho d Hin. destruct p1 as [|y p1]; cbn [app] in E.
           ++ injection E as <- <-. rewrite Ex in Ho. injection Ho as <-. rewrite app_nil_r.
              apply (dep_okb_iff g am r0 pre res d Hrep). apply Hd. exact Hin.
           ++ injection E as <- E. specialize (Hv p1 o p2 n E Ho d Hin).
              rewrite <- app_assoc in Hv. exact Hv.
      * intros [Hex Hv]. split; [|split].
        -- intros d Hin. apply (dep_okb_iff g am r0 pre res d Hrep).
           specialize (Hv [] x post nx eq_refl Ex d Hin). rewrite app_nil_r in Hv. exact Hv.
        -- intros o Ho. apply Hex. right. exact Ho.
        -- intros p1 o p2 n E Ho d Hin. rewrite <- app_assoc. cbn [app].
           apply (Hv (x :: p1) o p2 n); [rewrite E; reflexivity|exact Ho|exact Hin].
    + split; [discriminate|]. intros [Hex _]. destruct (Hex x (or_introl eq_refl)) as [n Hn]. congruence.
Qed.

Lemma represents_init g r0 : represents g r0 [] r0.
Proof. intros v. split; [intros H; left; exact H|]. intros [H|[e [[] _]]]. exact H. Qed.

Lemma valid_fromb_plan_valid g am r0 plan :
  valid_fromb g am r0 plan = true <-> plan_ops_exist g plan /\ plan_valid g am r0 plan.
Proof.
  rewrite (valid_fromb_iff g am r0 plan [] r0 (represents_init g r0)). unfold plan_valid. cbn [app]. tauto.
Qed.

Lemma represents_plan_outs g r0 plan : represents g r0 plan (plan_outs g plan ++ r0).
Proof.
  intros v. unfold plan_outs. rewrite in_app_iff, in_flat_map. split.
  - intros [[e [He Hv]]|H]; [right; exists e; split; [exact He|apply outs_of_produced; exact Hv]|left; exact H].
  - intros [H|[e [He Hp]]]; [right; exact H|left; exists e; split; [exact He|apply outs_of_produced; exact Hp]].
Qed.

Lemma completeb_iff g am r0 outs plan :
  completeb g am r0 outs plan = true <-> plan_complete g am r0 outs plan.
Proof.
  unfold completeb, plan_complete. rewrite forallb_forall.
  split; intros H v Hv; apply (dep_okb_iff g am r0 plan _ v (represents_plan_outs g r0 plan)); apply H; exact Hv.
Qed.

(* ---- minimality oracle: the rounds compute exactly the needed operators ---- *)
Lemma sourced_iff g v o : sourced g v o = true <-> exists n, get_source g v = Some (o, n).
Proof.
  unfold sourced. destruct (get_source g v) as [[o' n]|].
  - rewrite N.eqb_eq. split; [intros ->; exists n; reflexivity|intros [n' H]; congruence].
  - split; [discriminate|intros [n' H]; discriminate].
Qed.

Lemma wants_iff g r0 o vs :
  wants g r0 o vs = true <->
  exists v n, In v vs /\ resolved_contains g r0 v = false /\ get_source g v = Some (o, n).
Proof.
  unfold wants. rewrite existsb_exists. split.
  - intros [v [Hv H]]. apply andb_true_iff in H. destruct H as [H1 H2].
    apply negb_true_iff in H1. apply sourced_iff in H2. destruct H2 as [n Hn]. exists v, n. auto.
  - intros [v [n [Hv [H1 H2]]]]. exists v. split; [exact Hv|].
    rewrite H1. cbn [negb andb]. apply sourced_iff. exists n. exact H2.
Qed.

Section Needed.
  Variable g : graph.
  Variables r0 outs : list id.

  Lemma wanted_byb_iff acc o :
    wanted_byb g r0 outs acc o = true <->
    (exists v n, In v outs /\ resolved_contains g r0 v = false /\ get_source g v = Some (o, n)) \/
    (exists p pn d n, In p acc /\ get_op g p = Some pn /\ In d (deps g pn) /\
                      resolved_contains g r0 d = false /\ get_source g d = Some (o, n)).
  Proof.
    unfold wanted_byb. rewrite orb_true_iff, wants_iff, existsb_exists. split.
    - intros [H|[p [Hp H]]]; [left; exact H|right].
      destruct (get_op g p) as [pn|] eqn:Epn; [|discriminate].
      apply wants_iff in H. destruct H as [d [n [Hd [H1 H2]]]]. exists p, pn, d, n. auto.
    - intros [H|[p [pn [d [n [Hp [Hpn [Hd [H1 H2]]]]]]]]]; [left; exact H|right].
      exists p. split; [exact Hp|]. rewrite Hpn. apply wants_iff. exists d, n. auto.
  Qed.

  Lemma wanted_needed acc o :
    (forall p, In p acc -> needed g r0 outs p) -> wanted_byb g r0 outs acc o = true -> needed g r0 outs o.
  Proof.
    intros Hacc H. apply wanted_byb_iff in H.
    destruct H as [[v [n [Hv [H1 H2]]]]|[p [pn [d [n [Hp [Hpn [Hd [H1 H2]]]]]]]]].
    - eapply needed_out; eassumption.
    - eapply needed_dep; [apply Hacc; exact Hp|exact Hpn|exact Hd|exact H1|exact H2].
  Qed.

  Lemma wanted_is_op acc o : wanted_byb g r0 outs acc o = true -> In o (op_ids g).
  Proof.
    intros H. apply wanted_byb_iff in H.
    destruct H as [[v [n [_ [_ H2]]]]|[p [pn [d [n [_ [_ [_ [_ H2]]]]]]]]];
      eapply get_op_in_op_ids; eapply get_source_op; exact H2.
  Qed.

  Let round := needed_round g r0 outs.
  Let sel (acc : list id) := filter (fun o => negb (mem o acc) && wanted_byb g r0 outs acc o) (nodup N.eq_dec (op_ids g)).

  Lemma round_sound acc :
    (forall p, In p acc -> needed g r0 outs p) -> forall o, In o (round acc) -> needed g r0 outs o.
  Proof.
    intros Hacc o Ho. unfold round, needed_round in Ho. apply in_app_or in Ho. destruct Ho as [Ho|Ho]; [apply Hacc; exact Ho|].
    apply filter_In in Ho. destruct Ho as [_ Ho]. apply andb_true_iff in Ho. destruct Ho as [_ Ho].
    eapply wanted_needed; eassumption.
  Qed.

  Lemma iter_round_sound : forall k acc,
    (forall p, In p acc -> needed g r0 outs p) -> forall o, In o (iter k round acc) -> needed g r0 outs o.
  Proof.
    induction k as [|k IH]; intros acc Hacc o Ho; cbn [iter] in Ho; [apply Hacc; exact Ho|].
    eapply IH; [|exact Ho]. apply round_sound. exact Hacc.
  Qed.

  Definition closed (acc : list id) : Prop := forall o, wanted_byb g r0 outs acc o = true -> In o acc.

  Lemma closed_needed acc : closed acc -> forall o, needed g r0 outs o -> In o acc.
  Proof.
    intros Hc o Hn. induction Hn as [v o n Hv H1 H2|p pn d o n Hp IH Hpn Hd H1 H2].
    - apply Hc. apply wanted_byb_iff. left. exists v, n. auto.
    - apply Hc. apply wanted_byb_iff. right. exists p, pn, d, n. auto.
  Qed.

  Lemma sel_nil_closed acc : sel acc = [] -> closed acc.
  Proof.
    intros Hs o Hw. destruct (mem o acc) eqn:Em; [apply mem_In; exact Em|exfalso].
    assert (Hin : In o (sel acc)).
    { unfold sel. apply filter_In. split; [apply nodup_In; eapply wanted_is_op; exact Hw|].
      rewrite Em, Hw. reflexivity. }
    rewrite Hs in Hin. destruct Hin.
  Qed.

  Lemma closed_sel_nil acc : closed acc -> sel acc = [].
  Proof.
    intros Hc. unfold sel. destruct (filter _ _) as [|x l] eqn:E; [reflexivity|exfalso].
    assert (Hx : In x (x :: l)) by (left; reflexivity). rewrite <- E in Hx.
    apply filter_In in Hx. destruct Hx as [_ Hx]. apply andb_true_iff in Hx. destruct Hx as [H1 H2].
    apply negb_true_iff in H1. apply mem_false in H1. apply H1. apply Hc. exact H2.
  Qed.

  Lemma round_closed_id acc : closed acc -> round acc = acc.
  Proof.
    intros Hc. unfold round, needed_round. fold (sel acc). rewrite (closed_sel_nil acc Hc). apply app_nil_r.
  Qed.

  Lemma iter_closed_id : forall k acc, closed acc -> iter k round acc = acc.
  Proof.
    induction k as [|k IH]; intros acc Hc; cbn [iter]; [reflexivity|].
    rewrite (round_closed_id acc Hc). apply IH. exact Hc.
  Qed.

  Lemma NoDup_app_disj (a b : list id) :
    NoDup a -> NoDup b -> (forall x, In x a -> ~ In x b) -> NoDup (a ++ b).
  Proof.
    induction a as [|x a IH]; intros Ha Hb Hd; cbn [app]; [exact Hb|].
    inversion Ha as [|? ? Hx Ha']; subst. constructor.
    - intros Hin. apply in_app_or in Hin. destruct Hin as [Hin|Hin]; [contradiction|].
      exact (Hd x (or_introl eq_refl) Hin).
    - apply IH; [exact Ha'|exact Hb|]. intros y Hy. apply Hd. right. exact Hy.
  Qed.

  Lemma round_inv acc :
    NoDup acc -> incl acc (op_ids g) -> NoDup (round acc) /\ incl (round acc) (op_ids g).
  Proof.
    intros Hnd Hi. unfold round, needed_round. fold (sel acc). split.
    - apply NoDup_app_disj; [exact Hnd|unfold sel; apply NoDup_filter; apply NoDup_nodup|].
      intros x Hx Hs. unfold sel in Hs. apply filter_In in Hs. destruct Hs as [_ Hs].
      apply andb_true_iff in Hs. destruct Hs as [Hs _]. apply negb_true_iff in Hs. apply mem_false in Hs. contradiction.
    - intros x Hx. apply in_app_or in Hx. destruct Hx as [Hx|Hx]; [apply Hi; exact Hx|].
      unfold sel in Hx. apply filter_In in Hx. destruct Hx as [Hx _]. apply nodup_In in Hx. exact Hx.
  Qed.

  Lemma iter_count : forall k acc,
    NoDup acc -> incl acc (op_ids g) ->
    NoDup (iter k round acc) /\ incl (iter k round acc) (op_ids g) /\
    (closed (iter k round acc) \/ (length (iter k round acc) >= length acc + k)%nat).
  Proof.
    induction k as [|k IH]; intros acc Hnd Hi; cbn [iter].
    - split; [exact Hnd|]. split; [exact Hi|]. right. lia.
    - destruct (round_inv acc Hnd Hi) as [Hnd' Hi'].
      destruct (sel acc) as [|x l] eqn:Es.
      + pose proof (sel_nil_closed acc Es) as Hc.
        rewrite (round_closed_id acc Hc), (iter_closed_id k acc Hc).
        split; [exact Hnd|]. split; [exact Hi|]. left. exact Hc.
      + destruct (IH (round acc) Hnd' Hi') as [H1 [H2 H3]]. split; [exact H1|]. split; [exact H2|].
        destruct H3 as [H3|H3]; [left; exact H3|right].
        assert (Hl : (length (round acc) >= length acc + 1)%nat).
        { unfold round, needed_round. fold (sel acc). rewrite Es, app_length. cbn [length]. lia. }
        lia.
  Qed.

  Lemma iter_fix_eq : forall k acc, iter_fix k round acc = iter k round acc.
  Proof.
    induction k as [|k IH]; intros acc; cbn [iter_fix iter]; [reflexivity|].
    destruct (length (round acc) =? length acc)%nat eqn:E; [|apply IH].
    apply Nat.eqb_eq in E. unfold round, needed_round in E. fold (sel acc) in E. rewrite app_length in E.
    assert (Hs : sel acc = []) by (destruct (sel acc); [reflexivity|cbn [length] in E; lia]).
    pose proof (sel_nil_closed acc Hs) as Hc.
    rewrite (round_closed_id acc Hc). symmetry. apply iter_closed_id. exact Hc.
  Qed.

  Lemma needed_set_closed : closed (needed_set g r0 outs).
  Proof.
    unfold needed_set. fold round. rewrite iter_fix_eq.
    destruct (iter_count (S (num_ops g)) [] (NoDup_nil _) (fun x (H : In x []) => match H with end)) as [Hnd [Hi [Hc|Hl]]]; [exact Hc|exfalso].
    pose proof (NoDup_incl_length Hnd Hi) as Hle. unfold num_ops in *. cbn [length] in Hl. lia.
  Qed.

  Lemma needed_set_iff o : In o (needed_set g r0 outs) <-> needed g r0 outs o.
  Proof.
    split.
    - unfold needed_set. fold round. rewrite iter_fix_eq. apply iter_round_sound. intros p [].
    - apply closed_needed. apply needed_set_closed.
  Qed.
End Needed.

Lemma minimalb_iff g r0 outs plan :
  minimalb g r0 outs plan = true <-> plan_minimal g r0 outs plan.
Proof.
  unfold minimalb, plan_minimal. rewrite forallb_forall.
  split; intros H o Ho; [apply needed_set_iff; apply mem_In; apply H; exact Ho|].
  apply mem_In. apply needed_set_iff. apply H. exact Ho.
Qed.

Lemma minimalb_sound g r0 outs plan :
  minimalb g r0 outs plan = true -> plan_minimal g r0 outs plan.
Proof. apply minimalb_iff. Qed.

(* the whole plan oracle is exact *)
Theorem plan_okb_iff g am r0 outs plan :
  plan_okb g am r0 outs plan = true <-> plan_good g am r0 outs plan.
Proof.
  unfold plan_okb, plan_good. rewrite !andb_true_iff, nodupb_iff, valid_fromb_plan_valid, completeb_iff, minimalb_iff. tauto.
Qed.
Theorem plan_okb_sound g am r0 outs plan :
  plan_okb g am r0 outs plan = true -> plan_good g am r0 outs plan.
Proof.
  unfold plan_okb. rewrite !andb_true_iff. intros [[[H1 H2] H3] H4].
  apply nodupb_iff in H1. apply valid_fromb_plan_valid in H2. apply completeb_iff in H3.
  apply minimalb_sound in H4. destruct H2 as [H2 H2']. repeat split; assumption.
Qed.

(* the duplicate-free / valid / complete part of the oracle is exact *)
Theorem plan_okb_core_exact g am r0 outs plan :
  nodupb plan && valid_fromb g am r0 plan && completeb g am r0 outs plan = true <->
  NoDup plan /\ plan_ops_exist g plan /\ plan_valid g am r0 plan /\ plan_complete g am r0 outs plan.
Proof.
  rewrite !andb_true_iff, nodupb_iff, valid_fromb_plan_valid, completeb_iff. tauto.
Qed.

(* ---- plannability oracle: exact ---- *)
Section Comp.
  Variable g : graph.
  Variable am : bool.
  Variable r0 : list id.
  Hypothesis Hwf : wf_graph g.

  Let round := comp_round g am r0.
  Let sel (fired : list id) :=
    filter (fun o => negb (mem o fired) && can_fire g am r0 fired o) (nodup N.eq_dec (op_ids g)).

  Lemma dep_okb_computable res d :
    (forall v, In v res -> computable g am r0 v) -> dep_okb g am res d = true -> computable g am r0 d.
  Proof.
    intros Hres Hok. unfold dep_okb in Hok. apply orb_true_iff in Hok. destruct Hok as [Hok|Hok].
    - apply resolved_contains_iff in Hok. destruct Hok as [Hok|Hok]; [apply Hres; exact Hok|].
      apply comp_avail. apply resolved_contains_iff. right. exact Hok.
    - apply andb_true_iff in Hok. destruct Hok as [-> Hok]. apply comp_missing; [reflexivity|].
      apply no_source_iff. exact Hok.
  Qed.

  Definition fired_ok (fired : list id) : Prop := forall v, In v (res_of g r0 fired) -> computable g am r0 v.

  Lemma fired_outs_In o v : In v (fired_outs g o) <-> exists n, get_source g v = Some (o, n) /\ In v (op_outs n).
  Proof.
    unfold fired_outs. destruct (get_op g o) as [n|] eqn:En.
    - rewrite filter_In, sourced_iff. split.
      + intros [Hv [n' Hs]]. exists n'. split; [exact Hs|].
        pose proof (get_source_op g v o n' Hs) as Hn'. rewrite En in Hn'. injection Hn' as <-. exact Hv.
      + intros [n' [Hs Hv]]. pose proof (get_source_op g v o n' Hs) as Hn'. rewrite En in Hn'. injection Hn' as <-.
        split; [exact Hv|exists n; exact Hs].
    - split; [intros []|]. intros [n' [Hs _]]. pose proof (get_source_op g v o n' Hs). congruence.
  Qed.

  Lemma round_fired_ok fired : fired_ok fired -> fired_ok (round fired).
  Proof.
    intros Hok v Hv. unfold res_of in Hv. apply in_app_or in Hv. destruct Hv as [Hv|Hv].
    - apply in_flat_map in Hv. destruct Hv as [o [Ho Hvo]].
      unfold round, comp_round in Ho. apply in_app_or in Ho. destruct Ho as [Ho|Ho].
      + apply Hok. unfold res_of. apply in_or_app. left. apply in_flat_map. exists o. split; assumption.
      + apply filter_In in Ho. destruct Ho as [_ Ho]. apply andb_true_iff in Ho. destruct Ho as [_ Ho].
        unfold can_fire in Ho. apply fired_outs_In in Hvo. destruct Hvo as [n [Hs Hvn]].
        rewrite (get_source_op g v o n Hs) in Ho.
        eapply comp_op; [exact Hs|]. intros d Hd. eapply dep_okb_computable; [exact Hok|].
        exact (proj1 (forallb_forall _ _) Ho d Hd).
    - apply comp_avail. apply resolved_contains_iff. left. exact Hv.
  Qed.

  Lemma iter_fired_ok : forall k fired, fired_ok fired -> fired_ok (iter k round fired).
  Proof.
    induction k as [|k IH]; intros fired Hok; cbn [iter]; [exact Hok|]. apply IH. apply round_fired_ok. exact Hok.
  Qed.

  Lemma fired_ok_nil : fired_ok [].
  Proof. intros v Hv. cbn in Hv. apply comp_avail. apply resolved_contains_iff. left. exact Hv. Qed.

  Definition cclosed (fired : list id) : Prop := forall o, can_fire g am r0 fired o = true -> In o fired.

  Lemma csel_nil_closed fired : sel fired = [] -> cclosed fired.
  Proof.
    intros Hs o Hc. destruct (mem o fired) eqn:Em; [apply mem_In; exact Em|exfalso].
    assert (Hin : In o (sel fired)).
    { unfold sel. apply filter_In. split.
      - apply nodup_In. unfold can_fire in Hc. destruct (get_op g o) as [n|] eqn:En; [|discriminate].
        eapply get_op_in_op_ids; exact En.
      - rewrite Em, Hc. reflexivity. }
    rewrite Hs in Hin. destruct Hin.
  Qed.

  Lemma cclosed_sel_nil fired : cclosed fired -> sel fired = [].
  Proof.
    intros Hc. unfold sel. destruct (filter _ _) as [|x l] eqn:E; [reflexivity|exfalso].
    assert (Hx : In x (x :: l)) by (left; reflexivity). rewrite <- E in Hx.
    apply filter_In in Hx. destruct Hx as [_ Hx]. apply andb_true_iff in Hx. destruct Hx as [H1 H2].
    apply negb_true_iff in H1. apply mem_false in H1. apply H1. apply Hc. exact H2.
  Qed.

  Lemma cround_closed_id fired : cclosed fired -> round fired = fired.
  Proof.
    intros Hc. unfold round, comp_round. fold (sel fired). rewrite (cclosed_sel_nil fired Hc). apply app_nil_r.
  Qed.

  Lemma citer_closed_id : forall k fired, cclosed fired -> iter k round fired = fired.
  Proof.
    induction k as [|k IH]; intros fired Hc; cbn [iter]; [reflexivity|].
    rewrite (cround_closed_id fired Hc). apply IH. exact Hc.
  Qed.

  Lemma cround_inv fired :
    NoDup fired -> incl fired (op_ids g) -> NoDup (round fired) /\ incl (round fired) (op_ids g).
  Proof.
    intros Hnd Hi. unfold round, comp_round. fold (sel fired). split.
    - apply NoDup_app_disj; [exact Hnd|unfold sel; apply NoDup_filter; apply NoDup_nodup|].
      intros x Hx Hs. unfold sel in Hs. apply filter_In in Hs. destruct Hs as [_ Hs].
      apply andb_true_iff in Hs. destruct Hs as [Hs _]. apply negb_true_iff in Hs. apply mem_false in Hs. contradiction.
    - intros x Hx. apply in_app_or in Hx. destruct Hx as [Hx|Hx]; [apply Hi; exact Hx|].
      unfold sel in Hx. apply filter_In in Hx. destruct Hx as [Hx _]. apply nodup_In in Hx. exact Hx.
  Qed.

  Lemma citer_count : forall k fired,
    NoDup fired -> incl fired (op_ids g) ->
    NoDup (iter k round fired) /\ incl (iter k round fired) (op_ids g) /\
    (cclosed (iter k round fired) \/ (length (iter k round fired) >= length fired + k)%nat).
  Proof.
    induction k as [|k IH]; intros fired Hnd Hi; cbn [iter].
    - split; [exact Hnd|]. split; [exact Hi|]. right. lia.
    - destruct (cround_inv fired Hnd Hi) as [Hnd' Hi'].
      destruct (sel fired) as [|x l] eqn:Es.
      + pose proof (csel_nil_closed fired Es) as Hc.
        rewrite (cround_closed_id fired Hc), (citer_closed_id k fired Hc).
        split; [exact Hnd|]. split; [exact Hi|]. left. exact Hc.
      + destruct (IH (round fired) Hnd' Hi') as [H1 [H2 H3]]. split; [exact H1|]. split; [exact H2|].
        destruct H3 as [H3|H3]; [left; exact H3|right].
        assert (Hl : (length (round fired) >= length fired + 1)%nat).
        { unfold round, comp_round. fold (sel fired). rewrite Es, app_length. cbn [length]. lia. }
        lia.
  Qed.

  Lemma citer_fix_eq : forall k fired, iter_fix k round fired = iter k round fired.
  Proof.
    induction k as [|k IH]; intros fired; cbn [iter_fix iter]; [reflexivity|].
    destruct (length (round fired) =? length fired)%nat eqn:E; [|apply IH].
    apply Nat.eqb_eq in E. unfold round, comp_round in E. fold (sel fired) in E. rewrite app_length in E.
    assert (Hs : sel fired = []) by (destruct (sel fired); [reflexivity|cbn [length] in E; lia]).
    pose proof (csel_nil_closed fired Hs) as Hc.
    rewrite (cround_closed_id fired Hc). symmetry. apply citer_closed_id. exact Hc.
  Qed.

  Let final := iter (S (num_ops g)) round [].

  Lemma final_closed : cclosed final.
  Proof.
    unfold final.
    destruct (citer_count (S (num_ops g)) [] (NoDup_nil _) (fun x (H : In x []) => match H with end)) as [Hnd [Hi [Hc|Hl]]]; [exact Hc|exfalso].
    pose proof (NoDup_incl_length Hnd Hi) as Hle. unfold num_ops in *. cbn [length] in Hl. lia.
  Qed.

  Lemma computable_in_set v : computable g am r0 v -> dep_okb g am (computable_set g am r0) v = true.
  Proof.
    unfold computable_set. fold round. rewrite citer_fix_eq. fold final.
    induction 1 as [v Hv|v Ham Hs|v o n Hs Hd IH]; unfold dep_okb.
    - apply resolved_contains_iff in Hv. apply orb_true_iff. left. apply resolved_contains_iff.
      destruct Hv as [Hv|Hv]; [left; unfold res_of; apply in_or_app; right; exact Hv|right; exact Hv].
    - apply orb_true_iff. right. rewrite Ham. apply no_source_iff in Hs. rewrite Hs. reflexivity.
    - apply orb_true_iff. left. apply resolved_contains_iff. left.
      assert (Hf : In o final).
      { apply final_closed. unfold can_fire. rewrite (get_source_op g v o n Hs).
        apply forallb_forall. exact IH. }
      unfold res_of. apply in_or_app. left. apply in_flat_map. exists o. split; [exact Hf|].
      apply fired_outs_In. exists n. split; [exact Hs|eapply Hwf; exact Hs].
  Qed.

  Lemma in_set_computable v : dep_okb g am (computable_set g am r0) v = true -> computable g am r0 v.
  Proof.
    apply dep_okb_computable. unfold computable_set. fold round. rewrite citer_fix_eq. apply iter_fired_ok. apply fired_ok_nil.
  Qed.
End Comp.

Theorem request_plannableb_iff g ins outs am ca :
  wf_graph g -> (request_plannableb g ins outs am ca = true <-> request_plannable g ins outs am ca).
Proof.
  intros Hwf. unfold request_plannableb, request_plannable.
  rewrite !andb_true_iff, !nodupb_iff. split.
  - intros [[[[H1 H2] H3] H4] H5]. repeat split; try assumption.
    intros v Hv. apply in_set_computable. exact (proj1 (forallb_forall _ _) H5 v Hv).
  - intros [H1 [H2 [H3 [H4 H5]]]]. repeat split; try assumption.
    apply forallb_forall. intros v Hv. apply computable_in_set; [exact Hwf|]. apply H5. exact Hv.
Qed.

Theorem request_plannableb_sound g ins outs am ca :
  request_plannableb g ins outs am ca = true -> request_plannable g ins outs am ca.
Proof.
  unfold request_plannableb, request_plannable.
  rewrite !andb_true_iff, !nodupb_iff.
  intros [[[[H1 H2] H3] H4] H5]. repeat split; try assumption.
  intros v Hv. apply in_set_computable. exact (proj1 (forallb_forall _ _) H5 v Hv).
Qed.
