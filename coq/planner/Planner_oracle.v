(* Reflection lemmas for the executable plan checker used as the property oracle. *)
From RV Require Import Prelude.
From Planner Require Import Graph Graph_proofs PlannerModel Planner_dfs Planner_sort Planner_main Planner_errors.
Open Scope N_scope.

Lemma nodupb_iff l : nodupb l = true <-> NoDup l.
Proof.
  induction l as [|x r IH]; cbn [nodupb].
  - split; [constructor|reflexivity].
  - rewrite andb_true_iff, negb_true_iff, IH, mem_false. split.
    + intros [H1 H2]. constructor; assumption.
    + intros H. inversion H; auto.
Qed.

Lemma no_source_iff g v : no_source g v = true <-> get_source g v = None.
Proof. unfold no_source. destruct (get_source g v); split; congruence. Qed.

(* [res] represents r0 plus the outputs of the entries in [pre] *)
Definition represents (g : graph) (r0 pre res : list id) : Prop :=
  forall v, In v res <-> (In v r0 \/ exists e, In e pre /\ produced_by g e v).

Lemma dep_okb_iff g am r0 pre res d :
  represents g r0 pre res -> (dep_okb g am res d = true <-> dep_ok g am r0 pre d).
Proof.
  intros Hrep. unfold dep_okb, dep_ok.
  rewrite orb_true_iff, resolved_contains_iff, andb_true_iff, no_source_iff, (Hrep d). tauto.
Qed.

Lemma represents_step g r0 pre res o n :
  get_op g o = Some n -> represents g r0 pre res -> represents g r0 (pre ++ [o]) (op_outs n ++ res).
Proof.
  intros Ho Hrep v. rewrite in_app_iff, (Hrep v). split.
  - intros [H|[H|[e [He Hp]]]].
    + right. exists o. split; [apply in_or_app; right; left; reflexivity|exists n; split; assumption].
    + left. exact H.
    + right. exists e. split; [apply in_or_app; left; exact He|exact Hp].
  - intros [H|[e [He Hp]]]; [right; left; exact H|].
    apply in_app_or in He. destruct He as [He|[<-|[]]].
    + right; right. exists e. split; assumption.
    + left. destruct Hp as [n' [Hn' Hv]]. rewrite Ho in Hn'. injection Hn' as <-. exact Hv.
Qed.

Lemma valid_fromb_iff g am r0 : forall post pre res,
  represents g r0 pre res ->
  (valid_fromb g am res post = true <->
   plan_ops_exist g post /\
   forall p1 o p2 n, post = p1 ++ o :: p2 -> get_op g o = Some n ->
     forall d, In d (deps g n) -> dep_ok g am r0 (pre ++ p1) d).
Proof.
  induction post as [|x post IH]; intros pre res Hrep; cbn [valid_fromb].
  - split; [|reflexivity]. intros _. split; [intros o []|].
    intros p1 o p2 n E. destruct p1; discriminate.
  - destruct (get_op g x) as [nx|] eqn:Ex.
    + rewrite andb_true_iff, (IH (pre ++ [x]) (op_outs nx ++ res) (represents_step g r0 pre res x nx Ex Hrep)).
      rewrite forallb_forall. split.
      * intros [Hd [Hex Hv]]. split.
        -- intros o [<-|Ho]; [exists nx; exact Ex|apply Hex; exact Ho].
        -- intros p1 o p2 n E Ho d Hin. destruct p1 as [|y p1]; cbn [app] in E.
           ++ injection E as <- <-. rewrite Ex in Ho. injection Ho as <-. rewrite app_nil_r.
              apply (dep_okb_iff g am r0 pre res d Hrep). apply Hd. exact Hin.
           ++ injection E as <- E. specialize (Hv p1 o p2 n E Ho d Hin).
              rewrite <- app_assoc in Hv. exact Hv.
      * intros [Hex Hv]. split; [|split].
        -- intros d Hin. apply (dep_okb_iff g am r0 pre res d Hrep).
           specialize (Hv [] x post nx eq_refl Ex d Hin). rewrite app_nil_r in Hv. exact Hv.
        -- intros o Ho. apply Hex. right. exact Ho.
        -- intros p1 o p2 n E Ho d Hin. rewrite <- app_assoc. cbn [app].
           apply (Hv (x :: p1) o p2 n); [rewrite E; reflexivity|exact Ho|exact Hin].
    + split; [discriminate|]. intros [Hex _]. destruct (Hex x (or_introl eq_refl)) as [n Hn]. congruence.
Qed.

Lemma represents_init g r0 : represents g r0 [] r0.
Proof. intros v. split; [intros H; left; exact H|]. intros [H|[e [[] _]]]. exact H. Qed.

Lemma valid_fromb_plan_valid g am r0 plan :
  valid_fromb g am r0 plan = true <-> plan_ops_exist g plan /\ plan_valid g am r0 plan.
Proof.
  rewrite (valid_fromb_iff g am r0 plan [] r0 (represents_init g r0)). unfold plan_valid. cbn [app]. tauto.
Qed.

Lemma represents_plan_outs g r0 plan : represents g r0 plan (plan_outs g plan ++ r0).
Proof.
  intros v. unfold plan_outs. rewrite in_app_iff, in_flat_map. split.
  - intros [[e [He Hv]]|H]; [right; exists e; split; [exact He|apply outs_of_produced; exact Hv]|left; exact H].
  - intros [H|[e [He Hp]]]; [right; exact H|left; exists e; split; [exact He|apply outs_of_produced; exact Hp]].
Qed.

Lemma completeb_iff g am r0 outs plan :
  completeb g am r0 outs plan = true <-> plan_complete g am r0 outs plan.
Proof.
  unfold completeb, plan_complete. rewrite forallb_forall.
  split; intros H v Hv; apply (dep_okb_iff g am r0 plan _ v (represents_plan_outs g r0 plan)); apply H; exact Hv.
Qed.

(* ---- minimality oracle: everything it collects is needed ---- *)
Definition wanted (g : graph) (r0 outs : list id) (v : id) : Prop :=
  In v outs \/ exists p pn, needed g r0 outs p /\ get_op g p = Some pn /\ In v (deps g pn).

Lemma needed_iter_sound g r0 outs : forall fuel work acc,
  (forall v, In v work -> wanted g r0 outs v) -> (forall o, In o acc -> needed g r0 outs o) ->
  forall o, In o (needed_iter g r0 fuel work acc) -> needed g r0 outs o.
Proof.
  induction fuel as [|f IH]; intros work acc Hw Ha o Ho; cbn [needed_iter] in Ho; [apply Ha; exact Ho|].
  destruct work as [|v w]; [apply Ha; exact Ho|].
  assert (Hw' : forall x, In x w -> wanted g r0 outs x) by (intros x Hx; apply Hw; right; exact Hx).
  destruct (resolved_contains g r0 v) eqn:Er; [eapply IH; eassumption|].
  destruct (get_source g v) as [[so sn]|] eqn:Es; [|eapply IH; eassumption].
  destruct (mem so acc) eqn:Em; [eapply IH; eassumption|].
  assert (Hn : needed g r0 outs so).
  { destruct (Hw v (or_introl eq_refl)) as [Hv|[p [pn [Hp [Hpn Hv]]]]].
    - eapply needed_out; eassumption.
    - eapply needed_dep; eassumption. }
  eapply IH; [| |exact Ho].
  - intros x Hx. apply in_app_or in Hx. destruct Hx as [Hx|Hx]; [|apply Hw'; exact Hx].
    right. exists so, sn. split; [exact Hn|]. split; [eapply get_source_op; exact Es|exact Hx].
  - intros x [<-|Hx]; [exact Hn|apply Ha; exact Hx].
Qed.

Lemma minimalb_sound g r0 outs plan :
  minimalb g r0 outs plan = true -> plan_minimal g r0 outs plan.
Proof.
  unfold minimalb, plan_minimal, needed_set. rewrite forallb_forall. intros H o Ho.
  specialize (H o Ho). apply mem_In in H.
  eapply needed_iter_sound; [| |exact H].
  - intros v Hv. left. exact Hv.
  - intros x [].
Qed.

Theorem plan_okb_sound g am r0 outs plan :
  plan_okb g am r0 outs plan = true -> plan_good g am r0 outs plan.
Proof.
  unfold plan_okb. rewrite !andb_true_iff. intros [[[H1 H2] H3] H4].
  apply nodupb_iff in H1. apply valid_fromb_plan_valid in H2. apply completeb_iff in H3.
  apply minimalb_sound in H4. destruct H2 as [H2 H2']. repeat split; assumption.
Qed.

(* the duplicate-free / valid / complete part of the oracle is exact *)
Theorem plan_okb_core_exact g am r0 outs plan :
  nodupb plan && valid_fromb g am r0 plan && completeb g am r0 outs plan = true <->
  NoDup plan /\ plan_ops_exist g plan /\ plan_valid g am r0 plan /\ plan_complete g am r0 outs plan.
Proof.
  rewrite !andb_true_iff, nodupb_iff, valid_fromb_plan_valid, completeb_iff. tauto.
Qed.

(* ---- plannability oracle: whatever it accepts is plannable ---- *)
Lemma comp_step_sound g am r0 res :
  (forall v, In v res -> computable g am r0 v) ->
  forall v, In v (comp_step g am res) -> computable g am r0 v.
Proof.
  intros Hres v Hv. unfold comp_step in Hv. apply in_app_or in Hv. destruct Hv as [Hv|Hv]; [|apply Hres; exact Hv].
  apply in_flat_map in Hv. destruct Hv as [o [_ Hv]].
  destruct (get_op g o) as [n|] eqn:Eo; [|destruct Hv].
  destruct (forallb (dep_okb g am res) (deps g n)) eqn:Ed; [|destruct Hv].
  apply filter_In in Hv. destruct Hv as [Hvo Hs].
  destruct (get_source g v) as [[o' n']|] eqn:Es; [|discriminate].
  apply N.eqb_eq in Hs. subst o'.
  pose proof (get_source_op g v o n' Es) as Hn'. rewrite Eo in Hn'. injection Hn' as <-.
  eapply comp_op; [exact Es|]. intros d Hd.
  pose proof (proj1 (forallb_forall _ _) Ed d Hd) as Hok. unfold dep_okb in Hok.
  apply orb_true_iff in Hok. destruct Hok as [Hok|Hok].
  - apply resolved_contains_iff in Hok. destruct Hok as [Hok|Hok].
    + apply Hres. exact Hok.
    + apply comp_avail. apply resolved_contains_iff. right. exact Hok.
  - apply andb_true_iff in Hok. destruct Hok as [-> Hok]. apply comp_missing; [reflexivity|].
    apply no_source_iff. exact Hok.
Qed.

Lemma iter_comp_sound g am r0 : forall k res,
  (forall v, In v res -> computable g am r0 v) ->
  forall v, In v (iter k (comp_step g am) res) -> computable g am r0 v.
Proof.
  induction k as [|k IH]; intros res Hres v Hv; cbn [iter] in Hv; [apply Hres; exact Hv|].
  eapply IH; [|exact Hv]. apply comp_step_sound. exact Hres.
Qed.

Theorem request_plannableb_sound g ins outs am ca :
  request_plannableb g ins outs am ca = true -> request_plannable g ins outs am ca.
Proof.
  unfold request_plannableb. rewrite !andb_true_iff. intros [[[[H1 H2] H3] H4] H5].
  split; [apply nodupb_iff; exact H1|]. split; [exact H2|]. split; [apply nodupb_iff; exact H3|].
  split; [exact H4|]. intros v Hv.
  pose proof (proj1 (forallb_forall _ _) H5 v Hv) as Hok. unfold dep_okb in Hok.
  apply orb_true_iff in Hok. destruct Hok as [Hok|Hok].
  - apply resolved_contains_iff in Hok. destruct Hok as [Hok|Hok].
    + eapply iter_comp_sound; [|exact Hok]. intros x Hx. apply comp_avail. apply resolved_contains_iff. left. exact Hx.
    + apply comp_avail. apply resolved_contains_iff. right. exact Hok.
  - apply andb_true_iff in Hok. destruct Hok as [-> Hok]. apply comp_missing; [reflexivity|].
    apply no_source_iff. exact Hok.
Qed.
