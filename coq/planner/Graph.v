(* Graph.v -- model of rten's `Graph` data structure (src/graph.rs, src/graph/node.rs) as far as
   the planner, the plan cache and the executor's bookkeeping look at it.

   PUBLIC, STABLE NAMES (used by the `exec` group; do not rename):

     id                      node ids (N)
     op_node / mkop          operator node: op_inputs, op_outputs : list (option id);
                             op_captures : list id (ids whose *names* the operator's subgraphs
                             capture; an id that does not exist in the graph is an unresolvable
                             name); op_in_place : bool (`in_place_inputs()` is non-empty)
     node                    Value | Constant | Op n
     graph                   g_nodes : list (id * node)  (`Graph::nodes`, association list)
                             g_source : list (id * id)   (`Graph::source_ids`: value -> operator)
                             g_captures : list id        (`Graph::captures()`)
     mk_graph nodes caps     the graph obtained by adding `nodes` in order with `add_value /
                             add_constant / add_op` (add_op makes the new operator the source
                             of each of its outputs, replacing an earlier source)
     get_node, get_op, node_exists, is_constant, is_value_or_const, is_op
     get_source g v          `Graph::get_source_node`: Some (op id, op node)
     somes, op_outs n        the present (Some) entries of an id list / of `op_outputs`
     deps g n                `Graph::operator_dependencies`: present inputs (with repeats) followed
                             by the captured ids that exist in the graph and are not also inputs
     mem x l                 boolean list membership on ids
     op_ids g, num_ops g     ids of the operator nodes
     wf_graph g              `g_source` is consistent: the source of v is an operator node
                             that lists v among its outputs (what add_op/remove_nodes maintain)
     unique_producers g      every operator that lists v as an output is v's source
                             (no value is produced by two operators; needed only for the
                             exact-error theorem)

   Definitions only; lemmas are in Graph_proofs.v. *)
From RV Require Import Prelude.
Open Scope N_scope.

Definition id := N.

Record op_node := mkop {
  op_inputs : list (option id);
  op_outputs : list (option id);
  op_captures : list id;
  op_in_place : bool
}.

Inductive node := Value | Constant | Op (n : op_node).

Record graph := {
  g_nodes : list (id * node);
  g_source : list (id * id);
  g_captures : list id
}.

Fixpoint assoc {A} (l : list (id * A)) (k : id) : option A :=
  match l with
  | [] => None
  | (k', a) :: r => if k' =? k then Some a else assoc r k
  end.

Definition mem (x : id) (l : list id) : bool := existsb (N.eqb x) l.

Fixpoint somes (l : list (option id)) : list id :=
  match l with
  | [] => []
  | Some x :: r => x :: somes r
  | None :: r => somes r
  end.

Definition get_node (g : graph) (i : id) : option node := assoc (g_nodes g) i.
Definition get_op (g : graph) (i : id) : option op_node :=
  match get_node g i with Some (Op n) => Some n | _ => None end.
Definition node_exists (g : graph) (i : id) : bool :=
  match get_node g i with Some _ => true | None => false end.
Definition is_constant (g : graph) (i : id) : bool :=
  match get_node g i with Some Constant => true | _ => false end.
Definition is_value_or_const (g : graph) (i : id) : bool :=
  match get_node g i with Some Value | Some Constant => true | _ => false end.
Definition is_op (nd : node) : bool := match nd with Op _ => true | _ => false end.

Definition op_outs (n : op_node) : list id := somes (op_outputs n).

(* Graph::operator_dependencies *)
Definition deps (g : graph) (n : op_node) : list id :=
  somes (op_inputs n) ++
  filter (fun c => node_exists g c && negb (mem c (somes (op_inputs n)))) (op_captures n).

(* Graph::get_source_node *)
Definition get_source (g : graph) (v : id) : option (id * op_node) :=
  match assoc (g_source g) v with
  | Some o => match get_op g o with Some n => Some (o, n) | None => None end
  | None => None
  end.

Definition op_ids (g : graph) : list id :=
  map fst (filter (fun p => is_op (snd p)) (g_nodes g)).
Definition num_ops (g : graph) : nat := length (op_ids g).

(* Graph::add_op's update of source_ids, replayed over the node list (later operators win) *)
Definition sources_of (nodes : list (id * node)) : list (id * id) :=
  fold_left (fun src p =>
               match snd p with
               | Op n => map (fun v => (v, fst p)) (op_outs n) ++ src
               | _ => src
               end) nodes [].

Definition mk_graph (nodes : list (id * node)) (caps : list id) : graph :=
  {| g_nodes := nodes; g_source := sources_of nodes; g_captures := caps |}.

Definition wf_graph (g : graph) : Prop :=
  forall v o n, get_source g v = Some (o, n) -> In v (op_outs n).

Definition unique_producers (g : graph) : Prop :=
  forall v o n, get_op g o = Some n -> In v (op_outs n) -> get_source g v = Some (o, n).
