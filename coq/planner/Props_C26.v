(* C26 -- Invalid run requests are reported as errors.
   Only statements; proofs are `exact <lemma>` or direct corollaries (Examples: vm_compute).
   Model: Validate.v (run = Graph::run = Model::run, partial_run = Graph::partial_run), on top of
   PlanCache.v and PlannerModel.v. [RPanic] is an explicit outcome of the model.
   graph_closed: operator inputs/outputs refer to value or constant nodes (what loaders build);
   cache_ok: the cache holds a plan that create_plan produced for its key -- true for the empty
   cache and preserved by every run (C26_run_preserves_cache), hence for every reachable state. *)
From RV Require Import Prelude.
From Planner Require Import Graph Graph_proofs PlannerModel Planner_main Planner_errors Planner_oracle
     PlanCache PlanCache_proofs Validate Validate_proofs.
Open Scope N_scope.

(* (1) Model::run never panics or hangs in its request path: the outcome is Ok, a planning error
       or an invalid-input error, whatever the request and the plan-cache state *)
Theorem C26_request_no_panic : forall g meta st ins outs,
  wf_graph g -> graph_closed g -> cache_ok g false st ->
  (exists plan x, fst (run g meta st ins outs) = ROk plan x) \/
  (exists e, fst (run g meta st ins outs) = RErrPlan e) \/
  fst (run g meta st ins outs) = RErrInvalidInput.
Proof. exact run_no_panic. Qed.

Theorem C26_run_preserves_cache : forall g meta st ins outs,
  wf_graph g -> graph_closed g -> cache_ok g false st -> cache_ok g false (snd (run g meta st ins outs)).
Proof. exact run_preserves_cache. Qed.

(* (2) a request that is not valid -- an input contradicting the metadata, a repeated id, an id
       that is not a value/constant node, or outputs for which NO valid plan from the supplied
       inputs exists (missing required inputs) -- is answered with an error *)
Theorem C26_invalid_request_errs : forall g meta st ins outs,
  wf_graph g -> graph_closed g -> cache_ok g false st ->
  ~ request_valid g meta ins outs ->
  (exists e, fst (run g meta st ins outs) = RErrPlan e) \/
  fst (run g meta st ins outs) = RErrInvalidInput.
Proof. exact run_invalid_errs. Qed.

(* the classes of the property statement, one by one *)
Theorem C26_unknown_or_operator_id_errs : forall g meta st ins outs v,
  wf_graph g -> graph_closed g -> cache_ok g false st ->
  In v (map i_id ins) \/ In v outs -> is_value_or_const g v = false ->
  (exists e, fst (run g meta st ins outs) = RErrPlan e) \/ fst (run g meta st ins outs) = RErrInvalidInput.
Proof.
  intros g meta st ins outs v Hwf Hcl Hok Hin Hbad. apply run_invalid_errs; try assumption.
  intros [_ [_ [_ [H4 [H5 _]]]]]. destruct Hin as [Hin|Hin].
  - rewrite (proj1 (forallb_forall _ _) H4 v Hin) in Hbad. discriminate.
  - rewrite (proj1 (forallb_forall _ _) H5 v Hin) in Hbad. discriminate.
Qed.

Theorem C26_duplicate_id_errs : forall g meta st ins outs,
  wf_graph g -> graph_closed g -> cache_ok g false st ->
  ~ NoDup (map i_id ins) \/ ~ NoDup outs ->
  (exists e, fst (run g meta st ins outs) = RErrPlan e) \/ fst (run g meta st ins outs) = RErrInvalidInput.
Proof.
  intros g meta st ins outs Hwf Hcl Hok Hdup. apply run_invalid_errs; try assumption.
  intros [_ [H2 [H3 _]]]. destruct Hdup; contradiction.
Qed.

Theorem C26_missing_input_errs : forall g meta st ins outs,
  wf_graph g -> graph_closed g -> cache_ok g false st ->
  (forall plan, ~ (plan_ops_exist g plan /\ plan_valid g false (map i_id ins) plan /\
                   plan_complete g false (map i_id ins) outs plan)) ->
  (exists e, fst (run g meta st ins outs) = RErrPlan e) \/ fst (run g meta st ins outs) = RErrInvalidInput.
Proof.
  intros g meta st ins outs Hwf Hcl Hok Hno. apply run_invalid_errs; try assumption.
  intros [_ [_ [_ [_ [_ [plan Hp]]]]]]. exact (Hno plan Hp).
Qed.

Theorem C26_metadata_mismatch_errs : forall g meta st ins outs i m,
  In i ins -> get_node g (i_id i) = Some Value -> assoc meta (i_id i) = Some m ->
  (exists sq dt, m_dtype m = Some (sq, dt) /\ (sq <> i_seq i \/ dt <> i_dtype i)) \/
  (i_seq i = false /\ exists dims, m_shape m = Some dims /\
     ~ Forall2 (fun e s => e = None \/ e = Some s) dims (i_shape i)) ->
  fst (run g meta st ins outs) = RErrInvalidInput /\ partial_run g meta ins outs = RErrInvalidInput.
Proof.
  intros g meta st ins outs i m Hin Hn Hm Hbad.
  pose proof (validate_rejects g meta ins i m Hin Hn Hm Hbad) as Hv.
  unfold run, partial_run. rewrite Hv. split; reflexivity.
Qed.

(* (3) Model::partial_run: Ok, the planning error of create_plan, or an invalid-input error *)
Theorem C26_partial_run_no_panic : forall g meta ins outs,
  wf_graph g -> graph_closed g ->
  (exists plan ids, partial_run g meta ins outs = ROk plan ids) \/
  (exists e, partial_run g meta ins outs = RErrPlan e /\
             create_plan g (map i_id ins) outs true false = Err e) \/
  (partial_run g meta ins outs = RErrInvalidInput /\ validate_inputs g meta ins = false).
Proof. exact partial_run_no_panic. Qed.

(* (4) the oracle applied to the implementation's Ok answers in the correspondence check *)
Theorem C26_oracle_sound : forall g meta ins outs executed,
  request_valid_b g meta ins outs executed = true -> request_valid g meta ins outs.
Proof. exact request_valid_b_sound. Qed.

(* non-vacuity: a closed graph with typed inputs; valid and invalid requests, cold and warm cache *)
Definition ex26_graph : graph := mk_graph
  [(0, Value); (1, Value); (2, Constant); (3, Value); (4, Value);
   (5, Op (mkop [Some 0; Some 2] [Some 3] [] false));
   (6, Op (mkop [Some 3; Some 1] [Some 4] [] true))] [].
Definition ex26_meta : list (id * vmeta) :=
  [(0, mkmeta (Some (false, 0)) (Some [Some 2; None])); (1, mkmeta (Some (false, 1)) None)].
Definition in0 := mkin 0 false 0 [2; 5] false.
Definition in1 := mkin 1 false 1 [] true.

Example C26_example_closed : wf_graph ex26_graph /\ graph_closed ex26_graph.
Proof.
  split; [apply mk_graph_wf; apply nodupb_iff; vm_compute; reflexivity|].
  apply graph_closedb_sound. vm_compute. reflexivity.
Qed.

Example C26_example_runs :
  model_seq ex26_graph ex26_meta None
    [mkrr false [in0; in1] [4] RPanic;                                   (* valid, cold cache *)
     mkrr false [in1; in0] [4] RPanic;                                   (* valid, warm cache *)
     mkrr false [in0; in0] [4] RPanic;                                   (* duplicate, same length as cached *)
     mkrr false [in0] [4] RPanic;                                        (* missing input *)
     mkrr false [in0; in1] [4; 9] RPanic;                                (* unknown output id *)
     mkrr false [in0; in1] [5] RPanic;                                   (* operator id as output *)
     mkrr false [mkin 0 false 1 [2; 5] false; in1] [4] RPanic;           (* dtype mismatch *)
     mkrr false [mkin 0 false 0 [3; 5] false; in1] [4] RPanic;           (* fixed dim mismatch *)
     mkrr false [mkin 0 false 0 [2] false; in1] [4] RPanic;              (* rank mismatch *)
     mkrr true [in0] [4] RPanic]                                         (* partial run *)
  = [ROk [5; 6] []; ROk [5; 6] []; RErrPlan (EDupInput 0); RErrPlan (EMissing 1 6);
     RErrPlan (EBadOutput 1); RErrPlan (EBadOutput 0); RErrInvalidInput; RErrInvalidInput;
     RErrInvalidInput; ROk [5] [3]].
Proof. vm_compute. reflexivity. Qed.
