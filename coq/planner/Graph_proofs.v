(* Basic lemmas about the graph model. *)
From RV Require Import Prelude.
From Planner Require Import Graph.
Open Scope N_scope.

Lemma mem_In x l : mem x l = true <-> In x l.
Proof.
  unfold mem. rewrite existsb_exists. split.
  - intros [y [Hy He]]. apply N.eqb_eq in He. subst. exact Hy.
  - intros H. exists x. split; [exact H|apply N.eqb_refl].
Qed.

Lemma mem_false x l : mem x l = false <-> ~ In x l.
Proof.
  split.
  - intros H Hin. apply mem_In in Hin. congruence.
  - intros H. destruct (mem x l) eqn:E; [|reflexivity]. apply mem_In in E. contradiction.
Qed.

Lemma mem_app x a b : mem x (a ++ b) = mem x a || mem x b.
Proof. unfold mem. apply existsb_app. Qed.

Lemma mem_cons x y l : mem x (y :: l) = (x =? y) || mem x l.
Proof. reflexivity. Qed.

Lemma assoc_In {A} (l : list (id * A)) k a : assoc l k = Some a -> In (k, a) l.
Proof.
  induction l as [|[k' a'] r IH]; cbn [assoc]; [discriminate|].
  destruct (k' =? k) eqn:E.
  - intros H. injection H as <-. apply N.eqb_eq in E. subst. left. reflexivity.
  - intros H. right. apply IH. exact H.
Qed.

Lemma In_assoc_nodup {A} (l : list (id * A)) k a :
  NoDup (map fst l) -> In (k, a) l -> assoc l k = Some a.
Proof.
  induction l as [|[k' a'] r IH]; cbn [assoc map fst]; [intros _ []|].
  intros Hnd [H|H].
  - injection H as -> ->. rewrite N.eqb_refl. reflexivity.
  - inversion Hnd as [|? ? Hni Hnd']; subst.
    destruct (k' =? k) eqn:E.
    + apply N.eqb_eq in E. subst. exfalso. apply Hni. apply in_map_iff. exists (k, a). split; [reflexivity|exact H].
    + apply IH; assumption.
Qed.

Lemma get_source_op g v o n : get_source g v = Some (o, n) -> get_op g o = Some n.
Proof.
  unfold get_source. destruct (assoc (g_source g) v) as [o'|]; [|discriminate].
  destruct (get_op g o') as [n'|] eqn:E; [|discriminate].
  intros H. injection H as <- <-. exact E.
Qed.

Lemma get_op_node g o n : get_op g o = Some n -> get_node g o = Some (Op n).
Proof.
  unfold get_op. destruct (get_node g o) as [[| |n']|]; try discriminate.
  intros H. injection H as <-. reflexivity.
Qed.

Lemma get_op_in_op_ids g o n : get_op g o = Some n -> In o (op_ids g).
Proof.
  intros H. apply get_op_node in H. unfold get_node in H. apply assoc_In in H.
  unfold op_ids. apply in_map_iff. exists (o, Op n). split; [reflexivity|].
  apply filter_In. split; [exact H|reflexivity].
Qed.

Lemma somes_In l x : In x (somes l) <-> In (Some x) l.
Proof.
  induction l as [|[y|] r IH]; cbn [somes In].
  - tauto.
  - rewrite IH. split; intros [H|H]; auto; left; congruence.
  - rewrite IH. split; [auto|]. intros [H|H]; [discriminate|exact H].
Qed.

(* ---- mk_graph produces well-formed graphs ---- *)
Lemma sources_of_aux (nodes : list (id * node)) (src0 : list (id * id)) v o :
  assoc (fold_left (fun (src : list (id * id)) (p : id * node) =>
               match snd p with
               | Op n => map (fun v => (v, fst p)) (op_outs n) ++ src
               | _ => src
               end) nodes src0) v = Some o ->
  (exists n, In (o, Op n) nodes /\ In v (op_outs n)) \/ assoc src0 v = Some o.
Proof.
  revert src0. induction nodes as [|[i nd] r IH]; intros src0; cbn [fold_left snd fst].
  - intros H. right. exact H.
  - intros H. apply IH in H. destruct H as [[n [Hin Hv]]|H].
    + left. exists n. split; [right; exact Hin|exact Hv].
    + destruct nd as [| |n]; try (right; exact H).
      assert (Hx : forall (l : list id) s, assoc (map (fun v0 => (v0, i)) l ++ s) v = Some o ->
                   (In v l /\ o = i) \/ assoc s v = Some o).
      { induction l as [|x l IHl]; intros s; cbn [map app assoc].
        - intros Hs. right. exact Hs.
        - destruct (x =? v) eqn:E.
          + intros Hs. injection Hs as <-. apply N.eqb_eq in E. subst. left. split; [left; reflexivity|reflexivity].
          + intros Hs. apply IHl in Hs. destruct Hs as [[Hs1 Hs2]|Hs]; [left; split; [right; exact Hs1|exact Hs2]|right; exact Hs]. }
      apply Hx in H. destruct H as [[Hv ->]|H].
      * left. exists n. split; [left; reflexivity|exact Hv].
      * right. exact H.
Qed.

Lemma mk_graph_wf nodes caps : NoDup (map fst nodes) -> wf_graph (mk_graph nodes caps).
Proof.
  intros Hnd v o n H. unfold get_source in H. cbn [mk_graph g_source] in H.
  destruct (assoc (sources_of nodes) v) as [o'|] eqn:Es; [|discriminate].
  destruct (get_op (mk_graph nodes caps) o') as [n'|] eqn:Eo; [|discriminate].
  injection H as <- <-.
  unfold sources_of in Es. apply sources_of_aux in Es. destruct Es as [[n2 [Hin Hv]]|Es]; [|discriminate].
  apply get_op_node in Eo. unfold get_node in Eo. cbn [mk_graph g_nodes] in Eo.
  rewrite (In_assoc_nodup nodes o' (Op n2) Hnd Hin) in Eo. injection Eo as ->. exact Hv.
Qed.
