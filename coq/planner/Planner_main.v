(* Assembly: properties of Planner::create_plan. *)
From RV Require Import Prelude.
From Planner Require Import Graph Graph_proofs PlannerModel Planner_dfs Planner_sort.
Open Scope N_scope.

Definition plan_good (g : graph) (am : bool) (r0 outs plan : list id) : Prop :=
  NoDup plan /\ plan_ops_exist g plan /\ plan_valid g am r0 plan /\
  plan_complete g am r0 outs plan /\ plan_minimal g r0 outs plan.

Lemma plan_good_transfer g r0 outs dfs plan :
  (forall x, In x plan <-> In x dfs) -> NoDup plan -> plan_valid g false r0 plan ->
  plan_good g false r0 outs dfs -> plan_good g false r0 outs plan.
Proof.
  intros Heq Hnd Hv [_ [Hex [_ [Hc Hm]]]].
  split; [exact Hnd|]. split; [intros o Ho; apply Hex; apply Heq; exact Ho|].
  split; [exact Hv|]. split.
  - intros v Hv'. eapply dep_ok_mono; [|apply Hc; exact Hv']. intros x Hx. apply Heq. exact Hx.
  - intros o Ho. apply Hm. apply Heq. exact Ho.
Qed.

Definition checks_pass (g : graph) (ins outs : list id) : Prop :=
  first_duplicate outs = None /\ first_bad g outs 0 = None /\
  first_duplicate ins = None /\ first_bad g ins 0 = None.

Lemma create_plan_spec g ins outs am ca :
  wf_graph g ->
  match create_plan g ins outs am ca with
  | Ok plan => checks_pass g ins outs /\ plan_good g am (init_resolved g ins ca) outs plan
  | Err _ => True
  | _ => False
  end.
Proof.
  intros Hwf. unfold create_plan.
  destruct (first_duplicate outs) eqn:E1; [exact I|].
  destruct (first_bad g outs 0) eqn:E2; [exact I|].
  destruct (first_duplicate ins) eqn:E3; [exact I|].
  destruct (first_bad g ins 0) eqn:E4; [exact I|].
  set (r0 := init_resolved g ins ca).
  destruct (plan_outputs g am (S (num_ops g)) outs (mkst r0 [])) as [st| |] eqn:Ep.
  - pose proof (dfs_plan_ok g am r0 outs Hwf (S (num_ops g)) st Ep) as Hgood.
    fold (plan_good g am r0 outs (rev (st_plan st))) in Hgood.
    destruct am.
    + split; [repeat split; assumption|exact Hgood].
    + destruct (rev (st_plan st)) as [|a l] eqn:Edfs.
      * split; [repeat split; assumption|exact Hgood].
      * rewrite <- Edfs in *.
        destruct Hgood as [Hnd [Hex [Hval [Hc Hm]]]].
        destruct (sort_plan_ok g r0 (rev (st_plan st)) Hnd Hex Hval) as [plan [Es [Hnd' [Heq Hv']]]].
        rewrite Es. split; [repeat split; assumption|].
        apply plan_good_transfer with (rev (st_plan st)); try assumption.
        repeat split; assumption.
  - exact I.
  - exfalso. exact (plan_outputs_total g am outs (mkst r0 []) Ep).
Qed.

Theorem create_plan_terminates g ins outs am ca :
  wf_graph g -> create_plan g ins outs am ca <> OutOfFuel.
Proof.
  intros Hwf E. pose proof (create_plan_spec g ins outs am ca Hwf) as H. rewrite E in H. exact H.
Qed.

Theorem create_plan_total g ins outs am ca :
  wf_graph g ->
  (exists plan, create_plan g ins outs am ca = Ok plan) \/ (exists e, create_plan g ins outs am ca = Err e).
Proof.
  intros Hwf. pose proof (create_plan_spec g ins outs am ca Hwf) as H.
  destruct (create_plan g ins outs am ca); try contradiction; [left|right]; eexists; reflexivity.
Qed.

Theorem create_plan_good g ins outs am ca plan :
  wf_graph g -> create_plan g ins outs am ca = Ok plan ->
  plan_good g am (init_resolved g ins ca) outs plan.
Proof.
  intros Hwf E. pose proof (create_plan_spec g ins outs am ca Hwf) as H. rewrite E in H. apply H.
Qed.

(* the debug_assert in sort_plan: the initial frontier is not empty when the plan is not *)
Theorem initial_frontier_nonempty g am r0 outs st :
  wf_graph g -> plan_outputs g am (S (num_ops g)) outs (mkst r0 []) = VOk st -> am = false ->
  rev (st_plan st) <> [] -> filter (ready g r0) (rev (st_plan st)) <> [].
Proof.
  intros Hwf Ep -> Hne.
  destruct (dfs_plan_ok g false r0 outs Hwf (S (num_ops g)) st Ep) as [_ [Hex [Hval _]]].
  destruct (rev (st_plan st)) as [|a l] eqn:E; [contradiction|].
  destruct (Hex a (or_introl eq_refl)) as [n Hn].
  assert (Hr : ready g r0 a = true).
  { unfold ready. rewrite Hn. apply forallb_forall. intros d Hd.
    destruct (Hval [] a l n eq_refl Hn d Hd) as [H|[H|[[e [[] _]]|[H _]]]].
    - apply resolved_contains_iff. left. exact H.
    - apply resolved_contains_iff. right. exact H.
    - discriminate. }
  cbn [filter]. rewrite Hr. discriminate.
Qed.
