(* Validate.v -- model of the request path of `Model::run` / `Model::partial_run`
   (= `Graph::run` / `Graph::partial_run`, src/graph.rs): `validate_inputs`, plan lookup /
   creation, `Planner::prune_plan` (as fixed for finding F20), and the bookkeeping of `run_plan`
   that can panic: looking up operator inputs (`get_value_from_constant_or_input`, "Invalid plan
   did not produce input value") and handing out the outputs ("missing output value").
   Panics are an explicit outcome [RPanic]; the planner's out-of-fuel outcome maps to [RTimeout].
   Operator kernels are not modelled: the harness's test operator accepts every input.

   Definitions only; proofs in Validate_proofs.v, statements in Props_C26.v. *)
From RV Require Import Prelude.
From Planner Require Import Graph PlannerModel PlanCache.
Open Scope N_scope.

(* metadata of a value node: dtype = (is_sequence, element type code), shape dims (None = symbolic) *)
Record vmeta := mkmeta { m_dtype : option (bool * N); m_shape : option (list (option N)) }.

(* one run input: node id, the value's type and shape, owned value or view *)
Record input := mkin { i_id : id; i_seq : bool; i_dtype : N; i_shape : list N; i_owned : bool }.

Inductive run_outcome :=
| ROk (executed : list id) (partial_outs : list id)   (* operators run, in order; ids returned by partial_run *)
| RErrPlan (e : plan_error)
| RErrInvalidInput
| RErrOperator | RErrOther
| RPanic | RTimeout
| RNotRun                                             (* harness only: request not executed *)
| ROkAny.                                             (* harness only (public-API mode): Ok, executed sequence not observable *)

(* ---------------------------------------------------------------- Graph::validate_inputs *)
Fixpoint dims_ok (expected : list (option N)) (shape : list N) : bool :=
  match expected, shape with
  | [], [] => true
  | e :: er, s :: sr => (match e with Some k => k =? s | None => true end) && dims_ok er sr
  | _, _ => false    (* rank mismatch *)
  end.

Definition validate_input (g : graph) (meta : list (id * vmeta)) (i : input) : bool :=
  match get_node g (i_id i) with
  | Some Value =>
      match assoc meta (i_id i) with
      | None => true
      | Some m =>
          (match m_dtype m with
           | Some (sq, dt) => Bool.eqb sq (i_seq i) && (dt =? i_dtype i)
           | None => true
           end) &&
          (if i_seq i then true
           else match m_shape m with
                | Some dims => dims_ok dims (i_shape i)
                | None => true
                end)
      end
  | _ => true      (* not a value node: left to the planner *)
  end.

Definition validate_inputs (g : graph) (meta : list (id * vmeta)) (ins : list input) : bool :=
  forallb (validate_input g meta) ins.

(* ---------------------------------------------------------------- run_plan bookkeeping *)
Definition view_ids (ins : list input) : list id := map i_id (filter (fun i => negb (i_owned i)) ins).
Definition owned_ids (ins : list input) : list id := map i_id (filter i_owned ins).

(* Some true = available; Some false = "Invalid plan did not produce input value";
   None = "node is not a value or constant" *)
Definition input_available (g : graph) (views temp : list id) (d : id) : option bool :=
  match get_node g d with
  | Some Constant => Some true
  | Some Value => Some (mem d views || mem d temp)
  | _ => None
  end.

Fixpoint exec_ops (g : graph) (views : list id) (plan : list id) (temp : list id) : option (list id) :=
  match plan with
  | [] => Some temp
  | o :: r =>
      match get_op g o with
      | None => None
      | Some n =>
          if forallb (fun d => match input_available g views temp d with Some true => true | _ => false end)
                     (somes (op_inputs n))
          then exec_ops g views r (op_outs n ++ temp)
          else None
      end
  end.

Fixpoint remove_one (x : id) (l : list id) : list id :=
  match l with [] => [] | y :: r => if y =? x then r else y :: remove_one x r end.

Fixpoint take_outputs (g : graph) (views : list id) (outs : list id) (temp : list id) : bool :=
  match outs with
  | [] => true
  | v :: r =>
      match get_node g v with
      | Some Constant => take_outputs g views r temp
      | Some Value =>
          if mem v views then take_outputs g views r temp
          else if mem v temp
               then take_outputs g views r (filter (fun y => negb (y =? v)) temp)  (* ValueMap::remove *)
               else false
      | _ => false
      end
  end.

(* run_plan for the harness's always-succeeding operators *)
Definition exec_plan (g : graph) (plan : list id) (ins : list input) (outs : list id) : bool :=
  match exec_ops g (view_ids ins) plan (owned_ids ins) with
  | Some temp => take_outputs g (view_ids ins) outs temp
  | None => false
  end.

(* ---------------------------------------------------------------- Graph::run *)
Definition run (g : graph) (meta : list (id * vmeta)) (st : cache) (ins : list input) (outs : list id)
  : run_outcome * cache :=
  if validate_inputs g meta ins then
    match get_cached_plan g false st (map i_id ins) outs with
    | (Ok plan, st') => (if exec_plan g plan ins outs then ROk plan [] else RPanic, st')
    | (Err e, st') => (RErrPlan e, st')
    | (OutOfFuel, st') => (RTimeout, st')
    | (_, st') => (RPanic, st')
    end
  else (RErrInvalidInput, st).

(* ---------------------------------------------------------------- Planner::prune_plan *)
Fixpoint prune_loop (g : graph) (plan : list id) (resolved kept cand pruned_in : list id)
  : list id * list id * list id :=
  match plan with
  | [] => (rev kept, cand, pruned_in)
  | o :: r =>
      match get_op g o with
      | None => prune_loop g r resolved kept cand pruned_in
      | Some n =>
          if forallb (resolved_contains g resolved) (deps g n)
          then prune_loop g r (op_outs n ++ resolved) (o :: kept) (cand ++ op_outs n) pruned_in
          else prune_loop g r resolved kept cand
                          (filter (resolved_contains g resolved) (deps g n) ++ pruned_in)
      end
  end.

Fixpoint dedup_filter (keep : id -> bool) (l acc : list id) : list id :=
  match l with
  | [] => rev acc
  | x :: r => if keep x && negb (mem x acc) then dedup_filter keep r (x :: acc) else dedup_filter keep r acc
  end.

Definition prune_plan (g : graph) (plan ins outs : list id) : list id * list id :=
  let '(kept, cand, pruned_in) := prune_loop g plan ins [] ins [] in
  (kept, dedup_filter (fun v => mem v outs || mem v pruned_in) cand []).

(* ---------------------------------------------------------------- Graph::partial_run *)
Definition partial_run (g : graph) (meta : list (id * vmeta)) (ins : list input) (outs : list id)
  : run_outcome :=
  if validate_inputs g meta ins then
    match create_plan g (map i_id ins) outs true false with
    | Ok plan =>
        let '(pruned, new_outs) := prune_plan g plan (map i_id ins) outs in
        if exec_plan g pruned ins new_outs then ROk pruned new_outs else RPanic
    | Err e => RErrPlan e
    | OutOfFuel => RTimeout
    | _ => RPanic
    end
  else RErrInvalidInput.

(* ================================================================ correspondence case (C26) *)
Record rreq := mkrr { rr_partial : bool; rr_ins : list input; rr_outs : list id; rr_impl : run_outcome }.
Record case26 := { v_graph : graph; v_meta : list (id * vmeta); v_reqs : list rreq }.

Definition run_outcome_eqb (a b : run_outcome) : bool :=
  match a, b with
  | ROk e p, ROk e' p' => list_eqb e e' && list_eqb p p'
  | RErrPlan e, RErrPlan e' => err_eqb e e'
  | RErrInvalidInput, RErrInvalidInput => true
  | RPanic, RPanic => true
  | _, RNotRun => true
  | ROk _ _, ROkAny => true
  | _, _ => false
  end.

(* the model's answers for a sequence of requests on one graph (cache threaded through) *)
Fixpoint model_seq (g : graph) (meta : list (id * vmeta)) (st : cache) (rs : list rreq)
  : list run_outcome :=
  match rs with
  | [] => []
  | r :: rest =>
      if rr_partial r then partial_run g meta (rr_ins r) (rr_outs r) :: model_seq g meta st rest
      else let '(o, st') := run g meta st (rr_ins r) (rr_outs r) in o :: model_seq g meta st' rest
  end.

Definition agree26 (c : case26) : bool :=
  let m := model_seq (v_graph c) (v_meta c) None (v_reqs c) in
  forallb (fun p => run_outcome_eqb (fst p) (rr_impl (snd p))) (combine m (v_reqs c)).

(* the property on the implementation's own answer: never a panic or hang (operator errors
   cannot occur with the harness's operator and count as anomalies); Ok only if the request
   is valid: inputs agree with the metadata, ids are distinct value nodes, and the operator
   sequence that was executed is a valid plan from the supplied inputs that produces every
   requested (resp. returned) output.  Errors are always acceptable answers here; that they are
   not spurious is C03's exact-error theorem and the model agreement. *)
Definition request_valid_b (g : graph) (meta : list (id * vmeta)) (ins : list input) (outs : list id)
           (executed : list id) : bool :=
  validate_inputs g meta ins &&
  nodupb (map i_id ins) && nodupb outs &&
  forallb (is_value_or_const g) (map i_id ins) && forallb (is_value_or_const g) outs &&
  valid_fromb g false (map i_id ins) executed && completeb g false (map i_id ins) outs executed.

Definition req_ok26 (g : graph) (meta : list (id * vmeta)) (r : rreq) : bool :=
  match rr_impl r with
  | ROk ex pouts =>
      if rr_partial r
      then request_valid_b g meta (rr_ins r) pouts ex && nodupb (rr_outs r) &&
           forallb (is_value_or_const g) (rr_outs r)
      else request_valid_b g meta (rr_ins r) (rr_outs r) ex
  | ROkAny =>
      (* the executed plan is not observable: any plan witnesses validity; use the model's *)
      match create_plan g (map i_id (rr_ins r)) (rr_outs r) (rr_partial r) false with
      | Ok p => if rr_partial r
                then validate_inputs g meta (rr_ins r) && nodupb (map i_id (rr_ins r)) &&
                     forallb (is_value_or_const g) (map i_id (rr_ins r))
                else request_valid_b g meta (rr_ins r) (rr_outs r) p
      | _ => false
      end
  | RErrPlan _ | RErrInvalidInput | RNotRun => true
  | _ => false
  end.

Definition prop_ok26 (c : case26) : bool := forallb (req_ok26 (v_graph c) (v_meta c)) (v_reqs c).

Definition show26 (c : case26) :=
  (model_seq (v_graph c) (v_meta c) None (v_reqs c),
   map (req_ok26 (v_graph c) (v_meta c)) (v_reqs c)).
