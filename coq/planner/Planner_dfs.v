(* Invariants of the depth-first phase of the planner (PlanBuilder::visit / PlanBuilder::plan). *)
From RV Require Import Prelude.
From Planner Require Import Graph Graph_proofs PlannerModel.
Open Scope N_scope.

Lemma resolved_contains_iff g res v :
  resolved_contains g res v = true <-> In v res \/ is_constant g v = true.
Proof. unfold resolved_contains. rewrite orb_true_iff, mem_In. tauto. Qed.

Lemma resolved_contains_mono g res res' v :
  incl res res' -> resolved_contains g res v = true -> resolved_contains g res' v = true.
Proof. intros Hi H. apply resolved_contains_iff in H. apply resolved_contains_iff. destruct H; auto. Qed.

Lemma dep_ok_mono g am r0 e e' d : incl e e' -> dep_ok g am r0 e d -> dep_ok g am r0 e' d.
Proof.
  intros Hi [H|[H|[[x [Hx Hp]]|H]]]; unfold dep_ok; auto.
  right; right; left. exists x. split; [apply Hi; exact Hx|exact Hp].
Qed.

(* validity of a plan kept in reverse order (head = last entry) *)
Inductive valid_rev (g : graph) (am : bool) (r0 : list id) : list id -> Prop :=
| vr_nil : valid_rev g am r0 []
| vr_cons : forall o n rest, get_op g o = Some n ->
    (forall d, In d (deps g n) -> dep_ok g am r0 rest d) ->
    valid_rev g am r0 rest -> valid_rev g am r0 (o :: rest).

Lemma valid_rev_ops g am r0 l : valid_rev g am r0 l -> plan_ops_exist g l.
Proof.
  induction 1 as [|o n rest Ho Hd Hv IH]; intros x Hx; [destruct Hx|].
  destruct Hx as [<-|Hx]; [exists n; exact Ho|apply IH; exact Hx].
Qed.

Lemma valid_rev_split g am r0 l : valid_rev g am r0 l ->
  forall post o pre n, l = post ++ o :: pre -> get_op g o = Some n ->
    forall d, In d (deps g n) -> dep_ok g am r0 pre d.
Proof.
  induction 1 as [|o n rest Ho Hd Hv IH]; intros post o' pre n' E Ho' d Hin.
  - destruct post; discriminate.
  - destruct post as [|p post]; cbn [app] in E.
    + injection E as -> ->. rewrite Ho in Ho'. injection Ho' as <-. apply Hd. exact Hin.
    + injection E as -> E. eapply IH; eassumption.
Qed.

Lemma valid_rev_plan_valid g am r0 l : valid_rev g am r0 l -> plan_valid g am r0 (rev l).
Proof.
  intros Hv pre o post n E Ho d Hin.
  assert (El : l = rev post ++ o :: rev pre).
  { rewrite <- (rev_involutive l), E, rev_app_distr. cbn [rev]. rewrite <- app_assoc. reflexivity. }
  eapply dep_ok_mono; [|eapply valid_rev_split; eassumption].
  intros x Hx. apply in_rev. exact Hx.
Qed.

Lemma plan_valid_valid_rev g am r0 l :
  plan_ops_exist g l -> plan_valid g am r0 l -> valid_rev g am r0 (rev l).
Proof.
  induction l as [|x l IH] using rev_ind; intros Hex Hv.
  - constructor.
  - rewrite rev_app_distr. cbn [rev app].
    destruct (Hex x) as [n Hn]; [apply in_or_app; right; left; reflexivity|].
    apply vr_cons with n; [exact Hn| |].
    + intros d Hd. eapply dep_ok_mono; [|eapply (Hv l x [] n); [reflexivity|exact Hn|exact Hd]].
      intros y Hy. apply in_rev in Hy. exact Hy.
    + apply IH.
      * intros o Ho. apply Hex. apply in_or_app. left. exact Ho.
      * intros pre o post n' E Ho d Hd. eapply (Hv pre o (post ++ [x]) n'); [|exact Ho|exact Hd].
        rewrite E. rewrite <- app_assoc. reflexivity.
Qed.

Section DFS.
  Variable g : graph.
  Variable am : bool.
  Variables r0 outs : list id.
  Hypothesis Hwf : wf_graph g.

  Record inv (st : state) : Prop := {
    inv_res : forall v, In v (st_resolved st) <->
                        (In v r0 \/ exists o, In o (st_plan st) /\ produced_by g o v);
    inv_nodup : NoDup (st_plan st);
    inv_valid : valid_rev g am r0 (st_plan st);
    inv_needed : forall o, In o (st_plan st) -> needed g r0 outs o
  }.

  Definition ext (st st' : state) : Prop :=
    incl (st_plan st) (st_plan st') /\ incl (st_resolved st) (st_resolved st').

  Lemma ext_refl st : ext st st.
  Proof. split; apply incl_refl. Qed.

  Lemma ext_trans a b c : ext a b -> ext b c -> ext a c.
  Proof. intros [H1 H2] [H3 H4]. split; eapply incl_tran; eassumption. Qed.

  Lemma inv_r0 st : inv st -> incl r0 (st_resolved st).
  Proof. intros Hi v Hv. apply (inv_res st Hi). left. exact Hv. Qed.

  Lemma resolved_dep_ok st d :
    inv st -> resolved_contains g (st_resolved st) d = true -> dep_ok g am r0 (st_plan st) d.
  Proof.
    intros Hi H. apply resolved_contains_iff in H. destruct H as [H|H].
    - apply (inv_res st Hi) in H. destruct H as [H|[o [Ho Hp]]].
      + left. exact H.
      + right; right; left. exists o. split; assumption.
    - right; left. exact H.
  Qed.

  Lemma unresolved_r0 st d :
    inv st -> resolved_contains g (st_resolved st) d = false -> resolved_contains g r0 d = false.
  Proof.
    intros Hi H. destruct (resolved_contains g r0 d) eqn:E; [|reflexivity].
    rewrite (resolved_contains_mono g r0 (st_resolved st) d (inv_r0 st Hi) E) in H. discriminate.
  Qed.

  Lemma source_not_planned st d so sn :
    inv st -> resolved_contains g (st_resolved st) d = false -> get_source g d = Some (so, sn) ->
    ~ In so (st_plan st).
  Proof.
    intros Hi Hr Hs Hin.
    assert (Hd : In d (st_resolved st)).
    { apply (inv_res st Hi). right. exists so. split; [exact Hin|].
      exists sn. split; [eapply get_source_op; exact Hs|eapply Hwf; exact Hs]. }
    assert (resolved_contains g (st_resolved st) d = true) by (apply resolved_contains_iff; left; exact Hd).
    congruence.
  Qed.

  (* what a (recursive) visit of operator [so] guarantees; [A] is the active set handed down *)
  Definition rec_spec (rec : id -> op_node -> state -> vres) (A : list id) : Prop :=
    forall so sn st st',
      inv st -> get_op g so = Some sn -> ~ In so (st_plan st) -> ~ In so A -> needed g r0 outs so ->
      rec so sn st = VOk st' ->
      inv st' /\ ext st st' /\
      (forall x, In x (st_plan st') -> In x (st_plan st) \/ ~ In x A) /\
      In so (st_plan st').

  Lemma visit_deps_ok rec A o pn :
    rec_spec rec A -> needed g r0 outs o -> get_op g o = Some pn ->
    forall ds st st', incl ds (deps g pn) -> inv st ->
      visit_deps g am rec A o ds st = VOk st' ->
      inv st' /\ ext st st' /\
      (forall x, In x (st_plan st') -> In x (st_plan st) \/ ~ In x A) /\
      (forall d, In d ds -> dep_ok g am r0 (st_plan st') d).
  Proof.
    intros Hrec Hneed Hop. induction ds as [|d ds IH]; intros st st' Hincl Hi H; cbn [visit_deps] in H.
    - injection H as <-. split; [exact Hi|]. split; [apply ext_refl|]. split; [intros x Hx; left; exact Hx|intros d []].
    - assert (Hincl' : incl ds (deps g pn)) by (intros x Hx; apply Hincl; right; exact Hx).
      assert (Hd : In d (deps g pn)) by (apply Hincl; left; reflexivity).
      destruct (resolved_contains g (st_resolved st) d) eqn:Er.
      + destruct (IH st st' Hincl' Hi H) as [Hi' [He [Hn Hds]]].
        split; [exact Hi'|]. split; [exact He|]. split; [exact Hn|].
        intros d' [<-|Hd']; [|apply Hds; exact Hd'].
        eapply dep_ok_mono; [apply He|]. apply resolved_dep_ok; assumption.
      + destruct (get_source g d) as [[so sn]|] eqn:Es.
        * destruct (mem so A) eqn:Em; [discriminate|].
          destruct (rec so sn st) as [st1| |] eqn:Erec; try discriminate.
          assert (Hnso : needed g r0 outs so).
          { eapply needed_dep; [exact Hneed|exact Hop|exact Hd| |exact Es].
            eapply unresolved_r0; eassumption. }
          destruct (Hrec so sn st st1 Hi (get_source_op g d so sn Es)
                         (source_not_planned st d so sn Hi Er Es)
                         (proj1 (mem_false so A) Em) Hnso Erec) as [Hi1 [He1 [Hn1 Hin1]]].
          destruct (IH st1 st' Hincl' Hi1 H) as [Hi' [He [Hn Hds]]].
          split; [exact Hi'|]. split; [eapply ext_trans; eassumption|]. split.
          { intros x Hx. destruct (Hn x Hx) as [Hx1|Hx1]; [apply Hn1; exact Hx1|right; exact Hx1]. }
          intros d' [<-|Hd']; [|apply Hds; exact Hd'].
          right; right; left. exists so. split; [apply He; exact Hin1|].
          exists sn. split; [eapply get_source_op; exact Es|eapply Hwf; exact Es].
        * destruct am eqn:Eam; [|discriminate].
          destruct (IH st st' Hincl' Hi H) as [Hi' [He [Hn Hds]]].
          split; [exact Hi'|]. split; [exact He|]. split; [exact Hn|].
          intros d' [<-|Hd']; [|apply Hds; exact Hd'].
          right; right; right. split; [reflexivity|exact Es].
  Qed.

  Lemma visit_ok : forall fuel A, rec_spec (visit g am fuel A) A.
  Proof.
    induction fuel as [|f IH]; intros A so sn st st' Hi Hop Hnp HnA Hneed H; cbn [visit] in H; [discriminate|].
    destruct (visit_deps g am (visit g am f (so :: A)) (so :: A) so (deps g sn) st) as [st1| |] eqn:Ed;
      try discriminate.
    injection H as <-.
    destruct (visit_deps_ok (visit g am f (so :: A)) (so :: A) so sn (IH (so :: A)) Hneed Hop
                            (deps g sn) st st1 (incl_refl _) Hi Ed) as [Hi1 [He1 [Hn1 Hds]]].
    assert (Hso1 : ~ In so (st_plan st1)).
    { intros Hin. destruct (Hn1 so Hin) as [Hx|Hx]; [contradiction|]. apply Hx. left. reflexivity. }
    split; [|split; [|split]].
    - constructor; cbn [st_resolved st_plan].
      + intros v. rewrite in_app_iff. rewrite (inv_res st1 Hi1 v). split.
        * intros [Hv|[Hv|[o [Ho Hp]]]].
          -- right. exists so. split; [left; reflexivity|]. exists sn. split; assumption.
          -- left. exact Hv.
          -- right. exists o. split; [right; exact Ho|exact Hp].
        * intros [Hv|[o [[<-|Ho] Hp]]].
          -- right; left. exact Hv.
          -- left. destruct Hp as [n' [Hn' Hv]]. rewrite Hop in Hn'. injection Hn' as <-. exact Hv.
          -- right; right. exists o. split; assumption.
      + constructor; [exact Hso1|apply (inv_nodup st1 Hi1)].
      + apply vr_cons with sn; [exact Hop|exact Hds|apply (inv_valid st1 Hi1)].
      + intros o [<-|Ho]; [exact Hneed|apply (inv_needed st1 Hi1); exact Ho].
    - destruct He1 as [Hp Hr]. split; cbn [st_resolved st_plan].
      + intros x Hx. right. apply Hp. exact Hx.
      + intros x Hx. apply in_or_app. right. apply Hr. exact Hx.
    - cbn [st_plan]. intros x [<-|Hx]; [right; exact HnA|].
      destruct (Hn1 x Hx) as [H1|H1]; [left; exact H1|right]. intros HA. apply H1. right. exact HA.
    - cbn [st_plan]. left. reflexivity.
  Qed.

  Lemma plan_outputs_ok fuel :
    forall os st st', incl os outs -> inv st ->
      plan_outputs g am fuel os st = VOk st' ->
      inv st' /\ ext st st' /\ (forall v, In v os -> dep_ok g am r0 (st_plan st') v).
  Proof.
    induction os as [|v os IH]; intros st st' Hincl Hi H; cbn [plan_outputs] in H.
    - injection H as <-. split; [exact Hi|]. split; [apply ext_refl|intros v []].
    - assert (Hincl' : incl os outs) by (intros x Hx; apply Hincl; right; exact Hx).
      assert (Hv : In v outs) by (apply Hincl; left; reflexivity).
      destruct (resolved_contains g (st_resolved st) v) eqn:Er.
      + destruct (IH st st' Hincl' Hi H) as [Hi' [He Hds]].
        split; [exact Hi'|]. split; [exact He|].
        intros d' [<-|Hd']; [|apply Hds; exact Hd'].
        eapply dep_ok_mono; [apply He|]. apply resolved_dep_ok; assumption.
      + destruct (get_source g v) as [[so sn]|] eqn:Es.
        * destruct (visit g am fuel [] so sn st) as [st1| |] eqn:Ev; try discriminate.
          assert (Hnso : needed g r0 outs so).
          { eapply needed_out; [exact Hv| |exact Es]. eapply unresolved_r0; eassumption. }
          destruct (visit_ok fuel [] so sn st st1 Hi (get_source_op g v so sn Es)
                             (source_not_planned st v so sn Hi Er Es) (fun x => x) Hnso Ev)
            as [Hi1 [He1 [_ Hin1]]].
          destruct (IH st1 st' Hincl' Hi1 H) as [Hi' [He Hds]].
          split; [exact Hi'|]. split; [eapply ext_trans; eassumption|].
          intros d' [<-|Hd']; [|apply Hds; exact Hd'].
          right; right; left. exists so. split; [apply He; exact Hin1|].
          exists sn. split; [eapply get_source_op; exact Es|eapply Hwf; exact Es].
        * destruct am eqn:Eam; [|discriminate].
          destruct (IH st st' Hincl' Hi H) as [Hi' [He Hds]].
          split; [exact Hi'|]. split; [exact He|].
          intros d' [<-|Hd']; [|apply Hds; exact Hd'].
          right; right; right. split; [reflexivity|exact Es].
  Qed.

  Lemma inv_init : inv (mkst r0 []).
  Proof.
    constructor; cbn [st_resolved st_plan].
    - intros v. split; [intros H; left; exact H|]. intros [H|[o [[] _]]]. exact H.
    - constructor.
    - constructor.
    - intros o [].
  Qed.

  (* the depth-first plan *)
  Lemma dfs_plan_ok fuel st :
    plan_outputs g am fuel outs (mkst r0 []) = VOk st ->
    NoDup (rev (st_plan st)) /\
    plan_ops_exist g (rev (st_plan st)) /\
    plan_valid g am r0 (rev (st_plan st)) /\
    plan_complete g am r0 outs (rev (st_plan st)) /\
    plan_minimal g r0 outs (rev (st_plan st)).
  Proof.
    intros H. destruct (plan_outputs_ok fuel outs (mkst r0 []) st (incl_refl _) inv_init H) as [Hi [_ Hc]].
    split; [apply NoDup_rev; apply (inv_nodup st Hi)|].
    split; [intros o Ho; apply in_rev in Ho; eapply valid_rev_ops; [apply (inv_valid st Hi)|exact Ho]|].
    split; [apply valid_rev_plan_valid; apply (inv_valid st Hi)|].
    split.
    - intros v Hv. eapply dep_ok_mono; [|apply Hc; exact Hv]. intros x Hx. apply in_rev in Hx. exact Hx.
    - intros o Ho. apply in_rev in Ho. apply (inv_needed st Hi). exact Ho.
  Qed.
End DFS.

(* ---------------------------------------------------------------- termination of the DFS *)
Section Fuel.
  Variable g : graph.
  Variable am : bool.

  Definition rec_total (rec : id -> op_node -> state -> vres) (A : list id) : Prop :=
    forall so sn st, get_op g so = Some sn -> ~ In so A -> rec so sn st <> VFuel.

  Lemma visit_deps_total rec A o :
    rec_total rec A -> forall ds st, visit_deps g am rec A o ds st <> VFuel.
  Proof.
    intros Hrec. induction ds as [|d ds IH]; intros st; cbn [visit_deps]; [discriminate|].
    destruct (resolved_contains g (st_resolved st) d); [apply IH|].
    destruct (get_source g d) as [[so sn]|] eqn:Es.
    - destruct (mem so A) eqn:Em; [discriminate|].
      destruct (rec so sn st) as [st1| |] eqn:Erec; [apply IH|discriminate|].
      exfalso. eapply Hrec; [eapply get_source_op; exact Es|apply mem_false; exact Em|exact Erec].
    - destruct am; [apply IH|discriminate].
  Qed.

  Lemma visit_total : forall fuel A,
    NoDup A -> incl A (op_ids g) -> (fuel + length A > num_ops g)%nat ->
    rec_total (visit g am fuel A) A.
  Proof.
    induction fuel as [|f IH]; intros A Hnd Hincl Hlen so sn st Hop HnA.
    - exfalso.
      assert (Hl : (length (so :: A) <= length (op_ids g))%nat).
      { apply NoDup_incl_length; [constructor; assumption|].
        intros x [<-|Hx]; [eapply get_op_in_op_ids; exact Hop|apply Hincl; exact Hx]. }
      cbn [length] in Hl. unfold num_ops in Hlen. lia.
    - cbn [visit].
      assert (Ht : rec_total (visit g am f (so :: A)) (so :: A)).
      { apply IH.
        - constructor; assumption.
        - intros x [<-|Hx]; [eapply get_op_in_op_ids; exact Hop|apply Hincl; exact Hx].
        - cbn [length]. lia. }
      pose proof (visit_deps_total (visit g am f (so :: A)) (so :: A) so Ht (deps g sn) st) as Hd.
      destruct (visit_deps g am (visit g am f (so :: A)) (so :: A) so (deps g sn) st); congruence.
  Qed.

  Lemma plan_outputs_total outs : forall st,
    plan_outputs g am (S (num_ops g)) outs st <> VFuel.
  Proof.
    induction outs as [|v os IH]; intros st; cbn [plan_outputs]; [discriminate|].
    destruct (resolved_contains g (st_resolved st) v); [apply IH|].
    destruct (get_source g v) as [[so sn]|] eqn:Es.
    - destruct (visit g am (S (num_ops g)) [] so sn st) as [st1| |] eqn:Ev; [apply IH|discriminate|].
      exfalso. eapply (visit_total (S (num_ops g)) []); [constructor|intros x []|cbn [length]; lia| | |exact Ev].
      + eapply get_source_op; exact Es.
      + intros [].
    - destruct am; [apply IH|discriminate].
  Qed.
End Fuel.
