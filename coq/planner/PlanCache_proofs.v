(* The plan cache is transparent: for every schedule of atomic get_cached_plan steps, every call
   gets a good plan for its own request, or the error of a cold call. *)
From RV Require Import Prelude.
From Coq Require Import Permutation.
From Planner Require Import Graph Graph_proofs PlannerModel Planner_dfs Planner_sort Planner_main
     Planner_errors PlanCache.
Open Scope N_scope.

Definition same_set (a b : list id) : Prop := forall x, In x a <-> In x b.

Lemma same_ids_iff q c : NoDup c -> (same_ids q c = true <-> NoDup q /\ same_set q c).
Proof.
  intros Hc. unfold same_ids. rewrite andb_true_iff, Nat.eqb_eq, forallb_forall. split.
  - intros [Hlen Hincl].
    assert (Hi : incl c q) by (intros x Hx; apply mem_In; apply Hincl; exact Hx).
    assert (Hq : NoDup q) by (apply (NoDup_incl_NoDup Hc); [lia|exact Hi]).
    split; [exact Hq|]. intros x. split; [|apply Hi].
    apply (NoDup_length_incl Hc); [lia|exact Hi].
  - intros [Hq Hs]. split.
    + apply Permutation_length. apply NoDup_Permutation; assumption.
    + intros x Hx. apply mem_In. apply Hs. exact Hx.
Qed.

Theorem matches_iff c ins outs :
  NoDup (cp_ins c) -> NoDup (cp_outs c) ->
  (matches c ins outs = true <->
   (NoDup ins /\ same_set ins (cp_ins c)) /\ (NoDup outs /\ same_set outs (cp_outs c))).
Proof.
  intros H1 H2. unfold matches. rewrite andb_true_iff, (same_ids_iff ins _ H1), (same_ids_iff outs _ H2). tauto.
Qed.

(* finding F12: the unfixed test accepts a query with a repeated id *)
Lemma matches_old_refuted :
  exists c ins outs, NoDup (cp_ins c) /\ NoDup (cp_outs c) /\
                     matches_old c ins outs = true /\ ~ NoDup ins /\ matches c ins outs = false.
Proof.
  exists (mkcp [1; 2; 3] [7] [9]), [1; 1; 2], [7].
  split; [repeat constructor; cbn; intuition discriminate|].
  split; [repeat constructor; cbn; intuition|].
  split; [vm_compute; reflexivity|]. split; [|vm_compute; reflexivity].
  intros H. inversion H as [|? ? Hn _]; subst. apply Hn. left. reflexivity.
Qed.

(* ---- plan goodness only depends on the id SETS ---- *)
Lemma resolved_contains_ext g r r' v : same_set r r' -> resolved_contains g r v = resolved_contains g r' v.
Proof.
  intros Hs. apply Bool.eq_true_iff_eq. rewrite !resolved_contains_iff, (Hs v). tauto.
Qed.

Lemma dep_ok_ext g am r r' e d : same_set r r' -> dep_ok g am r e d -> dep_ok g am r' e d.
Proof. intros Hs [H|H]; [left; apply Hs; exact H|right; exact H]. Qed.

Lemma needed_ext g r r' outs outs' o :
  same_set r r' -> same_set outs outs' -> needed g r outs o -> needed g r' outs' o.
Proof.
  intros Hr Ho. induction 1 as [v o n Hv Hres Hs|p pn d o n Hp IH Hpn Hd Hres Hs].
  - eapply needed_out; [apply Ho; exact Hv| |exact Hs]. rewrite <- (resolved_contains_ext g r r' v Hr). exact Hres.
  - eapply needed_dep; [exact IH|exact Hpn|exact Hd| |exact Hs].
    rewrite <- (resolved_contains_ext g r r' d Hr). exact Hres.
Qed.

Lemma plan_good_ext g am r r' outs outs' plan :
  same_set r r' -> same_set outs outs' -> plan_good g am r outs plan -> plan_good g am r' outs' plan.
Proof.
  intros Hr Ho [Hnd [Hex [Hv [Hc Hm]]]]. split; [exact Hnd|]. split; [exact Hex|]. split; [|split].
  - intros pre o post n E Hn d Hd. eapply dep_ok_ext; [exact Hr|]. eapply Hv; eassumption.
  - intros v Hv'. eapply dep_ok_ext; [exact Hr|]. apply Hc. apply Ho. exact Hv'.
  - intros o Hin. eapply needed_ext; [exact Hr|exact Ho|]. apply Hm. exact Hin.
Qed.

Lemma init_resolved_ext g ins ins' sg :
  same_set ins ins' -> same_set (init_resolved g ins sg) (init_resolved g ins' sg).
Proof.
  intros Hs x. unfold init_resolved. destruct sg; [|apply Hs]. rewrite !in_app_iff, (Hs x). tauto.
Qed.

Lemma computable_ext g am r r' v : same_set r r' -> computable g am r v -> computable g am r' v.
Proof.
  intros Hs. induction 1 as [v Hv|v Ham Hsrc|v o n Hsrc Hd IH].
  - apply comp_avail. rewrite <- (resolved_contains_ext g r r' v Hs). exact Hv.
  - apply comp_missing; assumption.
  - eapply comp_op; [exact Hsrc|exact IH].
Qed.

Lemma forallb_ext_set (f : id -> bool) a b : same_set a b -> forallb f a = true -> forallb f b = true.
Proof. intros Hs H. apply forallb_forall. intros x Hx. apply (proj1 (forallb_forall f a) H). apply Hs. exact Hx. Qed.

Lemma same_set_sym a b : same_set a b -> same_set b a.
Proof. intros H x. symmetry. apply H. Qed.

(* ---- the cache invariant and the atomic step ---- *)
Definition cache_ok (g : graph) (sg : bool) (st : cache) : Prop :=
  forall c, st = Some c -> create_plan g (cp_ins c) (cp_outs c) false sg = Ok (cp_plan c).

Definition step_post (g : graph) (sg : bool) (st : cache) (ins outs : list id) (res : outcome) (st' : cache) : Prop :=
  cache_ok g sg st' /\
  match res with
  | Ok p => checks_pass g ins outs /\ plan_good g false (init_resolved g ins sg) outs p
  | Err e => create_plan g ins outs false sg = Err e /\ st' = st
  | _ => False
  end.

Lemma step_spec g sg st ins outs :
  wf_graph g -> cache_ok g sg st ->
  step_post g sg st ins outs (fst (get_cached_plan g sg st ins outs)) (snd (get_cached_plan g sg st ins outs)).
Proof.
  intros Hwf Hok.
  assert (Hcreate : forall stc, cache_ok g sg stc -> stc = st ->
     step_post g sg st ins outs
       (fst (match create_plan g ins outs false sg with Ok p => (Ok p, Some (mkcp ins outs p)) | r => (r, stc) end))
       (snd (match create_plan g ins outs false sg with Ok p => (Ok p, Some (mkcp ins outs p)) | r => (r, stc) end))).
  { intros stc Hokc ->. pose proof (create_plan_spec g ins outs false sg Hwf) as Hspec.
    destruct (create_plan g ins outs false sg) as [p|e| | | |] eqn:E; cbn [fst snd]; try contradiction.
    - split; [|exact Hspec]. intros c Hc. injection Hc as <-. cbn [cp_ins cp_outs cp_plan]. exact E.
    - split; [exact Hokc|]. split; [exact E|reflexivity]. }
  unfold get_cached_plan. destruct st as [c|]; [|apply Hcreate; [exact Hok|reflexivity]].
  destruct (matches c ins outs) eqn:Em; [|apply Hcreate; [exact Hok|reflexivity]].
  cbn [fst snd]. split; [exact Hok|].
  pose proof (Hok c eq_refl) as Hc.
  pose proof (create_plan_spec g (cp_ins c) (cp_outs c) false sg Hwf) as Hspec. rewrite Hc in Hspec.
  destruct Hspec as [[C1 [C2 [C3 C4]]] Hgood].
  apply first_duplicate_none in C1. apply first_duplicate_none in C3.
  apply (matches_iff c ins outs C3 C1) in Em. destruct Em as [[Hni Hsi] [Hno Hso]].
  split.
  - split; [apply first_duplicate_none; exact Hno|]. split; [|split; [apply first_duplicate_none; exact Hni|]].
    + apply (first_bad_none g outs 0). eapply forallb_ext_set; [apply same_set_sym; exact Hso|].
      apply (first_bad_none g (cp_outs c) 0). exact C2.
    + apply (first_bad_none g ins 0). eapply forallb_ext_set; [apply same_set_sym; exact Hsi|].
      apply (first_bad_none g (cp_ins c) 0). exact C4.
  - eapply plan_good_ext; [|apply same_set_sym; exact Hso|exact Hgood].
    apply init_resolved_ext. apply same_set_sym. exact Hsi.
Qed.

(* what a call may observe *)
Definition call_ok (g : graph) (sg : bool) (call : list id * list id) (res : outcome) : Prop :=
  match res with
  | Ok p => NoDup (fst call) /\ NoDup (snd call) /\
            plan_good g false (init_resolved g (fst call) sg) (snd call) p
  | Err e => create_plan g (fst call) (snd call) false sg = Err e
  | _ => False
  end.

Theorem cache_transparent g sg :
  wf_graph g -> forall calls st, cache_ok g sg st ->
  Forall2 (call_ok g sg) calls (run_calls g sg st calls).
Proof.
  intros Hwf. induction calls as [|[ins outs] r IH]; intros st Hok; cbn [run_calls]; [constructor|].
  pose proof (step_spec g sg st ins outs Hwf Hok) as Hs.
  destruct (get_cached_plan g sg st ins outs) as [res st'] eqn:E. cbn [fst snd] in Hs.
  destruct Hs as [Hok' Hres]. constructor; [|apply IH; exact Hok'].
  unfold call_ok. cbn [fst snd]. destruct res; try contradiction.
  - destruct Hres as [[C1 [_ [C3 _]]] Hg]. split; [apply first_duplicate_none; exact C3|].
    split; [apply first_duplicate_none; exact C1|exact Hg].
  - apply Hres.
Qed.

Lemma cache_ok_empty g sg : cache_ok g sg None.
Proof. intros c H. discriminate. Qed.

(* with single producers, a call served from the cache would also succeed on a cold cache *)
Theorem hit_only_if_cold_ok g sg st ins outs p st' :
  wf_graph g -> unique_producers g -> cache_ok g sg st ->
  get_cached_plan g sg st ins outs = (Ok p, st') ->
  exists p', create_plan g ins outs false sg = Ok p'.
Proof.
  intros Hwf Hu Hok E. unfold get_cached_plan in E.
  assert (Hmiss : forall stc, (match create_plan g ins outs false sg with
                               | Ok p0 => (Ok p0, Some (mkcp ins outs p0)) | r => (r, stc) end) = (Ok p, st') ->
                  exists p', create_plan g ins outs false sg = Ok p').
  { intros stc H. destruct (create_plan g ins outs false sg) as [p0|e| | | |]; try (injection H as H _; discriminate).
    exists p0. reflexivity. }
  destruct st as [c|]; [|eapply Hmiss; exact E].
  destruct (matches c ins outs) eqn:Em; [|eapply Hmiss; exact E].
  pose proof (Hok c eq_refl) as Hc.
  destruct (ok_plannable g (cp_ins c) (cp_outs c) false sg (cp_plan c) Hwf Hu Hc) as [P1 [P2 [P3 [P4 P5]]]].
  apply (matches_iff c ins outs P3 P1) in Em. destruct Em as [[Hni Hsi] [Hno Hso]].
  apply plannable_ok; [exact Hwf|].
  split; [exact Hno|]. split; [eapply forallb_ext_set; [apply same_set_sym; exact Hso|exact P2]|].
  split; [exact Hni|]. split; [eapply forallb_ext_set; [apply same_set_sym; exact Hsi|exact P4]|].
  intros v Hv. eapply computable_ext; [apply init_resolved_ext; apply same_set_sym; exact Hsi|].
  apply P5. apply Hso. exact Hv.
Qed.

(* every step terminates with a plan or an error *)
Theorem step_total g sg st ins outs :
  wf_graph g -> cache_ok g sg st ->
  (exists p, fst (get_cached_plan g sg st ins outs) = Ok p) \/
  (exists e, fst (get_cached_plan g sg st ins outs) = Err e).
Proof.
  intros Hwf Hok. pose proof (step_spec g sg st ins outs Hwf Hok) as [_ H].
  destruct (fst (get_cached_plan g sg st ins outs)); try contradiction; [left|right]; eexists; reflexivity.
Qed.
