(* C01 -- tensor-level statements for the two fusions with assigned findings (F9 IdentityFusion,
   F10 RepeatInterleaveFusion): positive local equivalences for the repaired guards and refuting
   witnesses for the guards of the unchanged code. *)
From RV Require Import Prelude.
From Opt Require Import TensorModel Tensor_proofs ModelC01.

Section RI.
  Context {R : Type}.
  Notation tensor := (tensor R).

  Lemma insert_at_app pre n rest :
    insert_at (S (length pre)) 1%nat (pre ++ n :: rest) = pre ++ n :: 1%nat :: rest.
  Proof. induction pre as [|p pre IH]; [reflexivity|]. cbn [length app insert_at]. f_equal. exact IH. Qed.

  Lemma scale_dim_app pre n rest k :
    scale_dim (pre ++ n :: rest) (length pre) k = pre ++ (n * k)%nat :: rest.
  Proof. induction pre as [|p pre IH]; [reflexivity|]. cbn [length app scale_dim]. f_equal. exact IH. Qed.

  Lemma bzip_refl s : bzip s s = Some s.
  Proof. induction s as [|x s IH]; [reflexivity|]. cbn [bzip]. rewrite IH, Nat.eqb_refl. reflexivity. Qed.

  Lemma bzip_unit_axis pre n k rest :
    bzip (pre ++ n :: 1%nat :: rest) (pre ++ n :: k :: rest) = Some (pre ++ n :: k :: rest).
  Proof.
    induction pre as [|p pre IH].
    - cbn [app bzip]. rewrite bzip_refl.
      destruct (Nat.eqb 1 k) eqn:E; [apply Nat.eqb_eq in E; subst k|];
        cbn [Nat.eqb]; rewrite Nat.eqb_refl; reflexivity.
    - cbn [app bzip]. rewrite IH, Nat.eqb_refl. reflexivity.
  Qed.

  Lemma length_concat_const (l : list (list R)) m :
    Forall (fun c => length c = m) l -> length (concat l) = (length l * m)%nat.
  Proof.
    induction 1 as [|c r Hc _ IH]; [reflexivity|]. cbn [concat length]. rewrite app_length, Hc, IH. reflexivity.
  Qed.

  Lemma length_concat_repeat (c : list R) k : length (concat (repeat c k)) = (k * length c)%nat.
  Proof. induction k as [|k IH]; [reflexivity|]. cbn [repeat concat]. rewrite app_length, IH. reflexivity. Qed.

  Lemma rid_length s : forall a k (d : list R),
    length d = prod s -> (a < length s)%nat -> length (repeat_interleave_data s a k d) = (k * prod s)%nat.
  Proof.
    induction s as [|n s IH]; intros a k d H L; [cbn [length] in L; lia|].
    cbn [prod fold_right] in *. fold (prod s) in *.
    destruct a as [|a]; cbn [repeat_interleave_data].
    - rewrite flat_map_concat_map.
      rewrite (length_concat_const _ (k * prod s)).
      + rewrite map_length, chunks_length. lia.
      + apply Forall_map. eapply Forall_impl; [|apply chunks_lengths, H].
        intros c Hc. cbn beta. rewrite length_concat_repeat, Hc. reflexivity.
    - rewrite (length_concat_const _ (k * prod s)).
      + rewrite map_length, chunks_length. lia.
      + apply Forall_map. eapply Forall_impl; [|apply chunks_lengths, H].
        intros c Hc. cbn beta. apply IH; [exact Hc | cbn [length] in L; lia].
  Qed.

  (* (3b) RepeatInterleaveFusion, repaired guard: the new axis directly follows the repeated
     axis ([uaxis = axis + 1]) and Expand repeats only the new axis *)
  Theorem repeat_interleave_local pre n k rest (x : tensor) :
    t_shape x = pre ++ n :: rest -> wf x ->
    unsq_expand_reshape (S (length pre)) (pre ++ n :: k :: rest) (pre ++ (n * k)%nat :: rest) x
    = repeat_interleave (length pre) k x.
  Proof.
    intros HS W. destruct x as [xs xd]. cbn [t_shape] in HS. subst xs. unfold wf in W. cbn [t_shape t_data] in W.
    unfold unsq_expand_reshape, unsqueeze, repeat_interleave. cbn [t_shape t_data].
    assert (L1 : Nat.leb (S (length pre)) (length (pre ++ n :: rest)) = true).
    { apply Nat.leb_le. rewrite app_length. cbn [length]. lia. }
    assert (L2 : Nat.ltb (length pre) (length (pre ++ n :: rest)) = true).
    { apply Nat.ltb_lt. rewrite app_length. cbn [length]. lia. }
    rewrite L1, L2, insert_at_app, scale_dim_app.
    unfold expand. cbn [t_shape t_data]. unfold bshape.
    assert (LE : length (pre ++ n :: 1%nat :: rest) = length (pre ++ n :: k :: rest)).
    { rewrite !app_length. reflexivity. }
    rewrite LE, Nat.max_id, pad_self. rewrite <- LE at 1. rewrite pad_self, bzip_unit_axis.
    rewrite <- LE, pad_self. rewrite (expand_is_repeat_interleave pre n k rest xd W).
    unfold reshape. cbn [t_shape t_data].
    rewrite rid_length; [|exact W | rewrite app_length; cbn [length]; lia].
    assert (P : Nat.eqb (prod (pre ++ (n * k)%nat :: rest)) (k * prod (pre ++ n :: rest)) = true).
    { apply Nat.eqb_eq. rewrite !prod_app. cbn [prod fold_right]. fold (prod rest). ring. }
    rewrite P. reflexivity.
  Qed.
End RI.

(* ---------------------------------------------------------------- guards -> hypotheses *)
Open Scope Z_scope.

Lemma single_elem_ones cs : single_elem cs = true -> map Z.to_nat cs = repeat 1%nat (length cs).
Proof.
  induction cs as [|c r IH]; intros H; [reflexivity|]. cbn [single_elem forallb] in H.
  apply andb_true_iff in H. destruct H as [H1 H2]. apply Z.eqb_eq in H1. subst c.
  cbn [map length repeat]. f_equal. apply IH, H2.
Qed.

(* (3a) IdentityFusion: whenever the repaired guard's shape conditions hold (single-element
   constant that is_broadcast_neutral w.r.t. the other operand), removing the operator is
   correct for every x, for any operation f with neutral element z on that side *)
Theorem identity_fusion_local {R : Type} (f : R -> R -> R) (z : R) (x : tensor R) cshape xrank xknown :
  single_elem cshape = true -> rank_neutral cshape xrank xknown = true ->
  (xknown = true -> xrank = Z.of_nat (length (t_shape x))) -> wf x ->
  let c := {| t_shape := map Z.to_nat cshape; t_data := [z] |} in
  ((forall v, f v z = v) -> binop f x c = Some x) /\
  ((forall v, f z v = v) -> binop f c x = Some x).
Proof.
  intros SE RN XK W c. subst c. rewrite (single_elem_ones _ SE).
  assert (K : (length cshape <= length (t_shape x))%nat).
  { unfold rank_neutral, zlen in RN. apply orb_true_iff in RN. destruct RN as [RN|RN].
    - apply Z.eqb_eq in RN. lia.
    - apply andb_true_iff in RN. destruct RN as [K1 K2]. apply Z.leb_le in K2.
      specialize (XK K1). lia. }
  split; intros N.
  - apply (identity_right_local f z x _ N W K).
  - apply (identity_left_local f z x _ N W K).
Qed.

(* F9: the guard of the unchanged code accepts x:[3] + c:[1,1,1] (c = 0), but the sum has
   shape [1,1,3], not [3] *)
Theorem identity_fusion_local_refuted :
  exists (x : tensor Z) cshape,
    ident_guard_old OAdd SR (Fin 0 0) cshape true = true /\ wf x /\
    binop Z.add x {| t_shape := map Z.to_nat cshape; t_data := [0] |}
      = Some {| t_shape := [1; 1; 3]%nat; t_data := t_data x |} /\
    binop Z.add x {| t_shape := map Z.to_nat cshape; t_data := [0] |} <> Some x /\
    (* ... and the repaired guard rejects it *)
    ident_guard OAdd SR (Fin 0 0) cshape true 1 true = false.
Proof.
  exists {| t_shape := [3%nat]; t_data := [1; 2; 3] |}, [1; 1; 1].
  split; [reflexivity|]. split; [reflexivity|]. split; [vm_compute; reflexivity|].
  split; [vm_compute; discriminate | reflexivity].
Qed.

(* F10: the guard of the unchanged code (shapes only) accepts Unsqueeze(x,[0]) -> Expand([2,2])
   -> Reshape([4]) on x:[2], which TILES x, and rewrites it to RepeatInterleave(axis 0, 2) *)
Theorem repeat_interleave_local_refuted :
  exists (x : tensor Z) uaxis eshape oshape axis k,
    ri_guard_old [2] [4] = Some (axis, k) /\ wf x /\
    unsq_expand_reshape uaxis eshape oshape x = Some {| t_shape := [4%nat]; t_data := [1; 2; 1; 2] |} /\
    repeat_interleave (Z.to_nat axis) (Z.to_nat k) x = Some {| t_shape := [4%nat]; t_data := [1; 1; 2; 2] |} /\
    (* ... and the repaired guard rejects it *)
    ri_guard [2] (Z.of_nat uaxis) [2; 2] [4] = None.
Proof.
  exists {| t_shape := [2%nat]; t_data := [1; 2] |}, 0%nat, [2; 2]%nat, [4%nat], 0, 2.
  repeat split; vm_compute; reflexivity.
Qed.

(* the repaired RepeatInterleave guard implies the hypotheses of repeat_interleave_local *)
Lemma ri_guard_nonvacuous : ri_guard [2; 3] 1 [2; 2; 3] [4; 3] = Some (0, 2) /\ ri_guard [2; 3] 2 [2; 3; 2] [2; 6] = Some (1, 2).
Proof. split; reflexivity. Qed.
