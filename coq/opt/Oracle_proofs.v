(* C01 -- reflection of the executable differential oracle [prop_ok]. *)
From RV Require Import Prelude.
From Opt Require Import ModelC01.

(* what the property demands of the run under configuration k (0 = optimize, 1 = optimize +
   shape inference, 2 = optimize + strict inference) when the unoptimized run returned [base] *)
Definition run_spec (exact : bool) (base : list outT) (k : nat) (r : run) : Prop :=
  r = RSame \/ (exists o, r = ROk o /\ all2 (out_eq exact) base o = true) \/ (k = 2%nat /\ r = RLoadErr).

Lemma run_ok_spec exact base k r : run_ok exact base k r = true <-> run_spec exact base k r.
Proof.
  unfold run_spec. destruct r as [o| | | |]; cbn [run_ok]; split; intros H.
  - right. left. exists o. split; [reflexivity | exact H].
  - destruct H as [H|[(o' & E & H)|[_ H]]]; try discriminate. inversion E. subst. exact H.
  - left. reflexivity.
  - reflexivity.
  - right. right. apply Nat.eqb_eq in H. split; [exact H | reflexivity].
  - destruct H as [H|[(o' & E & _)|[H _]]]; try discriminate. apply Nat.eqb_eq. exact H.
  - discriminate.
  - destruct H as [H|[(o' & E & _)|[_ H]]]; discriminate.
  - discriminate.
  - destruct H as [H|[(o' & E & _)|[_ H]]]; discriminate.
Qed.

Lemma runs_ok_spec exact base rs : forall k0,
  runs_ok exact base k0 rs = true <->
  (forall k r, nth_error rs k = Some r -> run_spec exact base (k0 + k) r).
Proof.
  induction rs as [|r rest IH]; intros k0; cbn [runs_ok].
  - split; [intros _ k r H; destruct k; discriminate | reflexivity].
  - rewrite andb_true_iff, run_ok_spec, IH. split.
    + intros [H1 H2] k r' Hk. destruct k as [|k]; cbn [nth_error] in Hk.
      * inversion Hk. subst. rewrite Nat.add_0_r. exact H1.
      * replace (k0 + S k)%nat with (S k0 + k)%nat by lia. apply H2, Hk.
    + intros H. split.
      * specialize (H 0%nat r eq_refl). rewrite Nat.add_0_r in H. exact H.
      * intros k r' Hk. replace (S k0 + k)%nat with (k0 + S k)%nat by lia. apply H. exact Hk.
Qed.

Theorem prop_ok_reflects c :
  prop_ok c = true <->
  (forall base rest, c_runs c = ROk base :: rest ->
     forall k r, nth_error rest k = Some r -> run_spec (c_exact c) base k r) /\
  (forall rest, c_rand c = true :: rest -> forall v, In v rest -> v = true).
Proof.
  unfold prop_ok. rewrite andb_true_iff.
  assert (X : forall A B C D : Prop, (A <-> B) -> (C <-> D) -> (A /\ C <-> B /\ D)) by tauto.
  apply X.
  - unfold diff_ok. destruct (c_runs c) as [|[base| | | |] rest]; split; intros H; try reflexivity;
      try (intros b r E; discriminate).
    + intros b r E k r' Hk. inversion E. subst. apply (proj1 (runs_ok_spec _ _ _ 0%nat) H k r' Hk).
    + apply (runs_ok_spec _ _ _ 0%nat). intros k r' Hk. apply (H base rest eq_refl k r' Hk).
  - unfold rand_ok. destruct (c_rand c) as [|[|] rest]; split; intros H; try reflexivity;
      try (intros r E; discriminate).
    + intros r E v Hv. inversion E. subst. rewrite forallb_forall in H. apply H, Hv.
    + apply forallb_forall. intros v Hv. apply (H rest eq_refl v Hv).
Qed.
