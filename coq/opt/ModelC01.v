(* C01 -- executable guard models of the modelled fusions (src/optimize/fusions.rs,
   pattern_matcher.rs), the end-to-end differential oracle, and the correspondence case record.
   Definitions only. *)
From RV Require Import Prelude.
Open Scope Z_scope.

(* ---- exact encoding of f32 / integer element values printed by the harness ----
   [Fin m e] = m * 2^e with m odd (or m = 0, e = 0); -0.0 is printed as zero. *)
Inductive fval := Fin (m e : Z) | PInf | NInf | FNaN.
Inductive kind := KFloat | KInt | KI8 | KU8 | KOther.
Definition outT := (kind * list Z * list fval)%type.
(* outcome of load + run under one configuration; [RSame] = Ok with outputs bit-identical to the
   baseline run (printed that way by the harness to keep the cases small) *)
(* the baseline outputs are elided (printed as [ROk []]) when every other configuration is RSame or
   failed: they are then not needed by the oracle (every generated graph has >= 1 output) *)
Inductive run := ROk (o : list outT) | RSame | RLoadErr | RRunErr | RPanic.

Inductive bop := OAdd | OSub | OMul | ODiv | OIdent.
Inductive side := SL | SR.
Inductive focus :=
| FNone
  (* x (op) c, constant on side [s] with value [c], shape [cshape], float?; rank of x, known? *)
| FIdentity (op : bop) (s : side) (c : fval) (cshape : list Z) (cfloat : bool) (xrank : Z) (xknown : bool)
  (* Add(MatMul(a,b), bias): bias constant?, bias shape; MatMul output reused / graph output *)
| FMatMulAdd (bias_const : bool) (bias_shape : list Z) (reuse io : bool)
  (* MatMul(Transpose(x), ..): a Transpose output reused / graph output *)
| FTranspose (reuse io : bool)
  (* Reshape(Expand(Unsqueeze(x, [uaxis]), ..), ..): shape of x, unsqueeze axis, shape after
     Expand, shape after Reshape; intermediate reused / graph output *)
| FRepeat (inshape : list Z) (uaxis : Z) (eshape oshape : list Z) (reuse io : bool).

(* c_rand: per configuration, did two consecutive runs of the loaded model produce different
   values for the results of the graph's random operators ([] when there is none) *)
Record case := { c_exact : bool; c_focus : focus; c_fired : bool; c_runs : list run; c_rand : list bool }.

(* ---------------------------------------------------------------- guards *)
Definition zlen (s : list Z) : Z := Z.of_nat (length s).
Definition single_elem (s : list Z) : bool := forallb (Z.eqb 1) s.
Definition is_zero (c : fval) : bool := match c with Fin 0 _ => true | _ => false end.
Definition is_one (c : fval) : bool := match c with Fin 1 0 => true | _ => false end.
Definition ident_value_ok (op : bop) (c : fval) : bool :=
  match op with OAdd | OSub => is_zero c | OMul | ODiv => is_one c | OIdent => true end.
Definition ident_pos_ok (op : bop) (s : side) : bool :=
  match op, s with OSub, SL => false | ODiv, SL => false | _, _ => true end.

(* IdentityFusion as written before the F9 fix: ConstantPattern::matches uses item(), i.e. ANY
   single-element float constant of the exact value matches *)
Definition ident_guard_old (op : bop) (s : side) (c : fval) (cshape : list Z) (cfloat : bool) : bool :=
  match op with
  | OIdent => true
  | _ => cfloat && single_elem cshape && ident_value_ok op c && ident_pos_ok op s
  end.
(* is_broadcast_neutral: rank 0, or rank <= the known rank of the other operand *)
Definition rank_neutral (cshape : list Z) (xrank : Z) (xknown : bool) : bool :=
  (zlen cshape =? 0) || (xknown && (zlen cshape <=? xrank)).
(* IdentityFusion after the fix *)
Definition ident_guard (op : bop) (s : side) (c : fval) (cshape : list Z) (cfloat : bool) (xrank : Z) (xknown : bool) : bool :=
  match op with
  | OIdent => true
  | _ => ident_guard_old op s c cshape cfloat && rank_neutral cshape xrank xknown
  end.

(* the guards of GraphMutator::apply_fusion *)
Definition mutator_guards (reuse io : bool) : bool := negb reuse && negb io.

Definition matmul_add_guard (bias_const : bool) (bias_shape : list Z) (reuse io : bool) : bool :=
  bias_const && (zlen bias_shape =? 1) && mutator_guards reuse io.
Definition transpose_guard (reuse io : bool) : bool := mutator_guards reuse io.

(* RepeatInterleaveFusion: the axis on which input and output shapes differ, and the repeat count *)
Fixpoint ri_axis (i : Z) (ins outs : list Z) : option (option (Z * Z)) :=
  (* None = check failed; Some None = no axis differs; Some (Some (axis, repeats)) *)
  match ins, outs with
  | [], [] => Some None
  | a :: ir, b :: or_ =>
      match ri_axis (i + 1) ir or_ with
      | None => None
      | Some rest =>
          if a =? b then Some rest
          else match rest with
               | Some _ => None                       (* multiple axes repeated *)
               | None => if (if a =? 0 then b =? 0 else b mod a =? 0)
                         then Some (Some (i, if a =? 0 then 0 else b / a)) else None
               end
      end
  | _, _ => None                                        (* in rank != out rank *)
  end.
Definition ri_guard_old (ins outs : list Z) : option (Z * Z) :=
  match ri_axis 0 ins outs with Some (Some ar) => Some ar | _ => None end.
Fixpoint zinsert (k : Z) (n : nat) (x : Z) (s : list Z) : list Z :=
  match n, s with
  | O, _ => x :: s
  | S n', y :: r => y :: zinsert k n' x r
  | S _, [] => [x]
  end.
Fixpoint zlist_eqb (a b : list Z) : bool :=
  match a, b with
  | [], [] => true
  | x :: ar, y :: br => (x =? y) && zlist_eqb ar br
  | _, _ => false
  end.
(* after the F10 fix: the new axis directly follows the repeated axis and Expand repeats only it *)
Definition ri_guard (ins : list Z) (uaxis : Z) (eshape outs : list Z) : option (Z * Z) :=
  match ri_guard_old ins outs with
  | Some (axis, k) =>
      if (uaxis =? axis + 1) && zlist_eqb eshape (zinsert 0 (Z.to_nat (axis + 1)) k ins)
      then Some (axis, k) else None
  | None => None
  end.

Definition guard_of (f : focus) : bool :=
  match f with
  | FNone => false
  | FIdentity op s c cs cf xr xk => ident_guard op s c cs cf xr xk
  | FMatMulAdd bc bs r io => matmul_add_guard bc bs r io
  | FTranspose r io => transpose_guard r io
  | FRepeat ins ua es os r io =>
      match ri_guard ins ua es os with Some _ => mutator_guards r io | None => false end
  end.
Definition agree (c : case) : bool :=
  match c_focus c with FNone => true | f => Bool.eqb (guard_of f) (c_fired c) end.

(* ---------------------------------------------------------------- differential oracle *)
Definition kind_eqb (a b : kind) : bool :=
  match a, b with
  | KFloat, KFloat | KInt, KInt | KI8, KI8 | KU8, KU8 | KOther, KOther => true
  | _, _ => false
  end.
(* tolerance 2^-11 * (1 + max(|a|,|b|)), evaluated exactly in units of 2^emin *)
Definition approx (m1 e1 m2 e2 : Z) : bool :=
  let emin := Z.min 0 (Z.min e1 e2) in
  let a := m1 * 2 ^ (e1 - emin) in
  let b := m2 * 2 ^ (e2 - emin) in
  let one := 2 ^ (- emin) in
  Z.abs (a - b) * 2048 <=? one + Z.max (Z.abs a) (Z.abs b).
Definition close (exact : bool) (k : kind) (a b : fval) : bool :=
  match a, b with
  | FNaN, FNaN | PInf, PInf | NInf, NInf => true
  | Fin m1 e1, Fin m2 e2 =>
      if ((m1 =? m2) && (e1 =? e2)) || ((m1 =? 0) && (m2 =? 0)) then true
      else if exact then false
      else match k with KFloat => approx m1 e1 m2 e2 | _ => false end
  | _, _ => false
  end.
Fixpoint all2 {A} (f : A -> A -> bool) (a b : list A) : bool :=
  match a, b with
  | [], [] => true
  | x :: ar, y :: br => f x y && all2 f ar br
  | _, _ => false
  end.
Definition out_eq (exact : bool) (a b : outT) : bool :=
  let '(ka, sa, va) := a in
  let '(kb, sb, vb) := b in
  kind_eqb ka kb && zlist_eqb sa sb && all2 (close exact ka) va vb.
(* configurations after the baseline: 0 = optimize+no inference, 1 = optimize+inference,
   2 = optimize+strict inference (which may, by design, refuse to load) *)
Definition run_ok (exact : bool) (base : list outT) (k : nat) (r : run) : bool :=
  match r with
  | RSame => true
  | ROk o => all2 (out_eq exact) base o
  | RLoadErr => Nat.eqb k 2
  | RRunErr | RPanic => false
  end.
Fixpoint runs_ok (exact : bool) (base : list outT) (k : nat) (rs : list run) : bool :=
  match rs with
  | [] => true
  | r :: rest => run_ok exact base k r && runs_ok exact base (S k) rest
  end.
(* "optimization may only turn a failing run into a successful one": nothing is required when
   the unoptimized run fails *)
Definition diff_ok (c : case) : bool :=
  match c_runs c with
  | ROk base :: rest => runs_ok (c_exact c) base 0 rest
  | _ => true
  end.
(* a random operator that varies from run to run in the unoptimized model must still vary in
   every optimized configuration (it must not have been folded into a constant) *)
Definition rand_ok (c : case) : bool :=
  match c_rand c with
  | true :: rest => forallb (fun v => v) rest
  | _ => true
  end.
Definition prop_ok (c : case) : bool := diff_ok c && rand_ok c.
Definition show (c : case) := (guard_of (c_focus c), c_fired c, prop_ok c).
