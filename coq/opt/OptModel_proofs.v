(* C01 -- soundness of graph rewriting over the abstract graph language of OptModel.v. *)
From RV Require Import Prelude.
From Opt Require Import OptModel.

Section Proofs.
  Context {val opname rnd : Type}.
  Variable sem : opname -> rnd -> list val -> option (list val).
  Notation node := (@node opname).
  Notation env := (@env val).
  Notation graph := (@graph opname).
  Notation exec_node := (exec_node sem).
  Notation exec := (exec sem).
  Notation eval := (eval sem).

  (* ---------------------------------------------------------------- basic facts *)
  Lemma mem_In x l : mem x l = true <-> In x l.
  Proof.
    unfold mem. rewrite existsb_exists. split.
    - intros [y [Hy E]]. apply N.eqb_eq in E. subst. exact Hy.
    - intros H. exists x. split; [exact H | apply N.eqb_refl].
  Qed.
  Lemma mem_false x l : mem x l = false <-> ~ In x l.
  Proof.
    split.
    - intros H HI. apply mem_In in HI. congruence.
    - intros H. destruct (mem x l) eqn:E; [|reflexivity]. apply mem_In in E. contradiction.
  Qed.

  Lemma lookup_bind_notin x xs vs (e : env) : ~ In x xs -> lookup x (bind xs vs e) = lookup x e.
  Proof.
    revert vs. induction xs as [|y xr IH]; intros vs H; [reflexivity|].
    destruct vs as [|v vr]; [reflexivity|]. cbn [bind lookup].
    destruct (N.eqb x y) eqn:E.
    - apply N.eqb_eq in E. subst. exfalso. apply H. left. reflexivity.
    - apply IH. intros HI. apply H. right. exact HI.
  Qed.

  Lemma lookup_bind_congr (P : id -> Prop) xs vs (e e' : env) :
    (forall x, P x -> lookup x e' = lookup x e) ->
    forall x, P x -> lookup x (bind xs vs e') = lookup x (bind xs vs e).
  Proof.
    intros H. revert vs. induction xs as [|y xr IH]; intros vs x Px; [apply H, Px|].
    destruct vs as [|v vr]; [apply H, Px|]. cbn [bind lookup].
    destruct (N.eqb x y); [reflexivity | apply IH, Px].
  Qed.

  Lemma bound_bind_mono x xs vs (e : env) : bound x e = true -> bound x (bind xs vs e) = true.
  Proof.
    revert vs. induction xs as [|y xr IH]; intros vs H; [exact H|].
    destruct vs as [|v vr]; [exact H|]. unfold bound. cbn [bind lookup].
    destruct (N.eqb x y); [reflexivity|]. apply IH. exact H.
  Qed.

  Lemma bound_bind_inv x xs vs (e e' : env) :
    (bound x e' = true -> bound x e = true) ->
    bound x (bind xs vs e') = true -> bound x (bind xs vs e) = true.
  Proof.
    intros H. revert vs. induction xs as [|y xr IH]; intros vs; [exact H|].
    destruct vs as [|v vr]; [exact H|]. unfold bound. cbn [bind lookup].
    destruct (N.eqb x y); [reflexivity|]. apply IH.
  Qed.

  Lemma lookups_ext xs (e1 e2 : env) :
    (forall x, In x xs -> lookup x e1 = lookup x e2) -> lookups xs e1 = lookups xs e2.
  Proof.
    induction xs as [|x r IH]; intros H; [reflexivity|]. cbn [lookups].
    rewrite (H x (or_introl eq_refl)), IH; [reflexivity|].
    intros y Hy. apply H. right. exact Hy.
  Qed.

  Lemma lookups_bound xs (e : env) vs : lookups xs e = Some vs -> forall x, In x xs -> bound x e = true.
  Proof.
    revert vs. induction xs as [|y r IH]; intros vs H x Hx; [destruct Hx|].
    cbn [lookups] in H. destruct (lookup y e) eqn:E; [|discriminate].
    destruct (lookups r e) eqn:E2; [|discriminate].
    destruct Hx as [->|Hx]; [unfold bound; rewrite E; reflexivity | eapply IH; eauto].
  Qed.

  Lemma lookups_length xs (e : env) vs : lookups xs e = Some vs -> length vs = length xs.
  Proof.
    revert vs. induction xs as [|y r IH]; intros vs H; cbn [lookups] in H.
    - inversion H. reflexivity.
    - destruct (lookup y e); [|discriminate]. destruct (lookups r e) eqn:E; [|discriminate].
      inversion H. cbn [length]. f_equal. apply IH. reflexivity.
  Qed.

  Lemma fresh_all_spec xs (e : env) :
    fresh_all xs e = true -> (forall x, In x xs -> bound x e = false) /\ nodupb xs = true.
  Proof.
    unfold fresh_all. intros H. apply andb_true_iff in H. destruct H as [H1 H2]. split; [|exact H2].
    intros x Hx. rewrite forallb_forall in H1. specialize (H1 x Hx). apply negb_true_iff in H1. exact H1.
  Qed.

  Lemma fresh_all_mono xs (e e' : env) :
    (forall x, bound x e' = true -> bound x e = true) -> fresh_all xs e = true -> fresh_all xs e' = true.
  Proof.
    intros H F. unfold fresh_all in *. apply andb_true_iff in F. destruct F as [F1 F2].
    apply andb_true_iff. split; [|exact F2]. rewrite forallb_forall in *. intros x Hx.
    specialize (F1 x Hx). apply negb_true_iff in F1. apply negb_true_iff.
    destruct (bound x e') eqn:E; [|reflexivity]. apply H in E. congruence.
  Qed.

  Lemma lookups_bind_stable xs os ws (e : env) vs :
    lookups xs e = Some vs -> (forall o, In o os -> bound o e = false) -> lookups xs (bind os ws e) = Some vs.
  Proof.
    intros H F. rewrite <- H. apply lookups_ext. intros x Hx. apply lookup_bind_notin.
    intros HI. pose proof (lookups_bound _ _ _ H x Hx) as B. rewrite (F x HI) in B. discriminate.
  Qed.

  Lemma lookups_bind_self os ws (e : env) :
    nodupb os = true -> length ws = length os -> lookups os (bind os ws e) = Some ws.
  Proof.
    revert ws. induction os as [|o r IH]; intros ws ND L.
    - destruct ws; [reflexivity | discriminate].
    - destruct ws as [|w wr]; [discriminate|]. cbn [nodupb] in ND. apply andb_true_iff in ND.
      destruct ND as [N1 N2]. apply negb_true_iff in N1. apply mem_false in N1.
      cbn [bind lookups lookup]. rewrite N.eqb_refl.
      assert (E : lookups r ((o, w) :: bind r wr e) = lookups r (bind r wr e)).
      { apply lookups_ext. intros x Hx. cbn [lookup]. destruct (N.eqb x o) eqn:Eq; [|reflexivity].
        apply N.eqb_eq in Eq. subst. contradiction. }
      rewrite E, IH; [reflexivity | exact N2 | inversion L; reflexivity].
  Qed.

  Lemma exec_app r ns1 ns2 (e : env) :
    exec r (ns1 ++ ns2) e = match exec r ns1 e with Some e1 => exec r ns2 e1 | None => None end.
  Proof.
    revert e. induction ns1 as [|n r1 IH]; intros e; [reflexivity|]. cbn [app OptModel.exec].
    destruct (exec_node r n e); [apply IH | reflexivity].
  Qed.

  (* what a successful node execution looks like *)
  Lemma exec_node_inv r n (e e1 : env) :
    exec_node r n e = Some e1 ->
    exists vs ws, lookups (n_ins n) e = Some vs /\ sem (n_op n) r vs = Some ws /\
                  length ws = length (n_outs n) /\ fresh_all (n_outs n) e = true /\
                  e1 = bind (n_outs n) ws e.
  Proof.
    unfold OptModel.exec_node. intros H.
    destruct (lookups (n_ins n) e) as [vs|] eqn:E1; [|discriminate].
    destruct (sem (n_op n) r vs) as [ws|] eqn:E2; [|discriminate].
    destruct (Nat.eqb (length ws) (length (n_outs n)) && fresh_all (n_outs n) e) eqn:E3; [|discriminate].
    apply andb_true_iff in E3. destruct E3 as [L F]. apply Nat.eqb_eq in L.
    inversion H. exists vs, ws. repeat split; assumption.
  Qed.

  (* ---------------------------------------------------------------- consistency *)
  (* an environment is consistent with a node when it binds the node's inputs and outputs to
     values related by the operator's meaning *)
  Definition consistent (r : rnd) (e : env) (n : node) : Prop :=
    exists vs ws, lookups (n_ins n) e = Some vs /\ sem (n_op n) r vs = Some ws /\
                  lookups (n_outs n) e = Some ws.

  Lemma exec_node_consistent r n (e e1 : env) : exec_node r n e = Some e1 -> consistent r e1 n.
  Proof.
    intros H. apply exec_node_inv in H. destruct H as (vs & ws & I & S & L & F & ->).
    apply fresh_all_spec in F. destruct F as [F ND].
    exists vs, ws. split; [|split; [exact S|]].
    - apply lookups_bind_stable; assumption.
    - apply lookups_bind_self; assumption.
  Qed.

  Lemma consistent_step r m n (e e1 : env) :
    consistent r e n -> exec_node r m e = Some e1 -> consistent r e1 n.
  Proof.
    intros (vs & ws & I & S & O) H. apply exec_node_inv in H.
    destruct H as (vs' & ws' & _ & _ & _ & F & ->). apply fresh_all_spec in F. destruct F as [F _].
    exists vs, ws. split; [|split; [exact S|]]; apply lookups_bind_stable; assumption.
  Qed.

  Lemma consistent_exec r ns n (e e1 : env) :
    consistent r e n -> exec r ns e = Some e1 -> consistent r e1 n.
  Proof.
    revert e. induction ns as [|m rest IH]; intros e C H; cbn [OptModel.exec] in H.
    - inversion H. subst. exact C.
    - destruct (exec_node r m e) as [e2|] eqn:E; [|discriminate].
      eapply IH; [eapply consistent_step; eauto | exact H].
  Qed.

  Lemma exec_consistent r ns (e e1 : env) :
    exec r ns e = Some e1 -> forall n, In n ns -> consistent r e1 n.
  Proof.
    revert e. induction ns as [|m rest IH]; intros e H n Hn; [destruct Hn|].
    cbn [OptModel.exec] in H. destruct (exec_node r m e) as [e2|] eqn:E; [|discriminate].
    destruct Hn as [->|Hn].
    - eapply consistent_exec; [eapply exec_node_consistent; eauto | exact H].
    - eapply IH; eauto.
  Qed.

  (* ---------------------------------------------------------------- simulation *)
  (* e' is the environment of the rewritten graph: it agrees with e outside the removed
     intermediate ids I and binds nothing that e does not bind *)
  Definition sim (I : list id) (e e' : env) : Prop :=
    (forall x, ~ In x I -> lookup x e' = lookup x e) /\ (forall x, bound x e' = true -> bound x e = true).

  Lemma sim_refl I (e : env) : sim I e e.
  Proof. split; intros; [reflexivity | assumption]. Qed.

  Lemma sim_lookups I xs (e e' : env) :
    sim I e e' -> (forall x, In x xs -> ~ In x I) -> lookups xs e' = lookups xs e.
  Proof. intros [S _] H. apply lookups_ext. intros x Hx. apply S, H, Hx. Qed.

  Lemma sim_step_kept I r n (e e' e1 : env) :
    sim I e e' -> (forall i, In i (n_ins n) -> ~ In i I) -> exec_node r n e = Some e1 ->
    exists e1', exec_node r n e' = Some e1' /\ sim I e1 e1'.
  Proof.
    intros S HI H. pose proof S as [S1 S2]. apply exec_node_inv in H.
    destruct H as (vs & ws & I1 & Sm & L & F & ->).
    exists (bind (n_outs n) ws e'). split.
    - unfold OptModel.exec_node. rewrite (sim_lookups I _ _ _ S HI), I1, Sm.
      rewrite (proj2 (Nat.eqb_eq _ _) L). rewrite (fresh_all_mono _ _ _ S2 F). reflexivity.
    - split.
      + apply (lookup_bind_congr (fun x => ~ In x I)). exact S1.
      + intros x. apply bound_bind_inv. apply S2.
  Qed.

  Lemma sim_step_removed I r n (e e' e1 : env) :
    sim I e e' -> (forall o, In o (n_outs n) -> In o I) -> exec_node r n e = Some e1 -> sim I e1 e'.
  Proof.
    intros [S1 S2] HO H. apply exec_node_inv in H. destruct H as (vs & ws & _ & _ & _ & _ & ->). split.
    - intros x Hx. rewrite lookup_bind_notin; [apply S1, Hx|]. intros HI. apply Hx, HO, HI.
    - intros x Hb. apply bound_bind_mono. apply S2, Hb.
  Qed.

  Lemma sim_exec_kept I r ns : forall (e e' e1 : env),
    sim I e e' -> (forall n, In n ns -> forall i, In i (n_ins n) -> ~ In i I) -> exec r ns e = Some e1 ->
    exists e1', exec r ns e' = Some e1' /\ sim I e1 e1'.
  Proof.
    induction ns as [|n rest IH]; intros e e' e1 S H E; cbn [OptModel.exec] in *.
    - inversion E. subst. exists e'. split; [reflexivity | exact S].
    - destruct (exec_node r n e) as [e2|] eqn:E2; [|discriminate].
      destruct (sim_step_kept I r n e e' e2 S (H n (or_introl eq_refl)) E2) as (e2' & X & S').
      rewrite X. eapply IH; eauto. intros m Hm. apply H. right. exact Hm.
  Qed.

  Lemma sim_exec_filter I r (sel : node -> bool) A : forall (e e' e1 : env),
    sim I e e' ->
    (forall n, In n A -> sel n = true -> forall o, In o (n_outs n) -> In o I) ->
    (forall n, In n A -> sel n = false -> forall i, In i (n_ins n) -> ~ In i I) ->
    exec r A e = Some e1 ->
    exists e1', exec r (filter (unsel sel) A) e' = Some e1' /\ sim I e1 e1'.
  Proof.
    induction A as [|n rest IH]; intros e e' e1 S H1 H2 E; cbn [OptModel.exec filter] in *.
    - inversion E. subst. exists e'. split; [reflexivity | exact S].
    - destruct (exec_node r n e) as [e2|] eqn:E2; [|discriminate]. unfold unsel at 1.
      destruct (sel n) eqn:Sn; cbn [negb].
      + apply (IH e2 e' e1); auto.
        * eapply sim_step_removed; eauto. apply H1; [left; reflexivity | exact Sn].
        * intros m Hm. apply H1. right. exact Hm.
        * intros m Hm. apply H2. right. exact Hm.
      + destruct (sim_step_kept I r n e e' e2 S (H2 n (or_introl eq_refl) Sn) E2) as (e2' & X & S').
        cbn [OptModel.exec]. rewrite X. apply (IH e2 e2' e1); auto.
        * intros m Hm. apply H1. right. exact Hm.
        * intros m Hm. apply H2. right. exact Hm.
  Qed.

  (* ---------------------------------------------------------------- guards, as propositions *)
  Lemma in_inter_outs (sel : node -> bool) A n o :
    In n A -> sel n = true -> In o (n_outs n) -> In o (inter_outs sel A).
  Proof.
    intros Hn Sn Ho. unfold inter_outs. apply in_flat_map. exists n. split; [|exact Ho].
    apply filter_In. split; assumption.
  Qed.

  Lemma guard_reuse_spec (sel : node -> bool) A B :
    guard_reuse sel A B = true ->
    forall n, In n (filter (unsel sel) A ++ B) -> forall i, In i (n_ins n) -> ~ In i (inter_outs sel A).
  Proof.
    unfold guard_reuse. rewrite forallb_forall. intros G n Hn i Hi HI.
    specialize (G i HI). apply negb_true_iff in G. unfold uses in G.
    assert (X : existsb (fun n0 : node => mem i (n_ins n0)) (filter (unsel sel) A ++ B) = true).
    { apply existsb_exists. exists n. split; [exact Hn | apply mem_In, Hi]. }
    congruence.
  Qed.

  Lemma guard_notin_spec l I :
    forallb (fun o => negb (mem o l)) I = true -> forall x, In x l -> ~ In x I.
  Proof.
    rewrite forallb_forall. intros G x Hx HI. specialize (G x HI). apply negb_true_iff in G.
    apply mem_false in G. contradiction.
  Qed.

  Lemma ids_eqb_eq a b : ids_eqb a b = true -> a = b.
  Proof.
    revert b. induction a as [|x ar IH]; intros [|y br] H; cbn [ids_eqb] in H; try discriminate; [reflexivity|].
    apply andb_true_iff in H. destruct H as [H1 H2]. apply N.eqb_eq in H1. subst. f_equal. apply IH, H2.
  Qed.

  (* ---------------------------------------------------------------- local equivalence *)
  (* R is locally equivalent to the sub-DAG S ++ [root]: in every environment that is consistent
     with all the fused nodes (i.e. whenever the sub-DAG evaluates), R maps its inputs to the
     root's outputs *)
  Definition local_equiv (r : rnd) (S : list node) (root R : node) : Prop :=
    forall e : env, (forall s, In s S -> consistent r e s) -> consistent r e root ->
      exists vs ws, lookups (n_ins R) e = Some vs /\ sem (n_op R) r vs = Some ws /\
                    lookups (n_outs root) e = Some ws.

  (* ---------------------------------------------------------------- (1) rewrite_sound *)
  Theorem rewrite_sound (r : rnd) (sel : node -> bool) (A B : list node) (root R : node) (g : graph) (e0 : env) res :
    g_nodes g = A ++ root :: B ->
    fusion_guards sel A root R B g = true ->
    local_equiv r (filter sel A) root R ->
    eval r g e0 = Some res ->
    eval r (fuse sel A root R B g) e0 = Some res /\ g_outs (fuse sel A root R B g) = g_outs g.
  Proof.
    intros HG G LE EV. split; [|reflexivity].
    unfold fusion_guards in G. repeat (apply andb_true_iff in G; destruct G as [G ?]).
    rename H into Grepl, H0 into Gcap, H1 into Gout, G into Greuse.
    unfold repl_ok in Grepl. apply andb_true_iff in Grepl. destruct Grepl as [Gins Gouts].
    apply ids_eqb_eq in Gouts.
    set (I := inter_outs sel A) in *.
    assert (RinsI : forall i, In i (n_ins R) -> ~ In i I /\ ~ In i (n_outs root)).
    { intros i Hi. rewrite forallb_forall in Gins. specialize (Gins i Hi).
      apply andb_true_iff in Gins. destruct Gins as [X Y]. apply negb_true_iff in X, Y.
      split; apply mem_false; assumption. }
    pose proof (guard_reuse_spec sel A B Greuse) as Kept.
    unfold OptModel.eval in *. rewrite HG in EV. rewrite exec_app in EV.
    destruct (exec r A e0) as [eA|] eqn:EA; [|discriminate]. cbn [OptModel.exec] in EV.
    destruct (exec_node r root eA) as [eR|] eqn:ER; [|discriminate].
    destruct (exec r B eR) as [ef|] eqn:EB; [|discriminate].
    (* run of the kept prefix *)
    destruct (sim_exec_filter I r sel A e0 e0 eA (sim_refl I e0)) as (eA' & XA & SA); auto.
    { intros n Hn Sn o Ho. eapply in_inter_outs; eauto. }
    { intros n Hn Sn. apply Kept. apply in_or_app. left. apply filter_In. split; [exact Hn|].
      unfold unsel. rewrite Sn. reflexivity. }
    (* consistency of every fused node after the root has run *)
    assert (CA : forall s, In s (filter sel A) -> consistent r eR s).
    { intros s Hs. apply filter_In in Hs. destruct Hs as [Hs _].
      apply (consistent_step r root s eA eR); [apply (exec_consistent r A e0 eA EA s Hs) | exact ER]. }
    pose proof (exec_node_consistent r root eA eR ER) as CR.
    destruct (LE eR CA CR) as (vs & ws & LI & SR & LO).
    (* the replacement runs in the rewritten graph and produces the root's values *)
    pose proof ER as ER'. apply exec_node_inv in ER'.
    destruct ER' as (vs0 & ws0 & I0 & S0 & L0 & F0 & ->).
    pose proof (fresh_all_spec _ _ F0) as [F0a F0b].
    assert (Ews : ws = ws0).
    { rewrite (lookups_bind_self _ _ eA F0b L0) in LO. inversion LO. reflexivity. }
    subst ws0.
    assert (LIA : lookups (n_ins R) eA' = Some vs).
    { rewrite (sim_lookups I _ _ _ SA); [|intros x Hx; apply RinsI, Hx].
      rewrite <- LI. symmetry. apply lookups_ext. intros x Hx. apply lookup_bind_notin. apply RinsI, Hx. }
    assert (XR : exec_node r R eA' = Some (bind (n_outs root) ws eA')).
    { unfold OptModel.exec_node. rewrite LIA, SR, Gouts, (proj2 (Nat.eqb_eq _ _) L0).
      rewrite (fresh_all_mono _ _ _ (proj2 SA) F0). reflexivity. }
    assert (SR' : sim I (bind (n_outs root) ws eA) (bind (n_outs root) ws eA')).
    { destruct SA as [S1 S2]. split.
      - apply (lookup_bind_congr (fun x => ~ In x I)). exact S1.
      - intros x. apply bound_bind_inv. apply S2. }
    destruct (sim_exec_kept I r B _ _ ef SR') as (ef' & XB & SF); auto.
    { intros n Hn. apply Kept. apply in_or_app. right. exact Hn. }
    unfold fuse, fuse_nodes. cbn [g_nodes g_outs g_caps observed].
    rewrite exec_app, XA. cbn [OptModel.exec]. rewrite XR, XB.
    rewrite <- EV. unfold observed. apply (sim_lookups I); [exact SF|].
    intros x Hx. apply in_app_or in Hx. destruct Hx as [Hx|Hx].
    - exact (guard_notin_spec _ _ Gout x Hx).
    - exact (guard_notin_spec _ _ Gcap x Hx).
  Qed.

  (* ---------------------------------------------------------------- replace_value *)
  (* Fusion::Identity (output not observed) and Fusion::Constant: the sub-DAG is removed and
     every later use of its single output [old] reads [new] instead *)
  Definition rename_graph (sel : node -> bool) (A B : list node) (old new : id) (g : graph) : graph :=
    {| g_nodes := rename_nodes sel A B old new; g_outs := g_outs g; g_caps := g_caps g |}.

  Definition rename_guards (sel : node -> bool) (A B : list node) (root : node) (old new : id) (g : graph) : bool :=
    guard_reuse sel A B && guard_output sel A (g_outs g) && guard_capture sel A (g_caps g)
    && ids_eqb (n_outs root) [old] && negb (mem old (observed g))
    && negb (mem new (inter_outs sel A)) && negb (N.eqb new old).

  Definition local_alias (r : rnd) (S : list node) (root : node) (old new : id) : Prop :=
    forall e : env, (forall s, In s S -> consistent r e s) -> consistent r e root ->
      lookup new e = lookup old e.

  Definition rsim (I : list id) (old new : id) (e e' : env) : Prop :=
    (forall x, ~ In x (old :: I) -> lookup x e' = lookup x e) /\
    (forall x, bound x e' = true -> bound x e = true) /\
    lookup new e' = lookup old e /\ bound old e = true.

  Lemma rsim_lookups I old new xs (e e' : env) :
    rsim I old new e e' -> (forall x, In x xs -> ~ In x I) ->
    lookups (map (subst old new) xs) e' = lookups xs e.
  Proof.
    intros (S1 & _ & S3 & _) H. induction xs as [|x r IH]; [reflexivity|].
    cbn [map lookups]. rewrite IH by (intros y Hy; apply H; right; exact Hy).
    unfold subst at 1. destruct (N.eqb x old) eqn:E.
    - apply N.eqb_eq in E. subst x. rewrite S3. reflexivity.
    - rewrite S1; [reflexivity|]. intros [HI|HI].
      + subst x. rewrite N.eqb_refl in E. discriminate.
      + apply (H x (or_introl eq_refl)), HI.
  Qed.

  Lemma rsim_step I old new r n (e e' e1 : env) :
    rsim I old new e e' -> (forall i, In i (n_ins n) -> ~ In i I) -> exec_node r n e = Some e1 ->
    exists e1', exec_node r (subst_node old new n) e' = Some e1' /\ rsim I old new e1 e1'.
  Proof.
    intros S HI H. pose proof S as (S1 & S2 & S3 & S4). apply exec_node_inv in H.
    destruct H as (vs & ws & I1 & Sm & L & F & ->).
    pose proof (fresh_all_spec _ _ F) as [Fa _].
    exists (bind (n_outs n) ws e'). split.
    - unfold OptModel.exec_node. cbn [subst_node n_ins n_op n_outs].
      rewrite (rsim_lookups I old new _ _ _ S HI), I1, Sm.
      rewrite (proj2 (Nat.eqb_eq _ _) L). rewrite (fresh_all_mono _ _ _ S2 F). reflexivity.
    - split; [|split; [|split]].
      + apply (lookup_bind_congr (fun x => ~ In x (old :: I))). exact S1.
      + intros x. apply bound_bind_inv. apply S2.
      + assert (Oo : ~ In old (n_outs n)).
        { intros HI'. rewrite (Fa old HI') in S4. discriminate. }
        assert (On : ~ In new (n_outs n)).
        { intros HI'. assert (B : bound new e' = true).
          { unfold bound. rewrite S3. unfold bound in S4. destruct (lookup old e); [reflexivity | discriminate]. }
          apply S2 in B. rewrite (Fa new HI') in B. discriminate. }
        rewrite !lookup_bind_notin by assumption. exact S3.
      + apply bound_bind_mono. exact S4.
  Qed.

  Lemma rsim_exec I old new r ns : forall (e e' e1 : env),
    rsim I old new e e' -> (forall n, In n ns -> forall i, In i (n_ins n) -> ~ In i I) ->
    exec r ns e = Some e1 ->
    exists e1', exec r (map (subst_node old new) ns) e' = Some e1' /\ rsim I old new e1 e1'.
  Proof.
    induction ns as [|n rest IH]; intros e e' e1 S H E; cbn [OptModel.exec map] in *.
    - inversion E. subst. exists e'. split; [reflexivity | exact S].
    - destruct (exec_node r n e) as [e2|] eqn:E2; [|discriminate].
      destruct (rsim_step I old new r n e e' e2 S (H n (or_introl eq_refl)) E2) as (e2' & X & S').
      rewrite X. eapply IH; eauto. intros m Hm. apply H. right. exact Hm.
  Qed.

  Theorem rename_sound (r : rnd) (sel : node -> bool) (A B : list node) (root : node) (old new : id)
          (g : graph) (e0 : env) res :
    g_nodes g = A ++ root :: B ->
    rename_guards sel A B root old new g = true ->
    local_alias r (filter sel A) root old new ->
    eval r g e0 = Some res ->
    eval r (rename_graph sel A B old new g) e0 = Some res /\
    g_outs (rename_graph sel A B old new g) = g_outs g.
  Proof.
    intros HG G LA EV. split; [|reflexivity].
    unfold rename_guards in G. repeat (apply andb_true_iff in G; destruct G as [G ?]).
    rename H into Gne, H0 into Gnew, H1 into Gobs, H2 into Gro, H3 into Gcap, H4 into Gout, G into Greuse.
    apply ids_eqb_eq in Gro. apply negb_true_iff in Gne, Gnew, Gobs.
    apply mem_false in Gnew, Gobs. apply N.eqb_neq in Gne.
    set (I := inter_outs sel A) in *.
    pose proof (guard_reuse_spec sel A B Greuse) as Kept.
    unfold OptModel.eval in *. rewrite HG in EV. rewrite exec_app in EV.
    destruct (exec r A e0) as [eA|] eqn:EA; [|discriminate]. cbn [OptModel.exec] in EV.
    destruct (exec_node r root eA) as [eR|] eqn:ER; [|discriminate].
    destruct (exec r B eR) as [ef|] eqn:EB; [|discriminate].
    destruct (sim_exec_filter I r sel A e0 e0 eA (sim_refl I e0)) as (eA' & XA & SA); auto.
    { intros n Hn Sn o Ho. eapply in_inter_outs; eauto. }
    { intros n Hn Sn. apply Kept. apply in_or_app. left. apply filter_In. split; [exact Hn|].
      unfold unsel. rewrite Sn. reflexivity. }
    assert (CA : forall s, In s (filter sel A) -> consistent r eR s).
    { intros s Hs. apply filter_In in Hs. destruct Hs as [Hs _].
      apply (consistent_step r root s eA eR); [apply (exec_consistent r A e0 eA EA s Hs) | exact ER]. }
    pose proof (exec_node_consistent r root eA eR ER) as CR.
    pose proof (LA eR CA CR) as AL.
    pose proof ER as ER'. apply exec_node_inv in ER'.
    destruct ER' as (vs0 & ws0 & I0 & S0 & L0 & F0 & ->). rewrite Gro in *.
    pose proof (fresh_all_spec _ _ F0) as [F0a F0b].
    destruct ws0 as [|w [|w2 wr]]; try discriminate. cbn [bind] in *.
    assert (Lold : lookup old ((old, w) :: eA) = Some w) by (cbn [lookup]; rewrite N.eqb_refl; reflexivity).
    assert (Lnew : lookup new eA' = Some w).
    { destruct SA as [S1 _]. rewrite S1 by exact Gnew. rewrite <- Lold, <- AL. cbn [lookup].
      destruct (N.eqb new old) eqn:E; [apply N.eqb_eq in E; contradiction | reflexivity]. }
    assert (RS : rsim I old new ((old, w) :: eA) eA').
    { destruct SA as [S1 S2]. split; [|split; [|split]].
      - intros x Hx. cbn [lookup]. destruct (N.eqb x old) eqn:E.
        + apply N.eqb_eq in E. subst. exfalso. apply Hx. left. reflexivity.
        + apply S1. intros HI. apply Hx. right. exact HI.
      - intros x Hb. unfold bound. cbn [lookup]. destruct (N.eqb x old); [reflexivity|]. apply S2, Hb.
      - rewrite Lnew, Lold. reflexivity.
      - unfold bound. rewrite Lold. reflexivity. }
    destruct (rsim_exec I old new r B _ _ ef RS) as (ef' & XB & SF); auto.
    { intros n Hn. apply Kept. apply in_or_app. right. exact Hn. }
    unfold rename_graph, rename_nodes. cbn [g_nodes g_outs g_caps observed].
    rewrite exec_app, XA, XB. rewrite <- EV. destruct SF as (S1 & _). unfold observed.
    apply lookups_ext. intros x Hx. apply S1. intros [HI|HI].
    - subst x. apply Gobs. exact Hx.
    - apply in_app_or in Hx. destruct Hx as [Hx|Hx].
      + exact (guard_notin_spec _ _ Gout x Hx HI).
      + exact (guard_notin_spec _ _ Gcap x Hx HI).
  Qed.

  (* ---------------------------------------------------------------- (2) fixpoint_sound *)
  (* a program = a graph plus the constants bound before any run input *)
  Record program := { p_graph : graph; p_consts : env }.
  Definition run (r : rnd) (p : program) (ins : env) : option (list val) :=
    eval r (p_graph p) (p_consts p ++ ins).
  (* p' refines p: same output ids, and every successful run of p is a run of p' with the same
     result (p' may succeed where p fails) *)
  Definition refines (p p' : program) : Prop :=
    g_outs (p_graph p') = g_outs (p_graph p) /\
    forall r ins res, run r p ins = Some res -> run r p' ins = Some res.

  Lemma refines_refl p : refines p p.
  Proof. split; [reflexivity | auto]. Qed.
  Lemma refines_trans p1 p2 p3 : refines p1 p2 -> refines p2 p3 -> refines p1 p3.
  Proof. intros [O1 R1] [O2 R2]. split; [congruence | auto]. Qed.

  (* any finite sequence of sound steps -- fusions, constant replacements, constant
     propagation, in ANY order and any number of passes -- is sound *)
  Fixpoint chain (p : program) (ps : list program) : Prop :=
    match ps with
    | [] => True
    | q :: rest => refines p q /\ chain q rest
    end.
  Fixpoint final (p : program) (ps : list program) : program :=
    match ps with [] => p | q :: rest => final q rest end.
  Theorem fixpoint_sound ps : forall p, chain p ps -> refines p (final p ps).
  Proof.
    induction ps as [|q rest IH]; intros p C; [apply refines_refl|].
    destruct C as [R C]. cbn [final]. eapply refines_trans; [exact R | apply IH, C].
  Qed.

  (* a fusion step / a rename step is a refinement *)
  Lemma fuse_refines sel A B root R g consts :
    g_nodes g = A ++ root :: B -> fusion_guards sel A root R B g = true ->
    (forall r, local_equiv r (filter sel A) root R) ->
    refines {| p_graph := g; p_consts := consts |} {| p_graph := fuse sel A root R B g; p_consts := consts |}.
  Proof.
    intros HG G LE. split; [reflexivity|]. intros r ins res H. unfold run in *. cbn [p_graph p_consts] in *.
    exact (proj1 (rewrite_sound r sel A B root R g _ res HG G (LE r) H)).
  Qed.
  Lemma rename_refines sel A B root old new g consts :
    g_nodes g = A ++ root :: B -> rename_guards sel A B root old new g = true ->
    (forall r, local_alias r (filter sel A) root old new) ->
    refines {| p_graph := g; p_consts := consts |} {| p_graph := rename_graph sel A B old new g; p_consts := consts |}.
  Proof.
    intros HG G LE. split; [reflexivity|]. intros r ins res H. unfold run in *. cbn [p_graph p_consts] in *.
    exact (proj1 (rename_sound r sel A B root old new g _ res HG G (LE r) H)).
  Qed.

  (* constant propagation of the first node of the plan: all its inputs are constants and the
     operator is deterministic (its meaning ignores the per-run randomness) *)
  Definition deterministic (op : opname) : Prop := forall r r' vs, sem op r vs = sem op r' vs.

  Lemma lookup_app_l x (a b : env) v : lookup x a = Some v -> lookup x (a ++ b) = Some v.
  Proof.
    induction a as [|[y w] a IH]; intros H; [discriminate|]. cbn [app lookup] in *.
    destruct (N.eqb x y); [exact H | apply IH, H].
  Qed.
  Lemma lookups_app_l xs (a b : env) vs : lookups xs a = Some vs -> lookups xs (a ++ b) = Some vs.
  Proof.
    revert vs. induction xs as [|x r IH]; intros vs H; [exact H|]. cbn [lookups] in *.
    destruct (lookup x a) eqn:E; [|discriminate]. destruct (lookups r a) eqn:E2; [|discriminate].
    rewrite (lookup_app_l _ _ b _ E), (IH _ eq_refl). exact H.
  Qed.
  Lemma bind_app xs ws (a b : env) : bind xs ws (a ++ b) = bind xs ws a ++ b.
  Proof.
    revert ws. induction xs as [|x r IH]; intros ws; [reflexivity|].
    destruct ws as [|w wr]; [reflexivity|]. cbn [bind app]. f_equal. apply IH.
  Qed.

  Theorem const_fold_sound (r0 : rnd) (n : node) (rest : list node) outs caps consts vs ws :
    deterministic (n_op n) ->
    lookups (n_ins n) consts = Some vs -> sem (n_op n) r0 vs = Some ws ->
    refines {| p_graph := {| g_nodes := n :: rest; g_outs := outs; g_caps := caps |}; p_consts := consts |}
            {| p_graph := {| g_nodes := rest; g_outs := outs; g_caps := caps |};
               p_consts := bind (n_outs n) ws consts |}.
  Proof.
    intros D LI SM. split; [reflexivity|]. intros r ins res H.
    unfold run, OptModel.eval in *. cbn [p_graph p_consts g_nodes OptModel.exec] in *.
    destruct (exec_node r n (consts ++ ins)) as [e1|] eqn:E; [|discriminate].
    apply exec_node_inv in E. destruct E as (vs' & ws' & I1 & S1 & _ & _ & ->).
    rewrite (lookups_app_l _ _ ins _ LI) in I1. inversion I1. subst vs'.
    rewrite (D r r0) in S1. rewrite SM in S1. inversion S1. subst ws'.
    rewrite <- bind_app. exact H.
  Qed.
End Proofs.
