(* C01 -- local equivalences over the tensor model: identity arithmetic with a single-element
   constant (IdentityFusion) and Unsqueeze+Expand+Reshape = RepeatInterleave. *)
From RV Require Import Prelude.
From Opt Require Import TensorModel.

Section Proofs.
  Context {R : Type}.
  Notation tensor := (tensor R).

  (* ---------------------------------------------------------------- lists *)
  Lemma chunks_concat p n (d : list R) : length d = (n * p)%nat -> concat (chunks p n d) = d.
  Proof.
    revert d. induction n as [|n IH]; intros d H; cbn [chunks concat].
    - destruct d; [reflexivity | discriminate].
    - rewrite IH; [apply firstn_skipn|]. rewrite skipn_length. cbn [Nat.mul] in H. lia.
  Qed.

  Lemma chunks_lengths p n (d : list R) :
    length d = (n * p)%nat -> Forall (fun c => length c = p) (chunks p n d).
  Proof.
    revert d. induction n as [|n IH]; intros d H; cbn [chunks]; constructor.
    - rewrite firstn_length. cbn [Nat.mul] in H. lia.
    - apply IH. rewrite skipn_length. cbn [Nat.mul] in H. lia.
  Qed.

  Lemma chunks_length p n (d : list R) : length (chunks p n d) = n.
  Proof. revert d. induction n as [|n IH]; intros d; cbn [chunks length]; [reflexivity | f_equal; apply IH]. Qed.

  Lemma chunks_one p (d : list R) : length d = p -> chunks p 1 d = [d].
  Proof. intros H. cbn [chunks]. subst p. rewrite firstn_all. reflexivity. Qed.

  Lemma concat_map_id (f : list R -> list R) l :
    Forall (fun c => f c = c) l -> concat (map f l) = concat l.
  Proof. induction 1 as [|c r Hc _ IH]; [reflexivity|]. cbn [map concat]. rewrite Hc, IH. reflexivity. Qed.

  Lemma concat_repeat_repeat (z : R) m t : concat (repeat (repeat z m) t) = repeat z (t * m).
  Proof.
    induction t as [|t IH]; [reflexivity|]. cbn [repeat concat Nat.mul]. rewrite IH.
    symmetry. apply repeat_app.
  Qed.

  Lemma zip_with_repeat_r (f : R -> R -> R) z (d : list R) :
    (forall v, f v z = v) -> zip_with f d (repeat z (length d)) = d.
  Proof. intros H. induction d as [|x r IH]; [reflexivity|]. cbn [length repeat zip_with]. rewrite H, IH. reflexivity. Qed.
  Lemma zip_with_repeat_l (f : R -> R -> R) z (d : list R) :
    (forall v, f z v = v) -> zip_with f (repeat z (length d)) d = d.
  Proof. intros H. induction d as [|x r IH]; [reflexivity|]. cbn [length repeat zip_with]. rewrite H, IH. reflexivity. Qed.

  (* ---------------------------------------------------------------- expand_data *)
  Lemma expand_id s : forall d : list R, length d = prod s -> expand_data s s d = d.
  Proof.
    induction s as [|n s IH]; intros d H; [reflexivity|]. cbn [expand_data]. rewrite Nat.eqb_refl.
    cbn [prod fold_right] in H. fold (prod s) in H.
    rewrite concat_map_id; [apply chunks_concat, H|].
    eapply Forall_impl; [|apply chunks_lengths, H]. intros c Hc. apply IH, Hc.
  Qed.

  Lemma expand_ones s (z : R) : expand_data (repeat 1%nat (length s)) s [z] = repeat z (prod s).
  Proof.
    induction s as [|n s IH]; [reflexivity|]. cbn [length repeat expand_data].
    assert (P1 : prod (repeat 1%nat (length s)) = 1%nat).
    { clear. induction (length s) as [|k IHk]; [reflexivity|]. cbn [repeat prod fold_right]. fold (prod (repeat 1%nat k)). lia. }
    rewrite P1. cbn [chunks firstn map concat]. rewrite IH, app_nil_r.
    cbn [prod fold_right]. fold (prod s).
    destruct (Nat.eqb 1 n) eqn:E.
    - apply Nat.eqb_eq in E. subst n. rewrite Nat.mul_1_l. reflexivity.
    - apply concat_repeat_repeat.
  Qed.

  (* ---------------------------------------------------------------- shapes *)
  Lemma bzip_ones_r xs : bzip xs (repeat 1%nat (length xs)) = Some xs.
  Proof.
    induction xs as [|x r IH]; [reflexivity|]. cbn [length repeat bzip]. rewrite IH.
    destruct (Nat.eqb x 1) eqn:E; [apply Nat.eqb_eq in E; subst; reflexivity|].
    rewrite Nat.eqb_refl. reflexivity.
  Qed.
  Lemma bzip_ones_l xs : bzip (repeat 1%nat (length xs)) xs = Some xs.
  Proof.
    induction xs as [|x r IH]; [reflexivity|]. cbn [length repeat bzip]. rewrite IH.
    destruct (Nat.eqb 1 x) eqn:E; [apply Nat.eqb_eq in E; subst; reflexivity|]. reflexivity.
  Qed.
  Lemma pad_self (xs : list nat) : pad (length xs) xs = xs.
  Proof. unfold pad. rewrite Nat.sub_diag. reflexivity. Qed.
  Lemma pad_ones r k : (k <= r)%nat -> pad r (repeat 1%nat k) = repeat 1%nat r.
  Proof. intros H. unfold pad. rewrite repeat_length, <- repeat_app. f_equal. lia. Qed.

  Lemma bshape_ones_r xs k : (k <= length xs)%nat -> bshape xs (repeat 1%nat k) = Some xs.
  Proof.
    intros H. unfold bshape. rewrite repeat_length, Nat.max_l by exact H.
    rewrite pad_self, pad_ones by exact H. apply bzip_ones_r.
  Qed.
  Lemma bshape_ones_l xs k : (k <= length xs)%nat -> bshape (repeat 1%nat k) xs = Some xs.
  Proof.
    intros H. unfold bshape. rewrite repeat_length, Nat.max_r by exact H.
    rewrite pad_self, pad_ones by exact H. apply bzip_ones_l.
  Qed.

  (* ---------------------------------------------------------------- IdentityFusion *)
  (* x (op) c = x for a single-element constant c whose rank does not exceed the rank of x and
     whose value z is neutral for op on that side: exactly the guard of the repaired code
     (is_broadcast_neutral with a known rank of x) *)
  Definition single (k : nat) (z : R) : tensor := {| t_shape := repeat 1%nat k; t_data := [z] |}.

  Theorem identity_right_local (f : R -> R -> R) z (x : tensor) k :
    (forall v, f v z = v) -> wf x -> (k <= length (t_shape x))%nat ->
    binop f x (single k z) = Some x.
  Proof.
    intros N W K. unfold binop, single. cbn [t_shape t_data].
    rewrite (bshape_ones_r _ _ K). rewrite pad_self, (pad_ones _ _ K).
    rewrite expand_id by exact W. rewrite expand_ones. unfold wf in W. rewrite <- W.
    rewrite zip_with_repeat_r by exact N. destruct x. reflexivity.
  Qed.

  Theorem identity_left_local (f : R -> R -> R) z (x : tensor) k :
    (forall v, f z v = v) -> wf x -> (k <= length (t_shape x))%nat ->
    binop f (single k z) x = Some x.
  Proof.
    intros N W K. unfold binop, single. cbn [t_shape t_data].
    rewrite (bshape_ones_l _ _ K). rewrite pad_self, (pad_ones _ _ K).
    rewrite expand_id by exact W. rewrite expand_ones. unfold wf in W. rewrite <- W.
    rewrite zip_with_repeat_l by exact N. destruct x. reflexivity.
  Qed.

  (* ---------------------------------------------------------------- RepeatInterleaveFusion *)
  Lemma prod_app a b : prod (a ++ b) = (prod a * prod b)%nat.
  Proof. induction a as [|x a IH]; cbn [app prod fold_right]; [symmetry; apply Nat.mul_1_l|]. fold (prod (a ++ b)) (prod a). rewrite IH. apply Nat.mul_assoc. Qed.

  Lemma prod_unit_inserted n rest : prod (n :: 1%nat :: rest) = prod (n :: rest).
  Proof. cbn [prod fold_right]. rewrite Nat.mul_1_l. reflexivity. Qed.

  (* data level: expanding the unit axis that directly follows axis [length pre] by k equals
     repeating every slice along that axis k times *)
  Lemma expand_is_repeat_interleave pre n k rest : forall d : list R,
    length d = prod (pre ++ n :: rest) ->
    expand_data (pre ++ n :: 1%nat :: rest) (pre ++ n :: k :: rest) d
    = repeat_interleave_data (pre ++ n :: rest) (length pre) k d.
  Proof.
    induction pre as [|p pre IH]; intros d H.
    - cbn [app length expand_data repeat_interleave_data]. rewrite Nat.eqb_refl.
      assert (P : prod (1%nat :: rest) = prod rest) by (cbn [prod fold_right]; apply Nat.mul_1_l).
      rewrite P. rewrite flat_map_concat_map. f_equal. apply map_ext_Forall.
      cbn [app prod fold_right] in H. fold (prod rest) in H.
      eapply Forall_impl; [|apply chunks_lengths, H]. intros c Hc. cbn beta.
      rewrite (chunks_one _ _ Hc). cbn [map concat]. rewrite app_nil_r, (expand_id rest c Hc).
      destruct (Nat.eqb 1 k) eqn:E; [|reflexivity].
      apply Nat.eqb_eq in E. subst k. cbn [repeat concat]. rewrite app_nil_r. reflexivity.
    - cbn [app length expand_data repeat_interleave_data]. rewrite Nat.eqb_refl.
      assert (P : prod (pre ++ n :: 1%nat :: rest) = prod (pre ++ n :: rest)).
      { rewrite !prod_app. f_equal. apply (prod_unit_inserted n rest). }
      rewrite P. f_equal. apply map_ext_Forall.
      cbn [app prod fold_right] in H. fold (prod (pre ++ n :: rest)) in H.
      eapply Forall_impl; [|apply chunks_lengths, H]. intros c Hc. apply IH, Hc.
  Qed.
End Proofs.
