(* C01 -- concrete values for the local equivalences: tensors = shape + row-major data over an
   arbitrary element type with ONNX (numpy) broadcasting.  Executable definitions only. *)
From RV Require Import Prelude.

Section Tensor.
  Context {R : Type}.

  Record tensor := { t_shape : list nat; t_data : list R }.
  Definition prod (s : list nat) : nat := fold_right Nat.mul 1%nat s.
  Definition wf (t : tensor) : Prop := length (t_data t) = prod (t_shape t).
  Definition wfb (t : tensor) : bool := Nat.eqb (length (t_data t)) (prod (t_shape t)).

  (* split [d] into [n] consecutive chunks of [p] elements *)
  Fixpoint chunks (p n : nat) (d : list R) : list (list R) :=
    match n with
    | O => []
    | S n' => firstn p d :: chunks p n' (skipn p d)
    end.

  (* ---- broadcasting ---- *)
  (* pad a shape with leading 1s to rank r *)
  Definition pad (r : nat) (s : list nat) : list nat := repeat 1%nat (r - length s) ++ s.
  (* broadcast of two shapes of equal rank *)
  Fixpoint bzip (a b : list nat) : option (list nat) :=
    match a, b with
    | [], [] => Some []
    | x :: a', y :: b' =>
        match bzip a' b' with
        | None => None
        | Some r => if Nat.eqb x y then Some (x :: r)
                    else if Nat.eqb x 1 then Some (y :: r)
                    else if Nat.eqb y 1 then Some (x :: r) else None
        end
    | _, _ => None
    end.
  (* ONNX multidirectional broadcasting: shapes are right-aligned *)
  Definition bshape (a b : list nat) : option (list nat) :=
    let r := Nat.max (length a) (length b) in bzip (pad r a) (pad r b).

  (* data of a tensor of shape [from] broadcast to shape [to] (equal ranks; each dim of [from]
     equals the dim of [to] or is 1) *)
  Fixpoint expand_data (from to : list nat) (d : list R) : list R :=
    match from, to with
    | f :: fs, t :: ts =>
        let cs := map (expand_data fs ts) (chunks (prod fs) f d) in
        if Nat.eqb f t then concat cs else concat (repeat (concat cs) t)
    | _, _ => d
    end.
  Fixpoint compatible (from to : list nat) : bool :=
    match from, to with
    | [], [] => true
    | f :: fs, t :: ts => (Nat.eqb f t || Nat.eqb f 1) && compatible fs ts
    | _, _ => false
    end.

  Fixpoint zip_with (f : R -> R -> R) (a b : list R) : list R :=
    match a, b with
    | x :: a', y :: b' => f x y :: zip_with f a' b'
    | _, _ => []
    end.

  (* elementwise binary operator with broadcasting (Add, Sub, Mul, Div) *)
  Definition binop (f : R -> R -> R) (a b : tensor) : option tensor :=
    match bshape (t_shape a) (t_shape b) with
    | None => None
    | Some s =>
        let r := length s in
        Some {| t_shape := s;
                t_data := zip_with f (expand_data (pad r (t_shape a)) s (t_data a))
                                     (expand_data (pad r (t_shape b)) s (t_data b)) |}
    end.

  (* ---- layout operators of the RepeatInterleave pattern ---- *)
  Fixpoint insert_at (k : nat) (x : nat) (s : list nat) : list nat :=
    match k, s with
    | O, _ => x :: s
    | S k', y :: r => y :: insert_at k' x r
    | S _, [] => [x]
    end.
  (* Unsqueeze(x, [axis]), Reshape(x, shape): row-major data is unchanged *)
  Definition unsqueeze (axis : nat) (t : tensor) : option tensor :=
    if Nat.leb axis (length (t_shape t))
    then Some {| t_shape := insert_at axis 1%nat (t_shape t); t_data := t_data t |} else None.
  Definition reshape (s : list nat) (t : tensor) : option tensor :=
    if Nat.eqb (prod s) (length (t_data t)) then Some {| t_shape := s; t_data := t_data t |} else None.
  (* Expand(x, shape) (bidirectional broadcast) *)
  Definition expand (s : list nat) (t : tensor) : option tensor :=
    match bshape (t_shape t) s with
    | None => None
    | Some o => Some {| t_shape := o; t_data := expand_data (pad (length o) (t_shape t)) o (t_data t) |}
    end.

  (* RepeatInterleave { axis, repeats }: every slice along [axis] is repeated [k] times in a row *)
  Fixpoint repeat_interleave_data (s : list nat) (axis k : nat) (d : list R) : list R :=
    match s, axis with
    | n :: s', O => flat_map (fun c => concat (repeat c k)) (chunks (prod s') n d)
    | n :: s', S a => concat (map (repeat_interleave_data s' a k) (chunks (prod s') n d))
    | [], _ => d
    end.
  Fixpoint scale_dim (s : list nat) (axis k : nat) : list nat :=
    match s, axis with
    | n :: s', O => (n * k)%nat :: s'
    | n :: s', S a => n :: scale_dim s' a k
    | [], _ => []
    end.
  Definition repeat_interleave (axis k : nat) (t : tensor) : option tensor :=
    if Nat.ltb axis (length (t_shape t))
    then Some {| t_shape := scale_dim (t_shape t) axis k;
                 t_data := repeat_interleave_data (t_shape t) axis k (t_data t) |}
    else None.

  (* the unfused sub-DAG of RepeatInterleaveFusion *)
  Definition unsq_expand_reshape (uaxis : nat) (eshape oshape : list nat) (x : tensor) : option tensor :=
    match unsqueeze uaxis x with
    | None => None
    | Some t1 => match expand eshape t1 with
                 | None => None
                 | Some t2 => reshape oshape t2
                 end
    end.
End Tensor.

Arguments tensor R : clear implicits.
