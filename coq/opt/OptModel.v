(* C01 -- abstract model of graph rewriting (src/optimize.rs: GraphMutator::apply_fusion,
   replace_value, propagate_constants).  Executable definitions only.

   An SSA graph language over an abstract value type.  [sem op r vs] is the meaning of one
   operator on input values [vs] under the per-run randomness [r] ([None] = the operator fails);
   a graph is a list of operator nodes in plan order plus the ids of its outputs; values live in
   an environment (graph inputs and constants are bound before the first node runs). *)
From RV Require Import Prelude.

Section Graph.
  Context {val opname rnd : Type}.
  Variable sem : opname -> rnd -> list val -> option (list val).

  Definition id := N.
  Record node := { n_op : opname; n_ins : list id; n_outs : list id }.
  Definition env := list (id * val).

  Fixpoint lookup (x : id) (e : env) : option val :=
    match e with
    | [] => None
    | (y, v) :: r => if N.eqb x y then Some v else lookup x r
    end.
  Fixpoint lookups (xs : list id) (e : env) : option (list val) :=
    match xs with
    | [] => Some []
    | x :: r => match lookup x e, lookups r e with
                | Some v, Some vs => Some (v :: vs)
                | _, _ => None
                end
    end.
  Definition bound (x : id) (e : env) : bool :=
    match lookup x e with Some _ => true | None => false end.
  Fixpoint bind (xs : list id) (vs : list val) (e : env) : env :=
    match xs, vs with
    | x :: xr, v :: vr => (x, v) :: bind xr vr e
    | _, _ => e
    end.
  Definition mem (x : id) (l : list id) : bool := existsb (N.eqb x) l.
  Fixpoint nodupb (l : list id) : bool :=
    match l with [] => true | x :: r => negb (mem x r) && nodupb r end.
  (* SSA is checked dynamically: a node may only define ids that are not defined yet *)
  Definition fresh_all (xs : list id) (e : env) : bool :=
    forallb (fun x => negb (bound x e)) xs && nodupb xs.

  Definition exec_node (r : rnd) (n : node) (e : env) : option env :=
    match lookups (n_ins n) e with
    | None => None
    | Some vs =>
        match sem (n_op n) r vs with
        | None => None
        | Some ws =>
            if Nat.eqb (length ws) (length (n_outs n)) && fresh_all (n_outs n) e
            then Some (bind (n_outs n) ws e) else None
        end
    end.
  Fixpoint exec (r : rnd) (ns : list node) (e : env) : option env :=
    match ns with
    | [] => Some e
    | n :: rest => match exec_node r n e with Some e1 => exec r rest e1 | None => None end
    end.

  (* g_outs: graph outputs; g_caps: values captured (read) by subgraphs of control-flow
     operators.  Both are observed. *)
  Record graph := { g_nodes : list node; g_outs : list id; g_caps : list id }.
  Definition observed (g : graph) : list id := g_outs g ++ g_caps g.
  Definition eval (r : rnd) (g : graph) (e0 : env) : option (list val) :=
    match exec r (g_nodes g) e0 with
    | Some e => lookups (observed g) e
    | None => None
    end.

  (* ---- Fusion::Op: a sub-DAG S = (selected nodes of A) ++ [root] is replaced by ONE node R that
     defines root's outputs.  The graph is  A ++ root :: B  in plan order. ---- *)
  Definition unsel (sel : node -> bool) (n : node) : bool := negb (sel n).
  Definition inter_outs (sel : node -> bool) (A : list node) : list id :=
    flat_map n_outs (filter sel A).
  Definition uses (ns : list node) (o : id) : bool := existsb (fun n => mem o (n_ins n)) ns.
  Definition fuse_nodes (sel : node -> bool) (A : list node) (R : node) (B : list node) :=
    filter (unsel sel) A ++ R :: B.
  Definition fuse (sel : node -> bool) (A : list node) (root R : node) (B : list node) (g : graph) : graph :=
    {| g_nodes := fuse_nodes sel A R B; g_outs := g_outs g; g_caps := g_caps g |}.

  (* the three guards of apply_fusion: an intermediate value (output of a fused node other than
     the root's outputs) must not be (1) used by an operator outside the sub-DAG, (2) a graph
     output, (3) captured by a subgraph; the replacement may not read an intermediate either *)
  Definition guard_reuse (sel : node -> bool) (A B : list node) : bool :=
    forallb (fun o => negb (uses (filter (unsel sel) A ++ B) o)) (inter_outs sel A).
  Definition guard_output (sel : node -> bool) (A : list node) (outs : list id) : bool :=
    forallb (fun o => negb (mem o outs)) (inter_outs sel A).
  Definition guard_capture (sel : node -> bool) (A : list node) (caps : list id) : bool :=
    forallb (fun o => negb (mem o caps)) (inter_outs sel A).
  Fixpoint ids_eqb (a b : list id) : bool :=
    match a, b with
    | [], [] => true
    | x :: ar, y :: br => N.eqb x y && ids_eqb ar br
    | _, _ => false
    end.
  Definition repl_ok (sel : node -> bool) (A : list node) (root R : node) : bool :=
    forallb (fun i => negb (mem i (inter_outs sel A)) && negb (mem i (n_outs root))) (n_ins R)
    && ids_eqb (n_outs R) (n_outs root).
  Definition fusion_guards (sel : node -> bool) (A : list node) (root R : node) (B : list node) (g : graph) : bool :=
    guard_reuse sel A B && guard_output sel A (g_outs g) && guard_capture sel A (g_caps g)
    && repl_ok sel A root R.

  (* ---- Fusion::Identity / Fusion::Constant / shape-inference constants / constant
     propagation all end in [replace_value old new]: every later use of [old] reads [new]
     instead.  [new] is an id that is already available (an input of the removed sub-DAG or a
     constant). ---- *)
  Definition subst (old new x : id) : id := if N.eqb x old then new else x.
  Definition subst_node (old new : id) (n : node) : node :=
    {| n_op := n_op n; n_ins := map (subst old new) (n_ins n); n_outs := n_outs n |}.
  Definition rename_nodes (sel : node -> bool) (A B : list node) (old new : id) : list node :=
    filter (unsel sel) A ++ map (subst_node old new) B.

  (* ---- constant propagation: a node all of whose inputs are bound in the constant
     environment is evaluated at optimization time (randomness r0) and its outputs become
     constants.  [det op] = the operator ignores the randomness. ---- *)
  Definition const_fold (r0 : rnd) (n : node) (consts : env) : option env := exec_node r0 n consts.
End Graph.

Arguments n_op {opname}.
Arguments n_ins {opname}.
Arguments n_outs {opname}.
Arguments Build_node {opname}.
Arguments g_nodes {opname}.
Arguments g_outs {opname}.
Arguments g_caps {opname}.
Arguments Build_graph {opname}.
