(* C01 -- Graph optimization preserves model semantics.
   Only statements; every proof is `exact <lemma>`. *)
From RV Require Import Prelude.
From Opt Require Import OptModel OptModel_proofs TensorModel Tensor_proofs ModelC01 Fusion_proofs Oracle_proofs.

(* (1) Fusion::Op.  A graph A ++ root :: B in plan order; the sub-DAG (selected nodes of A, root)
   is replaced by ONE node R defining root's outputs.  If the guards of apply_fusion hold (no
   intermediate value is used outside the sub-DAG, is a graph output, or is captured by a
   subgraph; R reads no removed value) and R is locally equivalent to the sub-DAG whenever the
   sub-DAG evaluates, then every successful run of the graph is a run of the rewritten graph with
   the same observed values, and the output id list is unchanged.  [sem] is arbitrary. *)
Theorem C01_rewrite_sound :
  forall (val opname rnd : Type) (sem : opname -> rnd -> list val -> option (list val))
         (r : rnd) (sel : node -> bool) (A B : list node) (root R : node) (g : graph) (e0 : env) res,
    g_nodes g = A ++ root :: B ->
    fusion_guards sel A root R B g = true ->
    local_equiv sem r (filter sel A) root R ->
    eval sem r g e0 = Some res ->
    eval sem r (fuse sel A root R B g) e0 = Some res /\ g_outs (fuse sel A root R B g) = g_outs g.
Proof. exact @rewrite_sound. Qed.

(* (1') Fusion::Identity / Fusion::Constant / replace_value: the sub-DAG is removed and later
   uses of its output [old] read the already available value [new]; needs [old] unobserved. *)
Theorem C01_rename_sound :
  forall (val opname rnd : Type) (sem : opname -> rnd -> list val -> option (list val))
         (r : rnd) (sel : node -> bool) (A B : list node) (root : node) (old new : id)
         (g : graph) (e0 : env) res,
    g_nodes g = A ++ root :: B ->
    rename_guards sel A B root old new g = true ->
    local_alias sem r (filter sel A) root old new ->
    eval sem r g e0 = Some res ->
    eval sem r (rename_graph sel A B old new g) e0 = Some res /\
    g_outs (rename_graph sel A B old new g) = g_outs g.
Proof. exact @rename_sound. Qed.

(* (2) any finite sequence of sound steps is sound: the pass order and the number of passes of
   GraphOptimizer::optimize are not constrained *)
Theorem C01_fixpoint_sound :
  forall (val opname rnd : Type) (sem : opname -> rnd -> list val -> option (list val))
         (ps : list program) (p : program),
    chain sem p ps -> refines sem p (final p ps).
Proof. exact @fixpoint_sound. Qed.

Theorem C01_fusion_step_refines :
  forall (val opname rnd : Type) (sem : opname -> rnd -> list val -> option (list val))
         sel A B root R g (consts : env),
    g_nodes g = A ++ root :: B -> fusion_guards sel A root R B g = true ->
    (forall r, local_equiv sem r (filter sel A) root R) ->
    refines sem {| p_graph := g; p_consts := consts |}
                {| p_graph := fuse sel A root R B g; p_consts := consts |}.
Proof. exact @fuse_refines. Qed.

(* constant propagation of a node whose inputs are constants is a sound step PROVIDED the
   operator is deterministic (a random operator must not be folded) *)
Theorem C01_const_fold_sound :
  forall (val opname rnd : Type) (sem : opname -> rnd -> list val -> option (list val))
         (r0 : rnd) (n : node) (rest : list node) outs caps (consts : env) vs ws,
    deterministic sem (n_op n) ->
    lookups (n_ins n) consts = Some vs -> sem (n_op n) r0 vs = Some ws ->
    refines sem {| p_graph := {| g_nodes := n :: rest; g_outs := outs; g_caps := caps |}; p_consts := consts |}
                {| p_graph := {| g_nodes := rest; g_outs := outs; g_caps := caps |};
                   p_consts := bind (n_outs n) ws consts |}.
Proof. exact @const_fold_sound. Qed.

(* (3a) IdentityFusion under the guard of the repaired code: for ALL shapes and data, any
   element type and any operation f with neutral element z on the constant's side *)
Theorem C01_identity_fusion_local :
  forall (R : Type) (f : R -> R -> R) (z : R) (x : tensor R) cshape xrank xknown,
    single_elem cshape = true -> rank_neutral cshape xrank xknown = true ->
    (xknown = true -> xrank = Z.of_nat (length (t_shape x))) -> wf x ->
    let c := {| t_shape := map Z.to_nat cshape; t_data := [z] |} in
    ((forall v, f v z = v) -> binop f x c = Some x) /\
    ((forall v, f z v = v) -> binop f c x = Some x).
Proof. exact @identity_fusion_local. Qed.

(* F9: the guard of the unchanged code is refuted *)
Theorem C01_identity_fusion_local_refuted :
  exists (x : tensor Z) cshape,
    ident_guard_old OAdd SR (Fin 0 0) cshape true = true /\ wf x /\
    binop Z.add x {| t_shape := map Z.to_nat cshape; t_data := [0%Z] |}
      = Some {| t_shape := [1; 1; 3]%nat; t_data := t_data x |} /\
    binop Z.add x {| t_shape := map Z.to_nat cshape; t_data := [0%Z] |} <> Some x /\
    ident_guard OAdd SR (Fin 0 0) cshape true 1 true = false.
Proof. exact identity_fusion_local_refuted. Qed.

(* (3b) RepeatInterleaveFusion under the repaired guard (unsqueeze axis = repeated axis + 1,
   Expand repeats only the new axis): for ALL shapes and data *)
Theorem C01_repeat_interleave_local :
  forall (R : Type) pre n k rest (x : tensor R),
    t_shape x = pre ++ n :: rest -> wf x ->
    unsq_expand_reshape (S (length pre)) (pre ++ n :: k :: rest) (pre ++ (n * k)%nat :: rest) x
    = repeat_interleave (length pre) k x.
Proof. exact @repeat_interleave_local. Qed.

(* F10: the guard of the unchanged code is refuted *)
Theorem C01_repeat_interleave_local_refuted :
  exists (x : tensor Z) uaxis eshape oshape axis k,
    ri_guard_old [2%Z] [4%Z] = Some (axis, k) /\ wf x /\
    unsq_expand_reshape uaxis eshape oshape x = Some {| t_shape := [4%nat]; t_data := [1; 2; 1; 2]%Z |} /\
    repeat_interleave (Z.to_nat axis) (Z.to_nat k) x = Some {| t_shape := [4%nat]; t_data := [1; 1; 2; 2]%Z |} /\
    ri_guard [2%Z] (Z.of_nat uaxis) [2; 2]%Z [4%Z] = None.
Proof. exact repeat_interleave_local_refuted. Qed.

(* the differential oracle used by the check is the property: when the unoptimized run
   succeeds, every optimized configuration returns outputs of the same element type, shape and
   values (exactly, or within 2^-11 relative+absolute with identical NaN/inf positions for float
   graphs that are not integer-exact); only the strict-inference load may refuse *)
Theorem C01_oracle_reflects :
  forall c, prop_ok c = true <->
    (forall base rest, c_runs c = ROk base :: rest ->
       forall k r, nth_error rest k = Some r -> run_spec (c_exact c) base k r) /\
    (* random operators that vary between runs of the unoptimized model still vary *)
    (forall rest, c_rand c = true :: rest -> forall v, In v rest -> v = true).
Proof. exact prop_ok_reflects. Qed.

(* non-vacuity: a fusion instance whose guards hold and whose graph evaluates
   (t = neg a; o = add t b   ==>   o = subr a b, with subr a b = b - a) *)
Definition ex_sem (op : nat) (_ : unit) (vs : list Z) : option (list Z) :=
  match op, vs with
  | 0%nat, [a] => Some [(- a)%Z]
  | 1%nat, [a; b] => Some [(a + b)%Z]
  | 2%nat, [a; b] => Some [(b - a)%Z]
  | _, _ => None
  end.
Definition ex_neg : node := {| n_op := 0%nat; n_ins := [1%N]; n_outs := [3%N] |}.
Definition ex_add : node := {| n_op := 1%nat; n_ins := [3%N; 2%N]; n_outs := [4%N] |}.
Definition ex_sub : node := {| n_op := 2%nat; n_ins := [1%N; 2%N]; n_outs := [4%N] |}.
Definition ex_g : graph := {| g_nodes := [ex_neg; ex_add]; g_outs := [4%N]; g_caps := [] |}.
Example C01_nonvacuous :
  fusion_guards (fun _ => true) [ex_neg] ex_add ex_sub [] ex_g = true /\
  eval ex_sem tt ex_g [(1%N, 5%Z); (2%N, 7%Z)] = Some [2%Z] /\
  eval ex_sem tt (fuse (fun _ => true) [ex_neg] ex_add ex_sub [] ex_g) [(1%N, 5%Z); (2%N, 7%Z)] = Some [2%Z] /\
  (* the guard refuses when the intermediate value is also a graph output *)
  fusion_guards (fun _ => true) [ex_neg] ex_add ex_sub []
    {| g_nodes := [ex_neg; ex_add]; g_outs := [4%N; 3%N]; g_caps := [] |} = false.
Proof. repeat split; vm_compute; reflexivity. Qed.
