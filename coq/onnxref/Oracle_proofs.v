(* C15 -- the executable oracle of the correspondence check: reflection lemmas. *)
From RV Require Import Prelude.
From OnnxRef Require Import RefBase OnnxRef ModelC15 RefBase_proofs Concat_proofs.
Open Scope nat_scope.

Lemma list_eqb_Z_eq a : forall b, list_eqb Z.eqb a b = true <-> a = b.
Proof.
  induction a as [|x a IH]; intros [|y b]; cbn [list_eqb]; split; intros H; try discriminate; try reflexivity.
  - apply andb_true_iff in H. destruct H as [H1 H2]. apply Z.eqb_eq in H1. apply IH in H2. congruence.
  - inversion H; subst. rewrite Z.eqb_refl. cbn. apply IH. reflexivity.
Qed.

Lemma kind_eqb_eq a b : kind_eqb a b = true <-> a = b.
Proof. destruct a, b; cbn; split; intros H; try discriminate; reflexivity. Qed.

Lemma dims_roundtrip dims sh : forallb (fun d => (0 <=? d)%Z) dims = true -> map Z.to_nat dims = sh ->
  dims = map Z.of_nat sh.
Proof.
  revert sh. induction dims as [|d dims IH]; intros [|n sh] H E; cbn [map forallb] in *; try discriminate; [reflexivity|].
  apply andb_true_iff in H. destruct H as [H1 H2]. apply Z.leb_le in H1. inversion E; subst.
  rewrite Z2Nat.id by exact H1. f_equal. apply IH; [exact H2|reflexivity].
Qed.

(* one output agrees iff rten reported exactly the reference's element kind, shape and values *)
Lemma out_eqb_spec r o : out_eqb r o = true <->
  o = OT (fst r) (map Z.of_nat (shape (snd r))) (data (snd r)).
Proof.
  unfold out_eqb. destruct o as [k dims dat]; cbn [o_kind o_dims o_data]. split.
  - intros H. repeat (apply andb_true_iff in H; destruct H as [H ?]).
    apply kind_eqb_eq in H. apply list_eqb_nat_eq in H2. apply list_eqb_Z_eq in H0. subst.
    f_equal. apply dims_roundtrip; [exact H1|symmetry; exact H2].
  - intros H; inversion H; subst. repeat (apply andb_true_iff; split).
    + apply kind_eqb_eq; reflexivity.
    + apply list_eqb_nat_eq. rewrite map_map. rewrite <- (map_id (shape (snd r))) at 1.
      apply map_ext. intros n. rewrite Nat2Z.id. reflexivity.
    + apply forallb_forall. intros d Hd. apply in_map_iff in Hd. destruct Hd as (n & <- & _). apply Z.leb_le. lia.
    + apply list_eqb_Z_eq; reflexivity.
Qed.

Lemma outs_eqb_spec r : forall o, outs_eqb r o = true <->
  o = map (fun x => OT (fst x) (map Z.of_nat (shape (snd x))) (data (snd x))) r.
Proof.
  induction r as [|x r IH]; intros [|y o]; cbn [outs_eqb map]; split; intros H; try discriminate; try reflexivity.
  - apply andb_true_iff in H. destruct H as [H1 H2]. apply out_eqb_spec in H1. apply IH in H2. congruence.
  - inversion H; subst. apply andb_true_iff. split; [apply out_eqb_spec; reflexivity|apply IH; reflexivity].
Qed.

(* prop_ok c holds iff, whenever the reference defines the outputs of the node, rten returned exactly
   those outputs -- or reported the setting as unsupported where it documents that it is *)
Theorem prop_ok_reflect c : prop_ok c = true <->
  forall outs, run_ref c = Some outs ->
    c_impl c = IOk (map (fun x => OT (fst x) (map Z.of_nat (shape (snd x))) (data (snd x))) outs) \/
    (documented_unsupported c = true /\ (c_impl c = IUnsup \/ c_impl c = ILoadUnsup)).
Proof.
  unfold prop_ok. destruct (run_ref c) as [outs|].
  - split.
    + intros H o E. inversion E; subst o. destruct (c_impl c) eqn:Ei; try discriminate.
      * left. f_equal. apply outs_eqb_spec. exact H.
      * right. split; [exact H|left; reflexivity].
      * right. split; [exact H|right; reflexivity].
    + intros H. destruct (H outs eq_refl) as [E|[Hd [E|E]]]; rewrite E; [apply outs_eqb_spec; reflexivity|exact Hd|exact Hd].
  - split; [intros _ o E; discriminate|reflexivity].
Qed.
