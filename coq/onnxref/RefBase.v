(* C15 -- reference tensors: shape (list nat) + row-major data (list Z), multi-indices,
   tabulation.  Executable definitions only (proofs are in RefBase_proofs.v). *)
From RV Require Import Prelude.
Open Scope nat_scope.

Record tensor := mkT { shape : list nat; data : list Z }.

Definition numel (sh : list nat) : nat := fold_right Nat.mul 1 sh.
Definition wf (t : tensor) : Prop := length (data t) = numel (shape t).
Definition wfb (t : tensor) : bool := length (data t) =? numel (shape t).

(* row-major linearisation of a multi-index *)
Fixpoint ravel (sh idx : list nat) : nat :=
  match sh, idx with
  | _ :: sh', i :: idx' => i * numel sh' + ravel sh' idx'
  | _, _ => 0
  end.

(* all multi-indices of a shape, in row-major order *)
Fixpoint all_idx (sh : list nat) : list (list nat) :=
  match sh with
  | [] => [[]]
  | d :: sh' => flat_map (fun i => map (cons i) (all_idx sh')) (seq 0 d)
  end.

(* idx is a valid multi-index of shape sh: same rank, every coordinate in range *)
Definition valid (sh idx : list nat) : Prop := Forall2 lt idx sh.
Fixpoint validb (sh idx : list nat) : bool :=
  match sh, idx with
  | [], [] => true
  | d :: sh', i :: idx' => (i <? d) && validb sh' idx'
  | _, _ => false
  end.

Definition get (t : tensor) (idx : list nat) : Z := nth (ravel (shape t) idx) (data t) 0%Z.

(* tensor defined by an index function *)
Definition tab (sh : list nat) (f : list nat -> Z) : tensor := mkT sh (map f (all_idx sh)).

Fixpoint sequence {A} (l : list (option A)) : option (list A) :=
  match l with
  | [] => Some []
  | Some x :: r => match sequence r with Some r' => Some (x :: r') | None => None end
  | None :: _ => None
  end.

(* tensor defined by a partial index function: undefined as soon as one element is *)
Definition tabo (sh : list nat) (f : list nat -> option Z) : option tensor :=
  match sequence (map f (all_idx sh)) with Some d => Some (mkT sh d) | None => None end.

(* ---- small list helpers used by the operators ---- *)
Fixpoint upd {A} (l : list A) (k : nat) (v : A) : list A :=
  match l, k with
  | [], _ => []
  | _ :: r, 0 => v :: r
  | x :: r, S k' => x :: upd r k' v
  end.

Fixpoint remove_at {A} (l : list A) (k : nat) : list A :=
  match l, k with
  | [], _ => []
  | _ :: r, 0 => r
  | x :: r, S k' => x :: remove_at r k'
  end.

Fixpoint insert_at {A} (l : list A) (k : nat) (v : A) : list A :=
  match k, l with
  | 0, _ => v :: l
  | S k', x :: r => x :: insert_at r k' v
  | S _, [] => [v]
  end.

Definition sum_nat (l : list nat) : nat := fold_right Nat.add 0 l.
Definition sumZ (l : list Z) : Z := fold_right Z.add 0%Z l.
Definition prodZ (l : list Z) : Z := fold_right Z.mul 1%Z l.

Fixpoint index_of (j : nat) (l : list nat) : nat :=
  match l with
  | [] => 0
  | x :: r => if x =? j then 0 else S (index_of j r)
  end.

Fixpoint nodupb (l : list nat) : bool :=
  match l with [] => true | x :: r => negb (existsb (Nat.eqb x) r) && nodupb r end.

Definition memb (x : nat) (l : list nat) : bool := existsb (Nat.eqb x) l.

Fixpoint list_eqb {A} (eqb : A -> A -> bool) (a b : list A) : bool :=
  match a, b with
  | [], [] => true
  | x :: a', y :: b' => eqb x y && list_eqb eqb a' b'
  | _, _ => false
  end.

(* normalise a possibly negative axis / index against an extent r: a in [-r, r) *)
Definition norm_axis (r : nat) (a : Z) : option nat :=
  let rz := Z.of_nat r in
  if ((- rz <=? a) && (a <? rz))%Z then Some (Z.to_nat (if (a <? 0)%Z then a + rz else a)%Z) else None.

Fixpoint mapo {A B} (f : A -> option B) (l : list A) : option (list B) :=
  match l with
  | [] => Some []
  | x :: r => match f x, mapo f r with Some y, Some r' => Some (y :: r') | _, _ => None end
  end.

Definition norm_axes (r : nat) (axes : list Z) : option (list nat) := mapo (norm_axis r) axes.

Definition tensor_eqb (a b : tensor) : bool :=
  list_eqb Nat.eqb (shape a) (shape b) && list_eqb Z.eqb (data a) (data b).
