(* C15 -- MaxPool (2-D): index-level specification. *)
From RV Require Import Prelude.
From OnnxRef Require Import RefBase RefBase_proofs OnnxRef Reduce_proofs.
Open Scope nat_scope.

(* the input coordinates seen by output position i: r is in the window iff it is a real
   (un-padded) coordinate whose padded position r + p lies in [i*s, i*s + k) *)
Lemma pool_window_spec d k s p i r :
  In r (pool_window d k s p i) <-> r < d /\ i * s <= r + p < i * s + k.
Proof.
  unfold pool_window. rewrite in_map_iff. split.
  - intros (q & <- & Hq). apply filter_In in Hq. destruct Hq as [Hq Hc]. apply in_seq in Hq.
    apply andb_true_iff in Hc. destruct Hc as [H1 H2]. apply Nat.leb_le in H1. apply Nat.ltb_lt in H2. lia.
  - intros [H1 H2]. exists (r + p). split; [lia|]. apply filter_In. split; [apply in_seq; lia|].
    apply andb_true_iff. split; [apply Nat.leb_le; lia|apply Nat.ltb_lt; lia].
Qed.

(* ONNX MaxPool (2-D, floor mode, explicit pads, dilation 1, default storage order):
   out[b, c, i, j] is the maximum of x[b, c, r, q] over the window positions that are not padding;
   the output extent is floor((d + pad_begin + pad_end - k) / stride) + 1 *)
Theorem maxpool2d_spec kh kw sh sw pt pl pb pr x y : maxpool2d kh kw sh sw pt pl pb pr x = Some y ->
  exists n c h w, shape x = [n; c; h; w] /\
    1 <= kh /\ 1 <= kw /\ 1 <= sh /\ 1 <= sw /\ kh <= h + pt + pb /\ kw <= w + pl + pr /\
    shape y = [n; c; (h + pt + pb - kh) / sh + 1; (w + pl + pr - kw) / sw + 1] /\ wf y /\
    forall b ch i j, valid (shape y) [b; ch; i; j] ->
      (exists r q, In r (pool_window h kh sh pt i) /\ In q (pool_window w kw sw pl j) /\
                   get y [b; ch; i; j] = get x [b; ch; r; q]) /\
      (forall r q, In r (pool_window h kh sh pt i) -> In q (pool_window w kw sw pl j) ->
                   valid (shape x) [b; ch; r; q] /\ (get x [b; ch; r; q] <= get y [b; ch; i; j])%Z).
Proof.
  unfold maxpool2d. destruct (shape x) as [|n [|c [|h [|w [|? ?]]]]] eqn:Es; try discriminate.
  destruct ((1 <=? kh) && (1 <=? kw) && (1 <=? sh) && (1 <=? sw) && (kh <=? h + pt + pb) && (kw <=? w + pl + pr)) eqn:E; [|discriminate].
  repeat (apply andb_true_iff in E; destruct E as [E ?]).
  apply Nat.leb_le in E, H, H0, H1, H2, H3.
  intros Hy. apply tabo_spec in Hy. destruct Hy as (Hs & Hw & Hg).
  exists n, c, h, w. split; [reflexivity|]. do 6 (split; [lia|]).
  split; [exact Hs|]. split; [exact Hw|].
  intros b ch i j Hv. rewrite Hs in Hv. specialize (Hg _ Hv). cbn [nth] in Hg.
  destruct (red_fold_spec (flat_map (fun r => map (fun q => get x [b; ch; r; q]) (pool_window w kw sw pl j))
                                    (pool_window h kh sh pt i))) as (_ & _ & _ & _ & Hmax & _).
  destruct (Hmax _ Hg) as [Hin Hle]. split.
  - apply in_flat_map in Hin. destruct Hin as (r & Hr & Hin). apply in_map_iff in Hin.
    destruct Hin as (q & Hq & Hqin). exists r, q. split; [exact Hr|]. split; [exact Hqin|]. symmetry. exact Hq.
  - intros r q Hr Hq. split.
    + apply pool_window_spec in Hr. apply pool_window_spec in Hq.
      inversion Hv as [|? ? ? ? Hb Hv1]; subst. inversion Hv1 as [|? ? ? ? Hc Hv2]; subst.
      constructor; [exact Hb|]. constructor; [exact Hc|]. constructor; [lia|]. constructor; [lia|constructor].
    + apply Hle. apply in_flat_map. exists r. split; [exact Hr|]. apply in_map_iff. exists q. split; [reflexivity|exact Hq].
Qed.
