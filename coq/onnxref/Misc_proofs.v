(* C15 -- Trilu, Range, OneHot, MatMul, Gemm: index-level specifications. *)
From RV Require Import Prelude.
From OnnxRef Require Import RefBase RefBase_proofs OnnxRef Bcast_proofs Transpose_proofs Concat_proofs
  Slice_proofs Gather_proofs.
Open Scope nat_scope.

(* ONNX Trilu: the last two axes are the matrix; upper keeps the elements with j - i >= k, lower the
   elements with j - i <= k; everything else is 0 *)
Theorem trilu_spec upper k x y : trilu upper k x = Some y ->
  2 <= length (shape x) /\ shape y = shape x /\ wf y /\
  forall idx, valid (shape x) idx ->
    let r := length (shape x) in
    let i := Z.of_nat (nth (r - 2) idx 0) in
    let j := Z.of_nat (nth (r - 1) idx 0) in
    get y idx = if (if upper then (k <=? j - i)%Z else (j - i <=? k)%Z) then get x idx else 0%Z.
Proof.
  unfold trilu. destruct (length (shape x) <? 2) eqn:E; [discriminate|]. apply Nat.ltb_ge in E.
  intros H; inversion H; subst y; clear H. cbn [shape tab].
  split; [exact E|]. split; [reflexivity|]. split; [apply wf_tab|].
  intros idx Hv. cbv zeta. rewrite get_tab by exact Hv. cbv beta. destruct upper; reflexivity.
Qed.

(* ONNX Range: start, start+delta, ... as long as the value is strictly before limit *)
Theorem range_spec start limit delta y : range_op start limit delta = Some y ->
  delta <> 0%Z /\ wf y /\ exists n, shape y = [n] /\
    (forall i, i < n -> get y [i] = (start + Z.of_nat i * delta)%Z) /\
    (forall i : nat, i < n <->
       if (0 <? delta)%Z then (start + Z.of_nat i * delta < limit)%Z
       else (limit < start + Z.of_nat i * delta)%Z).
Proof.
  unfold range_op. destruct (delta =? 0)%Z eqn:E; [discriminate|]. apply Z.eqb_neq in E.
  intros H; inversion H; subst y; clear H. split; [exact E|]. split; [apply wf_tab|].
  exists (range_len start limit delta). cbn [shape tab]. split; [reflexivity|]. split.
  - intros i Hi. rewrite get_tab by (constructor; [exact Hi|constructor]). reflexivity.
  - intros i. unfold range_len. destruct (0 <? delta)%Z eqn:Ed.
    + apply Z.ltb_lt in Ed. pose proof (ceil_div_count (limit - start) delta (Z.of_nat i) Ed ltac:(lia)) as C.
      split; intros H.
      * assert (Z.of_nat i < (limit - start + delta - 1) / delta)%Z by lia. apply C in H0. lia.
      * assert (Z.of_nat i * delta < limit - start)%Z by lia. apply C in H0. lia.
    + apply Z.ltb_ge in Ed. assert (E' : (0 < - delta)%Z) by lia.
      pose proof (ceil_div_count (start - limit) (- delta) (Z.of_nat i) E' ltac:(lia)) as C.
      split; intros H.
      * assert (Z.of_nat i < (start - limit + - delta - 1) / - delta)%Z by lia. apply C in H0. lia.
      * assert (Z.of_nat i * - delta < start - limit)%Z by lia. apply C in H0. lia.
Qed.

(* ---- OneHot ---- *)
Lemma valid_insert_remove sh : forall ax d idx, ax <= length sh -> valid (insert_at sh ax d) idx ->
  valid sh (remove_at idx ax) /\ nth ax idx 0 < d /\ length idx = S (length sh).
Proof.
  induction sh as [|x sh IH]; intros ax d idx Hax Hv; cbn [length] in Hax.
  - assert (ax = 0) by lia. subst. cbn [insert_at] in Hv.
    apply valid_cons_inv in Hv. destruct Hv as (i & idx' & -> & Hi & Hv). apply valid_nil_inv in Hv. subst.
    cbn. split; [constructor|]. split; [exact Hi|reflexivity].
  - destruct ax as [|ax]; cbn [insert_at] in Hv.
    + apply valid_cons_inv in Hv. destruct Hv as (i & idx' & -> & Hi & Hv). cbn [remove_at nth length].
      split; [exact Hv|]. split; [exact Hi|]. f_equal. apply valid_length in Hv. exact Hv.
    + apply valid_cons_inv in Hv. destruct Hv as (i & idx' & -> & Hi & Hv).
      destruct (IH ax d idx' ltac:(lia) Hv) as (V & N & L). cbn [remove_at nth length].
      split; [constructor; assumption|]. split; [exact N|lia].
Qed.

(* ONNX OneHot: the new axis of extent depth is inserted at `axis` (normalised against rank+1);
   output[idx] = on if the (normalised, negative + depth) index value equals idx[axis], else off;
   index values outside [-depth, depth-1] yield off everywhere *)
Theorem onehot_spec axis ind depth off on y : onehot axis ind depth off on = Some y ->
  (1 <= depth)%Z /\ exists ax, norm_axis (S (length (shape ind))) axis = Some ax /\ wf y /\
    shape y = insert_at (shape ind) ax (Z.to_nat depth) /\
    forall idx, valid (shape y) idx ->
      valid (shape ind) (remove_at idx ax) /\ (Z.of_nat (nth ax idx 0%nat) < depth)%Z /\
      let v := get ind (remove_at idx ax) in
      let v' := if (v <? 0)%Z then (v + depth)%Z else v in
      get y idx = if (v' =? Z.of_nat (nth ax idx 0%nat))%Z then on else off.
Proof.
  unfold onehot. destruct (depth <? 1)%Z eqn:Ed; [discriminate|]. apply Z.ltb_ge in Ed.
  destruct (norm_axis (S (length (shape ind))) axis) as [ax|] eqn:Ea; [|discriminate].
  intros H; inversion H; subst y; clear H. split; [exact Ed|]. exists ax. split; [reflexivity|].
  split; [apply wf_tab|]. cbn [shape tab]. split; [reflexivity|].
  apply norm_axis_spec in Ea. destruct Ea as [Hax _].
  intros idx Hv. destruct (valid_insert_remove (shape ind) ax (Z.to_nat depth) idx ltac:(lia) Hv) as (V & N & _).
  split; [exact V|]. split; [lia|]. cbv zeta. rewrite get_tab by exact Hv. reflexivity.
Qed.

(* ---- MatMul ---- *)
Lemma valid_app_split l1 l2 idx : valid (l1 ++ l2) idx ->
  idx = firstn (length l1) idx ++ skipn (length l1) idx /\
  valid l1 (firstn (length l1) idx) /\ valid l2 (skipn (length l1) idx).
Proof. intros H. split; [symmetry; apply firstn_skipn|]. apply valid_app_inv. exact H. Qed.

(* numpy.matmul semantics: 1-D operands are promoted to matrices ([K] -> [1,K] on the left,
   [K] -> [K,1] on the right) and the added axis is removed from the result; leading (batch)
   axes broadcast; every output element is the dot product of a row and a column *)
Theorem matmul_spec a b y : matmul a b = Some y ->
  let ra := length (shape a) in let rb := length (shape b) in
  1 <= ra /\ 1 <= rb /\
  let sa := if ra =? 1 then 1 :: shape a else shape a in
  let sb := if rb =? 1 then shape b ++ [1] else shape b in
  let ba := firstn (length sa - 2) sa in let bb := firstn (length sb - 2) sb in
  let m := nth (length sa - 2) sa 0 in let kk := nth (length sa - 1) sa 0 in
  let n := nth (length sb - 1) sb 0 in
  kk = nth (length sb - 2) sb 0 /\
  exists bs, bshape ba bb = Some bs /\
    shape y = bs ++ (if ra =? 1 then [] else [m]) ++ (if rb =? 1 then [] else [n]) /\
    length (data y) = numel (bs ++ [m; n]) /\
    forall bi i j, valid bs bi -> i < m -> j < n ->
      nth (ravel (bs ++ [m; n]) (bi ++ [i; j])) (data y) 0%Z =
      sumZ (map (fun k => (get (mkT sa (data a)) (bidx ba bi ++ [i; k]) *
                           get (mkT sb (data b)) (bidx bb bi ++ [k; j]))%Z) (seq 0 kk)) /\
      valid ba (bidx ba bi) /\ valid bb (bidx bb bi).
Proof.
  unfold matmul. cbv zeta.
  destruct ((length (shape a) =? 0) || (length (shape b) =? 0)) eqn:E0; [discriminate|].
  apply orb_false_iff in E0. destruct E0 as [Ea Eb]. apply Nat.eqb_neq in Ea, Eb.
  set (sa := if length (shape a) =? 1 then 1 :: shape a else shape a).
  set (sb := if length (shape b) =? 1 then shape b ++ [1] else shape b).
  set (ba := firstn (length sa - 2) sa). set (bb := firstn (length sb - 2) sb).
  set (m := nth (length sa - 2) sa 0). set (kk := nth (length sa - 1) sa 0). set (n := nth (length sb - 1) sb 0).
  destruct (kk =? nth (length sb - 2) sb 0) eqn:Ek; [|discriminate]. apply Nat.eqb_eq in Ek.
  destruct (bshape ba bb) as [bs|] eqn:Ebs; [|discriminate].
  intros H; inversion H; subst y; clear H. cbn [shape data tab].
  split; [lia|]. split; [lia|]. split; [exact Ek|]. exists bs. split; [reflexivity|]. split; [reflexivity|].
  split; [rewrite map_length; apply length_all_idx|].
  intros bi i j Hbi Hi Hj.
  assert (Hv : valid (bs ++ [m; n]) (bi ++ [i; j])).
  { apply valid_app; [exact Hbi|]. constructor; [exact Hi|]. constructor; [exact Hj|constructor]. }
  pose proof (get_tab (bs ++ [m; n])
    (fun idx => let bi := firstn (length bs) idx in let i := nth (length bs) idx 0 in let j := nth (S (length bs)) idx 0 in
       sumZ (map (fun k => (get (mkT sa (data a)) (bidx ba bi ++ [i; k]) * get (mkT sb (data b)) (bidx bb bi ++ [k; j]))%Z) (seq 0 kk)))
    (bi ++ [i; j]) Hv) as G.
  unfold get in G at 1. cbn [shape data tab] in G. split; [|apply (bidx_valid _ _ _ _ Ebs Hbi)].
  rewrite G. cbv zeta. pose proof (valid_length _ _ Hbi) as Lb.
  rewrite <- Lb. rewrite firstn_length_app.
  rewrite app_nth2 by lia. rewrite Nat.sub_diag. rewrite app_nth2 by lia.
  replace (S (length bi) - length bi) with 1 by lia. reflexivity.
Qed.

(* ONNX Gemm: Y = alpha * A' * B' + beta * C with A' = A or A^T, B' = B or B^T, C unidirectionally
   broadcast to (M, N) *)
Theorem gemm_spec alpha beta ta tb a b c y : gemm alpha beta ta tb a b c = Some y ->
  exists m kk n, shape a = (if ta then [kk; m] else [m; kk]) /\ shape b = (if tb then [n; kk] else [kk; n]) /\
    shape y = [m; n] /\ wf y /\
    (forall ct, c = Some ct -> bshape (shape ct) [m; n] = Some [m; n]) /\
    forall i j, i < m -> j < n ->
      (forall k, k < kk -> valid (shape a) (if ta then [k; i] else [i; k]) /\
                           valid (shape b) (if tb then [j; k] else [k; j])) /\
      (forall ct, c = Some ct -> valid (shape ct) (bidx (shape ct) [i; j])) /\
      get y [i; j] =
      (alpha * sumZ (map (fun k => (get a (if ta then [k; i] else [i; k]) * get b (if tb then [j; k] else [k; j]))%Z) (seq 0 kk))
       + match c with Some ct => beta * get ct (bidx (shape ct) [i; j]) | None => 0 end)%Z.
Proof.
  unfold gemm. destruct (shape a) as [|a0 [|a1 [|? ?]]] eqn:Ea; try discriminate.
  destruct (shape b) as [|b0 [|b1 [|? ?]]] eqn:Eb; try discriminate.
  set (m := if ta then a1 else a0). set (ka := if ta then a0 else a1).
  set (kb := if tb then b1 else b0). set (n := if tb then b0 else b1).
  match goal with |- (if (ka =? kb) && ?C then _ else _) = _ -> _ => destruct (ka =? kb) eqn:Ek; [|discriminate]; destruct C eqn:Ec; [|discriminate] end.
  cbn [andb]. apply Nat.eqb_eq in Ek.
  intros H; inversion H; subst y; clear H. exists m, ka, n.
  split; [unfold m, ka; destruct ta; reflexivity|].
  split; [unfold n, kb in *; rewrite Ek; destruct tb; reflexivity|].
  cbn [shape tab]. split; [reflexivity|]. split; [apply wf_tab|].
  assert (Hc : forall ct, c = Some ct -> bshape (shape ct) [m; n] = Some [m; n]).
  { intros ct ->. destruct (bshape (shape ct) [m; n]) as [s|] eqn:Es; [|discriminate].
    apply list_eqb_nat_eq in Ec. subst. reflexivity. }
  split; [exact Hc|].
  intros i j Hi Hj.
  assert (Hv : valid [m; n] [i; j]) by (constructor; [exact Hi|constructor; [exact Hj|constructor]]).
  split; [|split].
  - intros k Hk. split.
    + unfold m, ka in *. destruct ta; (constructor; [lia|constructor; [lia|constructor]]).
    + unfold n, kb in *. destruct tb; (constructor; [lia|constructor; [lia|constructor]]).
  - intros ct Hct. destruct (bidx_valid _ _ _ _ (Hc ct Hct) Hv) as [V _]. exact V.
  - rewrite get_tab by exact Hv. reflexivity.
Qed.
