(* C15 -- Clip, Relu, LeakyRelu and the variadic Max / Min / Sum: specifications. *)
From RV Require Import Prelude.
From OnnxRef Require Import RefBase RefBase_proofs OnnxRef Bcast_proofs.
Open Scope nat_scope.

(* ONNX Clip: "Min(max, Max(input, min))"; with min <= max the result is the input limited to
   [min, max]; "when min is greater than max, the operator sets all the input values to max";
   an absent bound does not constrain *)
Theorem clip_val_spec lo hi v :
  clip_val (Some lo) (Some hi) v = Z.min hi (Z.max v lo) /\
  ((lo <= hi)%Z -> (lo <= clip_val (Some lo) (Some hi) v <= hi)%Z /\
                   ((lo <= v <= hi)%Z -> clip_val (Some lo) (Some hi) v = v) /\
                   ((v < lo)%Z -> clip_val (Some lo) (Some hi) v = lo) /\
                   ((hi < v)%Z -> clip_val (Some lo) (Some hi) v = hi)) /\
  ((hi < lo)%Z -> clip_val (Some lo) (Some hi) v = hi) /\
  clip_val (Some lo) None v = Z.max v lo /\ clip_val None (Some hi) v = Z.min hi v /\ clip_val None None v = v.
Proof. unfold clip_val. repeat split; lia. Qed.

Theorem clip_spec lo hi x idx : wf x -> valid (shape x) idx ->
  shape (clip lo hi x) = shape x /\ get (clip lo hi x) idx = clip_val lo hi (get x idx).
Proof. intros Hw Hv. split; [reflexivity|]. apply get_unop; assumption. Qed.

Theorem relu_leaky_spec alpha x idx : wf x -> valid (shape x) idx ->
  get (unop relu_val x) idx = Z.max (get x idx) 0 /\
  get (unop (leaky_relu_val alpha) x) idx = (if (get x idx <? 0)%Z then alpha * get x idx else get x idx)%Z.
Proof. intros Hw Hv. split; apply get_unop; assumption. Qed.

(* variadic Max / Min / Sum: one input is returned unchanged; n+1 inputs = the broadcasting binary
   operator (C15_binop_spec) applied to the result for the first n inputs and the last input *)
Theorem variadic_spec f x xs y :
  variadic f [x] = Some x /\
  variadic f (x :: xs ++ [y]) = match variadic f (x :: xs) with Some a => binop f a y | None => None end.
Proof.
  split; [reflexivity|]. unfold variadic. rewrite fold_left_app. reflexivity.
Qed.
