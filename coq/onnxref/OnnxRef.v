(* C15 -- executable ONNX reference semantics over Z-valued tensors.
   Definitions only; the index-level specifications are proved in *_proofs.v and stated in
   Props_C15.v.  `None` = outside the domain the ONNX specification defines (or outside the
   exactly-representable sub-domain used by the correspondence check). *)
From RV Require Import Prelude.
From OnnxRef Require Import RefBase.
Open Scope nat_scope.

Fixpoint map2 {A B C} (f : A -> B -> C) (la : list A) (lb : list B) : list C :=
  match la, lb with
  | a :: la', b :: lb' => f a b :: map2 f la' lb'
  | _, _ => []
  end.

Definition b2z (b : bool) : Z := if b then 1%Z else 0%Z.

(* ------------------------------------------------------------------ broadcasting *)
Definition bdim (a b : nat) : option nat :=
  if a =? b then Some a else if a =? 1 then Some b else if b =? 1 then Some a else None.

Fixpoint bshape_eq (a b : list nat) : option (list nat) :=
  match a, b with
  | [], [] => Some []
  | x :: a', y :: b' =>
      match bdim x y, bshape_eq a' b' with
      | Some d, Some r => Some (d :: r)
      | _, _ => None
      end
  | _, _ => None
  end.

Definition lpad (n : nat) (sh : list nat) : list nat := repeat 1 (n - length sh) ++ sh.

(* multidirectional (numpy) broadcasting of two shapes *)
Definition bshape (a b : list nat) : option (list nat) :=
  let n := Nat.max (length a) (length b) in bshape_eq (lpad n a) (lpad n b).

Fixpoint bmask (sh idx : list nat) : list nat :=
  match sh, idx with
  | d :: sh', i :: idx' => (if d =? 1 then 0 else i) :: bmask sh' idx'
  | _, _ => []
  end.

(* index into an operand of shape sh for output index idx: right-aligned, 0 along
   broadcast (size-1) dimensions *)
Definition bidx (sh idx : list nat) : list nat := bmask sh (skipn (length idx - length sh) idx).

Definition binop (f : Z -> Z -> option Z) (a b : tensor) : option tensor :=
  match bshape (shape a) (shape b) with
  | Some sh => tabo sh (fun idx => f (get a (bidx (shape a) idx)) (get b (bidx (shape b) idx)))
  | None => None
  end.

Definition where_op (c x y : tensor) : option tensor :=
  match bshape (shape c) (shape x) with
  | Some s1 =>
      match bshape s1 (shape y) with
      | Some sh => Some (tab sh (fun idx =>
                      if (get c (bidx (shape c) idx) =? 0)%Z then get y (bidx (shape y) idx)
                      else get x (bidx (shape x) idx)))
      | None => None
      end
  | None => None
  end.

Definition unop (f : Z -> Z) (x : tensor) : tensor := mkT (shape x) (map f (data x)).

(* ---- scalar functions ---- *)
Inductive binop_kind :=
  | BAdd | BSub | BMul | BDiv | BMod (fmod : bool) | BPow
  | BAnd | BOr | BXor | BEq | BLt | BLe | BGt | BGe.

(* isfloat: the operands are (integer-valued) floats; results that would not be integers are
   outside the exactly-representable sub-domain (None) *)
Definition scalar_bin (k : binop_kind) (isfloat : bool) (a b : Z) : option Z :=
  match k with
  | BAdd => Some (a + b)%Z
  | BSub => Some (a - b)%Z
  | BMul => Some (a * b)%Z
  | BDiv => if (b =? 0)%Z then None
            else if isfloat then (if (Z.rem a b =? 0)%Z then Some (Z.quot a b) else None)
            else Some (Z.quot a b)                       (* integer division truncates toward zero *)
  | BMod fmod =>
      if (b =? 0)%Z then None
      else if fmod then Some (Z.rem a b)                  (* C fmod: sign of the dividend *)
      else if isfloat then None                           (* fmod=0 is not allowed for floats *)
      else Some (Z.modulo a b)                            (* integer mod: sign of the divisor *)
  | BPow => if (b <? 0)%Z then None else Some (Z.pow a b)
  | BAnd => Some (b2z (negb (a =? 0)%Z && negb (b =? 0)%Z))
  | BOr => Some (b2z (negb (a =? 0)%Z || negb (b =? 0)%Z))
  | BXor => Some (b2z (xorb (negb (a =? 0)%Z) (negb (b =? 0)%Z)))
  | BEq => Some (b2z (a =? b)%Z)
  | BLt => Some (b2z (a <? b)%Z)
  | BLe => Some (b2z (a <=? b)%Z)
  | BGt => Some (b2z (b <? a)%Z)
  | BGe => Some (b2z (b <=? a)%Z)
  end.

(* ------------------------------------------------------------------ Transpose *)
Definition is_permb (perm : list nat) (r : nat) : bool :=
  (length perm =? r) && forallb (fun p => p <? r) perm && nodupb perm
  && forallb (fun j => memb j perm) (seq 0 r).

Definition transpose_src (perm idx : list nat) : list nat :=
  map (fun j => nth (index_of j perm) idx 0) (seq 0 (length perm)).

Definition transpose (perm : list nat) (x : tensor) : option tensor :=
  if is_permb perm (length (shape x)) then
    Some (tab (map (fun p => nth p (shape x) 0) perm) (fun idx => get x (transpose_src perm idx)))
  else None.

(* ------------------------------------------------------------------ Reshape *)
Fixpoint resolve_zeros (allowzero : bool) (ins : list nat) (s : list Z) : option (list Z) :=
  match s with
  | [] => Some []
  | d :: s' =>
      match resolve_zeros allowzero (tl ins) s' with
      | None => None
      | Some r' =>
          if (d =? 0)%Z && negb allowzero then
            match ins with i :: _ => Some (Z.of_nat i :: r') | [] => None end
          else Some (d :: r')
      end
  end.

Definition countZ (v : Z) (l : list Z) : nat := length (filter (Z.eqb v) l).

Definition reshape_dims (allowzero : bool) (ins : list nat) (s : list Z) : option (list nat) :=
  if allowzero && (0 <? countZ 0 s) && (0 <? countZ (-1) s) then None else
  match resolve_zeros allowzero ins s with
  | None => None
  | Some s1 =>
      if negb (forallb (fun d => (-1 <=? d)%Z) s1) then None else
      let known := prodZ (filter (fun d => negb (d =? -1)%Z) s1) in
      let n := Z.of_nat (numel ins) in
      match countZ (-1) s1 with
      | 0 => if (known =? n)%Z then Some (map Z.to_nat s1) else None
      | 1 => if (known =? 0)%Z then None
             else if (n mod known =? 0)%Z then
               Some (map (fun d => if (d =? -1)%Z then Z.to_nat (n / known) else Z.to_nat d) s1)
             else None
      | _ => None
      end
  end.

Definition reshape (allowzero : bool) (x : tensor) (s : list Z) : option tensor :=
  match reshape_dims allowzero (shape x) s with
  | Some sh => Some (mkT sh (data x))
  | None => None
  end.

(* ------------------------------------------------------------------ Squeeze / Unsqueeze *)
Fixpoint drop_at (ks : list nat) (pos : nat) (sh : list nat) : list nat :=
  match sh with
  | [] => []
  | d :: r => if memb pos ks then drop_at ks (S pos) r else d :: drop_at ks (S pos) r
  end.

Definition squeeze (x : tensor) (axes : option (list Z)) : option tensor :=
  match axes with
  | None => Some (mkT (filter (fun d => negb (d =? 1)) (shape x)) (data x))
  | Some ax =>
      match norm_axes (length (shape x)) ax with
      | Some ks =>
          if forallb (fun k => nth k (shape x) 0 =? 1) ks && nodupb ks
          then Some (mkT (drop_at ks 0 (shape x)) (data x)) else None
      | None => None
      end
  end.

Fixpoint unsq_build (n pos : nat) (ks sh : list nat) : list nat :=
  match n with
  | 0 => []
  | S n' => if memb pos ks then 1 :: unsq_build n' (S pos) ks sh
            else match sh with
                 | d :: sh' => d :: unsq_build n' (S pos) ks sh'
                 | [] => []
                 end
  end.

Definition unsqueeze (x : tensor) (axes : list Z) : option tensor :=
  let n := length (shape x) + length axes in
  match norm_axes n axes with
  | Some ks => if nodupb ks then Some (mkT (unsq_build n 0 ks (shape x)) (data x)) else None
  | None => None
  end.

(* ------------------------------------------------------------------ Concat / Split *)
Fixpoint locate (ds : list nat) (p : nat) : nat * nat :=
  match ds with
  | [] => (0, p)
  | d :: r => if p <? d then (0, p) else let (k, o) := locate r (p - d) in (S k, o)
  end.

Definition same_except (axis : nat) (a b : list nat) : bool :=
  list_eqb Nat.eqb (upd a axis 0) (upd b axis 0).

Definition concat (axis : Z) (xs : list tensor) : option tensor :=
  match xs with
  | [] => None
  | x0 :: _ =>
      match norm_axis (length (shape x0)) axis with
      | None => None
      | Some ax =>
          if forallb (fun x => same_except ax (shape x0) (shape x)) xs then
            let ds := map (fun x => nth ax (shape x) 0) xs in
            Some (tab (upd (shape x0) ax (sum_nat ds))
                      (fun idx => let (k, o) := locate ds (nth ax idx 0) in
                                  get (nth k xs x0) (upd idx ax o)))
          else None
      end
  end.

Fixpoint split_outs (x : tensor) (ax off : nat) (ss : list nat) : list tensor :=
  match ss with
  | [] => []
  | s :: r => tab (upd (shape x) ax s) (fun idx => get x (upd idx ax (off + nth ax idx 0)))
              :: split_outs x ax (off + s) r
  end.

(* sizes of the pieces: explicit `split`, or n equal parts (new = opset >= 18 semantics: the
   last part may be smaller, but not empty) *)
Definition split_sizes (new : bool) (d : nat) (split : option (list Z)) (n : nat) : option (list nat) :=
  match split with
  | Some ss => if forallb (fun s => (0 <=? s)%Z) ss && (sumZ ss =? Z.of_nat d)%Z
               then Some (map Z.to_nat ss) else None
  | None =>
      if n =? 0 then None
      else if d mod n =? 0 then Some (repeat (d / n) n)
      else if new then
        let c := (d + n - 1) / n in
        if c * (n - 1) <? d then Some (repeat c (n - 1) ++ [d - c * (n - 1)]) else None
      else None
  end.

Definition split (new : bool) (axis : Z) (x : tensor) (sp : option (list Z)) (n : nat) : option (list tensor) :=
  match norm_axis (length (shape x)) axis with
  | None => None
  | Some ax =>
      match split_sizes new (nth ax (shape x) 0) sp n with
      | Some ss => Some (split_outs x ax 0 ss)
      | None => None
      end
  end.

(* ------------------------------------------------------------------ Slice *)
Definition clampZ (lo hi v : Z) : Z := Z.max lo (Z.min hi v).

Definition slice_start (d : nat) (start step : Z) : Z :=
  let dz := Z.of_nat d in
  let s0 := if (start <? 0)%Z then (start + dz)%Z else start in
  if (0 <? step)%Z then clampZ 0 dz s0 else clampZ 0 (dz - 1) s0.

Definition slice_end (d : nat) (end_ step : Z) : Z :=
  let dz := Z.of_nat d in
  let e0 := if (end_ <? 0)%Z then (end_ + dz)%Z else end_ in
  if (0 <? step)%Z then clampZ 0 dz e0 else clampZ (-1) (dz - 1) e0.

(* number of k >= 0 with s + k*step strictly before e (in the direction of step) *)
Definition slice_len (d : nat) (s e step : Z) : nat :=
  if d =? 0 then 0
  else if (0 <? step)%Z then Z.to_nat ((e - s + step - 1) / step)
  else Z.to_nat ((s - e + (- step) - 1) / (- step)).

Definition slice_params (sh : list nat) (ks : list nat) (starts ends steps : list Z)
  : list (Z * Z * nat) :=
  map (fun k => let d := nth k sh 0 in
                if memb k ks then
                  let j := index_of k ks in
                  let st := nth j steps 1%Z in
                  let s := slice_start d (nth j starts 0%Z) st in
                  let e := slice_end d (nth j ends 0%Z) st in
                  (s, st, slice_len d s e st)
                else (0%Z, 1%Z, d)) (seq 0 (length sh)).

Definition slice_src (ps : list (Z * Z * nat)) (idx : list nat) : list nat :=
  map2 (fun p i => Z.to_nat (fst (fst p) + Z.of_nat i * snd (fst p))) ps idx.

(* The specification text clamps a start below -d to 0 for negative steps, the ONNX reference
   implementation (numpy slicing) makes such a slice empty: the two official sources disagree,
   the reference is left undefined there. *)
Definition slice_corner (sh ks : list nat) (starts steps : list Z) : bool :=
  existsb (fun j => let d := Z.of_nat (nth (nth j ks 0) sh 0) in
                    ((nth j steps 1 <? 0) && (nth j starts 0 + d <? 0))%Z) (seq 0 (length ks)).

(* axes omitted: the first len(starts) axes (Slice-1 wording; from Slice-10 on the text says all
   r axes, i.e. len(starts) = r -- checked by the caller through `strict`) *)
Definition slice (strict : bool) (x : tensor) (starts ends : list Z) (axes steps : option (list Z)) : option tensor :=
  let r := length (shape x) in
  let n := length starts in
  let axes' := match axes with Some a => a | None => map Z.of_nat (seq 0 n) end in
  let steps' := match steps with Some s => s | None => repeat 1%Z n end in
  if (length ends =? n) && (length axes' =? n) && (length steps' =? n)
     && (match axes with None => negb strict || (n =? r) | Some _ => true end) then
    match norm_axes r axes' with
    | None => None
    | Some ks =>
        if nodupb ks && forallb (fun s => negb (s =? 0)%Z) steps' && negb (slice_corner (shape x) ks starts steps') then
          let ps := slice_params (shape x) ks starts ends steps' in
          Some (tab (map snd ps) (fun idx => get x (slice_src ps idx)))
        else None
    end
  else None.

(* ------------------------------------------------------------------ Gather family *)
(* an index value v into an extent d: valid range [-d, d-1], negative values count from the end;
   the specification makes any out-of-bounds index an error, whether or not it is used *)
Definition idx_ok (d : nat) (v : Z) : bool := ((- Z.of_nat d <=? v) && (v <? Z.of_nat d))%Z.
Definition norm_idx (d : nat) (v : Z) : nat := Z.to_nat (if (v <? 0)%Z then (v + Z.of_nat d)%Z else v).

Definition gather (axis : Z) (x ind : tensor) : option tensor :=
  match norm_axis (length (shape x)) axis with
  | None => None
  | Some ax =>
      let d := nth ax (shape x) 0 in
      let q := length (shape ind) in
      if forallb (idx_ok d) (data ind) then
        Some (tab (firstn ax (shape x) ++ shape ind ++ skipn (S ax) (shape x)) (fun idx =>
                get x (firstn ax idx ++ [norm_idx d (get ind (firstn q (skipn ax idx)))] ++ skipn (ax + q) idx)))
      else None
  end.

Fixpoint le_except (ax pos : nat) (a b : list nat) : bool :=
  match a, b with
  | [], [] => true
  | x :: a', y :: b' => ((pos =? ax) || (x <=? y)) && le_except ax (S pos) a' b'
  | _, _ => false
  end.

Definition gather_elements (axis : Z) (x ind : tensor) : option tensor :=
  match norm_axis (length (shape x)) axis with
  | None => None
  | Some ax =>
      let d := nth ax (shape x) 0 in
      if le_except ax 0 (shape ind) (shape x) && forallb (idx_ok d) (data ind) then
        Some (tab (shape ind) (fun idx => get x (upd idx ax (norm_idx d (get ind idx)))))
      else None
  end.

(* the m index components of the tuple at position i of the indices tensor *)
Definition nd_tuple (b m : nat) (sx : list nat) (ind : tensor) (i : list nat) : list nat :=
  map (fun t => norm_idx (nth (b + t) sx 0) (get ind (i ++ [t]))) (seq 0 m).
Definition nd_tuple_ok (b m : nat) (sx : list nat) (ind : tensor) (i : list nat) : bool :=
  forallb (fun t => idx_ok (nth (b + t) sx 0) (get ind (i ++ [t]))) (seq 0 m).

Definition gather_nd (b : nat) (x ind : tensor) : option tensor :=
  let r := length (shape x) in
  let q := length (shape ind) in
  if (q =? 0) || (r =? 0) then None else
  let m := last (shape ind) 0 in
  let pre := firstn (q - 1) (shape ind) in
  if (b <? q) && (b <? r) && (1 <=? m) && (b + m <=? r)
     && list_eqb Nat.eqb (firstn b (shape x)) (firstn b (shape ind))
     && forallb (nd_tuple_ok b m (shape x) ind) (all_idx pre) then
    Some (tab (pre ++ skipn (b + m) (shape x)) (fun idx =>
            get x (firstn b idx ++ nd_tuple b m (shape x) ind (firstn (q - 1) idx) ++ skipn (q - 1) idx)))
  else None.

(* ------------------------------------------------------------------ Expand / Tile *)
Definition expand (x : tensor) (s : list Z) : option tensor :=
  if forallb (fun d => (0 <=? d)%Z) s then
    match bshape (shape x) (map Z.to_nat s) with
    | Some sh => Some (tab sh (fun idx => get x (bidx (shape x) idx)))
    | None => None
    end
  else None.

Definition tile (x : tensor) (reps : list Z) : option tensor :=
  if (length reps =? length (shape x)) && forallb (fun d => (0 <=? d)%Z) reps then
    Some (tab (map2 (fun d r => d * Z.to_nat r) (shape x) reps)
              (fun idx => get x (map2 (fun i d => i mod d) idx (shape x))))
  else None.

(* ------------------------------------------------------------------ Pad *)
Inductive pad_mode := PConstant | PReflect | PEdge | PWrap.

(* source coordinate for output coordinate i along an axis of extent d with b leading pad *)
Definition pad_src (mode : pad_mode) (d : nat) (b : Z) (i : nat) : option nat :=
  let s := (Z.of_nat i - b)%Z in
  let dz := Z.of_nat d in
  match mode with
  | PConstant => if ((0 <=? s) && (s <? dz))%Z then Some (Z.to_nat s) else None
  | PEdge => Some (Z.to_nat (clampZ 0 (dz - 1) s))
  | PReflect => Some (Z.to_nat (if (s <? 0)%Z then (- s)%Z else if (dz <=? s)%Z then (2 * (dz - 1) - s)%Z else s))
  | PWrap => Some (Z.to_nat (s mod dz))
  end.

Definition pad_axis_ok (mode : pad_mode) (d : nat) (b e : Z) : bool :=
  let dz := Z.of_nat d in
  (0 <=? dz + b + e)%Z &&
  match mode with
  | PConstant => (0 <=? dz + b)%Z && (0 <=? dz + e)%Z
  | PEdge => (0 <=? b)%Z && (0 <=? e)%Z && (((b =? 0) && (e =? 0))%Z || (0 <? d))
  | PReflect => (0 <=? b)%Z && (0 <=? e)%Z && (b <=? dz - 1)%Z && (e <=? dz - 1)%Z
  | PWrap => (0 <=? b)%Z && (0 <=? e)%Z && (b <=? dz)%Z && (e <=? dz)%Z
  end.

Definition pad_params (sh ks : list nat) (pads : list Z) : list (nat * Z * Z) :=
  let n := length ks in
  map (fun k => let d := nth k sh 0 in
                if memb k ks then let j := index_of k ks in (d, nth j pads 0%Z, nth (n + j) pads 0%Z)
                else (d, 0%Z, 0%Z)) (seq 0 (length sh)).

Definition pad (mode : pad_mode) (x : tensor) (pads : list Z) (cval : Z) (axes : option (list Z)) : option tensor :=
  let r := length (shape x) in
  let axes' := match axes with Some a => a | None => map Z.of_nat (seq 0 r) end in
  match norm_axes r axes' with
  | None => None
  | Some ks =>
      if nodupb ks && (length pads =? 2 * length ks)
         && (match mode with PConstant => true | _ => negb (numel (shape x) =? 0) end) then
        let ps := pad_params (shape x) ks pads in
        if forallb (fun p => pad_axis_ok mode (fst (fst p)) (snd (fst p)) (snd p)) ps then
          let sh := map (fun p => Z.to_nat (Z.of_nat (fst (fst p)) + snd (fst p) + snd p)) ps in
          Some (tab sh (fun idx =>
                  match sequence (map2 (fun p i => pad_src mode (fst (fst p)) (snd (fst p)) i) ps idx) with
                  | Some src => get x src
                  | None => cval
                  end))
        else None
      else None
  end.

(* ------------------------------------------------------------------ Reductions *)
Inductive red_kind := RSum | RProd | RMax | RMin | RSumSquare | RL1.

Definition red_fold (k : red_kind) (l : list Z) : option Z :=
  match k with
  | RSum => Some (sumZ l)
  | RProd => Some (prodZ l)
  | RSumSquare => Some (sumZ (map (fun v => v * v)%Z l))
  | RL1 => Some (sumZ (map Z.abs l))
  | RMax => match l with [] => None | v :: r => Some (fold_right Z.max v r) end
  | RMin => match l with [] => None | v :: r => Some (fold_right Z.min v r) end
  end.

Definition red_mask (r : nat) (axes : list nat) : list bool := map (fun k => memb k axes) (seq 0 r).
Definition red_shape (mask : list bool) (sh : list nat) : list nat :=
  map2 (fun (m : bool) d => if m then d else 1) mask sh.
Definition keep_shape (mask : list bool) (sh : list nat) : list nat :=
  map2 (fun (m : bool) d => if m then 1 else d) mask sh.
Definition drop_shape (mask : list bool) (sh : list nat) : list nat :=
  map snd (filter (fun p => negb (fst p)) (combine mask sh)).
Definition idx_add (a b : list nat) : list nat := map2 Nat.add a b.

(* keepdims form; the reduced elements of output index kidx are x[kidx + j], j over red_shape *)
Definition reduce_keep (k : red_kind) (x : tensor) (mask : list bool) : option tensor :=
  let rs := red_shape mask (shape x) in
  tabo (keep_shape mask (shape x))
       (fun kidx => red_fold k (map (fun j => get x (idx_add kidx j)) (all_idx rs))).

Definition reduce (k : red_kind) (keepdims : bool) (x : tensor) (axes : list nat) : option tensor :=
  let mask := red_mask (length (shape x)) axes in
  match reduce_keep k x mask with
  | Some t => Some (if keepdims then t else mkT (drop_shape mask (shape x)) (data t))
  | None => None
  end.

(* reductions of a single element that are the identity *)
Definition red_idempotent (k : red_kind) : bool :=
  match k with RSum | RProd | RMax | RMin => true | RSumSquare | RL1 => false end.

(* axes = None or [] : all axes, unless noop_with_empty_axes.  With noop the text says "the output
   tensor would be equivalent to input tensor" while the reference implementation reduces over an
   empty set of axes (SumSquare squares, L1 takes absolute values): where the two differ the
   reference is left undefined. *)
Definition reduce_op (k : red_kind) (keepdims noop : bool) (x : tensor) (axes : option (list Z)) : option tensor :=
  let r := length (shape x) in
  let ax := match axes with Some a => a | None => [] end in
  match ax with
  | [] => if noop then (if red_idempotent k then Some x else None) else reduce k keepdims x (seq 0 r)
  | _ => match norm_axes r ax with
         | Some ks => if nodupb ks then reduce k keepdims x ks else None
         | None => None
         end
  end.

(* ---- ArgMax / ArgMin ---- *)
(* position of the best element: first (or last) among equals *)
Fixpoint arg_best (better : Z -> Z -> bool) (last_ : bool) (l : list Z) (pos : nat) (best : Z) (bpos : nat) : nat :=
  match l with
  | [] => bpos
  | v :: r => if better v best || (last_ && (v =? best)%Z)
              then arg_best better last_ r (S pos) v pos
              else arg_best better last_ r (S pos) best bpos
  end.

Definition arg_list (is_max last_ : bool) (l : list Z) : option nat :=
  match l with
  | [] => None
  | v :: r => Some (arg_best (fun a b => if is_max then (b <? a)%Z else (a <? b)%Z) last_ r 1 v 0)
  end.

Definition arg_reduce (is_max last_ keepdims : bool) (axis : Z) (x : tensor) : option tensor :=
  match norm_axis (length (shape x)) axis with
  | None => None
  | Some ax =>
      let mask := red_mask (length (shape x)) [ax] in
      let d := nth ax (shape x) 0 in
      if d =? 0 then None else      (* arg of an empty sequence is an error, even for an empty output *)
      match tabo (keep_shape mask (shape x))
                 (fun kidx => match arg_list is_max last_ (map (fun p => get x (upd kidx ax p)) (seq 0 d)) with
                              | Some p => Some (Z.of_nat p) | None => None end) with
      | Some t => Some (if keepdims then t else mkT (drop_shape mask (shape x)) (data t))
      | None => None
      end
  end.

(* ------------------------------------------------------------------ CumSum / Trilu / Range / OneHot *)
Definition cumsum_range (exclusive reverse : bool) (d i : nat) : list nat :=
  match reverse, exclusive with
  | false, false => seq 0 (S i)
  | false, true => seq 0 i
  | true, false => seq i (d - i)
  | true, true => seq (S i) (d - S i)
  end.

Definition cumsum (exclusive reverse : bool) (axis : Z) (x : tensor) : option tensor :=
  match norm_axis (length (shape x)) axis with
  | None => None
  | Some ax =>
      let d := nth ax (shape x) 0 in
      Some (tab (shape x) (fun idx =>
              sumZ (map (fun q => get x (upd idx ax q)) (cumsum_range exclusive reverse d (nth ax idx 0)))))
  end.

Definition trilu (upper : bool) (k : Z) (x : tensor) : option tensor :=
  let r := length (shape x) in
  if r <? 2 then None else
  Some (tab (shape x) (fun idx =>
          let i := Z.of_nat (nth (r - 2) idx 0) in
          let j := Z.of_nat (nth (r - 1) idx 0) in
          if upper then (if (k <=? j - i)%Z then get x idx else 0%Z)
          else (if (j - i <=? k)%Z then get x idx else 0%Z))).

Definition range_len (start limit delta : Z) : nat :=
  if (0 <? delta)%Z then Z.to_nat ((limit - start + delta - 1) / delta)
  else Z.to_nat ((start - limit + (- delta) - 1) / (- delta)).

Definition range_op (start limit delta : Z) : option tensor :=
  if (delta =? 0)%Z then None
  else Some (tab [range_len start limit delta] (fun idx => let i := Z.of_nat (nth 0 idx 0) in (start + i * delta)%Z)).

Definition onehot (axis : Z) (ind : tensor) (depth off on : Z) : option tensor :=
  let r := length (shape ind) in
  if (depth <? 1)%Z then None else
  match norm_axis (S r) axis with
  | None => None
  | Some ax =>
      Some (tab (insert_at (shape ind) ax (Z.to_nat depth)) (fun idx =>
              let i := get ind (remove_at idx ax) in
              let i' := if (i <? 0)%Z then (i + depth)%Z else i in
              let pz := Z.of_nat (nth ax idx 0) in
              if (i' =? pz)%Z then on else off))
  end.

(* ------------------------------------------------------------------ TopK *)
(* (value, index) order: better value first; equal values: lower index first *)
Definition topk_before (largest : bool) (a b : Z * nat) : bool :=
  if (fst a =? fst b)%Z then snd a <=? snd b
  else if largest then (fst b <? fst a)%Z else (fst a <? fst b)%Z.

Fixpoint ins_sorted (before : Z * nat -> Z * nat -> bool) (a : Z * nat) (l : list (Z * nat)) : list (Z * nat) :=
  match l with
  | [] => [a]
  | b :: r => if before a b then a :: l else b :: ins_sorted before a r
  end.
Definition isort (before : Z * nat -> Z * nat -> bool) (l : list (Z * nat)) : list (Z * nat) :=
  fold_right (ins_sorted before) [] l.

Definition topk_list (largest : bool) (k : nat) (l : list Z) : list (Z * nat) :=
  firstn k (isort (topk_before largest) (combine l (seq 0 (length l)))).

Definition topk (largest : bool) (axis : Z) (k : Z) (x : tensor) : option (tensor * tensor) :=
  match norm_axis (length (shape x)) axis with
  | None => None
  | Some ax =>
      let d := nth ax (shape x) 0 in
      if ((0 <=? k) && (k <=? Z.of_nat d))%Z then
        let kn := Z.to_nat k in
        let sh := upd (shape x) ax kn in
        let pick idx := nth (nth ax idx 0)
                            (topk_list largest kn (map (fun p => get x (upd idx ax p)) (seq 0 d))) (0%Z, 0) in
        Some (tab sh (fun idx => fst (pick idx)), tab sh (fun idx => Z.of_nat (snd (pick idx))))
      else None
  end.

(* ------------------------------------------------------------------ MatMul / Gemm *)
Definition matmul (a b : tensor) : option tensor :=
  let ra := length (shape a) in
  let rb := length (shape b) in
  if (ra =? 0) || (rb =? 0) then None else
  let sa := if ra =? 1 then 1 :: shape a else shape a in
  let sb := if rb =? 1 then shape b ++ [1] else shape b in
  let na := length sa in
  let nb := length sb in
  let ba := firstn (na - 2) sa in
  let bb := firstn (nb - 2) sb in
  let m := nth (na - 2) sa 0 in
  let ka := nth (na - 1) sa 0 in
  let kb := nth (nb - 2) sb 0 in
  let n := nth (nb - 1) sb 0 in
  if ka =? kb then
    match bshape ba bb with
    | None => None
    | Some bs =>
        let a' := mkT sa (data a) in
        let b' := mkT sb (data b) in
        let nbs := length bs in
        let full := tab (bs ++ [m; n]) (fun idx =>
              let bi := firstn nbs idx in
              let i := nth nbs idx 0 in
              let j := nth (S nbs) idx 0 in
              sumZ (map (fun k => (get a' (bidx ba bi ++ [i; k]) * get b' (bidx bb bi ++ [k; j]))%Z) (seq 0 ka))) in
        Some (mkT (bs ++ (if ra =? 1 then [] else [m]) ++ (if rb =? 1 then [] else [n])) (data full))
    end
  else None.

Definition gemm (alpha beta : Z) (ta tb : bool) (a b : tensor) (c : option tensor) : option tensor :=
  match shape a, shape b with
  | [a0; a1], [b0; b1] =>
      let m := if ta then a1 else a0 in
      let ka := if ta then a0 else a1 in
      let kb := if tb then b1 else b0 in
      let n := if tb then b0 else b1 in
      let cok := match c with
                 | Some ct => match bshape (shape ct) [m; n] with
                              | Some s => list_eqb Nat.eqb s [m; n] | None => false end
                 | None => true end in
      if (ka =? kb) && cok then
        Some (tab [m; n] (fun idx =>
                let i := nth 0 idx 0 in
                let j := nth 1 idx 0 in
                (alpha * sumZ (map (fun k => (get a (if ta then [k; i] else [i; k]) *
                                              get b (if tb then [j; k] else [k; j]))%Z) (seq 0 ka))
                 + match c with Some ct => beta * get ct (bidx (shape ct) idx) | None => 0 end)%Z))
      else None
  | _, _ => None
  end.

(* ------------------------------------------------------------------ Scatter *)
Inductive scatter_red := SNone | SAdd | SMul | SMin | SMax.

(* combine data value v with the updates us that target the element, in order *)
Definition scatter_apply (red : scatter_red) (v : Z) (us : list Z) : option Z :=
  match red with
  | SNone => match us with [] => Some v | [u] => Some u | _ => None end  (* duplicates: undefined order *)
  | SAdd => Some (fold_left Z.add us v)
  | SMul => Some (fold_left Z.mul us v)
  | SMin => Some (fold_left Z.min us v)
  | SMax => Some (fold_left Z.max us v)
  end.

Definition scatter_elements (red : scatter_red) (axis : Z) (x ind upd_ : tensor) : option tensor :=
  match norm_axis (length (shape x)) axis with
  | None => None
  | Some ax =>
      let d := nth ax (shape x) 0 in
      if list_eqb Nat.eqb (shape ind) (shape upd_) && le_except ax 0 (shape ind) (shape x)
         && forallb (idx_ok d) (data ind) then
        (* (target index, update value) for every element of indices, in row-major order *)
        let tgts := map (fun idx => (upd idx ax (norm_idx d (get ind idx)), get upd_ idx)) (all_idx (shape ind)) in
        tabo (shape x) (fun p =>
          scatter_apply red (get x p) (map snd (filter (fun t => list_eqb Nat.eqb (fst t) p) tgts)))
      else None
  end.

Definition scatter_nd (red : scatter_red) (x ind upd_ : tensor) : option tensor :=
  let r := length (shape x) in
  let q := length (shape ind) in
  if (q =? 0) || (r =? 0) then None else
  let m := last (shape ind) 0 in
  let pre := firstn (q - 1) (shape ind) in
  if (m <=? r) && (1 <=? m) && list_eqb Nat.eqb (shape upd_) (pre ++ skipn m (shape x))
     && forallb (nd_tuple_ok 0 m (shape x) ind) (all_idx pre) then
    let tgts := map (fun i => (i, nd_tuple 0 m (shape x) ind i)) (all_idx pre) in
    tabo (shape x) (fun p =>
      scatter_apply red (get x p)
        (map (fun t => get upd_ (fst t ++ skipn m p))
             (filter (fun t => list_eqb Nat.eqb (snd t) (firstn m p)) tgts)))
  else None.

(* ------------------------------------------------------------------ MaxPool (2-D, NCHW) *)
(* input coordinates covered by output position i along one spatial axis of extent d: the padded
   positions i*s .. i*s+k-1 that fall inside the un-padded range [p, p+d) *)
Definition pool_window (d k s p i : nat) : list nat :=
  map (fun r => r - p) (filter (fun r => (p <=? r) && (r <? p + d)) (seq (i * s) k)).

(* floor mode, explicit pads (top, left, bottom, right), no dilation; padding never wins the max *)
Definition maxpool2d (kh kw sh sw pt pl pb pr : nat) (x : tensor) : option tensor :=
  match shape x with
  | [n; c; h; w] =>
      if (1 <=? kh) && (1 <=? kw) && (1 <=? sh) && (1 <=? sw)
         && (kh <=? h + pt + pb) && (kw <=? w + pl + pr) then
        let oh := (h + pt + pb - kh) / sh + 1 in
        let ow := (w + pl + pr - kw) / sw + 1 in
        tabo [n; c; oh; ow] (fun idx =>
          let b := nth 0 idx 0 in
          let ch := nth 1 idx 0 in
          red_fold RMax (flat_map (fun r => map (fun q => get x [b; ch; r; q])
                                               (pool_window w kw sw pl (nth 3 idx 0)))
                                  (pool_window h kh sh pt (nth 2 idx 0))))
      else None
  | _ => None
  end.

(* ------------------------------------------------------------------ Clip and other cheap element-wise operators *)
(* ONNX Clip: Min(max, Max(x, min)); an absent bound does not constrain *)
Definition clip_val (lo hi : option Z) (v : Z) : Z :=
  let a := match lo with Some l => Z.max v l | None => v end in
  match hi with Some h => Z.min h a | None => a end.
Definition clip (lo hi : option Z) (x : tensor) : tensor := unop (clip_val lo hi) x.

Definition relu_val (v : Z) : Z := Z.max v 0.
(* LeakyRelu with an integer-valued alpha: f(x) = alpha * x for x < 0, x otherwise *)
Definition leaky_relu_val (alpha v : Z) : Z := if (v <? 0)%Z then (alpha * v)%Z else v.

(* variadic Max / Min / Sum: left fold of the broadcasting binary operator *)
Definition variadic (f : Z -> Z -> option Z) (xs : list tensor) : option tensor :=
  match xs with
  | [] => None
  | x :: r => fold_left (fun acc y => match acc with Some a => binop f a y | None => None end) r (Some x)
  end.
