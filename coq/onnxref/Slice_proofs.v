(* C15 -- Slice and Pad: index-level specifications. *)
From RV Require Import Prelude.
From OnnxRef Require Import RefBase RefBase_proofs OnnxRef Bcast_proofs Transpose_proofs Concat_proofs.
Open Scope nat_scope.

Lemma clampZ_range lo hi v : (lo <= hi)%Z -> (lo <= clampZ lo hi v <= hi)%Z.
Proof. unfold clampZ. lia. Qed.

Lemma clampZ_id lo hi v : (lo <= v <= hi)%Z -> clampZ lo hi v = v.
Proof. unfold clampZ. lia. Qed.

(* ranges the ONNX text prescribes for the effective start / end *)
Lemma slice_start_range d start step : 0 < d ->
  ((0 < step)%Z -> (0 <= slice_start d start step <= Z.of_nat d)%Z) /\
  ((step <= 0)%Z -> (0 <= slice_start d start step <= Z.of_nat d - 1)%Z).
Proof.
  intros Hd. unfold slice_start. split; intros Hs.
  - destruct (0 <? step)%Z eqn:E; [|apply Z.ltb_ge in E; lia]. apply clampZ_range. lia.
  - destruct (0 <? step)%Z eqn:E; [apply Z.ltb_lt in E; lia|]. apply clampZ_range. lia.
Qed.

Lemma slice_end_range d end_ step : 0 < d ->
  ((0 < step)%Z -> (0 <= slice_end d end_ step <= Z.of_nat d)%Z) /\
  ((step <= 0)%Z -> (-1 <= slice_end d end_ step <= Z.of_nat d - 1)%Z).
Proof.
  intros Hd. unfold slice_end. split; intros Hs.
  - destruct (0 <? step)%Z eqn:E; [|apply Z.ltb_ge in E; lia]. apply clampZ_range. lia.
  - destruct (0 <? step)%Z eqn:E; [apply Z.ltb_lt in E; lia|]. apply clampZ_range. lia.
Qed.

Lemma ceil_div_count a b k : (0 < b)%Z -> (0 <= k)%Z -> (k < (a + b - 1) / b <-> k * b < a)%Z.
Proof.
  intros Hb Hk. pose proof (Z.div_mod (a + b - 1) b ltac:(lia)) as E.
  pose proof (Z.mod_pos_bound (a + b - 1) b Hb) as B.
  set (q := ((a + b - 1) / b)%Z) in *. set (r := ((a + b - 1) mod b)%Z) in *. split; intros H; nia.
Qed.

(* the output extent along a sliced axis is exactly the number of positions
   s, s+step, s+2*step, ... that lie strictly before e in the direction of step *)
Lemma slice_len_spec d s e step (k : nat) : step <> 0%Z -> 0 < d ->
  (k < slice_len d s e step <->
   if (0 <? step)%Z then (s + Z.of_nat k * step < e)%Z else (e < s + Z.of_nat k * step)%Z).
Proof.
  intros Hs Hd. unfold slice_len. destruct (d =? 0) eqn:E0; [apply Nat.eqb_eq in E0; lia|].
  destruct (0 <? step)%Z eqn:E.
  - apply Z.ltb_lt in E. pose proof (ceil_div_count (e - s) step (Z.of_nat k) E ltac:(lia)) as C.
    split; intros H.
    + assert (Z.of_nat k < (e - s + step - 1) / step)%Z by lia. apply C in H0. lia.
    + assert (Z.of_nat k * step < e - s)%Z by lia. apply C in H0. lia.
  - apply Z.ltb_ge in E. assert (E' : (0 < - step)%Z) by lia.
    pose proof (ceil_div_count (s - e) (- step) (Z.of_nat k) E' ltac:(lia)) as C.
    split; intros H.
    + assert (Z.of_nat k < (s - e + - step - 1) / - step)%Z by lia. apply C in H0. lia.
    + assert (Z.of_nat k * - step < s - e)%Z by lia. apply C in H0. lia.
Qed.

Lemma slice_len_empty s e step : slice_len 0 s e step = 0.
Proof. reflexivity. Qed.

(* every selected position is inside the axis *)
Lemma slice_in_bounds d start end_ step (k : nat) : step <> 0%Z ->
  k < slice_len d (slice_start d start step) (slice_end d end_ step) step ->
  (0 <= slice_start d start step + Z.of_nat k * step < Z.of_nat d)%Z.
Proof.
  intros Hs Hk. destruct (Nat.eq_dec d 0) as [->|Hd]; [rewrite slice_len_empty in Hk; lia|].
  assert (Hd' : 0 < d) by lia.
  apply slice_len_spec in Hk; [|exact Hs|exact Hd'].
  destruct (slice_start_range d start step Hd') as [S1 S2].
  destruct (slice_end_range d end_ step Hd') as [E1 E2].
  destruct (0 <? step)%Z eqn:E.
  - apply Z.ltb_lt in E. specialize (S1 E). specialize (E1 E). nia.
  - apply Z.ltb_ge in E. assert (step <= 0)%Z by lia. specialize (S2 H). specialize (E2 H). nia.
Qed.

Lemma nth_slice_params sh ks starts ends steps k : k < length sh ->
  nth k (slice_params sh ks starts ends steps) (0%Z, 0%Z, 0) =
  let d := nth k sh 0 in
  if memb k ks then
    let j := index_of k ks in
    let st := nth j steps 1%Z in
    let s := slice_start d (nth j starts 0%Z) st in
    let e := slice_end d (nth j ends 0%Z) st in
    (s, st, slice_len d s e st)
  else (0%Z, 1%Z, d).
Proof. intros H. unfold slice_params. rewrite nth_map_seq by exact H. reflexivity. Qed.

Lemma length_slice_params sh ks starts ends steps : length (slice_params sh ks starts ends steps) = length sh.
Proof. unfold slice_params. rewrite map_length, seq_length. reflexivity. Qed.

Lemma nth_slice_src ps idx k : length idx = length ps -> k < length ps ->
  nth k (slice_src ps idx) 0 =
  Z.to_nat (fst (fst (nth k ps (0%Z, 0%Z, 0))) + Z.of_nat (nth k idx 0) * snd (fst (nth k ps (0%Z, 0%Z, 0)))).
Proof.
  intros HL Hk. unfold slice_src. rewrite (nth_map2 _ _ _ _ (0%Z, 0%Z, 0) 0) by lia. reflexivity.
Qed.

(* ONNX Slice.  ks = the normalised axes, steps' = the steps (default 1).  Along axis ks[j] the
   output index i selects input position start_j + i * step_j where start_j / end_j are the
   clamped values of the text (slice_start / slice_end) and the extent is slice_len; other axes
   are copied. *)
Theorem slice_spec strict x starts ends axes steps y : slice strict x starts ends axes steps = Some y ->
  exists ks steps',
    steps' = match steps with Some s => s | None => repeat 1%Z (length starts) end /\
    norm_axes (length (shape x))
      (match axes with Some a => a | None => map Z.of_nat (seq 0 (length starts)) end) = Some ks /\
    NoDup ks /\ Forall (fun s => s <> 0%Z) steps' /\
    length ends = length starts /\ length ks = length starts /\ length steps' = length starts /\
    wf y /\ length (shape y) = length (shape x) /\
    (forall k, k < length (shape x) ->
       nth k (shape y) 0 = snd (nth k (slice_params (shape x) ks starts ends steps') (0%Z, 0%Z, 0))) /\
    forall idx, valid (shape y) idx ->
      let src := slice_src (slice_params (shape x) ks starts ends steps') idx in
      valid (shape x) src /\ get y idx = get x src.
Proof.
  unfold slice.
  set (axes' := match axes with Some a => a | None => map Z.of_nat (seq 0 (length starts)) end).
  set (steps' := match steps with Some s => s | None => repeat 1%Z (length starts) end).
  destruct ((length ends =? length starts) && (length axes' =? length starts) && (length steps' =? length starts)
            && match axes with None => negb strict || (length starts =? length (shape x)) | Some _ => true end) eqn:E0; [|discriminate].
  destruct (norm_axes (length (shape x)) axes') as [ks|] eqn:Ea; [|discriminate].
  destruct (nodupb ks && forallb (fun s => negb (s =? 0)%Z) steps' && negb (slice_corner (shape x) ks starts steps')) eqn:E1; [|discriminate].
  intros H; inversion H; subst y; clear H.
  repeat (apply andb_true_iff in E0; destruct E0 as [E0 ?]).
  repeat (apply andb_true_iff in E1; destruct E1 as [E1 ?]).
  apply Nat.eqb_eq in E0. apply Nat.eqb_eq in H0. apply Nat.eqb_eq in H1.
  exists ks, steps'. split; [reflexivity|]. split; [first [exact Ea|reflexivity]|]. split; [apply nodupb_NoDup; exact E1|].
  assert (Hst : Forall (fun s => s <> 0%Z) steps').
  { apply Forall_forall. intros s Hs. rewrite forallb_forall in H3. specialize (H3 s Hs).
    apply negb_true_iff in H3. apply Z.eqb_neq in H3. exact H3. }
  split; [exact Hst|]. split; [exact E0|].
  pose proof (mapo_spec _ _ _ Ea) as [Lks Nks]. split; [lia|]. split; [exact H0|].
  set (ps := slice_params (shape x) ks starts ends steps').
  pose proof (length_slice_params (shape x) ks starts ends steps') as Lps. fold ps in Lps.
  cbn [shape tab]. split; [apply wf_tab|]. split; [rewrite map_length; exact Lps|].
  assert (Hsh : forall k, k < length (shape x) -> nth k (map snd ps) 0 = snd (nth k ps (0%Z, 0%Z, 0))).
  { intros k Hk. apply (nth_map_default snd). lia. }
  split; [exact Hsh|].
  intros idx Hv. cbv zeta. pose proof (valid_length _ _ Hv) as Li. rewrite map_length in Li.
  split; [|rewrite get_tab by exact Hv; reflexivity].
  apply valid_of_nth; [unfold slice_src; rewrite length_map2; lia|].
  intros k Hk. rewrite nth_slice_src by lia.
  pose proof (valid_nth _ _ k Hv) as Hi. rewrite map_length, Lps in Hi. specialize (Hi Hk).
  rewrite Hsh in Hi by exact Hk. unfold ps in Hi |- *. rewrite nth_slice_params in Hi |- * by exact Hk.
  cbv zeta in Hi |- *. destruct (memb k ks) eqn:Em; cbn [fst snd] in Hi |- *.
  - set (j := index_of k ks) in *.
    assert (Hj : j < length steps').
    { destruct (index_of_spec k ks Em) as [Hj _]. fold j in Hj. lia. }
    assert (Hne : nth j steps' 1%Z <> 0%Z).
    { rewrite Forall_forall in Hst. apply Hst. apply nth_In. exact Hj. }
    pose proof (slice_in_bounds _ _ _ _ _ Hne Hi) as B. lia.
  - lia.
Qed.

(* ---- Pad ---- *)
(* per-axis source coordinate, transcribed from the mode descriptions *)
Lemma pad_src_constant d b i : pad_src PConstant d b i =
  if ((0 <=? Z.of_nat i - b) && (Z.of_nat i - b <? Z.of_nat d))%Z then Some (Z.to_nat (Z.of_nat i - b)) else None.
Proof. reflexivity. Qed.

Lemma pad_src_in_bounds mode d b e i s : pad_axis_ok mode d b e = true ->
  (Z.of_nat i < Z.of_nat d + b + e)%Z -> pad_src mode d b i = Some s -> s < d.
Proof.
  unfold pad_axis_ok, pad_src. intros Hok Hi. apply andb_true_iff in Hok. destruct Hok as [H0 Hok].
  destruct mode.
  - destruct ((0 <=? Z.of_nat i - b)%Z && (Z.of_nat i - b <? Z.of_nat d)%Z) eqn:E; [|discriminate].
    apply andb_true_iff in E. destruct E as [E1 E2]. apply Z.leb_le in E1. apply Z.ltb_lt in E2.
    intros H; inversion H; subst. lia.
  - repeat (apply andb_true_iff in Hok; destruct Hok as [Hok ?]).
    apply Z.leb_le in Hok, H, H1, H2. intros H3; inversion H3; subst; clear H3.
    destruct (Z.of_nat i - b <? 0)%Z eqn:E1; [apply Z.ltb_lt in E1; lia|apply Z.ltb_ge in E1].
    destruct (Z.of_nat d <=? Z.of_nat i - b)%Z eqn:E2; [apply Z.leb_le in E2; lia|apply Z.leb_gt in E2; lia].
  - repeat (apply andb_true_iff in Hok; destruct Hok as [Hok ?]).
    apply Z.leb_le in Hok, H1. intros H2; inversion H2; subst; clear H2.
    apply orb_true_iff in H. destruct H as [H|H].
    + apply andb_true_iff in H. destruct H as [Hb He]. apply Z.eqb_eq in Hb, He. subst.
      unfold clampZ. lia.
    + apply Nat.ltb_lt in H. unfold clampZ. lia.
  - repeat (apply andb_true_iff in Hok; destruct Hok as [Hok ?]).
    apply Z.leb_le in Hok, H, H1, H2. intros H3; inversion H3; subst; clear H3.
    assert (Hd : (0 < Z.of_nat d)%Z) by lia.
    pose proof (Z.mod_pos_bound (Z.of_nat i - b) (Z.of_nat d) Hd). lia.
Qed.

(* reflect: mirror about the first / last element, without repeating it *)
Lemma pad_src_reflect d b i : (0 <= b <= Z.of_nat d - 1)%Z ->
  pad_src PReflect d b i = Some (Z.to_nat
    (let s := (Z.of_nat i - b)%Z in
     if (s <? 0)%Z then (- s)%Z else if (Z.of_nat d <=? s)%Z then (2 * (Z.of_nat d - 1) - s)%Z else s)).
Proof. reflexivity. Qed.

Lemma sequence_map_Some {A} (l : list (option A)) r : sequence l = Some r ->
  length r = length l /\ forall k d, k < length l -> nth k l None = Some (nth k r d).
Proof.
  intros H. apply sequence_spec in H. subst. rewrite map_length. split; [reflexivity|].
  intros k d Hk. rewrite (nth_indep _ None (Some d)) by (rewrite map_length; exact Hk). apply map_nth.
Qed.

Lemma sequence_pad_total mode (ps : list (nat * Z * Z)) : mode <> PConstant -> forall idx,
  exists r, sequence (map2 (fun p i => pad_src mode (fst (fst p)) (snd (fst p)) i) ps idx) = Some r.
Proof.
  intros Hm. induction ps as [|p ps IH]; intros [|i idx]; cbn [map2 sequence]; eauto.
  destruct (IH idx) as [r Hr]. rewrite Hr. destruct mode; [congruence| | |]; cbn [pad_src]; eauto.
Qed.

Lemma nth_pad_params sh ks pads k : k < length sh ->
  nth k (pad_params sh ks pads) (0, 0%Z, 0%Z) =
  let d := nth k sh 0 in
  if memb k ks then let j := index_of k ks in (d, nth j pads 0%Z, nth (length ks + j) pads 0%Z)
  else (d, 0%Z, 0%Z).
Proof. intros H. unfold pad_params. rewrite nth_map_seq by exact H. reflexivity. Qed.

(* ONNX Pad: with per-axis (d, b, e) = extent, leading and trailing pad (negative = crop, constant
   mode only) the output extent is d + b + e; an output element is the input element at the
   per-axis source coordinates when they all exist, and the constant value otherwise (which can
   only happen in constant mode). *)
Theorem pad_spec mode x pads cval axes y : pad mode x pads cval axes = Some y ->
  exists ks, norm_axes (length (shape x))
      (match axes with Some a => a | None => map Z.of_nat (seq 0 (length (shape x))) end) = Some ks /\
    NoDup ks /\ length pads = 2 * length ks /\
    let ps := pad_params (shape x) ks pads in
    Forall (fun p => pad_axis_ok mode (fst (fst p)) (snd (fst p)) (snd p) = true) ps /\
    wf y /\ length (shape y) = length (shape x) /\
    (forall k, k < length (shape x) ->
       Z.of_nat (nth k (shape y) 0) =
       (Z.of_nat (nth k (shape x) 0%nat) + snd (fst (nth k ps (0%nat, 0%Z, 0%Z))) + snd (nth k ps (0%nat, 0%Z, 0%Z)))%Z) /\
    forall idx, valid (shape y) idx ->
      match sequence (map2 (fun p i => pad_src mode (fst (fst p)) (snd (fst p)) i) ps idx) with
      | Some src => valid (shape x) src /\ get y idx = get x src
      | None => mode = PConstant /\ get y idx = cval
      end.
Proof.
  unfold pad.
  set (axes' := match axes with Some a => a | None => map Z.of_nat (seq 0 (length (shape x))) end).
  destruct (norm_axes (length (shape x)) axes') as [ks|] eqn:Ea; [|discriminate].
  destruct (nodupb ks && (length pads =? 2 * length ks)
            && match mode with PConstant => true | _ => negb (numel (shape x) =? 0) end) eqn:E0; [|discriminate].
  set (ps := pad_params (shape x) ks pads).
  destruct (forallb (fun p => pad_axis_ok mode (fst (fst p)) (snd (fst p)) (snd p)) ps) eqn:E1; [|discriminate].
  intros H; inversion H; subst y; clear H.
  repeat (apply andb_true_iff in E0; destruct E0 as [E0 ?]). apply Nat.eqb_eq in H0.
  exists ks. split; [first [exact Ea|reflexivity]|]. split; [apply nodupb_NoDup; exact E0|]. split; [exact H0|].
  cbv zeta. fold ps.
  assert (Hok : Forall (fun p => pad_axis_ok mode (fst (fst p)) (snd (fst p)) (snd p) = true) ps).
  { apply Forall_forall. intros p Hp. rewrite forallb_forall in E1. apply E1. exact Hp. }
  split; [exact Hok|]. cbn [shape tab]. split; [apply wf_tab|].
  assert (Lps : length ps = length (shape x)) by (unfold ps, pad_params; rewrite map_length, seq_length; reflexivity).
  split; [rewrite map_length; exact Lps|].
  assert (Hd : forall k, k < length (shape x) -> fst (fst (nth k ps (0, 0%Z, 0%Z))) = nth k (shape x) 0).
  { intros k Hk. unfold ps. rewrite nth_pad_params by exact Hk. cbv zeta. destruct (memb k ks); reflexivity. }
  assert (Hokk : forall k, k < length (shape x) ->
            let p := nth k ps (0, 0%Z, 0%Z) in pad_axis_ok mode (fst (fst p)) (snd (fst p)) (snd p) = true).
  { intros k Hk. rewrite Forall_forall in Hok. apply Hok. apply nth_In. lia. }
  assert (Hsh : forall k, k < length (shape x) ->
     Z.of_nat (nth k (map (fun p => Z.to_nat (Z.of_nat (fst (fst p)) + snd (fst p) + snd p)) ps) 0) =
     (Z.of_nat (nth k (shape x) 0%nat) + snd (fst (nth k ps (0%nat, 0%Z, 0%Z))) + snd (nth k ps (0%nat, 0%Z, 0%Z)))%Z).
  { intros k Hk.
    rewrite (nth_map_default (fun p => Z.to_nat (Z.of_nat (fst (fst p)) + snd (fst p) + snd p)) ps k (0, 0%Z, 0%Z) 0) by lia.
    specialize (Hokk k Hk). cbv zeta in Hokk. unfold pad_axis_ok in Hokk.
    apply andb_true_iff in Hokk. destruct Hokk as [Hnn _]. apply Z.leb_le in Hnn.
    rewrite Hd by exact Hk. rewrite Hd in Hnn by exact Hk. lia. }
  split; [exact Hsh|].
  intros idx Hv. pose proof (valid_length _ _ Hv) as Li. rewrite map_length in Li.
  rewrite get_tab by exact Hv. cbv beta.
  destruct (sequence (map2 (fun p i => pad_src mode (fst (fst p)) (snd (fst p)) i) ps idx)) as [src|] eqn:Es.
  - split; [|reflexivity]. destruct (sequence_map_Some _ _ Es) as [Ls Ns].
    rewrite length_map2 in Ls, Ns by lia.
    apply valid_of_nth; [lia|]. intros k Hk. specialize (Ns k 0 ltac:(lia)).
    rewrite (nth_map2 _ _ _ _ (0, 0%Z, 0%Z) 0) in Ns by lia.
    specialize (Hokk k Hk). cbv zeta in Hokk.
    pose proof (valid_nth _ _ k Hv) as Hi. rewrite map_length, Lps in Hi. specialize (Hi Hk).
    apply Nat2Z.inj_lt in Hi. rewrite Hsh in Hi by exact Hk. rewrite <- (Hd k Hk) in Hi.
    rewrite <- (Hd k Hk). eapply pad_src_in_bounds; [exact Hokk|exact Hi|exact Ns].
  - destruct mode; [split; reflexivity| | |]; exfalso.
    all: match type of Es with sequence (map2 (fun p i => pad_src ?m _ _ _) _ _) = None =>
           destruct (sequence_pad_total m ps ltac:(discriminate) idx) as [r G] end;
         rewrite G in Es; discriminate.
Qed.
