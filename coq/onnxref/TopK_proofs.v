(* C15 -- TopK: the selected (value, index) pairs are the k best of the lane, sorted, ties broken by
   the lower index. *)
From RV Require Import Prelude.
From Coq Require Import Permutation Sorted.
From OnnxRef Require Import RefBase RefBase_proofs OnnxRef Bcast_proofs Transpose_proofs Concat_proofs.
Open Scope nat_scope.

Lemma In_firstn_own {A} (l : list A) : forall k x, In x (firstn k l) -> In x l.
Proof.
  induction l as [|y l IH]; intros [|k] x H; cbn [firstn] in H; try destruct H.
  - left; assumption.
  - right. apply (IH k). assumption.
Qed.

Section TopK.
  Variable largest : bool.
  Let before := topk_before largest.
  Let R (a b : Z * nat) : Prop := before a b = true.

  Lemma before_total a b : R a b \/ R b a.
  Proof.
    unfold R, before, topk_before. destruct a as [va ia], b as [vb ib]; cbn [fst snd].
    rewrite (Z.eqb_sym vb va). destruct (Z.eqb_spec va vb) as [->|Hne].
    - destruct (Nat.leb_spec ia ib); [left; reflexivity|right; apply Nat.leb_le; lia].
    - destruct largest.
      + destruct (Z.ltb_spec vb va); [left; reflexivity|right; apply Z.ltb_lt; lia].
      + destruct (Z.ltb_spec va vb); [left; reflexivity|right; apply Z.ltb_lt; lia].
  Qed.

  Lemma before_trans a b c : R a b -> R b c -> R a c.
  Proof.
    unfold R, before, topk_before. destruct a as [va ia], b as [vb ib], c as [vc ic]; cbn [fst snd].
    destruct (Z.eqb_spec va vb), (Z.eqb_spec vb vc), (Z.eqb_spec va vc); subst; try lia;
      destruct largest; rewrite ?Nat.leb_le, ?Z.ltb_lt; try lia.
  Qed.

  Lemma ins_sorted_perm a l : Permutation (ins_sorted before a l) (a :: l).
  Proof.
    induction l as [|b l IH]; cbn [ins_sorted]; [reflexivity|].
    destruct (before a b); [reflexivity|]. rewrite IH. apply perm_swap.
  Qed.

  Lemma isort_perm l : Permutation (isort before l) l.
  Proof.
    unfold isort. induction l as [|a l IH]; cbn [fold_right]; [reflexivity|].
    rewrite ins_sorted_perm. constructor. exact IH.
  Qed.

  Lemma ins_sorted_sorted a l : StronglySorted R l -> StronglySorted R (ins_sorted before a l).
  Proof.
    induction 1 as [|b l Hs IH Hb]; cbn [ins_sorted]; [repeat constructor|].
    destruct (before a b) eqn:E.
    - constructor; [constructor; assumption|]. constructor; [exact E|].
      rewrite Forall_forall in *. intros c Hc. apply (before_trans a b c); [exact E|apply Hb; exact Hc].
    - constructor; [exact IH|]. rewrite Forall_forall in *. intros c Hc.
      apply (Permutation_in _ (ins_sorted_perm a l)) in Hc. destruct Hc as [<-|Hc]; [|apply Hb; exact Hc].
      destruct (before_total a b) as [H|H]; [unfold R in H; congruence|exact H].
  Qed.

  Lemma isort_sorted l : StronglySorted R (isort before l).
  Proof. unfold isort. induction l; cbn [fold_right]; [constructor|apply ins_sorted_sorted; assumption]. Qed.

  Lemma sorted_app_rel (A B : list (Z * nat)) : StronglySorted R (A ++ B) ->
    forall a b, In a A -> In b B -> R a b.
  Proof.
    induction A as [|x A IH]; intros H a b Ha Hb; [destruct Ha|]. cbn [app] in H.
    inversion H as [|? ? Hs Hf]; subst. destruct Ha as [<-|Ha].
    - rewrite Forall_forall in Hf. apply Hf. apply in_or_app. right. exact Hb.
    - apply IH; assumption.
  Qed.

  Lemma sorted_firstn (l : list (Z * nat)) k : StronglySorted R l -> StronglySorted R (firstn k l).
  Proof.
    intros H. revert k. induction H as [|x l Hs IH Hf]; intros [|k]; cbn [firstn]; try constructor.
    - apply IH.
    - rewrite Forall_forall in *. intros y Hy. apply Hf. exact (In_firstn_own _ _ _ Hy).
  Qed.
End TopK.

Lemma map_snd_combine_seq {A} (l : list A) : forall s, map snd (combine l (seq s (length l))) = seq s (length l).
Proof. induction l as [|x l IH]; intros s; cbn [length seq combine map snd]; [reflexivity|]. f_equal. apply IH. Qed.

Lemma In_combine_seq (l : list Z) : forall s p, In p (combine l (seq s (length l))) <->
  s <= snd p < s + length l /\ fst p = nth (snd p - s) l 0%Z.
Proof.
  induction l as [|x l IH]; intros s p; cbn [length seq combine In].
  - split; [intros []|lia].
  - rewrite IH. destruct p as [v i]; cbn [fst snd]. split.
    + intros [E|[H1 H2]].
      * inversion E; subst. rewrite Nat.sub_diag. cbn. split; [lia|reflexivity].
      * split; [lia|]. replace (i - s) with (S (i - S s)) by lia. exact H2.
    + intros [H1 H2]. destruct (Nat.eq_dec i s) as [->|Hne].
      * left. rewrite Nat.sub_diag in H2. cbn in H2. subst. reflexivity.
      * right. split; [lia|]. replace (i - s) with (S (i - S s)) in H2 by lia. exact H2.
Qed.

Lemma NoDup_firstn {A} (l : list A) k : NoDup l -> NoDup (firstn k l).
Proof.
  intros H. revert k. induction H as [|x l Hni Hn IH]; intros [|k]; cbn [firstn]; try constructor.
  - intros Hin. apply Hni. exact (In_firstn_own _ _ _ Hin).
  - apply IH.
Qed.

(* ONNX TopK on one lane: exactly k pairs (value, index into the lane); each value is the lane
   element at its index; indices distinct; sorted best-first with equal values ordered by lower
   index; every element that is not selected ranks after every selected one *)
Theorem topk_list_spec largest k l : k <= length l ->
  let out := topk_list largest k l in
  length out = k /\
  (forall p, In p out -> snd p < length l /\ fst p = nth (snd p) l 0%Z) /\
  NoDup (map snd out) /\
  StronglySorted (fun a b => topk_before largest a b = true) out /\
  (forall i, i < length l -> ~ In i (map snd out) ->
     forall p, In p out -> topk_before largest p (nth i l 0%Z, i) = true).
Proof.
  intros Hk. cbv zeta. unfold topk_list.
  set (pairs := combine l (seq 0 (length l))). set (S := isort (topk_before largest) pairs).
  pose proof (isort_perm largest pairs) as HP. fold S in HP.
  pose proof (isort_sorted largest pairs) as HS. fold S in HS.
  assert (LS : length S = length l).
  { rewrite (Permutation_length HP). unfold pairs. rewrite combine_length, seq_length. lia. }
  assert (Hin : forall p, In p S <-> snd p < length l /\ fst p = nth (snd p) l 0%Z).
  { intros p. split.
    - intros H. apply (Permutation_in _ HP) in H. apply In_combine_seq in H. rewrite Nat.sub_0_r in H. lia.
    - intros H. apply (Permutation_in _ (Permutation_sym HP)). apply In_combine_seq. rewrite Nat.sub_0_r. lia. }
  assert (HndS : NoDup (map snd S)).
  { apply (Permutation_NoDup (l := map snd pairs)); [apply Permutation_map; apply Permutation_sym; exact HP|].
    unfold pairs. rewrite map_snd_combine_seq. apply seq_NoDup. }
  split; [apply firstn_length_le; lia|]. split; [|split; [|split]].
  - intros p Hp. apply Hin. exact (In_firstn_own _ _ _ Hp).
  - rewrite <- firstn_map. apply NoDup_firstn. exact HndS.
  - apply sorted_firstn. exact HS.
  - intros i Hi Hni p Hp. rewrite <- (firstn_skipn k S) in HS.
    apply (sorted_app_rel largest _ _ HS p (nth i l 0%Z, i) Hp).
    assert (HinS : In (nth i l 0%Z, i) S) by (apply Hin; cbn; split; [exact Hi|reflexivity]).
    rewrite <- (firstn_skipn k S) in HinS. apply in_app_or in HinS. destruct HinS as [H|H]; [|exact H].
    exfalso. apply Hni. apply in_map_iff. exists (nth i l 0%Z, i). split; [reflexivity|exact H].
Qed.

(* ONNX TopK: both outputs have the input shape with the extent k along `axis`; for every position of
   the other axes, values/indices at position j along the axis are the j-th pair of the lane's top k *)
Theorem topk_spec largest axis k x v i : topk largest axis k x = Some (v, i) ->
  exists ax, norm_axis (length (shape x)) axis = Some ax /\
    let d := nth ax (shape x) 0 in
    (0 <= k <= Z.of_nat d)%Z /\ wf v /\ wf i /\
    shape v = upd (shape x) ax (Z.to_nat k) /\ shape i = shape v /\
    forall idx, valid (shape v) idx ->
      let lane := map (fun p => get x (upd idx ax p)) (seq 0 d) in
      let out := topk_list largest (Z.to_nat k) lane in
      length lane = d /\ (forall p, p < d -> valid (shape x) (upd idx ax p)) /\
      nth ax idx 0 < Z.to_nat k /\
      get v idx = fst (nth (nth ax idx 0) out (0%Z, 0)) /\
      get i idx = Z.of_nat (snd (nth (nth ax idx 0) out (0%Z, 0))).
Proof.
  unfold topk. destruct (norm_axis (length (shape x)) axis) as [ax|] eqn:Ea; [|discriminate].
  destruct ((0 <=? k)%Z && (k <=? Z.of_nat (nth ax (shape x) 0%nat))%Z) eqn:Ek; [|discriminate].
  intros H; inversion H; subst v i; clear H. exists ax. split; [reflexivity|]. cbv zeta.
  apply andb_true_iff in Ek. destruct Ek as [E1 E2]. apply Z.leb_le in E1, E2.
  split; [lia|]. split; [apply wf_tab|]. split; [apply wf_tab|]. cbn [shape tab].
  split; [reflexivity|]. split; [reflexivity|].
  apply norm_axis_spec in Ea. destruct Ea as [Hax _].
  intros idx Hv. split; [rewrite map_length, seq_length; reflexivity|].
  pose proof (valid_length _ _ Hv) as Li. rewrite length_upd in Li.
  split.
  { intros p Hp. apply valid_of_nth; [rewrite length_upd; exact Li|]. intros q Hq.
    destruct (Nat.eq_dec q ax) as [->|Hne].
    - rewrite nth_upd_same by lia. exact Hp.
    - rewrite nth_upd_other by exact Hne. pose proof (valid_nth _ _ q Hv) as Hn.
      rewrite length_upd in Hn. specialize (Hn Hq). rewrite nth_upd_other in Hn by exact Hne. exact Hn. }
  split.
  { pose proof (valid_nth _ _ ax Hv) as Hn. rewrite length_upd in Hn. specialize (Hn Hax).
    rewrite nth_upd_same in Hn by exact Hax. exact Hn. }
  split; rewrite get_tab by exact Hv; reflexivity.
Qed.
