(* C15 -- Concat and Split: index-level specifications. *)
From RV Require Import Prelude.
From OnnxRef Require Import RefBase RefBase_proofs OnnxRef Bcast_proofs Transpose_proofs.
Open Scope nat_scope.

Lemma list_eqb_nat_eq a : forall b, list_eqb Nat.eqb a b = true <-> a = b.
Proof.
  induction a as [|x a IH]; intros [|y b]; cbn [list_eqb]; split; intros H; try discriminate; try reflexivity.
  - apply andb_true_iff in H. destruct H as [H1 H2]. apply Nat.eqb_eq in H1. apply IH in H2. congruence.
  - inversion H; subst. rewrite Nat.eqb_refl. cbn. apply IH. reflexivity.
Qed.

Lemma same_except_spec ax a b : same_except ax a b = true ->
  length a = length b /\ forall j, j <> ax -> nth j a 0 = nth j b 0.
Proof.
  unfold same_except. intros H. apply list_eqb_nat_eq in H. split.
  - rewrite <- (length_upd a ax 0), <- (length_upd b ax 0), H. reflexivity.
  - intros j Hj. rewrite <- (nth_upd_other a ax j 0 0 Hj), <- (nth_upd_other b ax j 0 0 Hj), H. reflexivity.
Qed.

Lemma upd_upd {A} (l : list A) : forall k v w, upd (upd l k v) k w = upd l k w.
Proof. induction l; intros [|k] v w; cbn; auto. f_equal. apply IHl. Qed.

Lemma upd_nth_same (l : list nat) : forall k, upd l k (nth k l 0) = l.
Proof. induction l; intros [|k]; cbn; auto. f_equal. apply IHl. Qed.

Lemma sum_firstn_le ds : forall k, sum_nat (firstn k ds) <= sum_nat ds.
Proof. induction ds as [|d ds IH]; intros [|k]; cbn; try lia. specialize (IH k). unfold sum_nat in IH. lia. Qed.

Lemma sum_firstn_lt ds : forall k o, k < length ds -> o < nth k ds 0 -> sum_nat (firstn k ds) + o < sum_nat ds.
Proof.
  induction ds as [|d ds IH]; intros k o Hk Ho; cbn [length] in Hk; [lia|].
  destruct k; cbn [firstn sum_nat fold_right nth] in *; [unfold sum_nat; lia|].
  specialize (IH k o). unfold sum_nat in *. lia.
Qed.

Lemma locate_offset ds : forall k o, k < length ds -> o < nth k ds 0 ->
  locate ds (sum_nat (firstn k ds) + o) = (k, o).
Proof.
  induction ds as [|d ds IH]; intros k o Hk Ho; cbn [length] in Hk; [lia|].
  destruct k; cbn [firstn sum_nat fold_right nth locate] in *.
  - destruct (0 + o <? d) eqn:E; [reflexivity|apply Nat.ltb_ge in E; lia].
  - fold (sum_nat (firstn k ds)). destruct (d + sum_nat (firstn k ds) + o <? d) eqn:E; [apply Nat.ltb_lt in E; lia|].
    replace (d + sum_nat (firstn k ds) + o - d) with (sum_nat (firstn k ds) + o) by lia.
    rewrite IH by (try lia; exact Ho). reflexivity.
Qed.

Lemma locate_spec ds : forall p, p < sum_nat ds ->
  fst (locate ds p) < length ds /\ snd (locate ds p) < nth (fst (locate ds p)) ds 0 /\
  p = sum_nat (firstn (fst (locate ds p)) ds) + snd (locate ds p).
Proof.
  induction ds as [|d ds IH]; intros p Hp; cbn [sum_nat fold_right] in Hp; [lia|].
  cbn [locate]. destruct (p <? d) eqn:E.
  - apply Nat.ltb_lt in E. cbn [fst snd length firstn sum_nat fold_right nth]. lia.
  - apply Nat.ltb_ge in E. destruct (locate ds (p - d)) as [k o] eqn:El.
    assert (Hp' : p - d < sum_nat ds) by (unfold sum_nat; lia).
    specialize (IH (p - d) Hp'). rewrite El in IH. cbn [fst snd] in *.
    cbn [length firstn sum_nat fold_right nth]. fold (sum_nat (firstn k ds)). lia.
Qed.

Lemma nth_map_default {A B} (f : A -> B) l k da db : k < length l -> nth k (map f l) db = f (nth k l da).
Proof.
  intros H. rewrite (nth_indep _ db (f da)) by (rewrite map_length; exact H). apply map_nth.
Qed.

(* ONNX Concat: all inputs agree outside `axis`; the output extent along axis is the sum of the
   input extents; input k occupies positions [off k, off k + d_k) along the axis. *)
Theorem concat_spec axis xs y : concat axis xs = Some y ->
  exists x0 ax, hd_error xs = Some x0 /\ norm_axis (length (shape x0)) axis = Some ax /\ wf y /\
    let ds := map (fun x => nth ax (shape x) 0) xs in
    shape y = upd (shape x0) ax (sum_nat ds) /\
    (forall k, k < length xs -> length (shape (nth k xs x0)) = length (shape x0) /\
       forall j, j <> ax -> nth j (shape (nth k xs x0)) 0 = nth j (shape x0) 0) /\
    (* every element of every input appears at its place *)
    (forall k idx, k < length xs -> valid (shape (nth k xs x0)) idx ->
       let idx' := upd idx ax (sum_nat (firstn k ds) + nth ax idx 0) in
       valid (shape y) idx' /\ get y idx' = get (nth k xs x0) idx) /\
    (* and every output element comes from an input *)
    (forall idx', valid (shape y) idx' -> exists k idx, k < length xs /\ valid (shape (nth k xs x0)) idx /\
       idx' = upd idx ax (sum_nat (firstn k ds) + nth ax idx 0)).
Proof.
  unfold concat. destruct xs as [|x0 xs']; [discriminate|]. remember (x0 :: xs') as xs eqn:Exs.
  destruct (norm_axis (length (shape x0)) axis) as [ax|] eqn:Ea; [|discriminate].
  destruct (forallb (fun x => same_except ax (shape x0) (shape x)) xs) eqn:Es; [|discriminate].
  intros H; inversion H; subst y; clear H. exists x0, ax.
  split; [rewrite Exs; reflexivity|]. split; [exact Ea|]. split; [apply wf_tab|].
  cbv zeta. set (ds := map (fun x => nth ax (shape x) 0) xs). cbn [shape tab]. split; [reflexivity|].
  apply norm_axis_spec in Ea. destruct Ea as [Hax _].
  assert (Hse : forall k, k < length xs -> length (shape (nth k xs x0)) = length (shape x0) /\
             forall j, j <> ax -> nth j (shape (nth k xs x0)) 0 = nth j (shape x0) 0).
  { intros k Hk. rewrite forallb_forall in Es.
    destruct (same_except_spec _ _ _ (Es (nth k xs x0) (nth_In _ _ Hk))) as [L N].
    split; [symmetry; exact L|]. intros j Hj. symmetry. apply N. exact Hj. }
  assert (Hds : forall k, k < length xs -> nth k ds 0 = nth ax (shape (nth k xs x0)) 0).
  { intros k Hk. unfold ds. apply (nth_map_default (fun x => nth ax (shape x) 0)). exact Hk. }
  assert (Lds : length ds = length xs) by (unfold ds; apply map_length).
  split; [exact Hse|]. split.
  - intros k idx Hk Hv. set (idx' := upd idx ax (sum_nat (firstn k ds) + nth ax idx 0)). destruct (Hse k Hk) as [L N].
    pose proof (valid_length _ _ Hv) as Li.
    pose proof (valid_nth _ _ ax Hv) as Hiax. rewrite L in Hiax. specialize (Hiax Hax).
    assert (Hv' : valid (upd (shape x0) ax (sum_nat ds)) idx').
    { apply valid_of_nth.
      - unfold idx'. rewrite !length_upd. lia.
      - rewrite length_upd. intros j Hj. unfold idx'. destruct (Nat.eq_dec j ax) as [->|Hne].
        + rewrite !nth_upd_same by lia. apply sum_firstn_lt; [lia|]. rewrite Hds by exact Hk. exact Hiax.
        + rewrite !nth_upd_other by exact Hne. rewrite <- N by exact Hne.
          apply valid_nth; [exact Hv|lia]. }
    split; [exact Hv'|]. rewrite get_tab by exact Hv'. cbv beta.
    unfold idx'. rewrite nth_upd_same by lia.
    rewrite locate_offset by (try lia; rewrite Hds by exact Hk; exact Hiax).
    rewrite upd_upd, upd_nth_same. reflexivity.
  - intros idx' Hv'. pose proof (valid_length _ _ Hv') as Li. rewrite length_upd in Li.
    pose proof (valid_nth _ _ ax Hv') as Hp. rewrite length_upd in Hp. specialize (Hp Hax).
    rewrite nth_upd_same in Hp by exact Hax.
    destruct (locate_spec ds _ Hp) as (H1 & H2 & H3).
    set (k := fst (locate ds (nth ax idx' 0))) in *. set (o := snd (locate ds (nth ax idx' 0))) in *.
    rewrite Lds in H1. destruct (Hse k H1) as [L N].
    exists k, (upd idx' ax o). split; [exact H1|]. split.
    + apply valid_of_nth; [rewrite length_upd; lia|]. rewrite L. intros j Hj.
      destruct (Nat.eq_dec j ax) as [->|Hne].
      * rewrite nth_upd_same by lia. rewrite <- Hds by exact H1. exact H2.
      * rewrite nth_upd_other by exact Hne. rewrite N by exact Hne.
        pose proof (valid_nth _ _ j Hv') as Hq. rewrite length_upd in Hq. specialize (Hq Hj).
        rewrite nth_upd_other in Hq by exact Hne. exact Hq.
    + rewrite nth_upd_same by lia. rewrite upd_upd, <- H3, upd_nth_same. reflexivity.
Qed.

(* ---- Split ---- *)
Lemma split_outs_spec x ax : forall ss off k dflt, k < length ss ->
  nth k (split_outs x ax off ss) dflt =
  tab (upd (shape x) ax (nth k ss 0))
      (fun idx => get x (upd idx ax (off + sum_nat (firstn k ss) + nth ax idx 0))).
Proof.
  induction ss as [|s ss IH]; intros off k dflt Hk; cbn [length] in Hk; [lia|].
  destruct k; cbn [split_outs nth firstn sum_nat fold_right].
  - f_equal. (* functions agree pointwise; stated extensionally below *)
    replace (fun idx : list nat => get x (upd idx ax (off + 0 + nth ax idx 0)))
      with (fun idx : list nat => get x (upd idx ax (off + nth ax idx 0))); [reflexivity|].
    replace (off + 0) with off by lia. reflexivity.
  - rewrite IH by lia. fold (sum_nat (firstn k ss)).
    replace (off + s + sum_nat (firstn k ss)) with (off + (s + sum_nat (firstn k ss))) by lia. reflexivity.
Qed.

Lemma length_split_outs x ax : forall ss off, length (split_outs x ax off ss) = length ss.
Proof. induction ss; intros off; cbn; auto. Qed.

Lemma sum_nat_repeat c n : sum_nat (repeat c n) = c * n.
Proof. induction n; cbn [repeat sum_nat fold_right]; [rewrite Nat.mul_0_r; reflexivity|]. unfold sum_nat in IHn. rewrite Nat.mul_succ_r. lia. Qed.

Lemma sum_nat_app a b : sum_nat (a ++ b) = sum_nat a + sum_nat b.
Proof. induction a; cbn [app sum_nat fold_right]; [reflexivity|]. unfold sum_nat in *. lia. Qed.

Lemma sumZ_to_nat ss : forallb (fun s => (0 <=? s)%Z) ss = true ->
  Z.of_nat (sum_nat (map Z.to_nat ss)) = sumZ ss.
Proof.
  induction ss as [|s ss IH]; cbn [forallb map sum_nat sumZ fold_right]; intros H; [reflexivity|].
  apply andb_true_iff in H. destruct H as [H1 H2]. apply Z.leb_le in H1. specialize (IH H2).
  unfold sum_nat, sumZ in IH. lia.
Qed.

(* sizes of the parts: they always add up to the extent of the split axis *)
Lemma split_sizes_sum new d sp n ss : split_sizes new d sp n = Some ss -> sum_nat ss = d.
Proof.
  unfold split_sizes. destruct sp as [l|].
  - destruct (forallb (fun s => (0 <=? s)%Z) l) eqn:E1; [|discriminate].
    destruct (sumZ l =? Z.of_nat d)%Z eqn:E2; [|discriminate]. cbn [andb]. intros H; inversion H; subst.
    apply Z.eqb_eq in E2. pose proof (sumZ_to_nat _ E1). lia.
  - destruct (n =? 0) eqn:E0; [discriminate|]. apply Nat.eqb_neq in E0.
    destruct (d mod n =? 0) eqn:E1.
    + intros H; inversion H; subst. rewrite sum_nat_repeat. apply Nat.eqb_eq in E1.
      pose proof (Nat.div_mod d n E0). lia.
    + destruct new; [|discriminate]. destruct ((d + n - 1) / n * (n - 1) <? d) eqn:E2; [|discriminate].
      intros H; inversion H; subst. apply Nat.ltb_lt in E2.
      rewrite sum_nat_app, sum_nat_repeat. cbn [sum_nat fold_right]. lia.
Qed.

(* the equal-parts rule (no `split` input): n parts; all equal when n divides d, otherwise
   (opset >= 18) n-1 parts of ceil(d/n) and a smaller, non-empty last part *)
Lemma split_sizes_equal new d n ss : split_sizes new d None n = Some ss ->
  length ss = n /\ 0 < n /\
  ((d mod n = 0 /\ forall k, k < n -> nth k ss 0 = d / n) \/
   (new = true /\ d mod n <> 0 /\ let c := (d + n - 1) / n in
      (forall k, k < n - 1 -> nth k ss 0 = c) /\ nth (n - 1) ss 0 = d - c * (n - 1) /\
      0 < nth (n - 1) ss 0 < c)).
Proof.
  unfold split_sizes. destruct (n =? 0) eqn:E0; [discriminate|]. apply Nat.eqb_neq in E0.
  destruct (d mod n =? 0) eqn:E1.
  - intros H; inversion H; subst. apply Nat.eqb_eq in E1. rewrite repeat_length.
    split; [reflexivity|]. split; [lia|]. left. split; [exact E1|].
    intros k Hk. rewrite (nth_indep _ 0 (d / n)) by (rewrite repeat_length; exact Hk). apply nth_repeat.
  - destruct new; [|discriminate]. destruct ((d + n - 1) / n * (n - 1) <? d) eqn:E2; [|discriminate].
    intros H; inversion H; subst. apply Nat.ltb_lt in E2. apply Nat.eqb_neq in E1.
    rewrite app_length, repeat_length. cbn [length]. split; [lia|]. split; [lia|]. right.
    split; [reflexivity|]. split; [exact E1|]. cbv zeta. set (c := (d + n - 1) / n) in *.
    assert (Hlast : nth (n - 1) (repeat c (n - 1) ++ [d - c * (n - 1)]) 0 = d - c * (n - 1)).
    { rewrite app_nth2 by (rewrite repeat_length; lia). rewrite repeat_length, Nat.sub_diag. reflexivity. }
    split; [|split; [exact Hlast|]].
    + intros k Hk. rewrite app_nth1 by (rewrite repeat_length; exact Hk).
      rewrite (nth_indep _ 0 c) by (rewrite repeat_length; exact Hk). apply nth_repeat.
    + rewrite Hlast. split; [lia|].
      (* d <= c * n since c = ceil(d/n); with d not a multiple of n the last part is < c *)
      assert (Hc : d <= c * n).
      { unfold c. pose proof (Nat.div_mod (d + n - 1) n E0). pose proof (Nat.mod_upper_bound (d + n - 1) n E0). nia. }
      assert (Hne : d <> c * n).
      { intros Heq. apply E1. rewrite Heq. apply Nat.mod_mul. exact E0. }
      destruct n; [lia|]. cbn [Nat.sub] in *. rewrite Nat.sub_0_r in *. nia.
Qed.

Theorem split_spec new axis x sp n outs : split new axis x sp n = Some outs ->
  exists ax ss, norm_axis (length (shape x)) axis = Some ax /\
    split_sizes new (nth ax (shape x) 0) sp n = Some ss /\
    sum_nat ss = nth ax (shape x) 0 /\ length outs = length ss /\
    forall k, k < length ss ->
      let o := nth k outs x in
      shape o = upd (shape x) ax (nth k ss 0) /\ wf o /\
      forall idx, valid (shape o) idx ->
        let src := upd idx ax (sum_nat (firstn k ss) + nth ax idx 0) in
        valid (shape x) src /\ get o idx = get x src.
Proof.
  unfold split. destruct (norm_axis (length (shape x)) axis) as [ax|] eqn:Ea; [|discriminate].
  destruct (split_sizes new (nth ax (shape x) 0) sp n) as [ss|] eqn:Es; [|discriminate].
  intros H; inversion H; subst; clear H. exists ax, ss.
  split; [reflexivity|]. split; [exact Es|].
  pose proof (split_sizes_sum _ _ _ _ _ Es) as Hsum. split; [exact Hsum|].
  split; [apply length_split_outs|].
  apply norm_axis_spec in Ea. destruct Ea as [Hax _].
  intros k Hk. cbv zeta. rewrite (split_outs_spec x ax ss 0 k x Hk). cbn [shape tab].
  split; [reflexivity|]. split; [apply wf_tab|].
  intros idx Hv. set (src := upd idx ax (0 + sum_nat (firstn k ss) + nth ax idx 0)).
  pose proof (valid_length _ _ Hv) as Li. rewrite length_upd in Li.
  pose proof (valid_nth _ _ ax Hv) as Hi. rewrite length_upd in Hi. specialize (Hi Hax).
  rewrite nth_upd_same in Hi by exact Hax.
  assert (Hs : valid (shape x) src).
  { apply valid_of_nth; [unfold src; rewrite length_upd; exact Li|].
    intros j Hj. unfold src. destruct (Nat.eq_dec j ax) as [->|Hne].
    - rewrite nth_upd_same by lia. rewrite <- Hsum. apply sum_firstn_lt; assumption.
    - rewrite nth_upd_other by exact Hne.
      pose proof (valid_nth _ _ j Hv) as Hq. rewrite length_upd in Hq. specialize (Hq Hj).
      rewrite nth_upd_other in Hq by exact Hne. exact Hq. }
  split; [exact Hs|]. rewrite get_tab by exact Hv. reflexivity.
Qed.
