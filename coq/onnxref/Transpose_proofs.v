(* C15 -- Transpose, Expand, Tile: index-level specifications. *)
From RV Require Import Prelude.
From OnnxRef Require Import RefBase RefBase_proofs OnnxRef Bcast_proofs.
Open Scope nat_scope.

Lemma nth_map_seq {A} (f : nat -> A) n j d : j < n -> nth j (map f (seq 0 n)) d = f j.
Proof.
  intros H. rewrite (nth_indep _ d (f 0)) by (rewrite map_length, seq_length; exact H).
  rewrite map_nth, seq_nth by exact H. reflexivity.
Qed.

Lemma memb_In x l : memb x l = true <-> In x l.
Proof.
  unfold memb. rewrite existsb_exists. split.
  - intros (y & Hy & E). apply Nat.eqb_eq in E. subst. exact Hy.
  - intros H. exists x. split; [exact H|apply Nat.eqb_refl].
Qed.

Lemma index_of_spec j l : memb j l = true -> index_of j l < length l /\ nth (index_of j l) l 0 = j.
Proof.
  induction l as [|x l IH]; cbn [memb existsb index_of length]; [discriminate|].
  destruct (x =? j) eqn:E.
  - apply Nat.eqb_eq in E. subst. intros _. split; [lia|reflexivity].
  - rewrite Nat.eqb_sym, E. cbn [orb]. intros H. destruct (IH H) as [H1 H2]. split; [lia|exact H2].
Qed.

Lemma nodupb_NoDup l : nodupb l = true -> NoDup l.
Proof.
  induction l as [|x l IH]; cbn [nodupb]; intros H; [constructor|].
  apply andb_true_iff in H. destruct H as [H1 H2]. constructor; [|apply IH; exact H2].
  intros Hin. apply memb_In in Hin. unfold memb in Hin. rewrite Hin in H1. discriminate.
Qed.

Lemma index_of_nth l : forall k, NoDup l -> k < length l -> index_of (nth k l 0) l = k.
Proof.
  induction l as [|x l IH]; intros k Hn Hk; cbn [length] in Hk; [lia|].
  inversion Hn as [|? ? Hni Hn']; subst. destruct k as [|k]; cbn [nth index_of].
  - rewrite Nat.eqb_refl. reflexivity.
  - destruct (x =? nth k l 0) eqn:E.
    + apply Nat.eqb_eq in E. exfalso. apply Hni. rewrite E. apply nth_In. lia.
    + f_equal. apply IH; [exact Hn'|lia].
Qed.

Lemma is_permb_spec perm r : is_permb perm r = true ->
  length perm = r /\ (forall k, k < r -> nth k perm 0 < r) /\ NoDup perm /\
  (forall j, j < r -> memb j perm = true).
Proof.
  unfold is_permb. intros H. repeat (apply andb_true_iff in H; destruct H as [H ?]).
  apply Nat.eqb_eq in H. split; [exact H|]. split; [|split; [apply nodupb_NoDup; assumption|]].
  - intros k Hk. rewrite forallb_forall in H2. apply Nat.ltb_lt. apply H2. apply nth_In. lia.
  - intros j Hj. rewrite forallb_forall in H0. apply H0. apply in_seq. lia.
Qed.

(* ONNX Transpose / numpy.transpose: out.shape[k] = in.shape[perm[k]] and
   out[i_0..i_{r-1}] = in[j] where j[perm[k]] = i_k *)
Theorem transpose_spec perm x y : transpose perm x = Some y ->
  length perm = length (shape x) /\ length (shape y) = length (shape x) /\ wf y /\
  (forall k, k < length (shape x) -> nth k (shape y) 0 = nth (nth k perm 0) (shape x) 0) /\
  forall idx, valid (shape y) idx ->
    exists src, valid (shape x) src /\
                (forall k, k < length (shape x) -> nth (nth k perm 0) src 0 = nth k idx 0) /\
                get y idx = get x src.
Proof.
  unfold transpose. destruct (is_permb perm (length (shape x))) eqn:E; [|discriminate].
  intros H; inversion H; subst; clear H.
  destruct (is_permb_spec _ _ E) as (L & Hlt & Hnd & Hmem). set (r := length (shape x)) in *.
  cbn [shape tab]. split; [exact L|]. split; [rewrite map_length; exact L|]. split; [apply wf_tab|].
  assert (Hsh : forall k, k < r -> nth k (map (fun p => nth p (shape x) 0) perm) 0 = nth (nth k perm 0) (shape x) 0).
  { intros k Hk. rewrite (nth_indep _ 0 (nth 0 (shape x) 0)) by (rewrite map_length; lia).
    rewrite (map_nth (fun p => nth p (shape x) 0)). reflexivity. }
  split; [exact Hsh|].
  intros idx Hv. exists (transpose_src perm idx).
  pose proof (valid_length _ _ Hv) as Li. rewrite map_length, L in Li.
  assert (Hsrc : forall j, j < r -> nth j (transpose_src perm idx) 0 = nth (index_of j perm) idx 0).
  { intros j Hj. unfold transpose_src. rewrite L. apply (nth_map_seq (fun j => nth (index_of j perm) idx 0)). exact Hj. }
  split; [|split].
  - apply valid_of_nth.
    + unfold transpose_src. rewrite map_length, seq_length. exact L.
    + intros j Hj. rewrite Hsrc by exact Hj.
      destruct (index_of_spec j perm (Hmem j Hj)) as [H1 H2]. rewrite L in H1.
      pose proof (valid_nth _ _ (index_of j perm) Hv) as Hn. rewrite map_length, L in Hn.
      specialize (Hn H1). rewrite Hsh in Hn by exact H1. rewrite H2 in Hn. exact Hn.
  - intros k Hk. rewrite Hsrc by (apply Hlt; exact Hk). rewrite index_of_nth; [reflexivity|exact Hnd|lia].
  - rewrite get_tab by exact Hv. reflexivity.
Qed.

(* ---- Expand: numpy-style broadcast of the input against the given shape ---- *)
Theorem expand_spec x s y : expand x s = Some y ->
  Forall (fun d => (0 <= d)%Z) s /\ bshape (shape x) (map Z.to_nat s) = Some (shape y) /\ wf y /\
  forall idx, valid (shape y) idx ->
    valid (shape x) (bidx (shape x) idx) /\ get y idx = get x (bidx (shape x) idx).
Proof.
  unfold expand. destruct (forallb (fun d => (0 <=? d)%Z) s) eqn:E; [|discriminate].
  destruct (bshape (shape x) (map Z.to_nat s)) as [sh|] eqn:Eb; [|discriminate].
  intros H; inversion H; subst; clear H. cbn [shape tab].
  split. { apply Forall_forall. intros d Hd. rewrite forallb_forall in E. apply Z.leb_le. apply E. exact Hd. }
  split; [reflexivity|]. split; [apply wf_tab|].
  intros idx Hv. destruct (bidx_valid _ _ _ _ Eb Hv) as [Va _]. split; [exact Va|(rewrite get_tab by exact Hv; reflexivity)].
Qed.

(* ---- Tile: out.shape[k] = in.shape[k] * repeats[k]; out[i] = in[i mod in.shape] ---- *)
Lemma length_map2 {A B C} (f : A -> B -> C) la : forall lb, length la = length lb -> length (map2 f la lb) = length la.
Proof. induction la; intros [|b lb] H; cbn in *; try lia. f_equal. apply IHla. lia. Qed.

Lemma nth_map2 {A B C} (f : A -> B -> C) la : forall lb k da db dc, length la = length lb -> k < length la ->
  nth k (map2 f la lb) dc = f (nth k la da) (nth k lb db).
Proof.
  induction la as [|a la IH]; intros [|b lb] k da db dc HL Hk; cbn [length] in *; try lia.
  destruct k; cbn [map2 nth]; [reflexivity|]. apply IH; lia.
Qed.

Theorem tile_spec x reps y : tile x reps = Some y ->
  length reps = length (shape x) /\ Forall (fun d => (0 <= d)%Z) reps /\ wf y /\
  length (shape y) = length (shape x) /\
  (forall k, k < length (shape x) -> nth k (shape y) 0 = nth k (shape x) 0 * Z.to_nat (nth k reps 0%Z)) /\
  forall idx, valid (shape y) idx ->
    exists src, valid (shape x) src /\
      (forall k, k < length (shape x) -> nth k src 0 = nth k idx 0 mod nth k (shape x) 0) /\
      get y idx = get x src.
Proof.
  unfold tile. destruct (length reps =? length (shape x)) eqn:E1; [|discriminate].
  destruct (forallb (fun d => (0 <=? d)%Z) reps) eqn:E2; [|discriminate]. cbn [andb].
  intros H; inversion H; subst; clear H. apply Nat.eqb_eq in E1. cbn [shape tab].
  split; [exact E1|].
  split. { apply Forall_forall. intros d Hd. rewrite forallb_forall in E2. apply Z.leb_le. apply E2. exact Hd. }
  split; [apply wf_tab|].
  split; [apply length_map2; lia|].
  assert (Hsh : forall k, k < length (shape x) ->
            nth k (map2 (fun d r => d * Z.to_nat r) (shape x) reps) 0 = nth k (shape x) 0 * Z.to_nat (nth k reps 0%Z)).
  { intros k Hk. rewrite (nth_map2 _ _ _ _ 0 0%Z) by lia. reflexivity. }
  split; [exact Hsh|].
  intros idx Hv. pose proof (valid_length _ _ Hv) as Li. rewrite length_map2 in Li by lia.
  exists (map2 (fun i d => i mod d) idx (shape x)).
  assert (Hc : forall k, k < length (shape x) ->
            nth k (map2 (fun i d => i mod d) idx (shape x)) 0 = nth k idx 0 mod nth k (shape x) 0).
  { intros k Hk. rewrite (nth_map2 _ _ _ _ 0 0) by lia. reflexivity. }
  split; [|split; [exact Hc|(rewrite get_tab by exact Hv; reflexivity)]].
  apply valid_of_nth; [rewrite length_map2; lia|].
  intros k Hk. rewrite Hc by exact Hk. apply Nat.mod_upper_bound.
  pose proof (valid_nth _ _ k Hv) as Hn. rewrite length_map2 in Hn by lia. specialize (Hn Hk).
  rewrite Hsh in Hn by exact Hk. intros Hz. rewrite Hz in Hn. lia.
Qed.
