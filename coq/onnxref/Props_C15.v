(* C15 -- Operators conform to ONNX reference semantics.
   Only statements; every proof is `exact <lemma>` (the lemmas are in the *_proofs.v files).
   For each operator of OnnxRef.v the theorem states, for ALL shapes / attributes / inputs on which
   the reference is defined, the output shape and, for every valid output index, (1) that the
   source index it reads is a valid index of the input (no reliance on out-of-range defaults) and
   (2) the index-level equation of the ONNX operator specification.
   GENERATED from the lemma statements by harness/onnxref/gen_props.py -- regenerate, do not edit. *)
From RV Require Import Prelude.
From Coq Require Import Permutation Sorted.
From OnnxRef Require Import RefBase OnnxRef ModelC15 RefBase_proofs Bcast_proofs Transpose_proofs Concat_proofs
  Slice_proofs Gather_proofs Reduce_proofs Misc_proofs Reshape_proofs TopK_proofs Pool_proofs Clip_proofs Oracle_proofs.
Open Scope nat_scope.

Theorem C15_get_tab : forall sh f idx,
  valid sh idx -> get (tab sh f) idx = f idx.
Proof. exact get_tab. Qed.

Theorem C15_tabo_spec : forall sh f t,
  tabo sh f = Some t ->
  shape t = sh /\ wf t /\ forall idx, valid sh idx -> f idx = Some (get t idx).
Proof. exact tabo_spec. Qed.

Theorem C15_nth_all_idx : forall sh idx d,
  valid sh idx -> nth (ravel sh idx) (all_idx sh) d = idx.
Proof. exact nth_all_idx. Qed.

Theorem C15_In_all_idx : forall sh idx,
  In idx (all_idx sh) <-> valid sh idx.
Proof. exact In_all_idx. Qed.

Theorem C15_NoDup_all_idx : forall sh,
  NoDup (all_idx sh).
Proof. exact NoDup_all_idx. Qed.

(* ---- norm_axis ---- *)
Theorem C15_norm_axis_spec : forall r a k,
  norm_axis r a = Some k ->
  k < r /\ ((0 <= a)%Z /\ Z.of_nat k = a \/ (a < 0)%Z /\ Z.of_nat k = (a + Z.of_nat r)%Z).
Proof. exact norm_axis_spec. Qed.

Theorem C15_bshape_spec : forall a b sh,
  bshape a b = Some sh ->
  let n := Nat.max (length a) (length b) in
  length sh = n /\
  forall k, k < n ->
    let da := nth k (lpad n a) 0 in let db := nth k (lpad n b) 0 in let d := nth k sh 0 in
    (da = d \/ da = 1) /\ (db = d \/ db = 1) /\ (d = da \/ d = db).
Proof. exact bshape_spec. Qed.

Theorem C15_bidx_valid : forall a b sh idx,
  bshape a b = Some sh -> valid sh idx ->
  valid a (bidx a idx) /\ valid b (bidx b idx).
Proof. exact bidx_valid. Qed.

Theorem C15_bidx_coords : forall sh idx k,
  length sh <= length idx -> k < length sh ->
  length (bidx sh idx) = length sh /\
  nth k (bidx sh idx) 0 = if nth k sh 0 =? 1 then 0 else nth (length idx - length sh + k) idx 0.
Proof. exact bidx_coords. Qed.

(* ---- binary operators with broadcasting ---- *)
Theorem C15_binop_spec : forall f a b y,
  binop f a b = Some y ->
  bshape (shape a) (shape b) = Some (shape y) /\ wf y /\
  forall idx, valid (shape y) idx ->
    valid (shape a) (bidx (shape a) idx) /\ valid (shape b) (bidx (shape b) idx) /\
    f (get a (bidx (shape a) idx)) (get b (bidx (shape b) idx)) = Some (get y idx).
Proof. exact binop_spec. Qed.

(* binop is defined as soon as the shapes broadcast and f is defined on every pair it meets *)
Theorem C15_binop_defined : forall f a b sh,
  bshape (shape a) (shape b) = Some sh ->
  (forall idx, valid sh idx -> f (get a (bidx (shape a) idx)) (get b (bidx (shape b) idx)) <> None) ->
  exists y, binop f a b = Some y.
Proof. exact binop_defined. Qed.

Theorem C15_where_spec : forall c x y out,
  where_op c x y = Some out ->
  exists s1, bshape (shape c) (shape x) = Some s1 /\ bshape s1 (shape y) = Some (shape out) /\ wf out /\
  forall idx, valid (shape out) idx ->
    valid (shape c) (bidx (shape c) idx) /\ valid (shape x) (bidx (shape x) idx) /\
    valid (shape y) (bidx (shape y) idx) /\
    get out idx = if (get c (bidx (shape c) idx) =? 0)%Z then get y (bidx (shape y) idx)
                  else get x (bidx (shape x) idx).
Proof. exact where_spec. Qed.

Theorem C15_get_unop : forall f x idx,
  wf x -> valid (shape x) idx -> get (unop f x) idx = f (get x idx).
Proof. exact get_unop. Qed.

(* Div on integers truncates toward zero *)
Theorem C15_div_trunc_spec : forall a b q,
  scalar_bin BDiv false a b = Some q ->
  b <> 0%Z /\ exists r, (a = b * q + r /\ Z.abs r < Z.abs b /\ (r = 0 \/ Z.sgn r = Z.sgn a))%Z.
Proof. exact div_trunc_spec. Qed.

(* Mod with fmod=0 (integers): the result has the sign of the divisor *)
Theorem C15_mod_int_spec : forall a b r,
  scalar_bin (BMod false) false a b = Some r ->
  b <> 0%Z /\ exists q, (a = b * q + r /\ Z.abs r < Z.abs b /\ (r = 0 \/ Z.sgn r = Z.sgn b))%Z.
Proof. exact mod_int_spec. Qed.

(* Mod with fmod=1 (C fmod): the result has the sign of the dividend *)
Theorem C15_mod_fmod_spec : forall fl a b r,
  scalar_bin (BMod true) fl a b = Some r ->
  b <> 0%Z /\ exists q, (a = b * q + r /\ Z.abs r < Z.abs b /\ (r = 0 \/ Z.sgn r = Z.sgn a))%Z.
Proof. exact mod_fmod_spec. Qed.

Theorem C15_pow_spec : forall fl a n,
  (0 <= n)%Z ->
  scalar_bin BPow fl a 0 = Some 1%Z /\ scalar_bin BPow fl a (n + 1) = Some (a * a ^ n)%Z /\
  scalar_bin BPow fl a n = Some (a ^ n)%Z.
Proof. exact pow_spec. Qed.

Theorem C15_compare_spec : forall fl a b,
  scalar_bin BEq fl a b = Some (if Z.eq_dec a b then 1 else 0)%Z /\
  scalar_bin BLt fl a b = Some (if Z_lt_dec a b then 1 else 0)%Z /\
  scalar_bin BLe fl a b = Some (if Z_le_dec a b then 1 else 0)%Z /\
  scalar_bin BGt fl a b = Some (if Z_lt_dec b a then 1 else 0)%Z /\
  scalar_bin BGe fl a b = Some (if Z_le_dec b a then 1 else 0)%Z.
Proof. exact compare_spec. Qed.

(* ONNX Transpose / numpy.transpose: out.shape[k] = in.shape[perm[k]] and
   out[i_0..i_{r-1}] = in[j] where j[perm[k]] = i_k *)
Theorem C15_transpose_spec : forall perm x y,
  transpose perm x = Some y ->
  length perm = length (shape x) /\ length (shape y) = length (shape x) /\ wf y /\
  (forall k, k < length (shape x) -> nth k (shape y) 0 = nth (nth k perm 0) (shape x) 0) /\
  forall idx, valid (shape y) idx ->
    exists src, valid (shape x) src /\
                (forall k, k < length (shape x) -> nth (nth k perm 0) src 0 = nth k idx 0) /\
                get y idx = get x src.
Proof. exact transpose_spec. Qed.

(* ---- Expand: numpy-style broadcast of the input against the given shape ---- *)
Theorem C15_expand_spec : forall x s y,
  expand x s = Some y ->
  Forall (fun d => (0 <= d)%Z) s /\ bshape (shape x) (map Z.to_nat s) = Some (shape y) /\ wf y /\
  forall idx, valid (shape y) idx ->
    valid (shape x) (bidx (shape x) idx) /\ get y idx = get x (bidx (shape x) idx).
Proof. exact expand_spec. Qed.

Theorem C15_tile_spec : forall x reps y,
  tile x reps = Some y ->
  length reps = length (shape x) /\ Forall (fun d => (0 <= d)%Z) reps /\ wf y /\
  length (shape y) = length (shape x) /\
  (forall k, k < length (shape x) -> nth k (shape y) 0 = nth k (shape x) 0 * Z.to_nat (nth k reps 0%Z)) /\
  forall idx, valid (shape y) idx ->
    exists src, valid (shape x) src /\
      (forall k, k < length (shape x) -> nth k src 0 = nth k idx 0 mod nth k (shape x) 0) /\
      get y idx = get x src.
Proof. exact tile_spec. Qed.

(* ONNX Concat: all inputs agree outside `axis`; the output extent along axis is the sum of the
   input extents; input k occupies positions [off k, off k + d_k) along the axis. *)
Theorem C15_concat_spec : forall axis xs y,
  concat axis xs = Some y ->
  exists x0 ax, hd_error xs = Some x0 /\ norm_axis (length (shape x0)) axis = Some ax /\ wf y /\
    let ds := map (fun x => nth ax (shape x) 0) xs in
    shape y = upd (shape x0) ax (sum_nat ds) /\
    (forall k, k < length xs -> length (shape (nth k xs x0)) = length (shape x0) /\
       forall j, j <> ax -> nth j (shape (nth k xs x0)) 0 = nth j (shape x0) 0) /\
    (* every element of every input appears at its place *)
    (forall k idx, k < length xs -> valid (shape (nth k xs x0)) idx ->
       let idx' := upd idx ax (sum_nat (firstn k ds) + nth ax idx 0) in
       valid (shape y) idx' /\ get y idx' = get (nth k xs x0) idx) /\
    (* and every output element comes from an input *)
    (forall idx', valid (shape y) idx' -> exists k idx, k < length xs /\ valid (shape (nth k xs x0)) idx /\
       idx' = upd idx ax (sum_nat (firstn k ds) + nth ax idx 0)).
Proof. exact concat_spec. Qed.

(* sizes of the parts: they always add up to the extent of the split axis *)
Theorem C15_split_sizes_sum : forall new d sp n ss,
  split_sizes new d sp n = Some ss -> sum_nat ss = d.
Proof. exact split_sizes_sum. Qed.

(* the equal-parts rule (no `split` input): n parts; all equal when n divides d, otherwise
   (opset >= 18) n-1 parts of ceil(d/n) and a smaller, non-empty last part *)
Theorem C15_split_sizes_equal : forall new d n ss,
  split_sizes new d None n = Some ss ->
  length ss = n /\ 0 < n /\
  ((d mod n = 0 /\ forall k, k < n -> nth k ss 0 = d / n) \/
   (new = true /\ d mod n <> 0 /\ let c := (d + n - 1) / n in
      (forall k, k < n - 1 -> nth k ss 0 = c) /\ nth (n - 1) ss 0 = d - c * (n - 1) /\
      0 < nth (n - 1) ss 0 < c)).
Proof. exact split_sizes_equal. Qed.

Theorem C15_split_spec : forall new axis x sp n outs,
  split new axis x sp n = Some outs ->
  exists ax ss, norm_axis (length (shape x)) axis = Some ax /\
    split_sizes new (nth ax (shape x) 0) sp n = Some ss /\
    sum_nat ss = nth ax (shape x) 0 /\ length outs = length ss /\
    forall k, k < length ss ->
      let o := nth k outs x in
      shape o = upd (shape x) ax (nth k ss 0) /\ wf o /\
      forall idx, valid (shape o) idx ->
        let src := upd idx ax (sum_nat (firstn k ss) + nth ax idx 0) in
        valid (shape x) src /\ get o idx = get x src.
Proof. exact split_spec. Qed.

(* ranges the ONNX text prescribes for the effective start / end *)
Theorem C15_slice_start_range : forall d start step,
  0 < d ->
  ((0 < step)%Z -> (0 <= slice_start d start step <= Z.of_nat d)%Z) /\
  ((step <= 0)%Z -> (0 <= slice_start d start step <= Z.of_nat d - 1)%Z).
Proof. exact slice_start_range. Qed.

Theorem C15_slice_end_range : forall d end_ step,
  0 < d ->
  ((0 < step)%Z -> (0 <= slice_end d end_ step <= Z.of_nat d)%Z) /\
  ((step <= 0)%Z -> (-1 <= slice_end d end_ step <= Z.of_nat d - 1)%Z).
Proof. exact slice_end_range. Qed.

(* the output extent along a sliced axis is exactly the number of positions
   s, s+step, s+2*step, ... that lie strictly before e in the direction of step *)
Theorem C15_slice_len_spec : forall d s e step (k : nat),
  step <> 0%Z -> 0 < d ->
  (k < slice_len d s e step <->
   if (0 <? step)%Z then (s + Z.of_nat k * step < e)%Z else (e < s + Z.of_nat k * step)%Z).
Proof. exact slice_len_spec. Qed.

(* every selected position is inside the axis *)
Theorem C15_slice_in_bounds : forall d start end_ step (k : nat),
  step <> 0%Z ->
  k < slice_len d (slice_start d start step) (slice_end d end_ step) step ->
  (0 <= slice_start d start step + Z.of_nat k * step < Z.of_nat d)%Z.
Proof. exact slice_in_bounds. Qed.

Theorem C15_nth_slice_params : forall sh ks starts ends steps k,
  k < length sh ->
  nth k (slice_params sh ks starts ends steps) (0%Z, 0%Z, 0) =
  let d := nth k sh 0 in
  if memb k ks then
    let j := index_of k ks in
    let st := nth j steps 1%Z in
    let s := slice_start d (nth j starts 0%Z) st in
    let e := slice_end d (nth j ends 0%Z) st in
    (s, st, slice_len d s e st)
  else (0%Z, 1%Z, d).
Proof. exact nth_slice_params. Qed.

Theorem C15_nth_slice_src : forall ps idx k,
  length idx = length ps -> k < length ps ->
  nth k (slice_src ps idx) 0 =
  Z.to_nat (fst (fst (nth k ps (0%Z, 0%Z, 0))) + Z.of_nat (nth k idx 0) * snd (fst (nth k ps (0%Z, 0%Z, 0)))).
Proof. exact nth_slice_src. Qed.

(* ONNX Slice.  ks = the normalised axes, steps' = the steps (default 1).  Along axis ks[j] the
   output index i selects input position start_j + i * step_j where start_j / end_j are the
   clamped values of the text (slice_start / slice_end) and the extent is slice_len; other axes
   are copied. *)
Theorem C15_slice_spec : forall strict x starts ends axes steps y,
  slice strict x starts ends axes steps = Some y ->
  exists ks steps',
    steps' = match steps with Some s => s | None => repeat 1%Z (length starts) end /\
    norm_axes (length (shape x))
      (match axes with Some a => a | None => map Z.of_nat (seq 0 (length starts)) end) = Some ks /\
    NoDup ks /\ Forall (fun s => s <> 0%Z) steps' /\
    length ends = length starts /\ length ks = length starts /\ length steps' = length starts /\
    wf y /\ length (shape y) = length (shape x) /\
    (forall k, k < length (shape x) ->
       nth k (shape y) 0 = snd (nth k (slice_params (shape x) ks starts ends steps') (0%Z, 0%Z, 0))) /\
    forall idx, valid (shape y) idx ->
      let src := slice_src (slice_params (shape x) ks starts ends steps') idx in
      valid (shape x) src /\ get y idx = get x src.
Proof. exact slice_spec. Qed.

Theorem C15_pad_src_in_bounds : forall mode d b e i s,
  pad_axis_ok mode d b e = true ->
  (Z.of_nat i < Z.of_nat d + b + e)%Z -> pad_src mode d b i = Some s -> s < d.
Proof. exact pad_src_in_bounds. Qed.

Theorem C15_nth_pad_params : forall sh ks pads k,
  k < length sh ->
  nth k (pad_params sh ks pads) (0, 0%Z, 0%Z) =
  let d := nth k sh 0 in
  if memb k ks then let j := index_of k ks in (d, nth j pads 0%Z, nth (length ks + j) pads 0%Z)
  else (d, 0%Z, 0%Z).
Proof. exact nth_pad_params. Qed.

(* ONNX Pad: with per-axis (d, b, e) = extent, leading and trailing pad (negative = crop, constant
   mode only) the output extent is d + b + e; an output element is the input element at the
   per-axis source coordinates when they all exist, and the constant value otherwise (which can
   only happen in constant mode). *)
Theorem C15_pad_spec : forall mode x pads cval axes y,
  pad mode x pads cval axes = Some y ->
  exists ks, norm_axes (length (shape x))
      (match axes with Some a => a | None => map Z.of_nat (seq 0 (length (shape x))) end) = Some ks /\
    NoDup ks /\ length pads = 2 * length ks /\
    let ps := pad_params (shape x) ks pads in
    Forall (fun p => pad_axis_ok mode (fst (fst p)) (snd (fst p)) (snd p) = true) ps /\
    wf y /\ length (shape y) = length (shape x) /\
    (forall k, k < length (shape x) ->
       Z.of_nat (nth k (shape y) 0) =
       (Z.of_nat (nth k (shape x) 0%nat) + snd (fst (nth k ps (0%nat, 0%Z, 0%Z))) + snd (nth k ps (0%nat, 0%Z, 0%Z)))%Z) /\
    forall idx, valid (shape y) idx ->
      match sequence (map2 (fun p i => pad_src mode (fst (fst p)) (snd (fst p)) i) ps idx) with
      | Some src => valid (shape x) src /\ get y idx = get x src
      | None => mode = PConstant /\ get y idx = cval
      end.
Proof. exact pad_spec. Qed.

(* negative index values count from the end; anything outside [-d, d-1] is an error *)
Theorem C15_norm_idx_spec : forall d v,
  idx_ok d v = true ->
  norm_idx d v < d /\ ((0 <= v)%Z /\ Z.of_nat (norm_idx d v) = v \/
                       (v < 0)%Z /\ Z.of_nat (norm_idx d v) = (v + Z.of_nat d)%Z).
Proof. exact norm_idx_spec. Qed.

(* ONNX Gather: output[i ++ j ++ k] = data[i ++ [indices[j]] ++ k], i over the axes before `axis`,
   j over the shape of indices, k over the axes after `axis` *)
Theorem C15_gather_spec : forall axis x ind y,
  wf ind -> gather axis x ind = Some y ->
  exists ax, norm_axis (length (shape x)) axis = Some ax /\ wf y /\
    let d := nth ax (shape x) 0 in
    shape y = firstn ax (shape x) ++ shape ind ++ skipn (S ax) (shape x) /\
    forall i j k, valid (firstn ax (shape x)) i -> valid (shape ind) j -> valid (skipn (S ax) (shape x)) k ->
      idx_ok d (get ind j) = true /\
      valid (shape y) (i ++ j ++ k) /\
      valid (shape x) (i ++ [norm_idx d (get ind j)] ++ k) /\
      get y (i ++ j ++ k) = get x (i ++ [norm_idx d (get ind j)] ++ k).
Proof. exact gather_spec. Qed.

(* ONNX GatherElements: output has the shape of indices and
   output[idx] = data[idx with coordinate `axis` replaced by indices[idx]] *)
Theorem C15_gather_elements_spec : forall axis x ind y,
  wf ind -> gather_elements axis x ind = Some y ->
  exists ax, norm_axis (length (shape x)) axis = Some ax /\ wf y /\ shape y = shape ind /\
    length (shape ind) = length (shape x) /\
    let d := nth ax (shape x) 0 in
    forall idx, valid (shape ind) idx ->
      idx_ok d (get ind idx) = true /\
      valid (shape x) (upd idx ax (norm_idx d (get ind idx))) /\
      get y idx = get x (upd idx ax (norm_idx d (get ind idx))).
Proof. exact gather_elements_spec. Qed.

(* ONNX GatherND with batch_dims = b: indices has shape pre ++ [m]; for i over pre and k over the
   trailing data dims, output[i ++ k] = data[i[:b] ++ indices[i ++ [0..m-1]] ++ k] *)
Theorem C15_gather_nd_spec : forall b x ind y,
  wf ind -> gather_nd b x ind = Some y ->
  let q := length (shape ind) in
  let m := last (shape ind) 0 in
  let pre := firstn (q - 1) (shape ind) in
  0 < q /\ b < q /\ 1 <= m /\ b + m <= length (shape x) /\
  firstn b (shape x) = firstn b (shape ind) /\ wf y /\
  shape y = pre ++ skipn (b + m) (shape x) /\
  forall i k, valid pre i -> valid (skipn (b + m) (shape x)) k ->
    let tup := nd_tuple b m (shape x) ind i in
    (forall t, t < m -> idx_ok (nth (b + t) (shape x) 0) (get ind (i ++ [t])) = true) /\
    valid (shape y) (i ++ k) /\ valid (shape x) (firstn b i ++ tup ++ k) /\
    get y (i ++ k) = get x (firstn b i ++ tup ++ k).
Proof. exact gather_nd_spec. Qed.

(* how the updates that target one element are combined with its data value *)
Theorem C15_scatter_apply_spec : forall v us,
  scatter_apply SAdd v us = Some (v + sumZ us)%Z /\
  scatter_apply SMul v us = Some (v * prodZ us)%Z /\
  scatter_apply SMax v us = Some (fold_right Z.max v us) /\
  scatter_apply SMin v us = Some (fold_right Z.min v us) /\
  scatter_apply SNone v [] = Some v /\ (forall u, scatter_apply SNone v [u] = Some u) /\
  (forall u1 u2 r, scatter_apply SNone v (u1 :: u2 :: r) = None).
Proof. exact scatter_apply_spec. Qed.

(* ONNX ScatterElements: output = data, then for every index position idx of indices (row-major
   order) output[idx with coordinate axis := indices[idx]] is combined with updates[idx] *)
Theorem C15_scatter_elements_spec : forall red axis x ind upd_ y,
  wf ind -> scatter_elements red axis x ind upd_ = Some y ->
  exists ax, norm_axis (length (shape x)) axis = Some ax /\ wf y /\ shape y = shape x /\
    shape ind = shape upd_ /\ length (shape ind) = length (shape x) /\
    let d := nth ax (shape x) 0 in
    let tgt idx := upd idx ax (norm_idx d (get ind idx)) in
    (forall idx, valid (shape ind) idx -> idx_ok d (get ind idx) = true /\ valid (shape x) (tgt idx)) /\
    forall p, valid (shape x) p ->
      scatter_apply red (get x p)
        (map (get upd_) (filter (fun idx => list_eqb Nat.eqb (tgt idx) p) (all_idx (shape ind))))
      = Some (get y p).
Proof. exact scatter_elements_spec. Qed.

(* ONNX ScatterND: indices has shape pre ++ [m]; for every i over pre (row-major order) the slice
   output[indices[i] ++ :] is combined with updates[i ++ :] *)
Theorem C15_scatter_nd_spec : forall red x ind upd_ y,
  scatter_nd red x ind upd_ = Some y ->
  let q := length (shape ind) in
  let m := last (shape ind) 0 in
  let pre := firstn (q - 1) (shape ind) in
  0 < q /\ 1 <= m <= length (shape x) /\ shape upd_ = pre ++ skipn m (shape x) /\
  wf y /\ shape y = shape x /\
  (forall i t, valid pre i -> t < m -> idx_ok (nth t (shape x) 0) (get ind (i ++ [t])) = true) /\
  forall p, valid (shape x) p ->
    scatter_apply red (get x p)
      (map (fun i => get upd_ (i ++ skipn m p))
           (filter (fun i => list_eqb Nat.eqb (nd_tuple 0 m (shape x) ind i) (firstn m p)) (all_idx pre)))
    = Some (get y p).
Proof. exact scatter_nd_spec. Qed.

Theorem C15_red_fold_spec : forall l,
  red_fold RSum l = Some (sumZ l) /\ red_fold RProd l = Some (prodZ l) /\
  red_fold RSumSquare l = Some (sumZ (map (fun v => v * v)%Z l)) /\
  red_fold RL1 l = Some (sumZ (map Z.abs l)) /\
  (forall r, red_fold RMax l = Some r -> In r l /\ forall u, In u l -> (u <= r)%Z) /\
  (forall r, red_fold RMin l = Some r -> In r l /\ forall u, In u l -> (r <= u)%Z) /\
  (l = [] -> red_fold RMax l = None /\ red_fold RMin l = None).
Proof. exact red_fold_spec. Qed.

(* ONNX Reduce*: output position kidx (keepdims form: 0 along the reduced axes) holds the reduction
   of all input elements whose coordinates agree with kidx on the axes that are not reduced *)
Theorem C15_reduce_spec : forall k keepdims x axes y,
  reduce k keepdims x axes = Some y ->
  let r := length (shape x) in
  let mask := red_mask r axes in
  shape y = (if keepdims then keep_shape mask (shape x) else drop_shape mask (shape x)) /\ wf y /\
  forall kidx, valid (keep_shape mask (shape x)) kidx ->
    let oidx := if keepdims then kidx else drop_idx mask kidx in
    valid (shape y) oidx /\
    exists L, red_fold k (map (get x) L) = Some (get y oidx) /\ NoDup L /\
      forall i, In i L <-> valid (shape x) i /\
                           forall p, p < r -> memb p axes = false -> nth p i 0 = nth p kidx 0.
Proof. exact reduce_spec. Qed.

(* which axes are reduced *)
Theorem C15_reduce_op_spec : forall k keepdims noop x axes,
  let r := length (shape x) in
  let ax := match axes with Some a => a | None => [] end in
  (ax = [] -> noop = true -> reduce_op k keepdims noop x axes = if red_idempotent k then Some x else None) /\
  (ax = [] -> noop = false -> reduce_op k keepdims noop x axes = reduce k keepdims x (seq 0 r)) /\
  (ax <> [] -> forall ks, norm_axes r ax = Some ks -> nodupb ks = true ->
     reduce_op k keepdims noop x axes = reduce k keepdims x ks) /\
  (ax <> [] -> norm_axes r ax = None -> reduce_op k keepdims noop x axes = None).
Proof. exact reduce_op_spec. Qed.

(* ONNX ArgMax / ArgMin: for every position kidx of the other axes the output holds the index along
   `axis` of the extremum of the lane x[kidx with axis := 0..d-1]; ties: first (last) occurrence *)
Theorem C15_arg_reduce_spec : forall is_max last_ keepdims axis x y,
  arg_reduce is_max last_ keepdims axis x = Some y ->
  exists ax, norm_axis (length (shape x)) axis = Some ax /\
    let r := length (shape x) in let d := nth ax (shape x) 0 in let mask := red_mask r [ax] in
    0 < d /\ wf y /\
    shape y = (if keepdims then keep_shape mask (shape x) else drop_shape mask (shape x)) /\
    forall kidx, valid (keep_shape mask (shape x)) kidx ->
      let oidx := if keepdims then kidx else drop_idx mask kidx in
      let key v := if is_max then v else (- v)%Z in
      let lane q := get x (upd kidx ax q) in
      valid (shape y) oidx /\
      exists p, get y oidx = Z.of_nat p /\ p < d /\ (forall q, q < d -> valid (shape x) (upd kidx ax q)) /\
        (forall q, q < d -> (key (lane q) <= key (lane p))%Z) /\
        (last_ = false -> forall q, q < p -> (key (lane q) < key (lane p))%Z) /\
        (last_ = true -> forall q, p < q < d -> (key (lane q) < key (lane p))%Z).
Proof. exact arg_reduce_spec. Qed.

(* ---- CumSum ---- *)
Theorem C15_cumsum_range_spec : forall exclusive reverse d i q,
  i < d ->
  (In q (cumsum_range exclusive reverse d i) <->
   q < d /\ match reverse, exclusive with
            | false, false => q <= i | false, true => q < i
            | true, false => i <= q | true, true => i < q end) /\
  NoDup (cumsum_range exclusive reverse d i).
Proof. exact cumsum_range_spec. Qed.

(* ONNX CumSum: out[idx] = sum of x[idx with axis := q] over q <= idx[axis] (q < .. if exclusive;
   q >= / q > if reverse) *)
Theorem C15_cumsum_spec : forall exclusive reverse axis x y,
  cumsum exclusive reverse axis x = Some y ->
  exists ax, norm_axis (length (shape x)) axis = Some ax /\ shape y = shape x /\ wf y /\
    let d := nth ax (shape x) 0 in
    forall idx, valid (shape x) idx ->
      nth ax idx 0 < d /\
      (forall q, q < d -> valid (shape x) (upd idx ax q)) /\
      get y idx = sumZ (map (fun q => get x (upd idx ax q)) (cumsum_range exclusive reverse d (nth ax idx 0))).
Proof. exact cumsum_spec. Qed.

(* ONNX Trilu: the last two axes are the matrix; upper keeps the elements with j - i >= k, lower the
   elements with j - i <= k; everything else is 0 *)
Theorem C15_trilu_spec : forall upper k x y,
  trilu upper k x = Some y ->
  2 <= length (shape x) /\ shape y = shape x /\ wf y /\
  forall idx, valid (shape x) idx ->
    let r := length (shape x) in
    let i := Z.of_nat (nth (r - 2) idx 0) in
    let j := Z.of_nat (nth (r - 1) idx 0) in
    get y idx = if (if upper then (k <=? j - i)%Z else (j - i <=? k)%Z) then get x idx else 0%Z.
Proof. exact trilu_spec. Qed.

(* ONNX Range: start, start+delta, ... as long as the value is strictly before limit *)
Theorem C15_range_spec : forall start limit delta y,
  range_op start limit delta = Some y ->
  delta <> 0%Z /\ wf y /\ exists n, shape y = [n] /\
    (forall i, i < n -> get y [i] = (start + Z.of_nat i * delta)%Z) /\
    (forall i : nat, i < n <->
       if (0 <? delta)%Z then (start + Z.of_nat i * delta < limit)%Z
       else (limit < start + Z.of_nat i * delta)%Z).
Proof. exact range_spec. Qed.

(* ONNX OneHot: the new axis of extent depth is inserted at `axis` (normalised against rank+1);
   output[idx] = on if the (normalised, negative + depth) index value equals idx[axis], else off;
   index values outside [-depth, depth-1] yield off everywhere *)
Theorem C15_onehot_spec : forall axis ind depth off on y,
  onehot axis ind depth off on = Some y ->
  (1 <= depth)%Z /\ exists ax, norm_axis (S (length (shape ind))) axis = Some ax /\ wf y /\
    shape y = insert_at (shape ind) ax (Z.to_nat depth) /\
    forall idx, valid (shape y) idx ->
      valid (shape ind) (remove_at idx ax) /\ (Z.of_nat (nth ax idx 0%nat) < depth)%Z /\
      let v := get ind (remove_at idx ax) in
      let v' := if (v <? 0)%Z then (v + depth)%Z else v in
      get y idx = if (v' =? Z.of_nat (nth ax idx 0%nat))%Z then on else off.
Proof. exact onehot_spec. Qed.

(* numpy.matmul semantics: 1-D operands are promoted to matrices ([K] -> [1,K] on the left,
   [K] -> [K,1] on the right) and the added axis is removed from the result; leading (batch)
   axes broadcast; every output element is the dot product of a row and a column *)
Theorem C15_matmul_spec : forall a b y,
  matmul a b = Some y ->
  let ra := length (shape a) in let rb := length (shape b) in
  1 <= ra /\ 1 <= rb /\
  let sa := if ra =? 1 then 1 :: shape a else shape a in
  let sb := if rb =? 1 then shape b ++ [1] else shape b in
  let ba := firstn (length sa - 2) sa in let bb := firstn (length sb - 2) sb in
  let m := nth (length sa - 2) sa 0 in let kk := nth (length sa - 1) sa 0 in
  let n := nth (length sb - 1) sb 0 in
  kk = nth (length sb - 2) sb 0 /\
  exists bs, bshape ba bb = Some bs /\
    shape y = bs ++ (if ra =? 1 then [] else [m]) ++ (if rb =? 1 then [] else [n]) /\
    length (data y) = numel (bs ++ [m; n]) /\
    forall bi i j, valid bs bi -> i < m -> j < n ->
      nth (ravel (bs ++ [m; n]) (bi ++ [i; j])) (data y) 0%Z =
      sumZ (map (fun k => (get (mkT sa (data a)) (bidx ba bi ++ [i; k]) *
                           get (mkT sb (data b)) (bidx bb bi ++ [k; j]))%Z) (seq 0 kk)) /\
      valid ba (bidx ba bi) /\ valid bb (bidx bb bi).
Proof. exact matmul_spec. Qed.

(* ONNX Gemm: Y = alpha * A' * B' + beta * C with A' = A or A^T, B' = B or B^T, C unidirectionally
   broadcast to (M, N) *)
Theorem C15_gemm_spec : forall alpha beta ta tb a b c y,
  gemm alpha beta ta tb a b c = Some y ->
  exists m kk n, shape a = (if ta then [kk; m] else [m; kk]) /\ shape b = (if tb then [n; kk] else [kk; n]) /\
    shape y = [m; n] /\ wf y /\
    (forall ct, c = Some ct -> bshape (shape ct) [m; n] = Some [m; n]) /\
    forall i j, i < m -> j < n ->
      (forall k, k < kk -> valid (shape a) (if ta then [k; i] else [i; k]) /\
                           valid (shape b) (if tb then [j; k] else [k; j])) /\
      (forall ct, c = Some ct -> valid (shape ct) (bidx (shape ct) [i; j])) /\
      get y [i; j] =
      (alpha * sumZ (map (fun k => (get a (if ta then [k; i] else [i; k]) * get b (if tb then [j; k] else [k; j]))%Z) (seq 0 kk))
       + match c with Some ct => beta * get ct (bidx (shape ct) [i; j]) | None => 0 end)%Z.
Proof. exact gemm_spec. Qed.

(* ONNX Reshape: same elements in the same (row-major) order; a positive entry of `shape` is the
   output extent, 0 copies the input extent (unless allowzero), -1 (at most one) is inferred so
   that the element count is preserved *)
Theorem C15_reshape_spec : forall az x s y,
  reshape az x s = Some y ->
  data y = data x /\ (wf x -> wf y) /\
  length (shape y) = length s /\ numel (shape y) = numel (shape x) /\ countZ (-1) s <= 1 /\
  (forall k, k < length s ->
     let d := nth k s 0%Z in
     (-1 <= d)%Z /\
     ((0 < d)%Z -> nth k (shape y) 0 = Z.to_nat d) /\
     (d = 0%Z -> az = false -> k < length (shape x) /\ nth k (shape y) 0 = nth k (shape x) 0) /\
     (d = 0%Z -> az = true -> nth k (shape y) 0 = 0)) /\
  (* row-major order is preserved: equal linear positions hold equal elements *)
  (forall idx idx', ravel (shape y) idx = ravel (shape x) idx' -> get y idx = get x idx').
Proof. exact reshape_spec. Qed.

(* ONNX Squeeze: removes the given axes (which must have extent 1), or all extent-1 axes when no
   axes are given; the elements and their order are unchanged *)
Theorem C15_squeeze_spec : forall x axes y,
  squeeze x axes = Some y ->
  data y = data x /\ numel (shape y) = numel (shape x) /\
  match axes with
  | None => shape y = filter (fun d => negb (d =? 1)) (shape x)
  | Some ax => exists ks, norm_axes (length (shape x)) ax = Some ks /\ NoDup ks /\
                 (forall k, In k ks -> nth k (shape x) 0 = 1) /\
                 shape y = map snd (filter (fun p => negb (memb (fst p) ks))
                                           (combine (seq 0 (length (shape x))) (shape x)))
  end.
Proof. exact squeeze_spec. Qed.

(* ONNX Unsqueeze: the output rank is rank + len(axes); the (normalised, distinct) axes are the
   positions of the inserted extent-1 dims; removing them gives back the input shape *)
Theorem C15_unsqueeze_spec : forall x axes y,
  unsqueeze x axes = Some y ->
  exists ks, norm_axes (length (shape x) + length axes) axes = Some ks /\ NoDup ks /\
    data y = data x /\ length (shape y) = length (shape x) + length axes /\
    (forall k, In k ks -> nth k (shape y) 0 = 1) /\
    map snd (filter (fun p => negb (memb (fst p) ks)) (combine (seq 0 (length (shape y))) (shape y))) = shape x /\
    numel (shape y) = numel (shape x).
Proof. exact unsqueeze_spec. Qed.

(* ONNX TopK on one lane: exactly k pairs (value, index into the lane); each value is the lane
   element at its index; indices distinct; sorted best-first with equal values ordered by lower
   index; every element that is not selected ranks after every selected one *)
Theorem C15_topk_list_spec : forall largest k l,
  k <= length l ->
  let out := topk_list largest k l in
  length out = k /\
  (forall p, In p out -> snd p < length l /\ fst p = nth (snd p) l 0%Z) /\
  NoDup (map snd out) /\
  StronglySorted (fun a b => topk_before largest a b = true) out /\
  (forall i, i < length l -> ~ In i (map snd out) ->
     forall p, In p out -> topk_before largest p (nth i l 0%Z, i) = true).
Proof. exact topk_list_spec. Qed.

(* ONNX TopK: both outputs have the input shape with the extent k along `axis`; for every position of
   the other axes, values/indices at position j along the axis are the j-th pair of the lane's top k *)
Theorem C15_topk_spec : forall largest axis k x v i,
  topk largest axis k x = Some (v, i) ->
  exists ax, norm_axis (length (shape x)) axis = Some ax /\
    let d := nth ax (shape x) 0 in
    (0 <= k <= Z.of_nat d)%Z /\ wf v /\ wf i /\
    shape v = upd (shape x) ax (Z.to_nat k) /\ shape i = shape v /\
    forall idx, valid (shape v) idx ->
      let lane := map (fun p => get x (upd idx ax p)) (seq 0 d) in
      let out := topk_list largest (Z.to_nat k) lane in
      length lane = d /\ (forall p, p < d -> valid (shape x) (upd idx ax p)) /\
      nth ax idx 0 < Z.to_nat k /\
      get v idx = fst (nth (nth ax idx 0) out (0%Z, 0)) /\
      get i idx = Z.of_nat (snd (nth (nth ax idx 0) out (0%Z, 0))).
Proof. exact topk_spec. Qed.

(* the input coordinates seen by output position i: r is in the window iff it is a real
   (un-padded) coordinate whose padded position r + p lies in [i*s, i*s + k) *)
Theorem C15_pool_window_spec : forall d k s p i r,
  In r (pool_window d k s p i) <-> r < d /\ i * s <= r + p < i * s + k.
Proof. exact pool_window_spec. Qed.

(* ONNX MaxPool (2-D, floor mode, explicit pads, dilation 1, default storage order):
   out[b, c, i, j] is the maximum of x[b, c, r, q] over the window positions that are not padding;
   the output extent is floor((d + pad_begin + pad_end - k) / stride) + 1 *)
Theorem C15_maxpool2d_spec : forall kh kw sh sw pt pl pb pr x y,
  maxpool2d kh kw sh sw pt pl pb pr x = Some y ->
  exists n c h w, shape x = [n; c; h; w] /\
    1 <= kh /\ 1 <= kw /\ 1 <= sh /\ 1 <= sw /\ kh <= h + pt + pb /\ kw <= w + pl + pr /\
    shape y = [n; c; (h + pt + pb - kh) / sh + 1; (w + pl + pr - kw) / sw + 1] /\ wf y /\
    forall b ch i j, valid (shape y) [b; ch; i; j] ->
      (exists r q, In r (pool_window h kh sh pt i) /\ In q (pool_window w kw sw pl j) /\
                   get y [b; ch; i; j] = get x [b; ch; r; q]) /\
      (forall r q, In r (pool_window h kh sh pt i) -> In q (pool_window w kw sw pl j) ->
                   valid (shape x) [b; ch; r; q] /\ (get x [b; ch; r; q] <= get y [b; ch; i; j])%Z).
Proof. exact maxpool2d_spec. Qed.

(* ONNX Clip: "Min(max, Max(input, min))"; with min <= max the result is the input limited to
   [min, max]; "when min is greater than max, the operator sets all the input values to max";
   an absent bound does not constrain *)
Theorem C15_clip_val_spec : forall lo hi v,
  clip_val (Some lo) (Some hi) v = Z.min hi (Z.max v lo) /\
  ((lo <= hi)%Z -> (lo <= clip_val (Some lo) (Some hi) v <= hi)%Z /\
                   ((lo <= v <= hi)%Z -> clip_val (Some lo) (Some hi) v = v) /\
                   ((v < lo)%Z -> clip_val (Some lo) (Some hi) v = lo) /\
                   ((hi < v)%Z -> clip_val (Some lo) (Some hi) v = hi)) /\
  ((hi < lo)%Z -> clip_val (Some lo) (Some hi) v = hi) /\
  clip_val (Some lo) None v = Z.max v lo /\ clip_val None (Some hi) v = Z.min hi v /\ clip_val None None v = v.
Proof. exact clip_val_spec. Qed.

Theorem C15_clip_spec : forall lo hi x idx,
  wf x -> valid (shape x) idx ->
  shape (clip lo hi x) = shape x /\ get (clip lo hi x) idx = clip_val lo hi (get x idx).
Proof. exact clip_spec. Qed.

Theorem C15_relu_leaky_spec : forall alpha x idx,
  wf x -> valid (shape x) idx ->
  get (unop relu_val x) idx = Z.max (get x idx) 0 /\
  get (unop (leaky_relu_val alpha) x) idx = (if (get x idx <? 0)%Z then alpha * get x idx else get x idx)%Z.
Proof. exact relu_leaky_spec. Qed.

(* variadic Max / Min / Sum: one input is returned unchanged; n+1 inputs = the broadcasting binary
   operator (C15_binop_spec) applied to the result for the first n inputs and the last input *)
Theorem C15_variadic_spec : forall f x xs y,
  variadic f [x] = Some x /\
  variadic f (x :: xs ++ [y]) = match variadic f (x :: xs) with Some a => binop f a y | None => None end.
Proof. exact variadic_spec. Qed.

(* one output agrees iff rten reported exactly the reference's element kind, shape and values *)
Theorem C15_out_eqb_spec : forall r o,
  out_eqb r o = true <->
  o = OT (fst r) (map Z.of_nat (shape (snd r))) (data (snd r)).
Proof. exact out_eqb_spec. Qed.

(* prop_ok c holds iff, whenever the reference defines the outputs of the node, rten returned exactly
   those outputs -- or reported the setting as unsupported where it documents that it is *)
Theorem C15_prop_ok_reflect : forall c,
  prop_ok c = true <->
  forall outs, run_ref c = Some outs ->
    c_impl c = IOk (map (fun x => OT (fst x) (map Z.of_nat (shape (snd x))) (data (snd x))) outs) \/
    (documented_unsupported c = true /\ (c_impl c = IUnsup \/ c_impl c = ILoadUnsup)).
Proof. exact prop_ok_reflect. Qed.

(* ---- known finding F150 (recorded, not fixed: the unit test test_sign pins it): rten's f32 Sign
   returns 1 for 0.0.  The reference follows the text ("if input == 0, output 0"); the observed
   outcome fails the oracle. ---- *)
From Coq Require Import String.
Open Scope string_scope.
Definition sign_zero_case : case :=
  {| c_op := "Sign"; c_opset := 13%Z; c_nout := 1%Z; c_attrs := [];
     c_inputs := [Some (mkIn DF32 [4; 2]%Z [-6; -8; 0; -5; -8; 5; -1; -3]%Z)];
     c_impl := IOk [OT KFloat [4; 2]%Z [-1; -1; 1; -1; -1; 1; -1; -1]%Z] |}.
Theorem C15_sign_zero_refuted :
  run_ref sign_zero_case = Some [(KFloat, mkT [4; 2] [-1; -1; 0; -1; -1; 1; -1; -1]%Z)] /\
  prop_ok sign_zero_case = false.
Proof. split; vm_compute; reflexivity. Qed.
Theorem C15_sign_of_zero : Z.sgn 0 = 0%Z /\ forall v, (v <> 0 -> Z.sgn v = if (0 <? v) then 1 else -1)%Z.
Proof. split; [reflexivity|]. intros v Hv. destruct (Z.ltb_spec 0 v); lia. Qed.

(* ---- non-vacuity: the reference is defined (and computes the expected values) on typical nodes ---- *)
Example C15_nonvacuous_slice_negative_step :
  slice true (mkT [5] [10; 11; 12; 13; 14]%Z) [4]%Z [-9223372036854775808]%Z (Some [0]%Z) (Some [-2]%Z)
  = Some (mkT [3] [14; 12; 10]%Z).
Proof. vm_compute; reflexivity. Qed.
Example C15_nonvacuous_broadcast_mod :
  binop (scalar_bin (BMod false) false) (mkT [2; 1] [-7; 7]%Z) (mkT [3] [3; -3; 5]%Z)
  = Some (mkT [2; 3] [2; -1; 3; 1; -2; 2]%Z).
Proof. vm_compute; reflexivity. Qed.
Example C15_nonvacuous_reduce_argmax :
  reduce RMax false (mkT [2; 3] [1; 5; 5; -2; -7; -2]%Z) [1] = Some (mkT [2] [5; -2]%Z) /\
  arg_reduce true false false 1%Z (mkT [2; 3] [1; 5; 5; -2; -7; -2]%Z) = Some (mkT [2] [1; 0]%Z).
Proof. split; vm_compute; reflexivity. Qed.
Example C15_nonvacuous_run_ref :
  run_ref {| c_op := "Gather"; c_opset := 13%Z; c_nout := 1%Z; c_attrs := [("axis", AInt (-1)%Z)];
             c_inputs := [Some (mkIn DI32 [2; 3]%Z [1; 2; 3; 4; 5; 6]%Z); Some (mkIn DI64 [2]%Z [-1; 0]%Z)];
             c_impl := IRej |}
  = Some [(KInt, mkT [2; 2] [3; 1; 6; 4]%Z)].
Proof. vm_compute; reflexivity. Qed.
