(* C15 -- correspondence case for single-operator ONNX models: generic node description
   (op type, opset, attributes, inputs) + rten's observed outcome; `run_ref` interprets the node
   with the ONNX defaults and dispatches to the reference operators of OnnxRef.v. *)
From RV Require Import Prelude.
From Coq Require Import String.
From OnnxRef Require Import RefBase OnnxRef.
Open Scope nat_scope.

Inductive dtype := DI32 | DI64 | DF32 | DBool | DU8 | DI8.
Inductive attr := AInt (v : Z) | AInts (v : list Z) | AStr (s : string) | AFloat (v : Z).
Record input := mkInput { in_dt : dtype; in_t : tensor }.
(* rten represents i64 as i32, saturating (documented; C20): the reference sees the saturated values *)
Definition sat32 (v : Z) : Z := Z.max i32_min (Z.min i32_max v).
Definition mkIn (dt : dtype) (dims data : list Z) : input :=
  mkInput dt (mkT (map Z.to_nat dims) (match dt with DI64 => map sat32 data | _ => data end)).

Inductive kind := KInt | KFloat | KU8 | KI8 | KBadFloat | KOther.
Record otensor := OT { o_kind : kind; o_dims : list Z; o_data : list Z }.
Inductive impl_outcome :=
  | IOk (outs : list otensor) | IRej | IUnsup | ILoadRej | ILoadUnsup | IPanic | ITimeout.

Record case := {
  c_op : string; c_opset : Z; c_nout : Z;
  c_attrs : list (string * attr);
  c_inputs : list (option input);
  c_impl : impl_outcome }.

Definition kind_eqb (a b : kind) : bool :=
  match a, b with
  | KInt, KInt | KFloat, KFloat | KU8, KU8 | KI8, KI8 | KBadFloat, KBadFloat | KOther, KOther => true
  | _, _ => false
  end.
Definition dtype_eqb (a b : dtype) : bool :=
  match a, b with
  | DI32, DI32 | DI64, DI64 | DF32, DF32 | DBool, DBool | DU8, DU8 | DI8, DI8 => true
  | _, _ => false
  end.

(* rten represents i64 and bool as i32 *)
Definition kind_of (dt : dtype) : kind :=
  match dt with DI32 | DI64 | DBool => KInt | DF32 => KFloat | DU8 => KU8 | DI8 => KI8 end.
Definition is_float (dt : dtype) : bool := match dt with DF32 => true | _ => false end.
Definition is_int (dt : dtype) : bool := match dt with DI32 | DI64 => true | _ => false end.
Definition is_num (dt : dtype) : bool := match dt with DI32 | DI64 | DF32 => true | _ => false end.
Definition is_index (dt : dtype) : bool := is_int dt.

(* values every representation involved holds exactly: i32 range for the integer types
   (i64 is narrowed to i32 by design), |v| <= 2^24 for f32 *)
Definition val_ok (k : kind) (v : Z) : bool :=
  match k with
  | KInt => in_i32 v
  | KFloat => ((-16777216 <=? v) && (v <=? 16777216))%Z
  | KU8 => ((0 <=? v) && (v <=? 255))%Z
  | KI8 => ((-128 <=? v) && (v <=? 127))%Z
  | _ => false
  end.
Definition input_ok (i : input) : bool :=
  wfb (in_t i) && forallb (val_ok (kind_of (in_dt i))) (data (in_t i))
  && match in_dt i with DBool => forallb (fun v => (v =? 0)%Z || (v =? 1)%Z) (data (in_t i)) | _ => true end.

(* ---- attribute / input access ---- *)
Fixpoint find_attr (name : string) (l : list (string * attr)) : option attr :=
  match l with
  | [] => None
  | (n, v) :: r => if String.eqb n name then Some v else find_attr name r
  end.
Definition attr_int (c : case) (name : string) (dflt : Z) : Z :=
  match find_attr name (c_attrs c) with Some (AInt v) => v | _ => dflt end.
Definition attr_float (c : case) (name : string) (dflt : Z) : Z :=
  match find_attr name (c_attrs c) with Some (AFloat v) => v | _ => dflt end.
Definition attr_ints (c : case) (name : string) : option (list Z) :=
  match find_attr name (c_attrs c) with Some (AInts v) => Some (map sat32 v) | _ => None end.
Definition attr_str (c : case) (name : string) (dflt : string) : string :=
  match find_attr name (c_attrs c) with Some (AStr v) => v | _ => dflt end.
Definition attr_bool (c : case) (name : string) (dflt : bool) : bool :=
  negb (attr_int c name (if dflt then 1%Z else 0%Z) =? 0)%Z.
Definition has_attr (c : case) (name : string) : bool :=
  match find_attr name (c_attrs c) with Some _ => true | None => false end.

Definition inp (c : case) (i : nat) : option input := nth i (c_inputs c) None.
(* integer parameter input (axes, shape, pads, ...): must be an integer tensor *)
Definition inp_ints (c : case) (i : nat) : option (list Z) :=
  match inp c i with Some x => if is_int (in_dt x) then Some (data (in_t x)) else None | None => None end.
(* a parameter given either as attribute (old opsets) or as input; both: undefined *)
Inductive param := PNone | PBoth | PVal (v : list Z).
Definition param_ints (c : case) (name : string) (i : nat) : param :=
  match attr_ints c name, inp c i with
  | Some _, Some _ => PBoth
  | Some v, None => PVal v
  | None, Some x => if is_int (in_dt x) then PVal (data (in_t x)) else PBoth
  | None, None => PNone
  end.

Definition one (k : kind) (t : option tensor) : option (list (kind * tensor)) :=
  match t with Some t' => Some [(k, t')] | None => None end.

Definition all_inputs (c : case) : option (list input) := sequence (c_inputs c).

Definition same_dt (l : list input) : option dtype :=
  match l with
  | [] => None
  | x :: r => if forallb (fun y => dtype_eqb (in_dt x) (in_dt y)) r then Some (in_dt x) else None
  end.

Definition bin_kind (op : string) (fmod : bool) : option (binop_kind * bool * bool) :=
  (* (kind, result is bool, operands are bool) *)
  if String.eqb op "Add" then Some (BAdd, false, false)
  else if String.eqb op "Sub" then Some (BSub, false, false)
  else if String.eqb op "Mul" then Some (BMul, false, false)
  else if String.eqb op "Div" then Some (BDiv, false, false)
  else if String.eqb op "Mod" then Some (BMod fmod, false, false)
  else if String.eqb op "Pow" then Some (BPow, false, false)
  else if String.eqb op "And" then Some (BAnd, true, true)
  else if String.eqb op "Or" then Some (BOr, true, true)
  else if String.eqb op "Xor" then Some (BXor, true, true)
  else if String.eqb op "Equal" then Some (BEq, true, false)
  else if String.eqb op "Less" then Some (BLt, true, false)
  else if String.eqb op "LessOrEqual" then Some (BLe, true, false)
  else if String.eqb op "Greater" then Some (BGt, true, false)
  else if String.eqb op "GreaterOrEqual" then Some (BGe, true, false)
  else None.

Definition red_of (op : string) : option red_kind :=
  if String.eqb op "ReduceSum" then Some RSum
  else if String.eqb op "ReduceProd" then Some RProd
  else if String.eqb op "ReduceMax" then Some RMax
  else if String.eqb op "ReduceMin" then Some RMin
  else if String.eqb op "ReduceSumSquare" then Some RSumSquare
  else if String.eqb op "ReduceL1" then Some RL1
  else None.

Definition scatter_red_of (x : string) : option scatter_red :=
  if String.eqb x "none" then Some SNone
  else if String.eqb x "add" then Some SAdd
  else if String.eqb x "mul" then Some SMul
  else if String.eqb x "min" then Some SMin
  else if String.eqb x "max" then Some SMax
  else None.

Definition pad_mode_of (x : string) : option pad_mode :=
  if String.eqb x "constant" then Some PConstant
  else if String.eqb x "reflect" then Some PReflect
  else if String.eqb x "edge" then Some PEdge
  else if String.eqb x "wrap" then Some PWrap
  else None.

Definition scalar_of (i : option input) : option Z :=
  match i with Some x => match data (in_t x) with [v] => Some v | _ => None end | None => None end.

(* the reference result of the node, before the representability check *)
Definition run_node (c : case) : option (list (kind * tensor)) :=
  let op := c_op c in
  let nin := List.length (c_inputs c) in
  match bin_kind op (attr_bool c "fmod" false) with
  | Some (bk, res_bool, arg_bool) =>
      match c_inputs c with
      | [Some a; Some b] =>
          if dtype_eqb (in_dt a) (in_dt b) &&
             (if arg_bool then dtype_eqb (in_dt a) DBool else is_num (in_dt a)) then
            one (if res_bool then KInt else kind_of (in_dt a))
                (binop (scalar_bin bk (is_float (in_dt a))) (in_t a) (in_t b))
          else None
      | _ => None
      end
  | None =>
  match red_of op with
  | Some rk =>
      match inp c 0 with
      | Some x =>
          if is_num (in_dt x) && (nin <=? 2) then
            match param_ints c "axes" 1 with
            | PBoth => None
            | PNone => one (kind_of (in_dt x)) (reduce_op rk (attr_bool c "keepdims" true) (attr_bool c "noop_with_empty_axes" false) (in_t x) None)
            | PVal ax => one (kind_of (in_dt x)) (reduce_op rk (attr_bool c "keepdims" true) (attr_bool c "noop_with_empty_axes" false) (in_t x) (Some ax))
            end
          else None
      | None => None
      end
  | None =>
  if String.eqb op "Not" then
    match c_inputs c with
    | [Some a] => if dtype_eqb (in_dt a) DBool then one KInt (Some (unop (fun v => b2z (v =? 0)%Z) (in_t a))) else None
    | _ => None
    end
  else if String.eqb op "Neg" then
    match c_inputs c with
    | [Some a] => if is_num (in_dt a) then one (kind_of (in_dt a)) (Some (unop Z.opp (in_t a))) else None
    | _ => None
    end
  else if String.eqb op "Abs" then
    match c_inputs c with
    | [Some a] => if is_num (in_dt a) then one (kind_of (in_dt a)) (Some (unop Z.abs (in_t a))) else None
    | _ => None
    end
  else if String.eqb op "Sign" then
    match c_inputs c with
    | [Some a] => if is_num (in_dt a) then one (kind_of (in_dt a)) (Some (unop Z.sgn (in_t a))) else None
    | _ => None
    end
  else if String.eqb op "Identity" then
    match c_inputs c with
    | [Some a] => one (kind_of (in_dt a)) (Some (in_t a))
    | _ => None
    end
  else if String.eqb op "Where" then
    match c_inputs c with
    | [Some cnd; Some x; Some y] =>
        if dtype_eqb (in_dt cnd) DBool && dtype_eqb (in_dt x) (in_dt y)
        then one (kind_of (in_dt x)) (where_op (in_t cnd) (in_t x) (in_t y)) else None
    | _ => None
    end
  else if String.eqb op "Transpose" then
    match c_inputs c with
    | [Some x] =>
        let r := List.length (shape (in_t x)) in
        match attr_ints c "perm" with
        | Some p => if forallb (fun v => (0 <=? v)%Z) p
                    then one (kind_of (in_dt x)) (transpose (map Z.to_nat p) (in_t x)) else None
        | None => one (kind_of (in_dt x)) (transpose (rev (seq 0 r)) (in_t x))
        end
    | _ => None
    end
  else if String.eqb op "Reshape" then
    match inp c 0, param_ints c "shape" 1 with
    | Some x, PVal sh => if nin <=? 2 then one (kind_of (in_dt x)) (reshape (attr_bool c "allowzero" false) (in_t x) sh) else None
    | _, _ => None
    end
  else if String.eqb op "Squeeze" then
    match inp c 0, param_ints c "axes" 1 with
    | Some x, PVal ax => if nin <=? 2 then one (kind_of (in_dt x)) (squeeze (in_t x) (Some ax)) else None
    | Some x, PNone => if nin <=? 2 then one (kind_of (in_dt x)) (squeeze (in_t x) None) else None
    | _, _ => None
    end
  else if String.eqb op "Unsqueeze" then
    match inp c 0, param_ints c "axes" 1 with
    | Some x, PVal ax => if nin <=? 2 then one (kind_of (in_dt x)) (unsqueeze (in_t x) ax) else None
    | _, _ => None
    end
  else if String.eqb op "Concat" then
    match all_inputs c, find_attr "axis" (c_attrs c) with
    | Some l, Some (AInt axis) =>
        match same_dt l with
        | Some dt => one (kind_of dt) (concat axis (map in_t l))
        | None => None
        end
    | _, _ => None
    end
  else if String.eqb op "Split" then
    match inp c 0 with
    | Some x =>
        let n := Z.to_nat (c_nout c) in
        let no := find_attr "num_outputs" (c_attrs c) in
        let okn := match no with Some (AInt v) => (v =? c_nout c)%Z | Some _ => false | None => true end in
        let mk sp := match split (18 <=? c_opset c)%Z (attr_int c "axis" 0) (in_t x) sp n with
                     | Some outs => if List.length outs =? n then Some (map (fun t => (kind_of (in_dt x), t)) outs) else None
                     | None => None end in
        if okn && (nin <=? 2) then
          match param_ints c "split" 1 with
          | PBoth => None
          | PVal sp => match no with Some _ => None | None => mk (Some sp) end
          | PNone => mk None
          end
        else None
    | None => None
    end
  else if String.eqb op "Slice" then
    match inp c 0, param_ints c "starts" 1, param_ints c "ends" 2 with
    | Some x, PVal st, PVal en =>
        let ax := match param_ints c "axes" 3 with PVal a => Some (Some a) | PNone => Some None | PBoth => None end in
        let sp := match inp c 4 with
                  | Some y => if is_int (in_dt y) then Some (Some (data (in_t y))) else None
                  | None => Some None end in
        match ax, sp with
        | Some ax', Some sp' => if nin <=? 5 then one (kind_of (in_dt x)) (slice (10 <=? c_opset c)%Z (in_t x) st en ax' sp') else None
        | _, _ => None
        end
    | _, _, _ => None
    end
  else if String.eqb op "Gather" then
    match c_inputs c with
    | [Some x; Some i] => if is_index (in_dt i) then one (kind_of (in_dt x)) (gather (attr_int c "axis" 0) (in_t x) (in_t i)) else None
    | _ => None
    end
  else if String.eqb op "GatherElements" then
    match c_inputs c with
    | [Some x; Some i] => if is_index (in_dt i) then one (kind_of (in_dt x)) (gather_elements (attr_int c "axis" 0) (in_t x) (in_t i)) else None
    | _ => None
    end
  else if String.eqb op "GatherND" then
    match c_inputs c with
    | [Some x; Some i] =>
        let b := attr_int c "batch_dims" 0 in
        if is_index (in_dt i) && (0 <=? b)%Z then one (kind_of (in_dt x)) (gather_nd (Z.to_nat b) (in_t x) (in_t i)) else None
    | _ => None
    end
  else if String.eqb op "Expand" then
    match c_inputs c with
    | [Some x; Some sh] => if is_int (in_dt sh) then one (kind_of (in_dt x)) (expand (in_t x) (data (in_t sh))) else None
    | _ => None
    end
  else if String.eqb op "Tile" then
    match c_inputs c with
    | [Some x; Some rp] => if is_int (in_dt rp) then one (kind_of (in_dt x)) (tile (in_t x) (data (in_t rp))) else None
    | _ => None
    end
  else if String.eqb op "Pad" then
    match inp c 0, param_ints c "pads" 1, pad_mode_of (attr_str c "mode" "constant") with
    | Some x, PVal pads, Some mode =>
        let cv := match find_attr "value" (c_attrs c), inp c 2 with
                  | Some (AFloat v), None => Some v
                  | None, Some y => if dtype_eqb (in_dt y) (in_dt x) then scalar_of (Some y) else None
                  | None, None => Some 0%Z
                  | _, _ => None end in
        let ax := match inp c 3 with
                  | Some y => if is_int (in_dt y) then Some (Some (data (in_t y))) else None
                  | None => Some None end in
        match cv, ax with
        | Some cv', Some ax' => if nin <=? 4 then one (kind_of (in_dt x)) (pad mode (in_t x) pads cv' ax') else None
        | _, _ => None
        end
    | _, _, _ => None
    end
  else if String.eqb op "ArgMax" || String.eqb op "ArgMin" then
    match c_inputs c with
    | [Some x] =>
        if is_num (in_dt x) then
          one KInt (arg_reduce (String.eqb op "ArgMax") (attr_bool c "select_last_index" false)
                               (attr_bool c "keepdims" true) (attr_int c "axis" 0) (in_t x))
        else None
    | _ => None
    end
  else if String.eqb op "CumSum" then
    match c_inputs c with
    | [Some x; Some a] =>
        match is_int (in_dt a), scalar_of (Some a) with
        | true, Some axis => if is_num (in_dt x) then
            one (kind_of (in_dt x)) (cumsum (attr_bool c "exclusive" false) (attr_bool c "reverse" false) axis (in_t x)) else None
        | _, _ => None
        end
    | _ => None
    end
  else if String.eqb op "Trilu" then
    match c_inputs c with
    | [Some x] => one (kind_of (in_dt x)) (trilu (attr_bool c "upper" true) 0 (in_t x))
    | [Some x; Some k] =>
        match is_int (in_dt k), scalar_of (Some k) with
        | true, Some kv => one (kind_of (in_dt x)) (trilu (attr_bool c "upper" true) kv (in_t x))
        | _, _ => None
        end
    | _ => None
    end
  else if String.eqb op "Range" then
    match c_inputs c with
    | [Some a; Some b; Some d] =>
        match same_dt [a; b; d], scalar_of (Some a), scalar_of (Some b), scalar_of (Some d) with
        | Some dt, Some st, Some li, Some de =>
            if is_num dt && forallb (fun i => List.length (shape (in_t i)) =? 0) [a; b; d]
            then one (kind_of dt) (range_op st li de) else None
        | _, _, _, _ => None
        end
    | _ => None
    end
  else if String.eqb op "OneHot" then
    match c_inputs c with
    | [Some i; Some d; Some v] =>
        match scalar_of (Some d), data (in_t v) with
        | Some depth, [off; on] =>
            if is_int (in_dt i) && is_int (in_dt d) && (List.length (shape (in_t v)) =? 1)
            then one (kind_of (in_dt v)) (onehot (attr_int c "axis" (-1)) (in_t i) depth off on) else None
        | _, _ => None
        end
    | _ => None
    end
  else if String.eqb op "TopK" then
    match inp c 0 with
    | Some x =>
        let kv := match find_attr "k" (c_attrs c), inp c 1 with
                  | Some (AInt v), None => Some v
                  | None, Some y => if is_int (in_dt y) && list_eqb Nat.eqb (shape (in_t y)) [1] then scalar_of (Some y) else None
                  | _, _ => None end in
        match kv with
        | Some k =>
            if is_num (in_dt x) && attr_bool c "sorted" true && (c_nout c =? 2)%Z && (nin <=? 2) then
              match topk (attr_bool c "largest" true) (attr_int c "axis" (-1)) k (in_t x) with
              | Some (v, i) => Some [(kind_of (in_dt x), v); (KInt, i)]
              | None => None
              end
            else None
        | None => None
        end
    | None => None
    end
  else if String.eqb op "MatMul" then
    match c_inputs c with
    | [Some a; Some b] =>
        if dtype_eqb (in_dt a) (in_dt b) && is_float (in_dt a) then one (kind_of (in_dt a)) (matmul (in_t a) (in_t b)) else None
    | _ => None
    end
  else if String.eqb op "Gemm" then
    let go a b cc :=
      match same_dt (a :: b :: match cc with Some x => [x] | None => [] end) with
      | Some dt => if is_float dt then
          one (kind_of dt) (gemm (attr_float c "alpha" 1) (attr_float c "beta" 1) (attr_bool c "transA" false)
                                 (attr_bool c "transB" false) (in_t a) (in_t b) (option_map in_t cc)) else None
      | None => None
      end in
    match c_inputs c with
    | [Some a; Some b] => go a b None
    | [Some a; Some b; cc] => go a b cc
    | _ => None
    end
  else if String.eqb op "ScatterElements" then
    match c_inputs c, scatter_red_of (attr_str c "reduction" "none") with
    | [Some x; Some i; Some u], Some red =>
        if is_index (in_dt i) && dtype_eqb (in_dt x) (in_dt u) && is_num (in_dt x)
        then one (kind_of (in_dt x)) (scatter_elements red (attr_int c "axis" 0) (in_t x) (in_t i) (in_t u)) else None
    | _, _ => None
    end
  else if String.eqb op "Clip" then
    match inp c 0 with
    | Some x =>
        let dt := in_dt x in
        (* a bound: attribute (opset 6, floats only) or scalar (0-D) input of the data type *)
        let bound (name : string) (i : nat) :=
          match find_attr name (c_attrs c), inp c i with
          | Some (AFloat v), None => if is_float dt then Some (Some v) else None
          | None, Some y => if dtype_eqb (in_dt y) dt && (List.length (shape (in_t y)) =? 0)
                            then match data (in_t y) with [v] => Some (Some v) | _ => None end else None
          | None, None => Some None
          | _, _ => None
          end in
        match bound "min"%string 1, bound "max"%string 2 with
        | Some lo, Some hi => if is_num dt && (nin <=? 3) then one (kind_of dt) (Some (clip lo hi (in_t x))) else None
        | _, _ => None
        end
    | None => None
    end
  else if String.eqb op "Relu" then
    match c_inputs c with
    | [Some a] => if is_float (in_dt a) then one KFloat (Some (unop relu_val (in_t a))) else None   (* rten: f32 only *)
    | _ => None
    end
  else if String.eqb op "LeakyRelu" then
    match c_inputs c with
    | [Some a] => match find_attr "alpha" (c_attrs c) with
                  | Some (AFloat al) => if is_float (in_dt a) then one KFloat (Some (unop (leaky_relu_val al) (in_t a))) else None
                  | _ => None      (* the default alpha 0.01 is not an integer *)
                  end
    | _ => None
    end
  else if String.eqb op "Floor" || String.eqb op "Ceil" || String.eqb op "Round" then
    (* integer-valued floats are fixed points *)
    match c_inputs c with
    | [Some a] => if is_float (in_dt a) then one KFloat (Some (in_t a)) else None
    | _ => None
    end
  else if String.eqb op "IsNaN" || String.eqb op "IsInf" then
    match c_inputs c with
    | [Some a] => if is_float (in_dt a) && negb (has_attr c "detect_negative") && negb (has_attr c "detect_positive")
                  then one KInt (Some (unop (fun _ => 0%Z) (in_t a))) else None
    | _ => None
    end
  else if String.eqb op "Max" || String.eqb op "Min" || String.eqb op "Sum" then
    match all_inputs c with
    | Some l =>
        match same_dt l with
        | Some dt => if is_num dt then
            one (kind_of dt) (variadic (fun a b => Some (if String.eqb op "Max" then Z.max a b
                                                        else if String.eqb op "Min" then Z.min a b else (a + b)%Z))
                                       (map in_t l)) else None
        | None => None
        end
    | None => None
    end
  else if String.eqb op "MaxPool" then
    match c_inputs c, attr_ints c "kernel_shape" with
    | [Some x], Some [kh; kw] =>
        let st := match attr_ints c "strides" with Some v => v | None => [1; 1]%Z end in
        let pd := match attr_ints c "pads" with Some v => v | None => [0; 0; 0; 0]%Z end in
        let dl := match attr_ints c "dilations" with Some v => v | None => [1; 1]%Z end in
        match st, pd with
        | [sh; sw], [pt; pl; pb; pr] =>
            if is_float (in_dt x) && forallb (fun v => (0 <=? v)%Z) [kh; kw; sh; sw; pt; pl; pb; pr]
               && forallb (fun v => (v =? 1)%Z) dl && (attr_int c "ceil_mode" 0 =? 0)%Z
               && (attr_int c "storage_order" 0 =? 0)%Z && String.eqb (attr_str c "auto_pad" "NOTSET") "NOTSET"
               && (pt <? kh)%Z && (pb <? kh)%Z && (pl <? kw)%Z && (pr <? kw)%Z
            then one KFloat (maxpool2d (Z.to_nat kh) (Z.to_nat kw) (Z.to_nat sh) (Z.to_nat sw)
                                       (Z.to_nat pt) (Z.to_nat pl) (Z.to_nat pb) (Z.to_nat pr) (in_t x))
            else None
        | _, _ => None
        end
    | _, _ => None
    end
  else if String.eqb op "ScatterND" then
    match c_inputs c, scatter_red_of (attr_str c "reduction" "none") with
    | [Some x; Some i; Some u], Some red =>
        if is_index (in_dt i) && dtype_eqb (in_dt x) (in_dt u) && is_num (in_dt x)
        then one (kind_of (in_dt x)) (scatter_nd red (in_t x) (in_t i) (in_t u)) else None
    | _, _ => None
    end
  else None
  end end.

(* inputs and outputs must stay inside the exactly-representable sub-domain *)
Definition run_ref (c : case) : option (list (kind * tensor)) :=
  if forallb (fun i => match i with Some x => input_ok x | None => true end) (c_inputs c) then
    match run_node c with
    | Some outs =>
        if forallb (fun o => forallb (val_ok (fst o)) (data (snd o))) outs && (Z.of_nat (List.length outs) =? c_nout c)%Z
        then Some outs else None
    | None => None
    end
  else None.

Definition out_eqb (r : kind * tensor) (o : otensor) : bool :=
  kind_eqb (fst r) (o_kind o) && list_eqb Nat.eqb (shape (snd r)) (map Z.to_nat (o_dims o))
  && forallb (fun d => (0 <=? d)%Z) (o_dims o) && list_eqb Z.eqb (data (snd r)) (o_data o).

Fixpoint outs_eqb (r : list (kind * tensor)) (o : list otensor) : bool :=
  match r, o with
  | [], [] => true
  | x :: r', y :: o' => out_eqb x y && outs_eqb r' o'
  | _, _ => false
  end.

(* the reference defines an output for this node *)
Definition defined (c : case) : bool := match run_ref c with Some _ => true | None => false end.

(* Property oracle = agreement with the reference: wherever the reference (= the ONNX
   specification restricted to the exactly-representable sub-domain) defines the outputs, the
   implementation must return exactly those shapes, element kinds and values.  Where the
   reference is undefined any behaviour is accepted. *)
(* Settings rten documents as not (yet) supported, reported with an "unsupported ..." error: the
   property speaks about supported settings only, so that error is accepted for them -- and only
   for them.  If support is added later, the result is compared with the reference as usual. *)
Definition documented_unsupported (c : case) : bool :=
  (* Pad: the opset-18 `axes` input; non-constant modes that pad anything but the last two dims *)
  (String.eqb (c_op c) "Pad" && match inp c 3 with Some _ => true | None => false end)
  || (String.eqb (c_op c) "Pad" && negb (String.eqb (attr_str c "mode" "constant") "constant") &&
      match inp c 0, param_ints c "pads" 1 with
      | Some x, PVal pads =>
          let r := List.length (shape (in_t x)) in
          existsb (fun k => negb (nth k pads 0 =? 0)%Z || negb (nth (r + k) pads 0 =? 0)%Z) (seq 0 (r - 2))
      | _, _ => false
      end).

Definition prop_ok (c : case) : bool :=
  match run_ref c with
  | None => true
  | Some outs =>
      match c_impl c with
      | IOk o => outs_eqb outs o
      | IUnsup | ILoadUnsup => documented_unsupported c
      | _ => false
      end
  end.
Definition agree (c : case) : bool := prop_ok c.
Definition show (c : case) := run_ref c.

(* ---- wire format of the harness: every number is an unsigned 63-bit literal (fast to parse),
   signed values zigzag-encoded (2v for v >= 0, 2|v|-1 for v < 0; the harness clamps |v| to 2^40,
   far beyond the i32 range the reference saturates i64 values to) ---- *)
From Coq Require Import Uint63.
Definition zz (i : int) : Z :=
  let z := Uint63.to_Z i in if Z.even z then (z / 2)%Z else (- ((z + 1) / 2))%Z.
(* value lists: W = one literal per value; P n = seven zigzag bytes per literal (little endian),
   n values in total (used when every encoded value is < 256; fewer literals to parse) *)
Inductive wire := W (l : list int) | P (n : int) (l : list int).
Definition zzZ (z : Z) : Z := if Z.even z then (z / 2)%Z else (- ((z + 1) / 2))%Z.
Fixpoint unpack (k : nat) (z : Z) : list Z :=
  match k with 0 => [] | S k' => zzZ (z mod 256) :: unpack k' (z / 256) end.
Definition wire_list (w : wire) : list Z :=
  match w with
  | W l => map zz l
  | P n l => firstn (Z.to_nat (Uint63.to_Z n)) (flat_map (fun i => unpack 7 (Uint63.to_Z i)) l)
  end.
Definition mkInW (dt : dtype) (dims : list int) (data : wire) : input := mkIn dt (map zz dims) (wire_list data).
Definition OTW (k : kind) (dims : list int) (data : wire) : otensor := OT k (map zz dims) (wire_list data).
Definition AIntW (v : int) : attr := AInt (zz v).
Definition AIntsW (v : list int) : attr := AInts (map zz v).
Definition AFloatW (v : int) : attr := AFloat (zz v).
Definition mkCase (op : string) (opset nout : int) (attrs : list (string * attr))
  (inputs : list (option input)) (im : impl_outcome) : case :=
  {| c_op := op; c_opset := zz opset; c_nout := zz nout; c_attrs := attrs; c_inputs := inputs; c_impl := im |}.
