(* C15 -- generic lemmas about multi-indices and tabulated tensors. *)
From RV Require Import Prelude.
From OnnxRef Require Import RefBase.
Open Scope nat_scope.

Lemma length_flat_map_const {A B} (g : A -> list B) l m :
  (forall x, In x l -> length (g x) = m) -> length (flat_map g l) = length l * m.
Proof.
  induction l as [|x l IH]; intros H; cbn [flat_map length]; [reflexivity|].
  rewrite app_length, H by (left; reflexivity). rewrite IH; [lia|].
  intros y Hy; apply H; right; exact Hy.
Qed.

Lemma nth_flat_map_const {A B} (g : A -> list B) l m i r d dx :
  (forall x, In x l -> length (g x) = m) -> i < length l -> r < m ->
  nth (i * m + r) (flat_map g l) d = nth r (g (nth i l dx)) d.
Proof.
  revert i; induction l as [|x l IH]; intros i H Hi Hr; cbn [length] in Hi; [lia|].
  cbn [flat_map]. destruct i as [|i].
  - cbn [Nat.mul Nat.add nth]. apply app_nth1. rewrite H by (left; reflexivity). exact Hr.
  - rewrite app_nth2 by (rewrite H by (left; reflexivity); cbn; lia).
    rewrite H by (left; reflexivity).
    replace (S i * m + r - m) with (i * m + r) by (cbn; lia).
    cbn [nth]. apply IH; [|lia|exact Hr]. intros y Hy; apply H; right; exact Hy.
Qed.

Lemma length_all_idx sh : length (all_idx sh) = numel sh.
Proof.
  induction sh as [|d sh IH]; cbn [all_idx numel fold_right length]; [reflexivity|].
  rewrite (length_flat_map_const _ _ (numel sh)).
  - rewrite seq_length. reflexivity.
  - intros x _. rewrite map_length. exact IH.
Qed.

Lemma valid_nil_inv idx : valid [] idx -> idx = [].
Proof. intros H; inversion H; reflexivity. Qed.

Lemma valid_cons_inv d sh idx : valid (d :: sh) idx ->
  exists i idx', idx = i :: idx' /\ i < d /\ valid sh idx'.
Proof. intros H; inversion H; subst. eexists _, _; repeat split; eauto. Qed.

Lemma valid_cons d sh i idx : i < d -> valid sh idx -> valid (d :: sh) (i :: idx).
Proof. intros; constructor; assumption. Qed.

Lemma valid_length sh idx : valid sh idx -> length idx = length sh.
Proof. intros H; induction H; cbn; congruence. Qed.

Lemma valid_nth sh idx k : valid sh idx -> k < length sh -> nth k idx 0 < nth k sh 0.
Proof.
  intros H; revert k; induction H; intros k Hk; cbn [length] in Hk; [lia|].
  destruct k; cbn [nth]; [assumption|apply IHForall2; lia].
Qed.

Lemma valid_of_nth sh idx : length idx = length sh ->
  (forall k, k < length sh -> nth k idx 0 < nth k sh 0) -> valid sh idx.
Proof.
  revert idx; induction sh as [|d sh IH]; intros [|i idx] HL H; cbn [length] in HL; try discriminate.
  - constructor.
  - constructor.
    + apply (H 0); cbn; lia.
    + apply IH; [lia|]. intros k Hk. apply (H (S k)); cbn; lia.
Qed.

Lemma validb_iff sh idx : validb sh idx = true <-> valid sh idx.
Proof.
  revert idx; induction sh as [|d sh IH]; intros [|i idx]; cbn [validb]; split; intros H;
    try discriminate; try (inversion H; fail); try constructor; try reflexivity.
  - apply andb_true_iff in H; destruct H as [H _]. apply Nat.ltb_lt; exact H.
  - apply andb_true_iff in H; destruct H as [_ H]. apply IH; exact H.
  - inversion H; subst. apply andb_true_iff; split; [apply Nat.ltb_lt; assumption|apply IH; assumption].
Qed.

Lemma ravel_lt sh idx : valid sh idx -> ravel sh idx < numel sh.
Proof.
  intros H; induction H as [|i d idx sh Hi Hv IH]; cbn [ravel numel fold_right]; [lia|].
  fold (numel sh). nia.
Qed.

Lemma nth_all_idx sh idx d : valid sh idx -> nth (ravel sh idx) (all_idx sh) d = idx.
Proof.
  intros H; induction H as [|i n idx sh Hi Hv IH]; cbn [ravel all_idx]; [reflexivity|].
  rewrite (nth_flat_map_const _ _ (numel sh) i (ravel sh idx) d 0).
  - rewrite seq_nth by exact Hi. cbn [Nat.add].
    rewrite (nth_indep _ d (i :: idx)) by (rewrite map_length, length_all_idx; apply ravel_lt; assumption).
    change (i :: idx) with ((cons i) idx) at 1. rewrite map_nth. f_equal.
    rewrite (nth_indep _ idx d) by (rewrite length_all_idx; apply ravel_lt; assumption). exact IH.
  - intros x _. rewrite map_length. apply length_all_idx.
  - rewrite seq_length; exact Hi.
  - apply ravel_lt; assumption.
Qed.

Lemma In_all_idx sh idx : In idx (all_idx sh) <-> valid sh idx.
Proof.
  revert idx; induction sh as [|d sh IH]; intros idx; cbn [all_idx].
  - split; intros H.
    + destruct H as [H|[]]; subst; constructor.
    + left. symmetry. apply valid_nil_inv; exact H.
  - rewrite in_flat_map. split.
    + intros (i & Hi & Hin). apply in_seq in Hi. apply in_map_iff in Hin.
      destruct Hin as (idx' & <- & Hin). apply valid_cons; [lia|apply IH; exact Hin].
    + intros H. apply valid_cons_inv in H. destruct H as (i & idx' & -> & Hi & Hv).
      exists i; split; [apply in_seq; lia|]. apply in_map; apply IH; exact Hv.
Qed.

Lemma NoDup_app_intro {A} (l l' : list A) :
  NoDup l -> NoDup l' -> (forall x, In x l -> ~ In x l') -> NoDup (l ++ l').
Proof.
  induction l as [|x l IH]; intros H1 H2 H3; cbn [app]; [exact H2|].
  inversion H1 as [|? ? Hni Hl]; subst. constructor.
  - intros Hin. apply in_app_or in Hin. destruct Hin as [Hin|Hin]; [exact (Hni Hin)|].
    apply (H3 x); [left; reflexivity|exact Hin].
  - apply IH; [exact Hl|exact H2|]. intros y Hy. apply H3; right; exact Hy.
Qed.

Lemma NoDup_map_cons (i : nat) (L : list (list nat)) : NoDup L -> NoDup (map (cons i) L).
Proof.
  induction 1 as [|x L Hni _ IH]; cbn [map]; constructor; [|exact IH].
  intros Hin. apply in_map_iff in Hin. destruct Hin as (y & E & Hy). inversion E; subst. exact (Hni Hy).
Qed.

Lemma NoDup_all_idx sh : NoDup (all_idx sh).
Proof.
  induction sh as [|d sh IH]; cbn [all_idx]; [repeat constructor; intros []|].
  generalize (seq_NoDup d 0). generalize (seq 0 d) as l.
  induction l as [|i l IHl]; intros Hl; cbn [flat_map]; [constructor|].
  inversion Hl as [|? ? Hni Hl']; subst.
  apply NoDup_app_intro; [apply NoDup_map_cons; exact IH|apply IHl; exact Hl'|].
  intros x Hx Hx'. apply in_map_iff in Hx. destruct Hx as (y & <- & _).
  apply in_flat_map in Hx'. destruct Hx' as (j & Hj & Hin). apply in_map_iff in Hin.
  destruct Hin as (z & E & _). inversion E; subst. exact (Hni Hj).
Qed.

Lemma get_tab sh f idx : valid sh idx -> get (tab sh f) idx = f idx.
Proof.
  intros H. unfold get, tab; cbn [shape data].
  rewrite (nth_indep _ 0%Z (f idx)) by (rewrite map_length, length_all_idx; apply ravel_lt; exact H).
  rewrite map_nth. f_equal. apply nth_all_idx; exact H.
Qed.

Lemma shape_tab sh f : shape (tab sh f) = sh.
Proof. reflexivity. Qed.

Lemma wf_tab sh f : wf (tab sh f).
Proof. unfold wf, tab; cbn [shape data]. rewrite map_length. apply length_all_idx. Qed.

Lemma sequence_spec {A} (l : list (option A)) r :
  sequence l = Some r -> l = map Some r.
Proof.
  revert r; induction l as [|[x|] l IH]; intros r H; cbn [sequence] in H.
  - inversion H; reflexivity.
  - destruct (sequence l) as [r'|]; [|discriminate]. inversion H; subst. cbn [map]. f_equal. apply IH; reflexivity.
  - discriminate.
Qed.

Lemma tabo_spec sh f t : tabo sh f = Some t ->
  shape t = sh /\ wf t /\ forall idx, valid sh idx -> f idx = Some (get t idx).
Proof.
  unfold tabo. destruct (sequence (map f (all_idx sh))) as [d|] eqn:E; [|discriminate].
  intros H; inversion H; subst; clear H. apply sequence_spec in E.
  assert (L : length d = numel sh).
  { rewrite <- (map_length Some d), <- E, map_length. apply length_all_idx. }
  split; [reflexivity|]. split; [exact L|].
  intros idx Hv. unfold get; cbn [shape data].
  pose proof (ravel_lt _ _ Hv) as Hlt.
  assert (E2 : nth (ravel sh idx) (map f (all_idx sh)) None = nth (ravel sh idx) (map Some d) None) by (rewrite E; reflexivity).
  rewrite (nth_indep _ None (f idx)) in E2 by (rewrite map_length, length_all_idx; exact Hlt).
  rewrite map_nth, nth_all_idx in E2 by exact Hv.
  rewrite E2. rewrite (nth_indep _ None (Some 0%Z)) by (rewrite map_length; lia).
  rewrite map_nth. reflexivity.
Qed.

Lemma tabo_total sh f g : (forall idx, valid sh idx -> f idx = Some (g idx)) -> tabo sh f = Some (tab sh g).
Proof.
  intros H. unfold tabo, tab.
  assert (E : map f (all_idx sh) = map Some (map g (all_idx sh))).
  { rewrite map_map. apply map_ext_in. intros idx Hin. apply H. apply In_all_idx; exact Hin. }
  rewrite E. clear E. generalize (map g (all_idx sh)) as l.
  induction l as [|x l IH]; cbn [map sequence]; [reflexivity|].
  destruct (sequence (map Some l)); inversion IH; reflexivity.
Qed.

(* ---- upd / nth ---- *)
Lemma length_upd {A} (l : list A) k v : length (upd l k v) = length l.
Proof. revert k; induction l; intros [|k]; cbn; auto. Qed.

Lemma nth_upd_same {A} (l : list A) k v d : k < length l -> nth k (upd l k v) d = v.
Proof. revert k; induction l; intros [|k] H; cbn in *; try lia; auto. apply IHl; lia. Qed.

Lemma nth_upd_other {A} (l : list A) k j v d : j <> k -> nth j (upd l k v) d = nth j l d.
Proof. revert k j; induction l; intros [|k] [|j] H; cbn; auto; try congruence. Qed.

Lemma valid_upd sh idx k v : valid sh idx -> v < nth k sh 0 -> valid sh (upd idx k v).
Proof.
  intros H; revert k; induction H as [|i d idx sh Hi Hv IH]; intros k Hk; cbn [upd]; [constructor|].
  destruct k; cbn [nth] in Hk.
  - constructor; assumption.
  - constructor; [assumption|apply IH; exact Hk].
Qed.

Lemma valid_upd_shape sh idx k v d : valid sh idx -> v < d -> valid (upd sh k d) (upd idx k v).
Proof.
  intros H; revert k; induction H as [|i n idx sh Hi Hv IH]; intros k Hk; cbn [upd]; [constructor|].
  destruct k; constructor; try assumption. apply IH; exact Hk.
Qed.

(* ---- norm_axis ---- *)
Lemma norm_axis_spec r a k : norm_axis r a = Some k ->
  k < r /\ ((0 <= a)%Z /\ Z.of_nat k = a \/ (a < 0)%Z /\ Z.of_nat k = (a + Z.of_nat r)%Z).
Proof.
  unfold norm_axis. destruct ((- Z.of_nat r <=? a)%Z && (a <? Z.of_nat r)%Z) eqn:E; [|discriminate].
  apply andb_true_iff in E. destruct E as [E1 E2]. apply Z.leb_le in E1. apply Z.ltb_lt in E2.
  intros H; inversion H; subst; clear H.
  destruct (a <? 0)%Z eqn:E3; [apply Z.ltb_lt in E3|apply Z.ltb_ge in E3]; split; try lia.
Qed.

Lemma mapo_spec {A B} (f : A -> option B) l r : mapo f l = Some r ->
  length r = length l /\ forall k da db, k < length l -> f (nth k l da) = Some (nth k r db).
Proof.
  revert r; induction l as [|x l IH]; intros r H; cbn [mapo] in H.
  - inversion H; subst. split; [reflexivity|]. intros k ? ? Hk; cbn in Hk; lia.
  - destruct (f x) as [y|] eqn:E; [|discriminate]. destruct (mapo f l) as [r'|]; [|discriminate].
    inversion H; subst; clear H. destruct (IH r' eq_refl) as [L N]. split; [cbn; lia|].
    intros [|k] da db Hk; cbn [nth]; [exact E|]. apply N. cbn in Hk; lia.
Qed.
