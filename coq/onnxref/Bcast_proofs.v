(* C15 -- broadcasting and element-wise operators: index-level specifications. *)
From RV Require Import Prelude.
From OnnxRef Require Import RefBase RefBase_proofs OnnxRef.
Open Scope nat_scope.

(* ---- the numpy / ONNX multidirectional broadcasting rule, dimension by dimension ---- *)
Lemma bdim_spec a b d : bdim a b = Some d ->
  (a = d \/ a = 1) /\ (b = d \/ b = 1) /\ (d = a \/ d = b).
Proof.
  unfold bdim. destruct (a =? b) eqn:E1; [apply Nat.eqb_eq in E1; intros H; inversion H; subst; auto|].
  destruct (a =? 1) eqn:E2; [apply Nat.eqb_eq in E2; intros H; inversion H; subst; auto|].
  destruct (b =? 1) eqn:E3; [apply Nat.eqb_eq in E3; intros H; inversion H; subst; auto|discriminate].
Qed.

Lemma bdim_complete a b : (a = b \/ a = 1 \/ b = 1) -> exists d, bdim a b = Some d.
Proof.
  intros H. unfold bdim. destruct (a =? b) eqn:E1; [eauto|].
  destruct (a =? 1) eqn:E2; [eauto|]. destruct (b =? 1) eqn:E3; [eauto|].
  apply Nat.eqb_neq in E1, E2, E3. lia.
Qed.

Lemma bshape_eq_spec a : forall b sh, bshape_eq a b = Some sh ->
  length a = length b /\ length sh = length a /\
  forall k, k < length sh ->
    (nth k a 0 = nth k sh 0 \/ nth k a 0 = 1) /\ (nth k b 0 = nth k sh 0 \/ nth k b 0 = 1) /\
    (nth k sh 0 = nth k a 0 \/ nth k sh 0 = nth k b 0).
Proof.
  induction a as [|x a IH]; intros [|y b] sh H; cbn [bshape_eq] in H; try discriminate.
  - inversion H; subst. split; [reflexivity|]. split; [reflexivity|]. intros k Hk; cbn in Hk; lia.
  - destruct (bdim x y) as [d|] eqn:Ed; [|discriminate].
    destruct (bshape_eq a b) as [r|] eqn:Er; [|discriminate]. inversion H; subst; clear H.
    destruct (IH _ _ Er) as (L1 & L2 & N). cbn [length]. split; [lia|]. split; [lia|].
    intros [|k] Hk; cbn [nth].
    + apply bdim_spec; exact Ed.
    + apply N. lia.
Qed.

Lemma bmask_valid a : forall b sh idx, bshape_eq a b = Some sh -> valid sh idx ->
  valid a (bmask a idx) /\ valid b (bmask b idx).
Proof.
  induction a as [|x a IH]; intros [|y b] sh idx H Hv; cbn [bshape_eq] in H; try discriminate.
  - inversion H; subst. apply valid_nil_inv in Hv; subst. split; constructor.
  - destruct (bdim x y) as [d|] eqn:Ed; [|discriminate].
    destruct (bshape_eq a b) as [r|] eqn:Er; [|discriminate]. inversion H; subst; clear H.
    apply valid_cons_inv in Hv. destruct Hv as (i & idx' & -> & Hi & Hv).
    destruct (IH _ _ _ Er Hv) as [Va Vb]. apply bdim_spec in Ed. cbn [bmask].
    split; constructor; try assumption.
    + destruct (x =? 1) eqn:E; [apply Nat.eqb_eq in E; lia|apply Nat.eqb_neq in E; lia].
    + destruct (y =? 1) eqn:E; [apply Nat.eqb_eq in E; lia|apply Nat.eqb_neq in E; lia].
Qed.

Lemma valid_app_inv l1 : forall l2 idx, valid (l1 ++ l2) idx ->
  valid l1 (firstn (length l1) idx) /\ valid l2 (skipn (length l1) idx).
Proof.
  induction l1 as [|d l1 IH]; intros l2 idx H; cbn [app length firstn skipn] in *.
  - split; [constructor|exact H].
  - apply valid_cons_inv in H. destruct H as (i & idx' & -> & Hi & Hv).
    destruct (IH _ _ Hv) as [H1 H2]. cbn [firstn skipn]. split; [constructor; assumption|exact H2].
Qed.

Lemma valid_app l1 l2 i1 i2 : valid l1 i1 -> valid l2 i2 -> valid (l1 ++ l2) (i1 ++ i2).
Proof. intros H1 H2. apply Forall2_app; assumption. Qed.

Lemma bmask_repeat_ones k : forall sh idx, length idx = k + length sh ->
  bmask (repeat 1 k ++ sh) idx = repeat 0 k ++ bmask sh (skipn k idx).
Proof.
  induction k as [|k IH]; intros sh idx HL; cbn [repeat app skipn]; [reflexivity|].
  destruct idx as [|i idx]; cbn [length] in HL; [lia|]. cbn [bmask skipn Nat.eqb]. f_equal. apply IH. lia.
Qed.

Lemma valid_repeat_ones_zero k : valid (repeat 1 k) (repeat 0 k).
Proof. induction k; cbn; constructor; [lia|assumption]. Qed.

Lemma length_lpad n sh : length sh <= n -> length (lpad n sh) = n.
Proof. intros H. unfold lpad. rewrite app_length, repeat_length. lia. Qed.

Lemma bshape_length a b sh : bshape a b = Some sh -> length sh = Nat.max (length a) (length b).
Proof.
  unfold bshape. intros H. apply bshape_eq_spec in H. destruct H as (_ & L & _).
  rewrite L. apply length_lpad. lia.
Qed.

Lemma bidx_valid_gen a b sh idx n : n = Nat.max (length a) (length b) ->
  bshape_eq (lpad n a) (lpad n b) = Some sh -> valid sh idx ->
  valid a (bidx a idx) /\ valid b (bidx b idx).
Proof.
  intros Hn H Hv.
  pose proof (bshape_eq_spec _ _ _ H) as (_ & L & _).
  rewrite length_lpad in L by lia.
  pose proof (valid_length _ _ Hv) as Li. rewrite L in Li.
  destruct (bmask_valid _ _ _ _ H Hv) as [Va Vb].
  unfold lpad in Va, Vb.
  rewrite bmask_repeat_ones in Va by (rewrite Li; lia).
  rewrite bmask_repeat_ones in Vb by (rewrite Li; lia).
  apply valid_app_inv in Va. apply valid_app_inv in Vb.
  destruct Va as [_ Va]. destruct Vb as [_ Vb].
  rewrite repeat_length in Va, Vb.
  rewrite skipn_app in Va, Vb. rewrite repeat_length in Va, Vb.
  rewrite skipn_all2 in Va by (rewrite repeat_length; lia).
  rewrite skipn_all2 in Vb by (rewrite repeat_length; lia).
  rewrite Nat.sub_diag in Va, Vb. cbn [app skipn] in Va, Vb.
  unfold bidx. rewrite Li. split; assumption.
Qed.

Lemma bidx_valid a b sh idx : bshape a b = Some sh -> valid sh idx ->
  valid a (bidx a idx) /\ valid b (bidx b idx).
Proof. intros H Hv. eapply bidx_valid_gen; [reflexivity|exact H|exact Hv]. Qed.

Lemma nth_skipn_add {A} (l : list A) : forall n k d, nth k (skipn n l) d = nth (n + k) l d.
Proof.
  induction l as [|x l IH]; intros [|n] k d; cbn [skipn Nat.add]; try reflexivity.
  - destruct k; reflexivity.
  - cbn [nth]. apply IH.
Qed.

(* coordinates of the operand index: right-aligned, 0 on size-1 dimensions *)
Lemma length_bmask sh : forall idx, length idx = length sh -> length (bmask sh idx) = length sh.
Proof. induction sh; intros [|i idx] H; cbn in *; try lia. f_equal. apply IHsh. lia. Qed.

Lemma nth_bmask sh : forall idx k, length idx = length sh -> k < length sh ->
  nth k (bmask sh idx) 0 = if nth k sh 0 =? 1 then 0 else nth k idx 0.
Proof.
  induction sh as [|d sh IH]; intros [|i idx] k HL Hk; cbn [length] in *; try lia.
  destruct k; cbn [bmask nth]; [reflexivity|]. apply IH; lia.
Qed.

Lemma bidx_coords sh idx k : length sh <= length idx -> k < length sh ->
  length (bidx sh idx) = length sh /\
  nth k (bidx sh idx) 0 = if nth k sh 0 =? 1 then 0 else nth (length idx - length sh + k) idx 0.
Proof.
  intros HL Hk. unfold bidx.
  assert (L : length (skipn (length idx - length sh) idx) = length sh) by (rewrite skipn_length; lia).
  split; [apply length_bmask; exact L|].
  rewrite nth_bmask by assumption. rewrite nth_skipn_add. reflexivity.
Qed.

(* shape rule of bshape in terms of the right-aligned operand shapes *)
Lemma nth_lpad n sh k : length sh <= n -> k < n ->
  nth k (lpad n sh) 0 = if k <? n - length sh then 1 else nth (k - (n - length sh)) sh 0.
Proof.
  intros H Hk. unfold lpad. destruct (k <? n - length sh) eqn:E.
  - apply Nat.ltb_lt in E. rewrite app_nth1 by (rewrite repeat_length; exact E).
    rewrite (nth_indep _ 0 1) by (rewrite repeat_length; exact E). apply nth_repeat.
  - apply Nat.ltb_ge in E. rewrite app_nth2 by (rewrite repeat_length; exact E).
    rewrite repeat_length. reflexivity.
Qed.

Lemma bshape_spec a b sh : bshape a b = Some sh ->
  let n := Nat.max (length a) (length b) in
  length sh = n /\
  forall k, k < n ->
    let da := nth k (lpad n a) 0 in let db := nth k (lpad n b) 0 in let d := nth k sh 0 in
    (da = d \/ da = 1) /\ (db = d \/ db = 1) /\ (d = da \/ d = db).
Proof.
  intros H n. pose proof (bshape_length _ _ _ H) as L. split; [exact L|].
  unfold bshape in H. apply bshape_eq_spec in H. destruct H as (_ & _ & N).
  intros k Hk. apply N. fold n in L. lia.
Qed.

Lemma bshape_eq_complete a : forall b, length a = length b ->
  (forall k, k < length a -> nth k a 0 = nth k b 0 \/ nth k a 0 = 1 \/ nth k b 0 = 1) ->
  exists sh, bshape_eq a b = Some sh.
Proof.
  induction a as [|x a IH]; intros [|y b] HL H; cbn [length] in HL; try discriminate.
  - exists []; reflexivity.
  - destruct (bdim_complete x y) as [d Hd]; [apply (H 0); cbn; lia|].
    destruct (IH b) as [r Hr]; [lia|intros k Hk; apply (H (S k)); cbn; lia|].
    exists (d :: r). cbn [bshape_eq]. rewrite Hd, Hr. reflexivity.
Qed.

(* ---- binary operators with broadcasting ---- *)
Theorem binop_spec f a b y : binop f a b = Some y ->
  bshape (shape a) (shape b) = Some (shape y) /\ wf y /\
  forall idx, valid (shape y) idx ->
    valid (shape a) (bidx (shape a) idx) /\ valid (shape b) (bidx (shape b) idx) /\
    f (get a (bidx (shape a) idx)) (get b (bidx (shape b) idx)) = Some (get y idx).
Proof.
  unfold binop. destruct (bshape (shape a) (shape b)) as [sh|] eqn:E; [|discriminate].
  intros H. apply tabo_spec in H. destruct H as (Hs & Hw & Hg). rewrite Hs.
  split; [reflexivity|]. split; [exact Hw|].
  intros idx Hv. destruct (bidx_valid _ _ _ _ E Hv) as [Va Vb].
  split; [exact Va|]. split; [exact Vb|]. apply Hg. exact Hv.
Qed.

(* binop is defined as soon as the shapes broadcast and f is defined on every pair it meets *)
Theorem binop_defined f a b sh : bshape (shape a) (shape b) = Some sh ->
  (forall idx, valid sh idx -> f (get a (bidx (shape a) idx)) (get b (bidx (shape b) idx)) <> None) ->
  exists y, binop f a b = Some y.
Proof.
  intros E H. unfold binop. rewrite E.
  exists (tab sh (fun idx => match f (get a (bidx (shape a) idx)) (get b (bidx (shape b) idx)) with Some v => v | None => 0%Z end)).
  apply tabo_total. intros idx Hv. specialize (H idx Hv).
  destruct (f (get a (bidx (shape a) idx)) (get b (bidx (shape b) idx))); [reflexivity|congruence].
Qed.

Lemma bshape_eq_assoc_valid a : forall b s1, bshape_eq a b = Some s1 ->
  forall c sh idx, bshape_eq s1 c = Some sh -> valid sh idx -> valid a (bmask a idx) /\ valid b (bmask b idx).
Proof.
  induction a as [|x a IH]; intros [|y b] s1 H c sh idx H2 Hv; cbn [bshape_eq] in H; try discriminate.
  - inversion H; subst. destruct c; cbn in H2; [|discriminate]. inversion H2; subst.
    apply valid_nil_inv in Hv; subst. split; constructor.
  - destruct (bdim x y) as [d|] eqn:Ed; [|discriminate].
    destruct (bshape_eq a b) as [r|] eqn:Er; [|discriminate]. inversion H; subst; clear H.
    destruct c as [|z c]; cbn [bshape_eq] in H2; [discriminate|].
    destruct (bdim d z) as [d2|] eqn:Ed2; [|discriminate].
    destruct (bshape_eq r c) as [r2|] eqn:Er2; [|discriminate]. inversion H2; subst; clear H2.
    apply valid_cons_inv in Hv. destruct Hv as (i & idx' & -> & Hi & Hv).
    destruct (IH _ _ Er _ _ _ Er2 Hv) as [Va Vb]. apply bdim_spec in Ed. apply bdim_spec in Ed2.
    cbn [bmask]. split; constructor; try assumption.
    + destruct (x =? 1) eqn:E; [apply Nat.eqb_eq in E; lia|apply Nat.eqb_neq in E; lia].
    + destruct (y =? 1) eqn:E; [apply Nat.eqb_eq in E; lia|apply Nat.eqb_neq in E; lia].
Qed.

Lemma lpad_lpad n m sh : length sh <= m -> m <= n -> lpad n (lpad m sh) = lpad n sh.
Proof.
  intros H1 H2. unfold lpad. rewrite app_length, repeat_length, app_assoc, <- repeat_app.
  f_equal. f_equal. lia.
Qed.

Lemma bmask_lpad_valid n sh idx : length sh <= n -> length idx = n ->
  valid (lpad n sh) (bmask (lpad n sh) idx) -> valid sh (bidx sh idx).
Proof.
  intros H1 H2 Hv. unfold lpad in Hv. rewrite bmask_repeat_ones in Hv by lia.
  apply valid_app_inv in Hv. destruct Hv as [_ Hv]. rewrite repeat_length in Hv.
  rewrite skipn_app, repeat_length in Hv. rewrite skipn_all2 in Hv by (rewrite repeat_length; lia).
  rewrite Nat.sub_diag in Hv. cbn [app skipn] in Hv. unfold bidx. rewrite H2. exact Hv.
Qed.

(* three-way broadcasting (Where): every operand index is in bounds *)
Lemma bidx_valid3 a b c s1 sh idx :
  bshape a b = Some s1 -> bshape s1 c = Some sh -> valid sh idx ->
  valid a (bidx a idx) /\ valid b (bidx b idx) /\ valid c (bidx c idx).
Proof.
  intros H1 H2 Hv.
  pose proof (bshape_length _ _ _ H1) as L1. pose proof (bshape_length _ _ _ H2) as L2.
  pose proof (valid_length _ _ Hv) as Li.
  destruct (bidx_valid _ _ _ _ H2 Hv) as [_ Vc].
  set (m := Nat.max (length a) (length b)) in *.
  set (n := Nat.max (length s1) (length c)) in *.
  unfold bshape in H1, H2. fold m in H1. fold n in H2.
  (* pad the first broadcast to length n *)
  assert (Hm : m <= n) by lia.
  assert (E1 : bshape_eq (lpad n a) (lpad n b) = Some (lpad n s1)).
  { rewrite <- (lpad_lpad n m a), <- (lpad_lpad n m b) by lia.
    unfold lpad at 1 3 5. rewrite !length_lpad by lia. rewrite L1.
    generalize (n - m) as k. induction k as [|k IHk]; cbn [repeat app]; [exact H1|].
    cbn [bshape_eq bdim Nat.eqb]. rewrite IHk. reflexivity. }
  destruct (bshape_eq_assoc_valid _ _ _ E1 _ _ _ H2 Hv) as [Va Vb].
  split; [|split; [|exact Vc]].
  - apply (bmask_lpad_valid n); [lia|lia|exact Va].
  - apply (bmask_lpad_valid n); [lia|lia|exact Vb].
Qed.

Theorem where_spec c x y out : where_op c x y = Some out ->
  exists s1, bshape (shape c) (shape x) = Some s1 /\ bshape s1 (shape y) = Some (shape out) /\ wf out /\
  forall idx, valid (shape out) idx ->
    valid (shape c) (bidx (shape c) idx) /\ valid (shape x) (bidx (shape x) idx) /\
    valid (shape y) (bidx (shape y) idx) /\
    get out idx = if (get c (bidx (shape c) idx) =? 0)%Z then get y (bidx (shape y) idx)
                  else get x (bidx (shape x) idx).
Proof.
  unfold where_op. destruct (bshape (shape c) (shape x)) as [s1|] eqn:E1; [|discriminate].
  destruct (bshape s1 (shape y)) as [sh|] eqn:E2; [|discriminate].
  intros H; inversion H; subst; clear H. exists s1. cbn [shape tab].
  split; [reflexivity|]. split; [exact E2|]. split; [apply wf_tab|].
  intros idx Hv. destruct (bidx_valid3 _ _ _ _ _ _ E1 E2 Hv) as (Vc & Vx & Vy).
  repeat split; try assumption. rewrite get_tab by exact Hv. reflexivity.
Qed.

Lemma get_unop f x idx : wf x -> valid (shape x) idx -> get (unop f x) idx = f (get x idx).
Proof.
  intros Hw Hv. unfold get, unop; cbn [shape data].
  rewrite (nth_indep _ 0%Z (f 0%Z)) by (rewrite map_length, Hw; apply ravel_lt; exact Hv).
  apply map_nth.
Qed.

(* ---- scalar semantics, transcribed from the operator texts ---- *)
(* Div on integers truncates toward zero *)
Theorem div_trunc_spec a b q : scalar_bin BDiv false a b = Some q ->
  b <> 0%Z /\ exists r, (a = b * q + r /\ Z.abs r < Z.abs b /\ (r = 0 \/ Z.sgn r = Z.sgn a))%Z.
Proof.
  cbn [scalar_bin]. destruct (b =? 0)%Z eqn:E; [discriminate|]. apply Z.eqb_neq in E.
  intros H; inversion H; subst. split; [exact E|]. exists (Z.rem a b).
  split; [apply Z.quot_rem'|]. split; [apply Z.rem_bound_abs; exact E|].
  destruct (Z.eq_dec (Z.rem a b) 0) as [Hz|Hz]; [left; exact Hz|right; apply Z.rem_sign_nz; assumption].
Qed.

(* Mod with fmod=0 (integers): the result has the sign of the divisor *)
Theorem mod_int_spec a b r : scalar_bin (BMod false) false a b = Some r ->
  b <> 0%Z /\ exists q, (a = b * q + r /\ Z.abs r < Z.abs b /\ (r = 0 \/ Z.sgn r = Z.sgn b))%Z.
Proof.
  cbn [scalar_bin]. destruct (b =? 0)%Z eqn:E; [discriminate|]. apply Z.eqb_neq in E.
  intros H; inversion H; subst. split; [exact E|]. exists (a / b)%Z.
  split; [apply Z.div_mod; exact E|].
  destruct (Z.lt_trichotomy b 0) as [Hb|[Hb|Hb]]; [|contradiction|].
  - pose proof (Z.mod_neg_bound a b Hb). split; [lia|].
    destruct (Z.eq_dec (a mod b) 0); [left; assumption|right].
    rewrite (Z.sgn_neg b), Z.sgn_neg; lia.
  - pose proof (Z.mod_pos_bound a b Hb). split; [lia|].
    destruct (Z.eq_dec (a mod b) 0); [left; assumption|right].
    rewrite (Z.sgn_pos b), Z.sgn_pos; lia.
Qed.

(* Mod with fmod=1 (C fmod): the result has the sign of the dividend *)
Theorem mod_fmod_spec fl a b r : scalar_bin (BMod true) fl a b = Some r ->
  b <> 0%Z /\ exists q, (a = b * q + r /\ Z.abs r < Z.abs b /\ (r = 0 \/ Z.sgn r = Z.sgn a))%Z.
Proof.
  cbn [scalar_bin]. destruct (b =? 0)%Z eqn:E; [discriminate|]. apply Z.eqb_neq in E.
  intros H; inversion H; subst. split; [exact E|]. exists (Z.quot a b).
  split; [apply Z.quot_rem'|]. split; [apply Z.rem_bound_abs; exact E|].
  destruct (Z.eq_dec (Z.rem a b) 0) as [Hz|Hz]; [left; exact Hz|right; apply Z.rem_sign_nz; assumption].
Qed.

Theorem pow_spec fl a n : (0 <= n)%Z ->
  scalar_bin BPow fl a 0 = Some 1%Z /\ scalar_bin BPow fl a (n + 1) = Some (a * a ^ n)%Z /\
  scalar_bin BPow fl a n = Some (a ^ n)%Z.
Proof.
  intros Hn. cbn [scalar_bin]. replace (0 <? 0)%Z with false by reflexivity.
  destruct (n + 1 <? 0)%Z eqn:E1; [apply Z.ltb_lt in E1; lia|].
  destruct (n <? 0)%Z eqn:E2; [apply Z.ltb_lt in E2; lia|].
  repeat split. rewrite Z.pow_add_r, Z.pow_1_r by lia. f_equal. lia.
Qed.

Theorem compare_spec fl a b :
  scalar_bin BEq fl a b = Some (if Z.eq_dec a b then 1 else 0)%Z /\
  scalar_bin BLt fl a b = Some (if Z_lt_dec a b then 1 else 0)%Z /\
  scalar_bin BLe fl a b = Some (if Z_le_dec a b then 1 else 0)%Z /\
  scalar_bin BGt fl a b = Some (if Z_lt_dec b a then 1 else 0)%Z /\
  scalar_bin BGe fl a b = Some (if Z_le_dec b a then 1 else 0)%Z.
Proof.
  cbn [scalar_bin]. unfold b2z.
  destruct (Z.eq_dec a b), (Z_lt_dec a b), (Z_le_dec a b), (Z_lt_dec b a), (Z_le_dec b a);
    repeat split; f_equal;
    repeat match goal with
    | |- context [(?x =? ?y)%Z] => destruct (Z.eqb_spec x y)
    | |- context [(?x <? ?y)%Z] => destruct (Z.ltb_spec x y)
    | |- context [(?x <=? ?y)%Z] => destruct (Z.leb_spec x y)
    end; try reflexivity; lia.
Qed.
