(* C15 -- Reduce*, ArgMax/ArgMin, CumSum: index-level specifications. *)
From RV Require Import Prelude.
From OnnxRef Require Import RefBase RefBase_proofs OnnxRef Bcast_proofs Transpose_proofs Concat_proofs Gather_proofs.
Open Scope nat_scope.

(* ---- the index set of one reduction ---- *)
Lemma red_add_valid mask : forall sh kidx j, length mask = length sh ->
  valid (keep_shape mask sh) kidx -> valid (red_shape mask sh) j ->
  valid sh (idx_add kidx j) /\
  forall p, p < length mask -> nth p mask true = false -> nth p (idx_add kidx j) 0 = nth p kidx 0.
Proof.
  induction mask as [|m mask IH]; intros [|d sh] kidx j HL Hk Hj; cbn [length] in HL; try discriminate.
  - cbn in Hk, Hj. apply valid_nil_inv in Hk. apply valid_nil_inv in Hj. subst.
    split; [constructor|]. intros p Hp; cbn in Hp; lia.
  - cbn [keep_shape red_shape map2] in Hk, Hj.
    apply valid_cons_inv in Hk. destruct Hk as (a & kidx' & -> & Ha & Hk).
    apply valid_cons_inv in Hj. destruct Hj as (b & j' & -> & Hb & Hj).
    destruct (IH sh kidx' j' ltac:(lia) Hk Hj) as [V N]. cbn [idx_add map2]. split.
    + constructor; [destruct m; lia|exact V].
    + intros [|p] Hp Hm; cbn [nth] in *; [subst m; lia|]. apply N; [cbn in Hp; lia|exact Hm].
Qed.

Definition red_proj (mask : list bool) (i : list nat) : list nat :=
  map2 (fun (m : bool) b => if m then b else 0) mask i.

Lemma red_proj_spec mask : forall sh kidx i, length mask = length sh ->
  valid (keep_shape mask sh) kidx -> valid sh i ->
  (forall p, p < length mask -> nth p mask true = false -> nth p i 0 = nth p kidx 0) ->
  valid (red_shape mask sh) (red_proj mask i) /\ idx_add kidx (red_proj mask i) = i.
Proof.
  induction mask as [|m mask IH]; intros [|d sh] kidx i HL Hk Hi Hag; cbn [length] in HL; try discriminate.
  - cbn in Hk. apply valid_nil_inv in Hk. apply valid_nil_inv in Hi. subst. split; [constructor|reflexivity].
  - cbn [keep_shape map2] in Hk.
    apply valid_cons_inv in Hk. destruct Hk as (a & kidx' & -> & Ha & Hk).
    apply valid_cons_inv in Hi. destruct Hi as (b & i' & -> & Hb & Hi).
    destruct (IH sh kidx' i' ltac:(lia) Hk Hi) as [V E].
    { intros p Hp Hm. apply (Hag (S p)); [cbn; lia|exact Hm]. }
    cbn [red_proj red_shape map2 idx_add]. fold (red_proj mask i'). fold (red_shape mask sh). fold (idx_add kidx' (red_proj mask i')).
    split.
    + constructor; [destruct m; lia|exact V].
    + rewrite E. f_equal. destruct m; [lia|]. specialize (Hag 0 ltac:(cbn; lia) eq_refl). cbn in Hag. lia.
Qed.

Lemma idx_add_cancel kidx : forall j1 j2, length j1 = length kidx -> length j2 = length kidx ->
  idx_add kidx j1 = idx_add kidx j2 -> j1 = j2.
Proof.
  induction kidx as [|a kidx IH]; intros [|b1 j1] [|b2 j2] H1 H2 E; cbn [length] in *; try discriminate; [reflexivity|].
  cbn [idx_add map2] in E. inversion E. f_equal; [lia|]. apply IH; [lia|lia|assumption].
Qed.

Lemma NoDup_map_inj_in {A B} (f : A -> B) l :
  NoDup l -> (forall x y, In x l -> In y l -> f x = f y -> x = y) -> NoDup (map f l).
Proof.
  induction 1 as [|x l Hni Hn IH]; intros Hinj; cbn [map]; constructor.
  - intros Hin. apply in_map_iff in Hin. destruct Hin as (y & E & Hy).
    assert (y = x) by (apply Hinj; [right; exact Hy|left; reflexivity|exact E]). subst. exact (Hni Hy).
  - apply IH. intros a b Ha Hb. apply Hinj; right; assumption.
Qed.

Lemma length_keep_shape mask sh : length mask = length sh -> length (keep_shape mask sh) = length sh.
Proof. intros H. unfold keep_shape. rewrite length_map2 by exact H. exact H. Qed.
Lemma length_red_shape mask sh : length mask = length sh -> length (red_shape mask sh) = length sh.
Proof. intros H. unfold red_shape. rewrite length_map2 by exact H. exact H. Qed.

(* the elements reduced into output position kidx are exactly the input positions that agree with
   kidx on the kept axes, each exactly once *)
Lemma red_list_spec mask sh kidx : length mask = length sh -> valid (keep_shape mask sh) kidx ->
  let L := map (idx_add kidx) (all_idx (red_shape mask sh)) in
  NoDup L /\
  forall i, In i L <-> valid sh i /\ forall p, p < length mask -> nth p mask true = false -> nth p i 0 = nth p kidx 0.
Proof.
  intros HL Hk L. pose proof (valid_length _ _ Hk) as Lk. rewrite length_keep_shape in Lk by exact HL.
  split.
  - apply NoDup_map_inj_in; [apply NoDup_all_idx|].
    intros j1 j2 H1 H2 E. apply In_all_idx in H1. apply In_all_idx in H2.
    apply valid_length in H1. apply valid_length in H2. rewrite length_red_shape in H1, H2 by exact HL.
    apply (idx_add_cancel kidx); [lia|lia|exact E].
  - intros i. unfold L. rewrite in_map_iff. split.
    + intros (j & <- & Hj). apply In_all_idx in Hj. apply red_add_valid; assumption.
    + intros [Hi Hag]. exists (red_proj mask i).
      destruct (red_proj_spec mask sh kidx i HL Hk Hi Hag) as [V E]. split; [exact E|apply In_all_idx; exact V].
Qed.

Theorem reduce_keep_spec k x mask t : length mask = length (shape x) -> reduce_keep k x mask = Some t ->
  shape t = keep_shape mask (shape x) /\ wf t /\
  forall kidx, valid (keep_shape mask (shape x)) kidx ->
    exists L, red_fold k (map (get x) L) = Some (get t kidx) /\ NoDup L /\
      forall i, In i L <-> valid (shape x) i /\
                           forall p, p < length mask -> nth p mask true = false -> nth p i 0 = nth p kidx 0.
Proof.
  intros HL H. unfold reduce_keep in H. apply tabo_spec in H. destruct H as (Hs & Hw & Hg).
  split; [exact Hs|]. split; [exact Hw|].
  intros kidx Hk. exists (map (idx_add kidx) (all_idx (red_shape mask (shape x)))).
  destruct (red_list_spec mask (shape x) kidx HL Hk) as [Hnd Hin].
  split; [|split; [exact Hnd|exact Hin]].
  rewrite <- (Hg kidx Hk). rewrite map_map. reflexivity.
Qed.

(* what the fold computes *)
Lemma fold_max_spec v l : let r := fold_right Z.max v l in
  In r (v :: l) /\ forall u, In u (v :: l) -> (u <= r)%Z.
Proof.
  induction l as [|w l IH]; cbn [fold_right].
  - split; [left; reflexivity|]. intros u [<-|[]]. lia.
  - destruct IH as [I1 I2]. set (r := fold_right Z.max v l) in *. split.
    + destruct (Z.max_spec w r) as [[_ ->]|[_ ->]].
      * destruct I1 as [<-|I1]; [left; reflexivity|right; right; exact I1].
      * right; left; reflexivity.
    + intros u [<-|[<-|Hu]]; [specialize (I2 v (or_introl eq_refl)); lia|lia|].
      specialize (I2 u (or_intror Hu)). lia.
Qed.

Lemma fold_min_spec v l : let r := fold_right Z.min v l in
  In r (v :: l) /\ forall u, In u (v :: l) -> (r <= u)%Z.
Proof.
  induction l as [|w l IH]; cbn [fold_right].
  - split; [left; reflexivity|]. intros u [<-|[]]. lia.
  - destruct IH as [I1 I2]. set (r := fold_right Z.min v l) in *. split.
    + destruct (Z.min_spec w r) as [[_ ->]|[_ ->]].
      * right; left; reflexivity.
      * destruct I1 as [<-|I1]; [left; reflexivity|right; right; exact I1].
    + intros u [<-|[<-|Hu]]; [specialize (I2 v (or_introl eq_refl)); lia|lia|].
      specialize (I2 u (or_intror Hu)). lia.
Qed.

Theorem red_fold_spec l :
  red_fold RSum l = Some (sumZ l) /\ red_fold RProd l = Some (prodZ l) /\
  red_fold RSumSquare l = Some (sumZ (map (fun v => v * v)%Z l)) /\
  red_fold RL1 l = Some (sumZ (map Z.abs l)) /\
  (forall r, red_fold RMax l = Some r -> In r l /\ forall u, In u l -> (u <= r)%Z) /\
  (forall r, red_fold RMin l = Some r -> In r l /\ forall u, In u l -> (r <= u)%Z) /\
  (l = [] -> red_fold RMax l = None /\ red_fold RMin l = None).
Proof.
  split; [reflexivity|]. split; [reflexivity|]. split; [reflexivity|]. split; [reflexivity|].
  split; [|split].
  - intros r H. destruct l as [|v l]; cbn [red_fold] in H; [discriminate|]. inversion H; subst.
    exact (fold_max_spec v l).
  - intros r H. destruct l as [|v l]; cbn [red_fold] in H; [discriminate|]. inversion H; subst.
    exact (fold_min_spec v l).
  - intros ->. split; reflexivity.
Qed.

(* ---- keepdims = 0: the reduced axes are removed; same elements in the same order ---- *)
Fixpoint drop_idx (mask : list bool) (idx : list nat) : list nat :=
  match mask, idx with
  | m :: mask', i :: idx' => if m then drop_idx mask' idx' else i :: drop_idx mask' idx'
  | _, _ => []
  end.

Lemma drop_shape_cons m mask d sh :
  drop_shape (m :: mask) (d :: sh) = if m then drop_shape mask sh else d :: drop_shape mask sh.
Proof. unfold drop_shape. cbn [combine filter fst negb]. destruct m; reflexivity. Qed.

Lemma numel_drop_keep mask : forall sh, length mask = length sh ->
  numel (drop_shape mask sh) = numel (keep_shape mask sh).
Proof.
  induction mask as [|m mask IH]; intros [|d sh] HL; cbn [length] in HL; try discriminate; [reflexivity|].
  rewrite drop_shape_cons. cbn [keep_shape map2]. fold (keep_shape mask sh).
  destruct m; cbn [numel fold_right]; fold (numel (drop_shape mask sh)); fold (numel (keep_shape mask sh));
    rewrite IH by lia; lia.
Qed.

Lemma drop_idx_spec mask : forall sh kidx, length mask = length sh -> valid (keep_shape mask sh) kidx ->
  valid (drop_shape mask sh) (drop_idx mask kidx) /\
  ravel (drop_shape mask sh) (drop_idx mask kidx) = ravel (keep_shape mask sh) kidx.
Proof.
  induction mask as [|m mask IH]; intros [|d sh] kidx HL Hk; cbn [length] in HL; try discriminate.
  - cbn in Hk. apply valid_nil_inv in Hk. subst. split; [constructor|reflexivity].
  - cbn [keep_shape map2] in Hk. fold (keep_shape mask sh) in Hk.
    apply valid_cons_inv in Hk. destruct Hk as (a & kidx' & -> & Ha & Hk).
    destruct (IH sh kidx' ltac:(lia) Hk) as [V E].
    rewrite drop_shape_cons. cbn [drop_idx keep_shape map2]. fold (keep_shape mask sh).
    destruct m; cbn [ravel].
    + split; [exact V|]. rewrite E. assert (a = 0) by lia. subst. lia.
    + split; [constructor; assumption|]. rewrite E, numel_drop_keep by lia. reflexivity.
Qed.

Lemma nth_red_mask r axes p : p < r -> nth p (red_mask r axes) true = memb p axes.
Proof. intros H. unfold red_mask. apply (nth_map_seq (fun k => memb k axes)). exact H. Qed.

Lemma length_red_mask r axes : length (red_mask r axes) = r.
Proof. unfold red_mask. rewrite map_length, seq_length. reflexivity. Qed.

(* ONNX Reduce*: output position kidx (keepdims form: 0 along the reduced axes) holds the reduction
   of all input elements whose coordinates agree with kidx on the axes that are not reduced *)
Theorem reduce_spec k keepdims x axes y : reduce k keepdims x axes = Some y ->
  let r := length (shape x) in
  let mask := red_mask r axes in
  shape y = (if keepdims then keep_shape mask (shape x) else drop_shape mask (shape x)) /\ wf y /\
  forall kidx, valid (keep_shape mask (shape x)) kidx ->
    let oidx := if keepdims then kidx else drop_idx mask kidx in
    valid (shape y) oidx /\
    exists L, red_fold k (map (get x) L) = Some (get y oidx) /\ NoDup L /\
      forall i, In i L <-> valid (shape x) i /\
                           forall p, p < r -> memb p axes = false -> nth p i 0 = nth p kidx 0.
Proof.
  unfold reduce. cbv zeta. set (r := length (shape x)). set (mask := red_mask r axes).
  destruct (reduce_keep k x mask) as [t|] eqn:Et; [|discriminate].
  intros H; inversion H; subst y; clear H.
  assert (HL : length mask = length (shape x)) by apply length_red_mask.
  destruct (reduce_keep_spec k x mask t HL Et) as (Hs & Hw & Hg).
  assert (Hmem : forall kidx i, (forall p, p < length mask -> nth p mask true = false -> nth p i 0 = nth p kidx 0) <->
                                (forall p, p < r -> memb p axes = false -> nth p i 0 = nth p kidx 0)).
  { intros kidx i. rewrite HL. fold r. split; intros Hq p Hp Hm; apply Hq; try exact Hp.
    - unfold mask. rewrite nth_red_mask by exact Hp. exact Hm.
    - unfold mask in Hm. rewrite nth_red_mask in Hm by exact Hp. exact Hm. }
  destruct keepdims.
  - split; [exact Hs|]. split; [exact Hw|]. intros kidx Hk. split; [rewrite Hs; exact Hk|].
    destruct (Hg kidx Hk) as (L & H1 & H2 & H3). exists L. split; [exact H1|]. split; [exact H2|].
    intros i. rewrite H3. rewrite Hmem. reflexivity.
  - cbn [shape]. split; [reflexivity|]. split.
    { unfold wf; cbn [shape data]. rewrite numel_drop_keep by exact HL. rewrite <- Hs. exact Hw. }
    intros kidx Hk. destruct (drop_idx_spec mask (shape x) kidx HL Hk) as [V E]. split; [exact V|].
    destruct (Hg kidx Hk) as (L & H1 & H2 & H3). exists L. split; [|split; [exact H2|]].
    + rewrite H1. f_equal. unfold get; cbn [shape data]. rewrite E, Hs. reflexivity.
    + intros i. rewrite H3. rewrite Hmem. reflexivity.
Qed.

(* which axes are reduced *)
Theorem reduce_op_spec k keepdims noop x axes :
  let r := length (shape x) in
  let ax := match axes with Some a => a | None => [] end in
  (ax = [] -> noop = true -> reduce_op k keepdims noop x axes = if red_idempotent k then Some x else None) /\
  (ax = [] -> noop = false -> reduce_op k keepdims noop x axes = reduce k keepdims x (seq 0 r)) /\
  (ax <> [] -> forall ks, norm_axes r ax = Some ks -> nodupb ks = true ->
     reduce_op k keepdims noop x axes = reduce k keepdims x ks) /\
  (ax <> [] -> norm_axes r ax = None -> reduce_op k keepdims noop x axes = None).
Proof.
  cbv zeta. unfold reduce_op. destruct (match axes with Some a => a | None => [] end) as [|a l].
  - repeat split; intros; subst; try reflexivity; congruence.
  - repeat split; intros; try discriminate.
    + rewrite H0, H1. reflexivity.
    + rewrite H0. reflexivity.
Qed.

(* ---- ArgMax / ArgMin ---- *)
Section Arg.
  Variable is_max last_ : bool.
  Let better (a b : Z) : bool := if is_max then (b <? a)%Z else (a <? b)%Z.
  Let key (v : Z) : Z := if is_max then v else (- v)%Z.

  Lemma better_key a b : better a b = true <-> (key b < key a)%Z.
  Proof. unfold better, key. destruct is_max; [rewrite Z.ltb_lt|rewrite Z.ltb_lt]; lia. Qed.

  Lemma arg_best_spec : forall l pre best bpos,
    bpos < length pre -> nth bpos pre 0%Z = best ->
    (forall q, q < length pre -> (key (nth q pre 0%Z) <= key best)%Z) ->
    (last_ = false -> forall q, q < bpos -> (key (nth q pre 0%Z) < key best)%Z) ->
    (last_ = true -> forall q, bpos < q < length pre -> (key (nth q pre 0%Z) < key best)%Z) ->
    let p := arg_best better last_ l (length pre) best bpos in
    let all := pre ++ l in
    p < length all /\
    (forall q, q < length all -> (key (nth q all 0%Z) <= key (nth p all 0%Z))%Z) /\
    (last_ = false -> forall q, q < p -> (key (nth q all 0%Z) < key (nth p all 0%Z))%Z) /\
    (last_ = true -> forall q, p < q < length all -> (key (nth q all 0%Z) < key (nth p all 0%Z))%Z).
  Proof.
    induction l as [|v l IH]; intros pre best bpos Hb Hn Hle Hf Hl; cbn [arg_best]; cbv zeta.
    - rewrite app_nil_r. rewrite Hn. repeat split; try assumption.
    - assert (Happ : pre ++ v :: l = (pre ++ [v]) ++ l) by (rewrite <- app_assoc; reflexivity).
      assert (Lp : length (pre ++ [v]) = S (length pre)) by (rewrite app_length; cbn; lia).
      assert (Hold : forall q, q < length pre -> nth q (pre ++ [v]) 0%Z = nth q pre 0%Z)
        by (intros q Hq; apply app_nth1; exact Hq).
      assert (Hnew : nth (length pre) (pre ++ [v]) 0%Z = v)
        by (rewrite app_nth2 by lia; rewrite Nat.sub_diag; reflexivity).
      destruct (better v best || last_ && (v =? best)%Z) eqn:E.
      + (* v becomes the best *)
        assert (Hge : (key best <= key v)%Z /\ (last_ = false -> (key best < key v)%Z)).
        { apply orb_true_iff in E. destruct E as [E|E].
          - apply better_key in E. lia.
          - apply andb_true_iff in E. destruct E as [E1 E2]. apply Z.eqb_eq in E2. subst. split; [lia|congruence]. }
        destruct Hge as [Hge Hgt]. rewrite Happ, <- Lp.
        apply IH.
        * rewrite Lp. lia.
        * exact Hnew.
        * rewrite Lp. intros q Hq. destruct (Nat.eq_dec q (length pre)) as [->|Hne]; [rewrite Hnew; lia|].
          rewrite Hold by lia. specialize (Hle q ltac:(lia)). lia.
        * intros Hlf q Hq. rewrite Hold by lia. specialize (Hle q Hq). specialize (Hgt Hlf). lia.
        * rewrite Lp. intros _ q Hq. lia.
      + (* best stays *)
        assert (Hlt : (key v <= key best)%Z /\ (last_ = true -> (key v < key best)%Z)).
        { apply orb_false_iff in E. destruct E as [E1 E2].
          assert (~ (key best < key v)%Z) by (intros Hc; apply better_key in Hc; congruence).
          split; [lia|]. intros Hlt. subst last_. cbn [andb] in E2. apply Z.eqb_neq in E2.
          unfold key in *. destruct is_max; lia. }
        destruct Hlt as [Hle' Hlt]. rewrite Happ, <- Lp.
        apply IH.
        * rewrite Lp. lia.
        * rewrite Hold by exact Hb. exact Hn.
        * rewrite Lp. intros q Hq. destruct (Nat.eq_dec q (length pre)) as [->|Hne]; [rewrite Hnew; lia|].
          rewrite Hold by lia. apply Hle. lia.
        * intros Hlf q Hq. rewrite Hold by lia. apply Hf; assumption.
        * rewrite Lp. intros Hlt' q Hq. destruct (Nat.eq_dec q (length pre)) as [->|Hne]; [rewrite Hnew; apply Hlt; exact Hlt'|].
          rewrite Hold by lia. apply Hl; [exact Hlt'|lia].
  Qed.

  (* the selected position holds an extremum; among equal extrema the first one is selected
     (the last one when select_last_index is set) *)
  Lemma arg_list_spec l p : arg_list is_max last_ l = Some p ->
    p < length l /\
    (forall q, q < length l -> (key (nth q l 0%Z) <= key (nth p l 0%Z))%Z) /\
    (last_ = false -> forall q, q < p -> (key (nth q l 0%Z) < key (nth p l 0%Z))%Z) /\
    (last_ = true -> forall q, p < q < length l -> (key (nth q l 0%Z) < key (nth p l 0%Z))%Z).
  Proof.
    destruct l as [|v l]; cbn [arg_list]; [discriminate|]. intros H; inversion H; subst p; clear H.
    change 1 with (length [v]). change (v :: l) with ([v] ++ l).
    apply (arg_best_spec l [v] v 0).
    - cbn; lia.
    - reflexivity.
    - intros q Hq. cbn in Hq. assert (q = 0) by lia. subst. cbn. lia.
    - intros _ q Hq. lia.
    - intros _ q Hq. cbn in Hq. lia.
  Qed.
End Arg.

Lemma valid_upd_axis sh kidx ax p : valid sh kidx -> p < nth ax sh 0 -> valid sh (upd kidx ax p).
Proof. intros. apply valid_upd; assumption. Qed.

Lemma keep_shape_single r ax sh kidx : length sh = r -> ax < r ->
  valid (keep_shape (red_mask r [ax]) sh) kidx ->
  length kidx = r /\ nth ax kidx 0 = 0 /\ forall p, p < nth ax sh 0 -> valid sh (upd kidx ax p).
Proof.
  intros Hr Hax Hk. pose proof (valid_length _ _ Hk) as Lk.
  rewrite length_keep_shape in Lk by (rewrite length_red_mask; lia).
  assert (Hc : forall q, q < r -> nth q kidx 0 < (if q =? ax then 1 else nth q sh 0)).
  { intros q Hq. pose proof (valid_nth _ _ q Hk) as Hn.
    rewrite length_keep_shape in Hn by (rewrite length_red_mask; lia). specialize (Hn ltac:(lia)).
    unfold keep_shape in Hn. rewrite (nth_map2 _ _ _ _ true 0) in Hn by (rewrite ?length_red_mask; lia).
    rewrite nth_red_mask in Hn by exact Hq. unfold memb in Hn. cbn [existsb] in Hn. rewrite orb_false_r in Hn. exact Hn. }
  split; [lia|]. split.
  - specialize (Hc ax Hax). rewrite Nat.eqb_refl in Hc. lia.
  - intros p Hp. apply valid_of_nth; [rewrite length_upd; lia|]. intros q Hq.
    destruct (Nat.eq_dec q ax) as [->|Hne].
    + rewrite nth_upd_same by lia. exact Hp.
    + rewrite nth_upd_other by exact Hne. specialize (Hc q ltac:(lia)).
      destruct (q =? ax) eqn:E; [apply Nat.eqb_eq in E; contradiction|exact Hc].
Qed.

(* ONNX ArgMax / ArgMin: for every position kidx of the other axes the output holds the index along
   `axis` of the extremum of the lane x[kidx with axis := 0..d-1]; ties: first (last) occurrence *)
Theorem arg_reduce_spec is_max last_ keepdims axis x y : arg_reduce is_max last_ keepdims axis x = Some y ->
  exists ax, norm_axis (length (shape x)) axis = Some ax /\
    let r := length (shape x) in let d := nth ax (shape x) 0 in let mask := red_mask r [ax] in
    0 < d /\ wf y /\
    shape y = (if keepdims then keep_shape mask (shape x) else drop_shape mask (shape x)) /\
    forall kidx, valid (keep_shape mask (shape x)) kidx ->
      let oidx := if keepdims then kidx else drop_idx mask kidx in
      let key v := if is_max then v else (- v)%Z in
      let lane q := get x (upd kidx ax q) in
      valid (shape y) oidx /\
      exists p, get y oidx = Z.of_nat p /\ p < d /\ (forall q, q < d -> valid (shape x) (upd kidx ax q)) /\
        (forall q, q < d -> (key (lane q) <= key (lane p))%Z) /\
        (last_ = false -> forall q, q < p -> (key (lane q) < key (lane p))%Z) /\
        (last_ = true -> forall q, p < q < d -> (key (lane q) < key (lane p))%Z).
Proof.
  unfold arg_reduce. destruct (norm_axis (length (shape x)) axis) as [ax|] eqn:Ea; [|discriminate].
  set (r := length (shape x)). set (d := nth ax (shape x) 0). set (mask := red_mask r [ax]).
  destruct (d =? 0) eqn:Ed; [discriminate|]. apply Nat.eqb_neq in Ed.
  match goal with |- match ?T with _ => _ end = _ -> _ => destruct T as [t|] eqn:Et; [|discriminate] end.
  intros H; inversion H; subst y; clear H. exists ax. split; [reflexivity|]. cbv zeta.
  fold r. fold d. fold mask. split; [lia|].
  apply norm_axis_spec in Ea. destruct Ea as [Hax _]. fold r in Hax.
  apply tabo_spec in Et. destruct Et as (Hs & Hw & Hg).
  assert (HL : length mask = length (shape x)) by apply length_red_mask.
  assert (Hmain : forall kidx, valid (keep_shape mask (shape x)) kidx ->
     exists p, get t kidx = Z.of_nat p /\ p < d /\ (forall q, q < d -> valid (shape x) (upd kidx ax q)) /\
       (forall q, q < d -> ((if is_max then get x (upd kidx ax q) else - get x (upd kidx ax q)) <=
                            (if is_max then get x (upd kidx ax p) else - get x (upd kidx ax p)))%Z) /\
       (last_ = false -> forall q, q < p -> ((if is_max then get x (upd kidx ax q) else - get x (upd kidx ax q)) <
                            (if is_max then get x (upd kidx ax p) else - get x (upd kidx ax p)))%Z) /\
       (last_ = true -> forall q, p < q < d -> ((if is_max then get x (upd kidx ax q) else - get x (upd kidx ax q)) <
                            (if is_max then get x (upd kidx ax p) else - get x (upd kidx ax p)))%Z)).
  { intros kidx Hk. specialize (Hg kidx Hk). cbv beta in Hg.
    destruct (arg_list is_max last_ (map (fun p => get x (upd kidx ax p)) (seq 0 d))) as [p|] eqn:Ep; [|discriminate].
    inversion Hg as [Hgp]. exists p. split; [reflexivity|].
    destruct (arg_list_spec _ _ _ _ Ep) as (P1 & P2 & P3 & P4).
    rewrite map_length, seq_length in P1, P2, P4.
    assert (Hlane : forall q, q < d -> nth q (map (fun p => get x (upd kidx ax p)) (seq 0 d)) 0%Z = get x (upd kidx ax q)).
    { intros q Hq. apply (nth_map_seq (fun p => get x (upd kidx ax p))). exact Hq. }
    split; [exact P1|]. split.
    { destruct (keep_shape_single r ax (shape x) kidx eq_refl Hax Hk) as (_ & _ & Hv). exact Hv. }
    split; [|split].
    - intros q Hq. specialize (P2 q Hq). rewrite !Hlane in P2 by assumption. exact P2.
    - intros Hl q Hq. specialize (P3 Hl q Hq). rewrite !Hlane in P3 by lia. exact P3.
    - intros Hl q Hq. specialize (P4 Hl q Hq). rewrite !Hlane in P4 by lia. exact P4. }
  destruct keepdims.
  - split; [exact Hw|]. split; [exact Hs|]. intros kidx Hk. split; [rewrite Hs; exact Hk|]. apply Hmain. exact Hk.
  - cbn [shape]. split.
    { unfold wf; cbn [shape data]. rewrite numel_drop_keep by exact HL. rewrite <- Hs. exact Hw. }
    split; [reflexivity|]. intros kidx Hk.
    destruct (drop_idx_spec mask (shape x) kidx HL Hk) as [V E]. split; [exact V|].
    destruct (Hmain kidx Hk) as (p & Hp & Hrest). exists p. split; [|exact Hrest].
    rewrite <- Hp. unfold get; cbn [shape data]. rewrite E, Hs. reflexivity.
Qed.

(* ---- CumSum ---- *)
Lemma cumsum_range_spec exclusive reverse d i q : i < d ->
  (In q (cumsum_range exclusive reverse d i) <->
   q < d /\ match reverse, exclusive with
            | false, false => q <= i | false, true => q < i
            | true, false => i <= q | true, true => i < q end) /\
  NoDup (cumsum_range exclusive reverse d i).
Proof.
  intros Hi. unfold cumsum_range. destruct reverse, exclusive; (split; [rewrite in_seq; lia|apply seq_NoDup]).
Qed.

(* ONNX CumSum: out[idx] = sum of x[idx with axis := q] over q <= idx[axis] (q < .. if exclusive;
   q >= / q > if reverse) *)
Theorem cumsum_spec exclusive reverse axis x y : cumsum exclusive reverse axis x = Some y ->
  exists ax, norm_axis (length (shape x)) axis = Some ax /\ shape y = shape x /\ wf y /\
    let d := nth ax (shape x) 0 in
    forall idx, valid (shape x) idx ->
      nth ax idx 0 < d /\
      (forall q, q < d -> valid (shape x) (upd idx ax q)) /\
      get y idx = sumZ (map (fun q => get x (upd idx ax q)) (cumsum_range exclusive reverse d (nth ax idx 0))).
Proof.
  unfold cumsum. destruct (norm_axis (length (shape x)) axis) as [ax|] eqn:Ea; [|discriminate].
  intros H; inversion H; subst y; clear H. exists ax. split; [reflexivity|]. cbn [shape tab].
  split; [reflexivity|]. split; [apply wf_tab|]. cbv zeta.
  apply norm_axis_spec in Ea. destruct Ea as [Hax _].
  intros idx Hv. split; [apply valid_nth; assumption|]. split.
  - intros q Hq. apply valid_upd; assumption.
  - rewrite get_tab by exact Hv. reflexivity.
Qed.
