(* C15 -- Reshape, Squeeze, Unsqueeze: shape specifications (the data is unchanged). *)
From RV Require Import Prelude.
From Coq Require Import Permutation.
From OnnxRef Require Import RefBase RefBase_proofs OnnxRef Bcast_proofs Transpose_proofs Concat_proofs Gather_proofs.
Open Scope nat_scope.

(* ---- Reshape ---- *)
Lemma resolve_zeros_spec az : forall s ins r, resolve_zeros az ins s = Some r ->
  length r = length s /\
  forall k, k < length s ->
    if ((nth k s 0 =? 0)%Z && negb az)%bool
    then k < length ins /\ nth k r 0%Z = Z.of_nat (nth k ins 0)
    else nth k r 0%Z = nth k s 0%Z.
Proof.
  induction s as [|d s IH]; intros ins r H; cbn [resolve_zeros] in H.
  - inversion H; subst. split; [reflexivity|]. intros k Hk; cbn in Hk; lia.
  - destruct (resolve_zeros az (tl ins) s) as [r'|] eqn:E; [|discriminate].
    destruct (IH _ _ E) as [L N].
    destruct ((d =? 0)%Z && negb az) eqn:Ez.
    + destruct ins as [|i ins]; [discriminate|]. inversion H; subst; clear H. cbn [tl] in *.
      split; [cbn; lia|]. intros [|k] Hk; cbn [nth length].
      * rewrite Ez. split; [lia|reflexivity].
      * specialize (N k ltac:(cbn in Hk; lia)). destruct ((nth k s 0 =? 0)%Z && negb az); [|exact N].
        destruct N as [N1 N2]. split; [lia|exact N2].
    + inversion H; subst; clear H. split; [cbn; lia|]. intros [|k] Hk; cbn [nth].
      * rewrite Ez. reflexivity.
      * specialize (N k ltac:(cbn in Hk; lia)). destruct ((nth k s 0 =? 0)%Z && negb az); [|exact N].
        destruct N as [N1 N2]. split; [destruct ins; cbn in *; lia|].
        rewrite N2. destruct ins; cbn; [destruct k; reflexivity|reflexivity].
Qed.

Lemma numel_map_to_nat l : Forall (fun d => (0 <= d)%Z) l -> Z.of_nat (numel (map Z.to_nat l)) = prodZ l.
Proof.
  induction 1 as [|d l Hd _ IH]; cbn [map numel prodZ fold_right]; [reflexivity|].
  fold (numel (map Z.to_nat l)). fold (prodZ l). rewrite Nat2Z.inj_mul, IH, Z2Nat.id by exact Hd. reflexivity.
Qed.

Lemma prodZ_nonneg l : Forall (fun d => (0 <= d)%Z) l -> (0 <= prodZ l)%Z.
Proof. induction 1; cbn [prodZ fold_right]; [lia|]. fold (prodZ l). nia. Qed.

Lemma filter_none_minus1 l : countZ (-1) l = 0 -> filter (fun d => negb (d =? -1)%Z) l = l.
Proof.
  unfold countZ. induction l as [|d l IH]; cbn [filter]; [reflexivity|].
  destruct (-1 =? d)%Z eqn:E.
  - cbn [length]. discriminate.
  - intros H. rewrite Z.eqb_sym, E. cbn [negb]. f_equal. apply IH. exact H.
Qed.

Lemma ge_minus1_nonneg l : forallb (fun d => (-1 <=? d)%Z) l = true -> countZ (-1) l = 0 ->
  Forall (fun d => (0 <= d)%Z) l.
Proof.
  unfold countZ. induction l as [|d l IH]; cbn [forallb filter]; intros H C; [constructor|].
  apply andb_true_iff in H. destruct H as [H1 H2]. apply Z.leb_le in H1.
  destruct (-1 =? d)%Z eqn:E; [cbn in C; discriminate|]. apply Z.eqb_neq in E.
  constructor; [cbv beta; lia|apply IH; assumption].
Qed.

Lemma numel_infer q l : forallb (fun d => (-1 <=? d)%Z) l = true -> countZ (-1) l = 1 -> (0 <= q)%Z ->
  Z.of_nat (numel (map (fun d => if (d =? -1)%Z then Z.to_nat q else Z.to_nat d) l))
  = (q * prodZ (filter (fun d => negb (d =? -1)%Z) l))%Z.
Proof.
  intros H C Hq. induction l as [|d l IH]; [cbn in C; discriminate|].
  cbn [forallb] in H. apply andb_true_iff in H. destruct H as [H1 H2]. apply Z.leb_le in H1.
  unfold countZ in C. cbn [filter] in C. cbn [map filter numel fold_right].
  destruct (Z.eqb_spec d (-1)) as [->|Hne].
  - rewrite Z.eqb_refl in C. cbn [length] in C. assert (C' : countZ (-1) l = 0) by (unfold countZ; lia).
    cbn [negb]. rewrite (filter_none_minus1 l C').
    fold (numel (map (fun d => if (d =? -1)%Z then Z.to_nat q else Z.to_nat d) l)).
    assert (E : map (fun d => if (d =? -1)%Z then Z.to_nat q else Z.to_nat d) l = map Z.to_nat l).
    { pose proof (ge_minus1_nonneg l H2 C') as Hnn. clear -C'. unfold countZ in C'.
      induction l as [|e l IH]; cbn [map filter] in *; [reflexivity|].
      destruct (-1 =? e)%Z eqn:E; [cbn in C'; discriminate|]. rewrite Z.eqb_sym, E. f_equal. apply IH. exact C'. }
    rewrite E, Nat2Z.inj_mul, numel_map_to_nat by (apply ge_minus1_nonneg; assumption).
    rewrite Z2Nat.id by exact Hq. reflexivity.
  - assert (Hd : (-1 =? d)%Z = false) by (apply Z.eqb_neq; lia). rewrite Hd in C.
    cbn [negb prodZ fold_right].
    fold (numel (map (fun d => if (d =? -1)%Z then Z.to_nat q else Z.to_nat d) l)).
    fold (prodZ (filter (fun d => negb (d =? -1)%Z) l)).
    rewrite Nat2Z.inj_mul, IH by assumption. rewrite Z2Nat.id by lia. lia.
Qed.

Lemma countZ_resolve az : forall s ins r, resolve_zeros az ins s = Some r -> countZ (-1) r = countZ (-1) s.
Proof.
  unfold countZ. induction s as [|d s IH]; intros ins r H; cbn [resolve_zeros] in H.
  - inversion H; reflexivity.
  - destruct (resolve_zeros az (tl ins) s) as [r'|] eqn:E; [|discriminate]. specialize (IH _ _ E).
    destruct ((d =? 0)%Z && negb az) eqn:Ez.
    + destruct ins as [|i ins]; [discriminate|]. inversion H; subst; clear H. cbn [filter].
      apply andb_true_iff in Ez. destruct Ez as [Ez _]. apply Z.eqb_eq in Ez. subst d.
      replace (-1 =? Z.of_nat i)%Z with false by (symmetry; apply Z.eqb_neq; lia).
      cbn [Z.eqb]. exact IH.
    + inversion H; subst; clear H. cbn [filter]. destruct (-1 =? d)%Z; cbn [length]; rewrite IH; reflexivity.
Qed.

(* ONNX Reshape: same elements in the same (row-major) order; a positive entry of `shape` is the
   output extent, 0 copies the input extent (unless allowzero), -1 (at most one) is inferred so
   that the element count is preserved *)
Theorem reshape_spec az x s y : reshape az x s = Some y ->
  data y = data x /\ (wf x -> wf y) /\
  length (shape y) = length s /\ numel (shape y) = numel (shape x) /\ countZ (-1) s <= 1 /\
  (forall k, k < length s ->
     let d := nth k s 0%Z in
     (-1 <= d)%Z /\
     ((0 < d)%Z -> nth k (shape y) 0 = Z.to_nat d) /\
     (d = 0%Z -> az = false -> k < length (shape x) /\ nth k (shape y) 0 = nth k (shape x) 0) /\
     (d = 0%Z -> az = true -> nth k (shape y) 0 = 0)) /\
  (* row-major order is preserved: equal linear positions hold equal elements *)
  (forall idx idx', ravel (shape y) idx = ravel (shape x) idx' -> get y idx = get x idx').
Proof.
  unfold reshape. destruct (reshape_dims az (shape x) s) as [sh|] eqn:E; [|discriminate].
  intros H; inversion H; subst y; clear H. cbn [shape data].
  split; [reflexivity|].
  unfold reshape_dims in E.
  destruct (az && (0 <? countZ 0 s) && (0 <? countZ (-1) s)) eqn:Eaz; [discriminate|].
  destruct (resolve_zeros az (shape x) s) as [s1|] eqn:Er; [|discriminate].
  destruct (forallb (fun d => (-1 <=? d)%Z) s1) eqn:Ege; [|discriminate]. cbn [negb] in E.
  destruct (resolve_zeros_spec _ _ _ _ Er) as [L1 N1].
  pose proof (countZ_resolve _ _ _ _ Er) as Cs.
  set (known := prodZ (filter (fun d => negb (d =? -1)%Z) s1)) in *.
  set (n := Z.of_nat (numel (shape x))) in *.
  assert (Hnum_len : numel sh = numel (shape x) /\ length sh = length s /\ countZ (-1) s <= 1 /\
            forall k, k < length s -> nth k sh 0 = (if (nth k s1 0%Z =? -1)%Z then nth k sh 0 else Z.to_nat (nth k s1 0%Z))).
  { destruct (countZ (-1) s1) as [|[|c]] eqn:Ec; [| |discriminate].
    - destruct (known =? n)%Z eqn:Ek; [|discriminate]. inversion E; subst sh; clear E. apply Z.eqb_eq in Ek.
      pose proof (ge_minus1_nonneg s1 Ege Ec) as Hnn.
      split; [|split; [rewrite map_length; exact L1|split; [lia|]]].
      + apply Nat2Z.inj. rewrite numel_map_to_nat by exact Hnn. unfold known in Ek.
        rewrite filter_none_minus1 in Ek by exact Ec. exact Ek.
      + intros k Hk. destruct (nth k s1 0%Z =? -1)%Z; [reflexivity|].
        apply (nth_map_default Z.to_nat). lia.
    - destruct (known =? 0)%Z eqn:Ek0; [discriminate|]. apply Z.eqb_neq in Ek0.
      destruct (n mod known =? 0)%Z eqn:Em; [|discriminate]. inversion E; subst sh; clear E. apply Z.eqb_eq in Em.
      assert (Hkpos : (0 < known)%Z).
      { assert (0 <= known)%Z; [|lia]. unfold known. apply prodZ_nonneg.
        apply Forall_forall. intros d Hd. apply filter_In in Hd. destruct Hd as [Hd Hne].
        rewrite forallb_forall in Ege. specialize (Ege d Hd). apply Z.leb_le in Ege.
        apply negb_true_iff in Hne. apply Z.eqb_neq in Hne. lia. }
      assert (Hq : (0 <= n / known)%Z) by (apply Z.div_pos; unfold n; lia).
      split; [|split; [rewrite map_length; exact L1|split; [lia|]]].
      + apply Nat2Z.inj. rewrite (numel_infer (n / known) s1 Ege Ec Hq). fold known. fold n.
        pose proof (Z.div_mod n known ltac:(lia)). lia.
      + intros k Hk.
        rewrite (nth_map_default (fun d => if (d =? -1)%Z then Z.to_nat (n / known) else Z.to_nat d) s1 k 0%Z 0) by lia.
        destruct (nth k s1 0%Z =? -1)%Z; reflexivity. }
  destruct Hnum_len as (Hnum & Hlen & Hcnt & Hnth).
  split; [unfold wf; cbn [shape data]; intros Hw; rewrite Hw; symmetry; exact Hnum|].
  split; [exact Hlen|]. split; [exact Hnum|]. split; [exact Hcnt|]. split.
  - intros k Hk. cbv zeta. specialize (N1 k Hk). specialize (Hnth k Hk).
    assert (Hge : (-1 <= nth k s1 0)%Z).
    { rewrite forallb_forall in Ege. apply Z.leb_le. apply Ege. apply nth_In. lia. }
    destruct ((nth k s 0 =? 0)%Z && negb az) eqn:Ez.
    + apply andb_true_iff in Ez. destruct Ez as [Ez1 Ez2]. apply Z.eqb_eq in Ez1. apply negb_true_iff in Ez2.
      destruct N1 as [N1a N1b]. rewrite N1b in Hnth.
      replace (Z.of_nat (nth k (shape x) 0%nat) =? -1)%Z with false in Hnth by (symmetry; apply Z.eqb_neq; lia).
      rewrite Nat2Z.id in Hnth. rewrite Ez1. split; [lia|]. split; [lia|]. split; [intros _ _; split; assumption|].
      intros _ Haz. congruence.
    + rewrite N1 in Hnth, Hge. split; [exact Hge|]. split; [|split].
      * intros Hpos. destruct (nth k s 0 =? -1)%Z eqn:E1; [apply Z.eqb_eq in E1; lia|exact Hnth].
      * intros Hz Haz. rewrite Hz, Haz in Ez. cbn in Ez. discriminate.
      * intros Hz _. rewrite Hz in Hnth. cbn in Hnth. exact Hnth.
  - intros idx idx' Hr. unfold get; cbn [shape data]. rewrite Hr. reflexivity.
Qed.

(* ---- Squeeze / Unsqueeze ---- *)
Lemma numel_drop_at ks : forall sh pos, (forall k, In k ks -> pos <= k -> nth (k - pos) sh 1 = 1) ->
  numel (drop_at ks pos sh) = numel sh.
Proof.
  induction sh as [|d sh IH]; intros pos H; cbn [drop_at]; [reflexivity|].
  assert (IH' : numel (drop_at ks (S pos) sh) = numel sh).
  { apply IH. intros k Hk Hle. specialize (H k Hk ltac:(lia)).
    replace (k - pos) with (S (k - S pos)) in H by lia. exact H. }
  destruct (memb pos ks) eqn:E.
  - apply memb_In in E. specialize (H pos E ltac:(lia)). rewrite Nat.sub_diag in H. cbn in H. subst d.
    rewrite IH'. cbn [numel fold_right]. fold (numel sh). lia.
  - cbn [numel fold_right]. fold (numel (drop_at ks (S pos) sh)). fold (numel sh). rewrite IH'. reflexivity.
Qed.

(* the squeezed shape is the subsequence of the dims whose position is not in ks *)
Lemma drop_at_filter ks : forall sh pos,
  drop_at ks pos sh = map snd (filter (fun p => negb (memb (fst p) ks)) (combine (seq pos (length sh)) sh)).
Proof.
  induction sh as [|d sh IH]; intros pos; cbn [drop_at length seq combine filter map]; [reflexivity|].
  cbn [fst]. destruct (memb pos ks); cbn [negb map snd]; rewrite IH; reflexivity.
Qed.

Lemma norm_axes_In r axes ks : norm_axes r axes = Some ks ->
  length ks = length axes /\ forall k, In k ks -> k < r.
Proof.
  unfold norm_axes. intros H. destruct (mapo_spec _ _ _ H) as [L N]. split; [exact L|].
  intros k Hk. apply (In_nth _ _ 0) in Hk. destruct Hk as (j & Hj & <-).
  specialize (N j 0%Z 0 ltac:(lia)). apply norm_axis_spec in N. lia.
Qed.

(* ONNX Squeeze: removes the given axes (which must have extent 1), or all extent-1 axes when no
   axes are given; the elements and their order are unchanged *)
Theorem squeeze_spec x axes y : squeeze x axes = Some y ->
  data y = data x /\ numel (shape y) = numel (shape x) /\
  match axes with
  | None => shape y = filter (fun d => negb (d =? 1)) (shape x)
  | Some ax => exists ks, norm_axes (length (shape x)) ax = Some ks /\ NoDup ks /\
                 (forall k, In k ks -> nth k (shape x) 0 = 1) /\
                 shape y = map snd (filter (fun p => negb (memb (fst p) ks))
                                           (combine (seq 0 (length (shape x))) (shape x)))
  end.
Proof.
  unfold squeeze. destruct axes as [ax|].
  - destruct (norm_axes (length (shape x)) ax) as [ks|] eqn:Ea; [|discriminate].
    destruct (forallb (fun k => nth k (shape x) 0 =? 1) ks) eqn:E1; [|discriminate].
    destruct (nodupb ks) eqn:E2; [|discriminate]. cbn [andb].
    intros H; inversion H; subst y; clear H. cbn [shape data]. split; [reflexivity|].
    assert (Hone : forall k, In k ks -> nth k (shape x) 0 = 1).
    { intros k Hk. apply Nat.eqb_eq. apply (forallb_In _ _ _ E1 Hk). }
    destruct (norm_axes_In _ _ _ Ea) as [_ Hlt].
    split.
    + apply numel_drop_at. intros k Hk _. rewrite Nat.sub_0_r.
      rewrite (nth_indep _ 1 0) by (apply Hlt; exact Hk). apply Hone. exact Hk.
    + exists ks. split; [reflexivity|]. split; [apply nodupb_NoDup; exact E2|]. split; [exact Hone|].
      apply drop_at_filter.
  - intros H; inversion H; subst y; clear H. cbn [shape data]. split; [reflexivity|]. split; [|reflexivity].
    unfold numel. induction (shape x) as [|d sh IH]; cbn [filter]; [reflexivity|].
    destruct (d =? 1) eqn:E; cbn [negb fold_right].
    + apply Nat.eqb_eq in E. subst. rewrite IH. lia.
    + rewrite IH. reflexivity.
Qed.

Lemma filter_length_partition {A} (f : A -> bool) l :
  length (filter f l) + length (filter (fun x => negb (f x)) l) = length l.
Proof. induction l as [|x l IH]; cbn [filter length]; [reflexivity|]. destruct (f x); cbn [negb length]; lia. Qed.

Lemma count_members n ks : NoDup ks -> (forall k, In k ks -> k < n) ->
  length (filter (fun p => memb p ks) (seq 0 n)) = length ks.
Proof.
  intros Hnd Hlt. apply Permutation_length. apply NoDup_Permutation.
  - apply NoDup_filter. apply seq_NoDup.
  - exact Hnd.
  - intros k. rewrite filter_In, in_seq, memb_In. split; [tauto|]. intros Hk. split; [specialize (Hlt k Hk); lia|exact Hk].
Qed.

Lemma unsq_build_spec ks : forall n pos sh,
  length (filter (fun p => negb (memb p ks)) (seq pos n)) = length sh ->
  length (unsq_build n pos ks sh) = n /\
  (forall k, In k ks -> pos <= k < pos + n -> nth (k - pos) (unsq_build n pos ks sh) 0 = 1) /\
  drop_at ks pos (unsq_build n pos ks sh) = sh /\
  numel (unsq_build n pos ks sh) = numel sh.
Proof.
  induction n as [|n IH]; intros pos sh H; cbn [seq filter unsq_build] in *.
  - destruct sh; [|discriminate]. repeat split. intros k _ Hk. lia.
  - destruct (memb pos ks) eqn:E; cbn [negb] in H.
    + destruct (IH (S pos) sh H) as (L & O & D & Nm). cbn [length drop_at]. rewrite E.
      split; [lia|]. split; [|split; [exact D|]].
      * intros k Hk Hr. destruct (Nat.eq_dec k pos) as [->|Hne]; [rewrite Nat.sub_diag; reflexivity|].
        replace (k - pos) with (S (k - S pos)) by lia. cbn [nth]. apply O; [exact Hk|lia].
      * cbn [numel fold_right]. fold (numel (unsq_build n (S pos) ks sh)). lia.
    + cbn [length] in H. destruct sh as [|d sh]; [discriminate|]. cbn [length] in H.
      destruct (IH (S pos) sh ltac:(lia)) as (L & O & D & Nm). cbn [length drop_at]. rewrite E.
      split; [lia|]. split; [|split; [rewrite D; reflexivity|]].
      * intros k Hk Hr. destruct (Nat.eq_dec k pos) as [->|Hne].
        { apply memb_In in Hk. congruence. }
        replace (k - pos) with (S (k - S pos)) by lia. cbn [nth]. apply O; [exact Hk|lia].
      * cbn [numel fold_right]. fold (numel (unsq_build n (S pos) ks sh)). fold (numel sh). lia.
Qed.

(* ONNX Unsqueeze: the output rank is rank + len(axes); the (normalised, distinct) axes are the
   positions of the inserted extent-1 dims; removing them gives back the input shape *)
Theorem unsqueeze_spec x axes y : unsqueeze x axes = Some y ->
  exists ks, norm_axes (length (shape x) + length axes) axes = Some ks /\ NoDup ks /\
    data y = data x /\ length (shape y) = length (shape x) + length axes /\
    (forall k, In k ks -> nth k (shape y) 0 = 1) /\
    map snd (filter (fun p => negb (memb (fst p) ks)) (combine (seq 0 (length (shape y))) (shape y))) = shape x /\
    numel (shape y) = numel (shape x).
Proof.
  unfold unsqueeze. set (n := length (shape x) + length axes).
  destruct (norm_axes n axes) as [ks|] eqn:Ea; [|discriminate].
  destruct (nodupb ks) eqn:E; [|discriminate].
  intros H; inversion H; subst y; clear H. cbn [shape data].
  pose proof (nodupb_NoDup _ E) as Hnd. destruct (norm_axes_In _ _ _ Ea) as [Lk Hlt].
  exists ks. split; [reflexivity|]. split; [exact Hnd|]. split; [reflexivity|].
  assert (Hcount : length (filter (fun p => negb (memb p ks)) (seq 0 n)) = length (shape x)).
  { pose proof (filter_length_partition (fun p => memb p ks) (seq 0 n)) as P.
    rewrite (count_members n ks Hnd Hlt), seq_length in P. unfold n in *. lia. }
  destruct (unsq_build_spec ks n 0 (shape x) Hcount) as (L & O & D & Nm).
  split; [exact L|]. split; [|split; [|exact Nm]].
  - intros k Hk. specialize (O k Hk ltac:(specialize (Hlt k Hk); lia)). rewrite Nat.sub_0_r in O. exact O.
  - rewrite <- drop_at_filter. exact D.
Qed.
