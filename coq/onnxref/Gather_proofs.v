(* C15 -- Gather, GatherElements, GatherND, ScatterElements, ScatterND: index-level specifications. *)
From RV Require Import Prelude.
From OnnxRef Require Import RefBase RefBase_proofs OnnxRef Bcast_proofs Transpose_proofs Concat_proofs.
Open Scope nat_scope.

Lemma firstn_length_app {A} (a b : list A) : firstn (length a) (a ++ b) = a.
Proof. induction a; cbn; [destruct b; reflexivity|]. f_equal. exact IHa. Qed.

Lemma skipn_length_app {A} (a b : list A) : skipn (length a) (a ++ b) = b.
Proof. induction a; cbn; auto. Qed.

Lemma firstn_nth_skipn {A} (l : list A) : forall n d, n < length l ->
  l = firstn n l ++ [nth n l d] ++ skipn (S n) l.
Proof.
  induction l as [|x l IH]; intros n d Hn; cbn [length] in Hn; [lia|].
  destruct n; cbn [firstn nth skipn app]; [reflexivity|]. f_equal. apply IH. lia.
Qed.

Lemma get_In t idx : wf t -> valid (shape t) idx -> In (get t idx) (data t).
Proof. intros Hw Hv. unfold get. apply nth_In. rewrite Hw. apply ravel_lt. exact Hv. Qed.

(* negative index values count from the end; anything outside [-d, d-1] is an error *)
Lemma norm_idx_spec d v : idx_ok d v = true ->
  norm_idx d v < d /\ ((0 <= v)%Z /\ Z.of_nat (norm_idx d v) = v \/
                       (v < 0)%Z /\ Z.of_nat (norm_idx d v) = (v + Z.of_nat d)%Z).
Proof.
  unfold idx_ok, norm_idx. intros H. apply andb_true_iff in H. destruct H as [H1 H2].
  apply Z.leb_le in H1. apply Z.ltb_lt in H2.
  destruct (v <? 0)%Z eqn:E; [apply Z.ltb_lt in E|apply Z.ltb_ge in E]; split; try lia.
Qed.

Lemma forallb_In {A} (f : A -> bool) l x : forallb f l = true -> In x l -> f x = true.
Proof. intros H Hin. rewrite forallb_forall in H. apply H. exact Hin. Qed.

(* ONNX Gather: output[i ++ j ++ k] = data[i ++ [indices[j]] ++ k], i over the axes before `axis`,
   j over the shape of indices, k over the axes after `axis` *)
Theorem gather_spec axis x ind y : wf ind -> gather axis x ind = Some y ->
  exists ax, norm_axis (length (shape x)) axis = Some ax /\ wf y /\
    let d := nth ax (shape x) 0 in
    shape y = firstn ax (shape x) ++ shape ind ++ skipn (S ax) (shape x) /\
    forall i j k, valid (firstn ax (shape x)) i -> valid (shape ind) j -> valid (skipn (S ax) (shape x)) k ->
      idx_ok d (get ind j) = true /\
      valid (shape y) (i ++ j ++ k) /\
      valid (shape x) (i ++ [norm_idx d (get ind j)] ++ k) /\
      get y (i ++ j ++ k) = get x (i ++ [norm_idx d (get ind j)] ++ k).
Proof.
  intros Hw. unfold gather. destruct (norm_axis (length (shape x)) axis) as [ax|] eqn:Ea; [|discriminate].
  destruct (forallb (idx_ok (nth ax (shape x) 0)) (data ind)) eqn:Ef; [|discriminate].
  intros H; inversion H; subst y; clear H. exists ax. split; [reflexivity|]. split; [apply wf_tab|].
  cbv zeta. cbn [shape tab]. split; [reflexivity|].
  apply norm_axis_spec in Ea. destruct Ea as [Hax _].
  intros i j k Hi Hj Hk.
  pose proof (valid_length _ _ Hi) as Li. rewrite firstn_length_le in Li by lia.
  pose proof (valid_length _ _ Hj) as Lj.
  assert (Hok : idx_ok (nth ax (shape x) 0) (get ind j) = true).
  { apply (forallb_In _ _ _ Ef). apply get_In; assumption. }
  split; [exact Hok|].
  assert (Hv : valid (firstn ax (shape x) ++ shape ind ++ skipn (S ax) (shape x)) (i ++ j ++ k)).
  { apply valid_app; [exact Hi|]. apply valid_app; assumption. }
  split; [exact Hv|].
  destruct (norm_idx_spec _ _ Hok) as [Hlt _].
  split.
  - rewrite (firstn_nth_skipn (shape x) ax 0 Hax) at 1.
    apply valid_app; [exact Hi|]. apply valid_app; [|exact Hk]. constructor; [exact Hlt|constructor].
  - rewrite get_tab by exact Hv. cbv beta.
    rewrite <- Li at 1. rewrite firstn_length_app.
    replace (skipn ax (i ++ j ++ k)) with (j ++ k) by (rewrite <- Li; rewrite skipn_length_app; reflexivity).
    rewrite <- Lj. rewrite firstn_length_app.
    replace (skipn (ax + length j) (i ++ j ++ k)) with k.
    2:{ rewrite <- Li. rewrite app_assoc, <- app_length. rewrite skipn_length_app. reflexivity. }
    reflexivity.
Qed.

Lemma le_except_spec ax : forall a pos b, le_except ax pos a b = true ->
  length a = length b /\ forall k, k < length a -> pos + k <> ax -> nth k a 0 <= nth k b 0.
Proof.
  induction a as [|x a IH]; intros pos [|y b] H; cbn [le_except] in H; try discriminate.
  - split; [reflexivity|]. intros k Hk; cbn in Hk; lia.
  - apply andb_true_iff in H. destruct H as [H1 H2]. destruct (IH _ _ H2) as [L N].
    split; [cbn; lia|]. intros [|k] Hk Hne; cbn [nth].
    + apply orb_true_iff in H1. destruct H1 as [H1|H1]; [apply Nat.eqb_eq in H1; lia|apply Nat.leb_le in H1; exact H1].
    + apply N; [cbn in Hk; lia|lia].
Qed.

(* ONNX GatherElements: output has the shape of indices and
   output[idx] = data[idx with coordinate `axis` replaced by indices[idx]] *)
Theorem gather_elements_spec axis x ind y : wf ind -> gather_elements axis x ind = Some y ->
  exists ax, norm_axis (length (shape x)) axis = Some ax /\ wf y /\ shape y = shape ind /\
    length (shape ind) = length (shape x) /\
    let d := nth ax (shape x) 0 in
    forall idx, valid (shape ind) idx ->
      idx_ok d (get ind idx) = true /\
      valid (shape x) (upd idx ax (norm_idx d (get ind idx))) /\
      get y idx = get x (upd idx ax (norm_idx d (get ind idx))).
Proof.
  intros Hw. unfold gather_elements. destruct (norm_axis (length (shape x)) axis) as [ax|] eqn:Ea; [|discriminate].
  destruct (le_except ax 0 (shape ind) (shape x)) eqn:El; [|discriminate].
  destruct (forallb (idx_ok (nth ax (shape x) 0)) (data ind)) eqn:Ef; [|discriminate]. cbn [andb].
  intros H; inversion H; subst y; clear H. exists ax. split; [reflexivity|]. split; [apply wf_tab|].
  cbn [shape tab]. split; [reflexivity|]. destruct (le_except_spec _ _ _ _ El) as [L N]. split; [exact L|].
  apply norm_axis_spec in Ea. destruct Ea as [Hax _]. cbv zeta.
  intros idx Hv.
  assert (Hok : idx_ok (nth ax (shape x) 0) (get ind idx) = true).
  { apply (forallb_In _ _ _ Ef). apply get_In; assumption. }
  split; [exact Hok|]. destruct (norm_idx_spec _ _ Hok) as [Hlt _].
  pose proof (valid_length _ _ Hv) as Li.
  split; [|rewrite get_tab by exact Hv; reflexivity].
  apply valid_of_nth; [rewrite length_upd; lia|].
  intros k Hk. destruct (Nat.eq_dec k ax) as [->|Hne].
  - rewrite nth_upd_same by lia. exact Hlt.
  - rewrite nth_upd_other by exact Hne. pose proof (valid_nth _ _ k Hv ltac:(lia)).
    specialize (N k ltac:(lia) ltac:(cbn; lia)). lia.
Qed.

(* ---- GatherND ---- *)
Lemma valid_firstn sh : forall n idx, valid sh idx -> valid (firstn n sh) (firstn n idx).
Proof.
  induction sh as [|d sh IH]; intros n idx H.
  - apply valid_nil_inv in H; subst. destruct n; constructor.
  - apply valid_cons_inv in H. destruct H as (i & idx' & -> & Hi & Hv).
    destruct n; cbn [firstn]; constructor; [exact Hi|apply IH; exact Hv].
Qed.

Lemma firstn_firstn_le {A} (l : list A) : forall a b, a <= b -> firstn a (firstn b l) = firstn a l.
Proof.
  induction l as [|x l IH]; intros a b H; [rewrite !firstn_nil; reflexivity|].
  destruct a; [reflexivity|]. destruct b; [lia|]. cbn [firstn]. f_equal. apply IH. lia.
Qed.

Lemma nth_firstn_lt {A} (l : list A) : forall m t d, t < m -> nth t (firstn m l) d = nth t l d.
Proof.
  induction l as [|x l IH]; intros m t d H; [rewrite firstn_nil; reflexivity|].
  destruct m; [lia|]. destruct t; cbn [firstn nth]; [reflexivity|]. apply IH. lia.
Qed.

Lemma nd_tuple_valid b m sx ind i : nd_tuple_ok b m sx ind i = true ->
  valid (firstn m (skipn b sx)) (nd_tuple b m sx ind i) \/ length sx < b + m.
Proof.
  intros H. destruct (Nat.lt_ge_cases (length sx) (b + m)) as [Hlt|Hge]; [right; exact Hlt|left].
  apply valid_of_nth.
  - unfold nd_tuple. rewrite map_length, seq_length, firstn_length_le; [reflexivity|]. rewrite skipn_length. lia.
  - rewrite firstn_length_le by (rewrite skipn_length; lia). intros t Ht.
    unfold nd_tuple. rewrite nth_map_seq by exact Ht.
    unfold nd_tuple_ok in H. rewrite forallb_forall in H. specialize (H t ltac:(apply in_seq; lia)).
    destruct (norm_idx_spec _ _ H) as [Hlt _].
    rewrite nth_firstn_lt by exact Ht. rewrite nth_skipn_add. exact Hlt.
Qed.

Lemma skipn_skipn_add {A} (l : list A) : forall a b, skipn a (skipn b l) = skipn (b + a) l.
Proof.
  induction l as [|x l IH]; intros a b; [rewrite !skipn_nil; reflexivity|].
  destruct b; cbn [skipn Nat.add]; [reflexivity|]. apply IH.
Qed.

Lemma split3 {A} (l : list A) b m : b + m <= length l ->
  l = firstn b l ++ firstn m (skipn b l) ++ skipn (b + m) l.
Proof.
  intros H. rewrite <- (firstn_skipn b l) at 1. f_equal.
  rewrite <- (firstn_skipn m (skipn b l)) at 1. f_equal. rewrite skipn_skipn_add. reflexivity.
Qed.

(* ONNX GatherND with batch_dims = b: indices has shape pre ++ [m]; for i over pre and k over the
   trailing data dims, output[i ++ k] = data[i[:b] ++ indices[i ++ [0..m-1]] ++ k] *)
Theorem gather_nd_spec b x ind y : wf ind -> gather_nd b x ind = Some y ->
  let q := length (shape ind) in
  let m := last (shape ind) 0 in
  let pre := firstn (q - 1) (shape ind) in
  0 < q /\ b < q /\ 1 <= m /\ b + m <= length (shape x) /\
  firstn b (shape x) = firstn b (shape ind) /\ wf y /\
  shape y = pre ++ skipn (b + m) (shape x) /\
  forall i k, valid pre i -> valid (skipn (b + m) (shape x)) k ->
    let tup := nd_tuple b m (shape x) ind i in
    (forall t, t < m -> idx_ok (nth (b + t) (shape x) 0) (get ind (i ++ [t])) = true) /\
    valid (shape y) (i ++ k) /\ valid (shape x) (firstn b i ++ tup ++ k) /\
    get y (i ++ k) = get x (firstn b i ++ tup ++ k).
Proof.
  intros Hw. unfold gather_nd. cbv zeta.
  destruct ((length (shape ind) =? 0) || (length (shape x) =? 0)) eqn:E0; [discriminate|].
  apply orb_false_iff in E0. destruct E0 as [Eq Er]. apply Nat.eqb_neq in Eq, Er.
  set (q := length (shape ind)) in *. set (m := last (shape ind) 0). set (pre := firstn (q - 1) (shape ind)).
  destruct ((b <? q) && (b <? length (shape x)) && (1 <=? m) && (b + m <=? length (shape x))
            && list_eqb Nat.eqb (firstn b (shape x)) (firstn b (shape ind))
            && forallb (nd_tuple_ok b m (shape x) ind) (all_idx pre)) eqn:E1; [|discriminate].
  intros H; inversion H; subst y; clear H.
  repeat (apply andb_true_iff in E1; destruct E1 as [E1 ?]).
  apply Nat.ltb_lt in E1. apply Nat.leb_le in H2, H1. apply list_eqb_nat_eq in H0.
  split; [lia|]. split; [exact E1|]. split; [exact H2|]. split; [exact H1|]. split; [exact H0|].
  split; [apply wf_tab|]. cbn [shape tab]. split; [reflexivity|].
  intros i k Hi Hk.
  pose proof (valid_length _ _ Hi) as Li. unfold pre in Li. rewrite firstn_length_le in Li by (fold q; lia).
  assert (Hin : In i (all_idx pre)) by (apply In_all_idx; exact Hi).
  pose proof (forallb_In _ _ _ H Hin) as Hok.
  split.
  { intros t Ht. unfold nd_tuple_ok in Hok. rewrite forallb_forall in Hok. apply Hok. apply in_seq. lia. }
  assert (Hv : valid (pre ++ skipn (b + m) (shape x)) (i ++ k)) by (apply valid_app; assumption).
  split; [exact Hv|]. split.
  - rewrite (split3 (shape x) b m H1) at 1. apply valid_app.
    + rewrite H0. rewrite <- (firstn_firstn_le (shape ind) b (q - 1)) by lia. apply valid_firstn. exact Hi.
    + apply valid_app; [|exact Hk]. destruct (nd_tuple_valid _ _ _ _ _ Hok) as [Hv'|Hbad]; [exact Hv'|lia].
  - rewrite get_tab by exact Hv. cbv beta.
    replace (firstn (q - 1) (i ++ k)) with i by (rewrite <- Li; rewrite firstn_length_app; reflexivity).
    replace (skipn (q - 1) (i ++ k)) with k by (rewrite <- Li; rewrite skipn_length_app; reflexivity).
    replace (firstn b (i ++ k)) with (firstn b i); [reflexivity|].
    rewrite firstn_app. replace (b - length i) with 0 by lia. cbn [firstn]. rewrite app_nil_r. reflexivity.
Qed.

(* ---- Scatter ---- *)
Lemma filter_map_pair {A B} (f : A -> B) (g : A -> Z) (P : B -> bool) l :
  map snd (filter (fun t => P (fst t)) (map (fun a => (f a, g a)) l)) = map g (filter (fun a => P (f a)) l).
Proof.
  induction l as [|a l IH]; cbn [map filter fst]; [reflexivity|].
  destruct (P (f a)); cbn [map snd]; rewrite IH; reflexivity.
Qed.

Lemma fold_left_add us : forall v, fold_left Z.add us v = (v + sumZ us)%Z.
Proof. induction us as [|u us IH]; intros v; cbn [fold_left sumZ fold_right]; [lia|]. rewrite IH. unfold sumZ. lia. Qed.

Lemma fold_left_mul us : forall v, fold_left Z.mul us v = (v * prodZ us)%Z.
Proof. induction us as [|u us IH]; intros v; cbn [fold_left prodZ fold_right]; [lia|]. rewrite IH. unfold prodZ. lia. Qed.

Lemma fold_left_max us : forall v, fold_left Z.max us v = fold_right Z.max v us.
Proof.
  induction us as [|u us IH]; intros v; cbn [fold_left fold_right]; [reflexivity|]. rewrite IH.
  clear IH. induction us as [|w us IH]; cbn [fold_right]; lia.
Qed.

Lemma fold_left_min us : forall v, fold_left Z.min us v = fold_right Z.min v us.
Proof.
  induction us as [|u us IH]; intros v; cbn [fold_left fold_right]; [reflexivity|]. rewrite IH.
  clear IH. induction us as [|w us IH]; cbn [fold_right]; lia.
Qed.

(* how the updates that target one element are combined with its data value *)
Theorem scatter_apply_spec v us :
  scatter_apply SAdd v us = Some (v + sumZ us)%Z /\
  scatter_apply SMul v us = Some (v * prodZ us)%Z /\
  scatter_apply SMax v us = Some (fold_right Z.max v us) /\
  scatter_apply SMin v us = Some (fold_right Z.min v us) /\
  scatter_apply SNone v [] = Some v /\ (forall u, scatter_apply SNone v [u] = Some u) /\
  (forall u1 u2 r, scatter_apply SNone v (u1 :: u2 :: r) = None).
Proof.
  cbn [scatter_apply]. rewrite fold_left_add, fold_left_mul, fold_left_max, fold_left_min. repeat split.
Qed.

(* ONNX ScatterElements: output = data, then for every index position idx of indices (row-major
   order) output[idx with coordinate axis := indices[idx]] is combined with updates[idx] *)
Theorem scatter_elements_spec red axis x ind upd_ y : wf ind -> scatter_elements red axis x ind upd_ = Some y ->
  exists ax, norm_axis (length (shape x)) axis = Some ax /\ wf y /\ shape y = shape x /\
    shape ind = shape upd_ /\ length (shape ind) = length (shape x) /\
    let d := nth ax (shape x) 0 in
    let tgt idx := upd idx ax (norm_idx d (get ind idx)) in
    (forall idx, valid (shape ind) idx -> idx_ok d (get ind idx) = true /\ valid (shape x) (tgt idx)) /\
    forall p, valid (shape x) p ->
      scatter_apply red (get x p)
        (map (get upd_) (filter (fun idx => list_eqb Nat.eqb (tgt idx) p) (all_idx (shape ind))))
      = Some (get y p).
Proof.
  intros Hw. unfold scatter_elements.
  destruct (norm_axis (length (shape x)) axis) as [ax|] eqn:Ea; [|discriminate].
  destruct (list_eqb Nat.eqb (shape ind) (shape upd_)) eqn:E1; [|discriminate].
  destruct (le_except ax 0 (shape ind) (shape x)) eqn:El; [|discriminate].
  destruct (forallb (idx_ok (nth ax (shape x) 0)) (data ind)) eqn:Ef; [|discriminate]. cbn [andb].
  intros H. apply tabo_spec in H. destruct H as (Hs & Hwy & Hg).
  exists ax. split; [reflexivity|]. split; [exact Hwy|]. split; [exact Hs|].
  apply list_eqb_nat_eq in E1. split; [exact E1|].
  destruct (le_except_spec _ _ _ _ El) as [L N]. split; [exact L|].
  apply norm_axis_spec in Ea. destruct Ea as [Hax _]. cbv zeta. split.
  - intros idx Hv.
    assert (Hok : idx_ok (nth ax (shape x) 0) (get ind idx) = true).
    { apply (forallb_In _ _ _ Ef). apply get_In; assumption. }
    split; [exact Hok|]. destruct (norm_idx_spec _ _ Hok) as [Hlt _].
    pose proof (valid_length _ _ Hv) as Li.
    apply valid_of_nth; [rewrite length_upd; lia|].
    intros k Hk. destruct (Nat.eq_dec k ax) as [->|Hne].
    + rewrite nth_upd_same by lia. exact Hlt.
    + rewrite nth_upd_other by exact Hne. pose proof (valid_nth _ _ k Hv ltac:(lia)).
      specialize (N k ltac:(lia) ltac:(cbn; lia)). lia.
  - intros p Hp. rewrite <- (Hg p Hp).
    rewrite (filter_map_pair (fun idx => upd idx ax (norm_idx (nth ax (shape x) 0) (get ind idx))) (get upd_)
               (fun t => list_eqb Nat.eqb t p)). reflexivity.
Qed.

Lemma filter_map_pair2 {A B} (f : A -> B) (h : A -> B -> Z) (P : B -> bool) l :
  map (fun t => h (fst t) (snd t)) (filter (fun t => P (snd t)) (map (fun a => (a, f a)) l))
  = map (fun a => h a (f a)) (filter (fun a => P (f a)) l).
Proof.
  induction l as [|a l IH]; cbn [map filter snd]; [reflexivity|].
  destruct (P (f a)); cbn [map fst snd]; rewrite IH; reflexivity.
Qed.

(* ONNX ScatterND: indices has shape pre ++ [m]; for every i over pre (row-major order) the slice
   output[indices[i] ++ :] is combined with updates[i ++ :] *)
Theorem scatter_nd_spec red x ind upd_ y : scatter_nd red x ind upd_ = Some y ->
  let q := length (shape ind) in
  let m := last (shape ind) 0 in
  let pre := firstn (q - 1) (shape ind) in
  0 < q /\ 1 <= m <= length (shape x) /\ shape upd_ = pre ++ skipn m (shape x) /\
  wf y /\ shape y = shape x /\
  (forall i t, valid pre i -> t < m -> idx_ok (nth t (shape x) 0) (get ind (i ++ [t])) = true) /\
  forall p, valid (shape x) p ->
    scatter_apply red (get x p)
      (map (fun i => get upd_ (i ++ skipn m p))
           (filter (fun i => list_eqb Nat.eqb (nd_tuple 0 m (shape x) ind i) (firstn m p)) (all_idx pre)))
    = Some (get y p).
Proof.
  unfold scatter_nd. cbv zeta.
  destruct ((length (shape ind) =? 0) || (length (shape x) =? 0)) eqn:E0; [discriminate|].
  apply orb_false_iff in E0. destruct E0 as [Eq Er]. apply Nat.eqb_neq in Eq, Er.
  set (q := length (shape ind)) in *. set (m := last (shape ind) 0). set (pre := firstn (q - 1) (shape ind)).
  destruct ((m <=? length (shape x)) && (1 <=? m) && list_eqb Nat.eqb (shape upd_) (pre ++ skipn m (shape x))
            && forallb (nd_tuple_ok 0 m (shape x) ind) (all_idx pre)) eqn:E1; [|discriminate].
  repeat (apply andb_true_iff in E1; destruct E1 as [E1 ?]).
  apply Nat.leb_le in E1, H1. apply list_eqb_nat_eq in H0.
  intros Hy. apply tabo_spec in Hy. destruct Hy as (Hs & Hwy & Hg).
  split; [lia|]. split; [lia|]. split; [exact H0|]. split; [exact Hwy|]. split; [exact Hs|]. split.
  - intros i t Hi Ht. assert (Hin : In i (all_idx pre)) by (apply In_all_idx; exact Hi).
    pose proof (forallb_In _ _ _ H Hin) as Hok. unfold nd_tuple_ok in Hok.
    rewrite forallb_forall in Hok. apply (Hok t). apply in_seq. lia.
  - intros p Hp. rewrite <- (Hg p Hp).
    rewrite (filter_map_pair2 (nd_tuple 0 m (shape x) ind) (fun i _ => get upd_ (i ++ skipn m p))
               (fun t => list_eqb Nat.eqb t (firstn m p))). reflexivity.
Qed.
