(* Model of the arithmetic that decides whether untrusted model bytes are accepted:
     rten-model-file/src/header.rs     Header::from_buf / to_buf
     src/model/rten_loader.rs          load (model slice), add_graph_constant,
                                       constant_data_from_flatbuffers_vec / _from_storage_offset
     src/model/onnx_loader.rs          load_constant: shape conversion, element counts of raw / typed
                                       data, tensor_from_bytes / tensor_from_elements (try_from_data)
     rten-tensor/src/tensor.rs         try_from_data (the *checked* version, finding F4 fixed by C06)
   Executable definitions only.  usize = u64 (64-bit targets).

   [r_checked] selects the .rten constant code after (true) / before (false) the F13 fix commit;
   [debug] selects overflow-checking (panic) or wrapping arithmetic for the unchecked code. *)
From RV Require Import Prelude.
From Loader Require Import Pins.
Open Scope N_scope.

(* ------------------------------------------------------------------ little-endian fields *)
Definition blen (b : list N) : N := N.of_nat (length b).

Fixpoint le_decode (bytes : list N) : N :=
  match bytes with
  | [] => 0
  | x :: r => x + 256 * le_decode r
  end.
Fixpoint le_encode (k : nat) (v : N) : list N :=
  match k with
  | O => []
  | S k' => (v mod 256) :: le_encode k' (v / 256)
  end.

(* ValueReader::read_n / read: `buf.get(pos..pos+N)` *)
Definition take_n (k : nat) (b : list N) : option (list N * list N) :=
  if (k <=? length b)%nat then Some (firstn k b, skipn k b) else None.

(* ------------------------------------------------------------------ Header *)
Inductive herr := HTooShort | HVersion | HMagic | HOffset | HLength.
Inductive hres := HOk (version mo ml tdo : N) | HErr (e : herr) | HPanic | HNotRun.

(* Header::LEN is pinned from the source: Pins.HEADER_LEN *)
Definition magic : list N := [82; 84; 69; 78].     (* "RTEN" *)

Definition sat_add64 (a b : N) : N := N.min (a + b) u64_max.

Fixpoint list_eqb (a b : list N) : bool :=
  match a, b with
  | [], [] => true
  | x :: r, y :: s => (x =? y) && list_eqb r s
  | _, _ => false
  end.

Definition from_buf (buf : list N) : hres :=
  let file_size := blen buf in
  match take_n 4 buf with
  | None => HErr HTooShort
  | Some (m, r1) =>
    if negb (list_eqb m magic) then HErr HMagic else
    match take_n 4 r1 with
    | None => HErr HTooShort
    | Some (v, r2) =>
      let version := le_decode v in
      if negb (version =? 2) then HErr HVersion else
      match take_n 8 r2 with
      | None => HErr HTooShort
      | Some (a, r3) =>
        let mo := le_decode a in
        if (mo <? HEADER_LEN) || (file_size <? mo) then HErr HOffset else
        match take_n 8 r3 with
        | None => HErr HTooShort
        | Some (l, r4) =>
          let ml := le_decode l in
          if file_size <? sat_add64 mo ml then HErr HLength else
          match take_n 8 r4 with
          | None => HErr HTooShort
          | Some (t, _) =>
            let tdo := le_decode t in
            if (tdo <? HEADER_LEN) || (file_size <? tdo) then HErr HOffset
            else HOk version mo ml tdo
          end
        end
      end
    end
  end.

Definition to_buf (version mo ml tdo : N) : list N :=
  magic ++ le_encode 4 version ++ le_encode 8 mo ++ le_encode 8 ml ++ le_encode 8 tdo.

(* ------------------------------------------------------------------ constants *)
Inductive lres :=
  LOk (shape : list N) (len : N)      (* loaded; shape recorded for the constant, elements read by a run *)
| LErr                                (* load error *)
| LRunErr (shape : list N)            (* loaded, run failed with an error *)
| LPanic | LTimeout | LAbort
| LLoaded                             (* whole-file observation: loaded *)
| LNotRun.

(* usize multiplication / addition of the unchecked code *)
Inductive ar := AOk (v : N) | APanic.
Definition mul64 (debug : bool) (a b : N) : ar :=
  if a * b <? two64 then AOk (a * b) else if debug then APanic else AOk (wrap64 (a * b)).
Definition add64 (debug : bool) (a b : N) : ar :=
  if a + b <? two64 then AOk (a + b) else if debug then APanic else AOk (wrap64 (a + b)).
Fixpoint product64 (debug : bool) (shape : list N) (acc : N) : ar :=     (* shape.iter().product() *)
  match shape with
  | [] => AOk acc
  | d :: r => match mul64 debug acc d with AOk v => product64 debug r v | APanic => APanic end
  end.

(* exact product, and `try_fold(1, checked_mul)` *)
Definition prod (shape : list N) : N := fold_left N.mul shape 1.
Fixpoint checked_len (shape : list N) (acc : N) : option N :=
  match shape with
  | [] => Some acc
  | d :: r => if acc * d <? two64 then checked_len r (acc * d) else None
  end.

(* Tensor::try_from_data for a contiguous layout, after the F4 fix (checked_non_zero_len):
   accepted iff the product of the non-zero sizes fits in usize and the element count equals
   the data length *)
Definition nonzero_fits (shape : list N) : bool :=
  match checked_len (filter (fun d => negb (d =? 0)) shape) 1 with Some _ => true | None => false end.
Definition try_from_data (shape : list N) (len : N) : bool :=
  nonzero_fits shape && (prod shape =? len).

(* ---- .rten constant.  [esize] = size_of::<T>() (1 or 4); inline data has [nelem] elements;
        external data lives at tensor_data_offset + data_offset in a file of [flen] bytes ---- *)
Inductive rmode := MInl | MInl1 | MExt.

Definition rten_inline (checked debug : bool) (shape : list N) (nelem : N) : lres :=
  if checked then
    match checked_len shape 1 with
    | Some n => if (n =? nelem) && try_from_data shape nelem then LOk shape nelem else LErr
    | None => LErr
    end
  else
    (* from_data = try_from_data(..).expect(..) *)
    if try_from_data shape nelem then LOk shape nelem else LPanic.

Definition rten_external (checked debug : bool) (esize : N) (shape : list N)
    (data_offset tdo flen : N) : lres :=
  (* tensor_data_offset.checked_add(data_offset) *)
  if two64 <=? tdo + data_offset then LErr else
  let offset := tdo + data_offset in
  if checked then
    match checked_len shape 1 with
    | None => LErr
    | Some n =>
      if two64 <=? n * esize then LErr
      else if two64 <=? offset + n * esize then LErr
      else if flen <? offset + n * esize then LErr          (* data().get(range) *)
      else if try_from_data shape n then LOk shape n else LErr
    end
  else
    match product64 debug shape 1 with
    | APanic => LPanic
    | AOk n =>
      match mul64 debug n esize with
      | APanic => LPanic
      | AOk byte_len =>
        match add64 debug offset byte_len with
        | APanic => LPanic
        | AOk e =>
          if (e <? offset) || (flen <? e) then LErr          (* get(offset..e) *)
          else
            let got := (e - offset) / esize in
            if try_from_data shape got then LOk shape got else LPanic
        end
      end
    end.

Definition rten_constant (checked debug : bool) (m : rmode) (esize : N) (shape : list N)
    (nelem data_offset tdo flen : N) : lres :=
  match m with
  | MExt => rten_external checked debug esize shape data_offset tdo flen
  | _ => rten_inline checked debug shape nelem
  end.

(* ---- ONNX initializer: dims are i64, data is raw bytes or a typed field ---- *)
Definition onnx_shape (dims : list Z) : option (list N) :=        (* dim.try_into::<usize>() *)
  if forallb (fun d => (0 <=? d)%Z) dims then Some (map Z.to_N dims) else None.

(* (element size of the stored type, reinterpreted without copying?) per ONNX data type *)
Definition onnx_esize (dtype : N) : option (N * bool) :=
  if dtype =? 1 then Some (4, true)          (* FLOAT  -> f32 view *)
  else if dtype =? 6 then Some (4, true)     (* INT32  -> i32 view *)
  else if dtype =? 2 then Some (1, true)     (* UINT8 *)
  else if dtype =? 3 then Some (1, true)     (* INT8 *)
  else if dtype =? 7 then Some (8, false)    (* INT64  -> converted to i32 *)
  else if dtype =? 9 then Some (1, false)    (* BOOL   -> converted to i32 *)
  else if dtype =? 11 then Some (8, false)   (* DOUBLE -> converted to f32 *)
  else if dtype =? 10 then Some (2, false)   (* FLOAT16 -> converted to f32 *)
  else None.

Definition onnx_constant (dtype : N) (dims : list Z) (raw : bool) (n : N) : lres :=
  match onnx_shape dims with
  | None => LErr
  | Some shape =>
    match onnx_esize dtype with
    | None => LErr
    | Some (es, view) =>
      if raw then
        if view then
          (* ArcSlice::from_bytes: length must be a multiple of the element size *)
          if n mod es =? 0 then (if try_from_data shape (n / es) then LOk shape (n / es) else LErr) else LErr
        else if (dtype =? 10) && negb (n mod es =? 0) then LErr   (* f16: cast_slice needs whole elements *)
        else
          (* elements_from_le_bytes: whole chunks, the rest is ignored *)
          if try_from_data shape (n / es) then LOk shape (n / es) else LErr
      else if try_from_data shape n then LOk shape n else LErr
    end
  end.

(* ------------------------------------------------------------------ correspondence cases *)
Inductive case :=
  CHdr (buf : list N) (out : hres) (tobuf : list N)
| CRten (debug : bool) (m : rmode) (esize : N) (shape : list N) (nelem data_offset tdlen tdo flen : N) (out : lres)
| COnnx (debug : bool) (dtype : N) (dims : list Z) (raw : bool) (n : N) (out : lres)
| CLoad (out : lres).

(* the code variant under test: RTEN_CHECKED is regenerated into Pins.v from the Rust source *)
Definition hres_eqb (a b : hres) : bool :=
  match a, b with
  | HOk v mo ml t, HOk v' mo' ml' t' => (v =? v') && (mo =? mo') && (ml =? ml') && (t =? t')
  | HErr x, HErr y =>
      match x, y with
      | HTooShort, HTooShort | HVersion, HVersion | HMagic, HMagic | HOffset, HOffset | HLength, HLength => true
      | _, _ => false
      end
  | HPanic, HPanic => true
  | _, _ => false
  end.
Definition lres_eqb (a b : lres) : bool :=
  match a, b with
  | LOk s n, LOk s' n' => list_eqb s s' && (n =? n')
  | LErr, LErr | LPanic, LPanic | LTimeout, LTimeout | LAbort, LAbort | LLoaded, LLoaded => true
  | LRunErr s, LRunErr s' => list_eqb s s'
  | _, _ => false
  end.

Definition model_of (c : case) : lres :=
  match c with
  | CRten debug m es shape nelem off _ tdo flen _ => rten_constant RTEN_CHECKED debug m es shape nelem off tdo flen
  | COnnx _ dtype dims raw n _ => onnx_constant dtype dims raw n
  | _ => LNotRun
  end.

Definition agree (c : case) : bool :=
  match c with
  | CHdr buf HNotRun _ => true
  | CHdr buf out tobuf =>
      hres_eqb (from_buf buf) out &&
      match out with
      | HOk v mo ml t => list_eqb (to_buf v mo ml t) tobuf && list_eqb tobuf (firstn 32 buf)
      | _ => true
      end
  | CRten _ _ _ _ _ _ _ _ _ LNotRun | COnnx _ _ _ _ _ LNotRun => true
  | CRten _ _ _ _ _ _ _ _ _ out | COnnx _ _ _ _ _ out => lres_eqb (model_of c) out
  | CLoad _ => true                                   (* run-time observation only *)
  end.

(* the property on the implementation's own outcome *)
Definition lres_ok (o : lres) : bool :=
  match o with
  | LOk shape len => nonzero_fits shape && (prod shape =? len)   (* element count fits and matches the data *)
  | LErr | LLoaded | LNotRun => true
  | LRunErr _ => true
  | LPanic | LTimeout | LAbort => false
  end.

Definition prop_ok (c : case) : bool :=
  match c with
  | CHdr buf out _ =>
      match out with
      | HOk v mo ml t =>
          (32 <=? mo) && (mo <=? blen buf) && (mo + ml <=? blen buf) && (32 <=? t) && (t <=? blen buf)
      | HErr _ | HNotRun => true
      | HPanic => false
      end
  | CRten _ _ _ _ _ _ _ _ _ out | COnnx _ _ _ _ _ out | CLoad out => lres_ok out
  end.

Definition show (c : case) :=
  match c with
  | CHdr buf _ _ => (from_buf buf, LNotRun)
  | _ => (HNotRun, model_of c)
  end.
