(* Lemmas for C05: header round trip / bounds, constant acceptance soundness, no panic. *)
From RV Require Import Prelude.
From Loader Require Import Pins ModelC05.
Open Scope N_scope.

(* ------------------------------------------------------------------ little-endian fields *)
Lemma le_encode_length k v : length (le_encode k v) = k.
Proof. revert v; induction k as [|k IH]; intros v; cbn [le_encode length]; [reflexivity|]. rewrite IH. reflexivity. Qed.

Lemma le_roundtrip k : forall v, v < 256 ^ N.of_nat k -> le_decode (le_encode k v) = v.
Proof.
  induction k as [|k IH]; intros v Hv.
  - cbn in *. lia.
  - cbn [le_encode le_decode]. rewrite IH.
    + pose proof (N.div_mod v 256 ltac:(lia)). lia.
    + rewrite Nat2N.inj_succ, N.pow_succ_r' in Hv.
      apply N.div_lt_upper_bound; lia.
Qed.

Lemma take_n_app k a r : length a = k -> take_n k (a ++ r) = Some (a, r).
Proof.
  intros H. unfold take_n. rewrite app_length, H.
  assert (E : (k <=? k + length r)%nat = true) by (apply Nat.leb_le; lia). rewrite E.
  rewrite <- H. rewrite firstn_app, firstn_all, Nat.sub_diag, firstn_O, app_nil_r.
  rewrite skipn_app, skipn_all, Nat.sub_diag, skipn_O. reflexivity.
Qed.

Lemma take_n_some k b a r : take_n k b = Some (a, r) -> b = a ++ r /\ length a = k.
Proof.
  unfold take_n. destruct (k <=? length b)%nat eqn:E; [|discriminate]. intros [= <- <-].
  apply Nat.leb_le in E. split; [symmetry; apply firstn_skipn|apply firstn_length_le; exact E].
Qed.

Lemma list_eqb_refl a : list_eqb a a = true.
Proof. induction a as [|x r IH]; cbn; [reflexivity|]. rewrite N.eqb_refl, IH. reflexivity. Qed.

Lemma list_eqb_eq a : forall b, list_eqb a b = true -> a = b.
Proof.
  induction a as [|x r IH]; intros [|y s] H; cbn in H; try discriminate; [reflexivity|].
  apply andb_true_iff in H. destruct H as [H1 H2]. apply N.eqb_eq in H1. subst. f_equal. apply IH. exact H2.
Qed.

Lemma blen_app a b : blen (a ++ b) = blen a + blen b.
Proof. unfold blen. rewrite app_length. lia. Qed.

(* ------------------------------------------------------------------ header *)
Lemma header_roundtrip version mo ml tdo rest :
  let buf := to_buf version mo ml tdo ++ rest in
  version = 2 -> blen buf < two64 ->
  HEADER_LEN <= mo -> mo <= blen buf -> mo + ml <= blen buf ->
  HEADER_LEN <= tdo -> tdo <= blen buf ->
  from_buf buf = HOk version mo ml tdo.
Proof.
  intros buf Hv Hlen Hmo1 Hmo2 Hml Ht1 Ht2.
  assert (T64 : two64 = 256 ^ N.of_nat 8) by reflexivity.
  assert (Hmo : mo < 256 ^ N.of_nat 8) by lia.
  assert (Hmlb : ml < 256 ^ N.of_nat 8) by lia.
  assert (Htb : tdo < 256 ^ N.of_nat 8) by lia.
  subst buf. unfold from_buf. cbv zeta.
  set (L := blen (to_buf version mo ml tdo ++ rest)) in *.
  unfold to_buf. rewrite <- !app_assoc.
  rewrite (take_n_app 4 magic) by reflexivity.
  rewrite list_eqb_refl. cbn [negb].
  rewrite (take_n_app 4 (le_encode 4 version)) by apply le_encode_length.
  rewrite le_roundtrip by (subst; cbn; lia).
  subst version. cbn [N.eqb negb]. change (2 =? 2) with true. cbn [negb].
  rewrite (take_n_app 8 (le_encode 8 mo)) by apply le_encode_length.
  rewrite le_roundtrip by exact Hmo.
  assert (E1 : (mo <? HEADER_LEN) || (L <? mo) = false).
  { apply orb_false_iff. split; apply N.ltb_ge; assumption. }
  rewrite E1.
  rewrite (take_n_app 8 (le_encode 8 ml)) by apply le_encode_length.
  rewrite le_roundtrip by exact Hmlb.
  assert (E2 : L <? sat_add64 mo ml = false).
  { apply N.ltb_ge. unfold sat_add64. lia. }
  rewrite E2.
  rewrite (take_n_app 8 (le_encode 8 tdo)) by apply le_encode_length.
  rewrite le_roundtrip by exact Htb.
  assert (E3 : (tdo <? HEADER_LEN) || (L <? tdo) = false).
  { apply orb_false_iff. split; apply N.ltb_ge; assumption. }
  rewrite E3. reflexivity.
Qed.

Lemma header_accept_bounds buf version mo ml tdo :
  blen buf < u64_max ->
  from_buf buf = HOk version mo ml tdo ->
  version = 2 /\ HEADER_LEN <= mo /\ mo <= blen buf /\ mo + ml <= blen buf /\
  HEADER_LEN <= tdo /\ tdo <= blen buf.
Proof.
  intros Hlen. unfold from_buf.
  destruct (take_n 4 buf) as [[m r1]|]; [|discriminate].
  destruct (negb (list_eqb m magic)); [discriminate|].
  destruct (take_n 4 r1) as [[v r2]|]; [|discriminate].
  destruct (negb (le_decode v =? 2)) eqn:Ev; [discriminate|].
  destruct (take_n 8 r2) as [[a r3]|]; [|discriminate].
  destruct ((le_decode a <? HEADER_LEN) || (blen buf <? le_decode a)) eqn:E1; [discriminate|].
  destruct (take_n 8 r3) as [[l r4]|]; [|discriminate].
  destruct (blen buf <? sat_add64 (le_decode a) (le_decode l)) eqn:E2; [discriminate|].
  destruct (take_n 8 r4) as [[t r5]|]; [|discriminate].
  destruct ((le_decode t <? HEADER_LEN) || (blen buf <? le_decode t)) eqn:E3; [discriminate|].
  intros [= <- <- <- <-].
  apply negb_false_iff, N.eqb_eq in Ev.
  apply orb_false_iff in E1. destruct E1 as [E1a E1b]. apply N.ltb_ge in E1a, E1b.
  apply orb_false_iff in E3. destruct E3 as [E3a E3b]. apply N.ltb_ge in E3a, E3b.
  apply N.ltb_ge in E2. unfold sat_add64 in E2.
  repeat split; try assumption.
  destruct (N.min_spec (le_decode a + le_decode l) u64_max) as [[_ Hm]|[_ Hm]]; rewrite Hm in E2; lia.
Qed.

Lemma header_total buf : from_buf buf <> HPanic /\ from_buf buf <> HNotRun.
Proof.
  unfold from_buf.
  destruct (take_n 4 buf) as [[m r1]|]; [|split; discriminate].
  destruct (negb (list_eqb m magic)); [split; discriminate|].
  destruct (take_n 4 r1) as [[v r2]|]; [|split; discriminate].
  destruct (negb (le_decode v =? 2)); [split; discriminate|].
  destruct (take_n 8 r2) as [[a r3]|]; [|split; discriminate].
  destruct ((le_decode a <? HEADER_LEN) || (blen buf <? le_decode a)); [split; discriminate|].
  destruct (take_n 8 r3) as [[l r4]|]; [|split; discriminate].
  destruct (blen buf <? sat_add64 (le_decode a) (le_decode l)); [split; discriminate|].
  destruct (take_n 8 r4) as [[t r5]|]; [|split; discriminate].
  destruct ((le_decode t <? HEADER_LEN) || (blen buf <? le_decode t)); split; discriminate.
Qed.

(* ------------------------------------------------------------------ products *)
Lemma fold_mul_acc shape : forall acc, fold_left N.mul shape acc = acc * fold_left N.mul shape 1.
Proof.
  induction shape as [|d r IH]; intros acc; cbn [fold_left]; [lia|].
  rewrite IH. rewrite (IH (1 * d)). lia.
Qed.

Lemma checked_len_spec shape : forall acc n,
  acc < two64 -> checked_len shape acc = Some n -> n = fold_left N.mul shape acc /\ n < two64.
Proof.
  induction shape as [|d r IH]; intros acc n Hacc H; cbn [checked_len fold_left] in *.
  - inversion H; subst. auto.
  - destruct (acc * d <? two64) eqn:E; [|discriminate]. apply N.ltb_lt in E. apply IH; assumption.
Qed.

Lemma prod_filter_nonzero shape :
  forallb (fun d => negb (d =? 0)) shape = true ->
  filter (fun d => negb (d =? 0)) shape = shape.
Proof.
  induction shape as [|d r IH]; cbn; [reflexivity|]. intros H. apply andb_true_iff in H. destruct H as [H1 H2].
  rewrite H1. f_equal. apply IH. exact H2.
Qed.

Lemma prod_zero shape : existsb (fun d => d =? 0) shape = true -> prod shape = 0.
Proof.
  unfold prod. induction shape as [|d r IH]; cbn [existsb fold_left]; [discriminate|].
  intros H. rewrite fold_mul_acc. apply orb_true_iff in H. destruct H as [H|H].
  - apply N.eqb_eq in H. subst. lia.
  - rewrite (IH H). lia.
Qed.

Lemma all_or_zero shape :
  forallb (fun d => negb (d =? 0)) shape = true \/ existsb (fun d => d =? 0) shape = true.
Proof.
  induction shape as [|d r IH]; cbn; [left; reflexivity|].
  destruct (d =? 0); cbn; [right; reflexivity|exact IH].
Qed.

Lemma nonzero_fits_prod shape : nonzero_fits shape = true -> prod shape < two64.
Proof.
  unfold nonzero_fits. destruct (checked_len (filter (fun d => negb (d =? 0)) shape) 1) as [n|] eqn:E; [|discriminate].
  intros _. destruct (all_or_zero shape) as [H|H].
  - rewrite (prod_filter_nonzero shape H) in E. apply checked_len_spec in E; [|reflexivity].
    unfold prod. destruct E as [<- E]. exact E.
  - rewrite (prod_zero shape H). reflexivity.
Qed.

Lemma try_from_data_spec shape len :
  try_from_data shape len = true -> prod shape = len /\ prod shape < two64.
Proof.
  unfold try_from_data. intros H. apply andb_true_iff in H. destruct H as [H1 H2].
  apply N.eqb_eq in H2. split; [exact H2|apply nonzero_fits_prod; exact H1].
Qed.

(* ------------------------------------------------------------------ .rten constants *)
Lemma rten_accept_sound debug m esize shape nelem off tdo flen s n :
  rten_constant true debug m esize shape nelem off tdo flen = LOk s n ->
  s = shape /\ n = prod shape /\ prod shape < two64 /\
  match m with
  | MExt => tdo + off + n * esize <= flen /\ tdo + off + n * esize < two64
  | _ => n = nelem
  end.
Proof.
  unfold rten_constant, rten_inline, rten_external.
  destruct m.
  - destruct (checked_len shape 1) as [k|] eqn:E; [|discriminate].
    destruct ((k =? nelem) && try_from_data shape nelem) eqn:E2; [|discriminate].
    intros [= <- <-]. apply andb_true_iff in E2. destruct E2 as [E2 E3]. apply try_from_data_spec in E3.
    destruct E3 as [E3 E4]. repeat split; auto.
  - destruct (checked_len shape 1) as [k|] eqn:E; [|discriminate].
    destruct ((k =? nelem) && try_from_data shape nelem) eqn:E2; [|discriminate].
    intros [= <- <-]. apply andb_true_iff in E2. destruct E2 as [E2 E3]. apply try_from_data_spec in E3.
    destruct E3 as [E3 E4]. repeat split; auto.
  - destruct (two64 <=? tdo + off) eqn:E0; [discriminate|].
    destruct (checked_len shape 1) as [k|] eqn:E; [|discriminate].
    destruct (two64 <=? k * esize) eqn:E1; [discriminate|].
    destruct (two64 <=? tdo + off + k * esize) eqn:E2; [discriminate|].
    destruct (flen <? tdo + off + k * esize) eqn:E3; [discriminate|].
    destruct (try_from_data shape k) eqn:E4; [|discriminate].
    intros [= <- <-]. apply try_from_data_spec in E4. destruct E4 as [E4 E5].
    apply N.leb_gt in E2. apply N.ltb_ge in E3.
    repeat split; auto.
Qed.

Lemma rten_no_panic debug m esize shape nelem off tdo flen :
  rten_constant true debug m esize shape nelem off tdo flen <> LPanic.
Proof.
  unfold rten_constant, rten_inline, rten_external.
  destruct m.
  - destruct (checked_len shape 1) as [k|]; [|discriminate].
    destruct ((k =? nelem) && try_from_data shape nelem); discriminate.
  - destruct (checked_len shape 1) as [k|]; [|discriminate].
    destruct ((k =? nelem) && try_from_data shape nelem); discriminate.
  - destruct (two64 <=? tdo + off); [discriminate|].
    destruct (checked_len shape 1) as [k|]; [|discriminate].
    destruct (two64 <=? k * esize); [discriminate|].
    destruct (two64 <=? tdo + off + k * esize); [discriminate|].
    destruct (flen <? tdo + off + k * esize); [discriminate|].
    destruct (try_from_data shape k); discriminate.
Qed.

(* ------------------------------------------------------------------ ONNX initializers *)
Lemma onnx_accept_sound dtype dims raw n s k :
  onnx_constant dtype dims raw n = LOk s k ->
  onnx_shape dims = Some s /\ Forall (fun d => (0 <= d)%Z) dims /\
  k = prod s /\ prod s < two64 /\
  (raw = false -> k = n) /\
  (raw = true -> exists es view, onnx_esize dtype = Some (es, view) /\ k = n / es).
Proof.
  unfold onnx_constant.
  destruct (onnx_shape dims) as [shape|] eqn:Es; [|discriminate].
  assert (Hd : Forall (fun d => (0 <= d)%Z) dims).
  { unfold onnx_shape in Es. destruct (forallb (fun d => (0 <=? d)%Z) dims) eqn:Ef; [|discriminate].
    apply Forall_forall. intros d Hin. rewrite forallb_forall in Ef. apply Z.leb_le. apply Ef. exact Hin. }
  destruct (onnx_esize dtype) as [[es view]|] eqn:Ee; [|discriminate].
  destruct raw.
  - destruct view.
    + destruct (n mod es =? 0); [|discriminate].
      destruct (try_from_data shape (n / es)) eqn:Et; [|discriminate].
      intros [= <- <-]. apply try_from_data_spec in Et. destruct Et as [E1 E2].
      repeat split; auto; [discriminate|]. intros _. eauto.
    + destruct ((dtype =? 10) && negb (n mod es =? 0)); [discriminate|].
      destruct (try_from_data shape (n / es)) eqn:Et; [|discriminate].
      intros [= <- <-]. apply try_from_data_spec in Et. destruct Et as [E1 E2].
      repeat split; auto; [discriminate|]. intros _. eauto.
  - destruct (try_from_data shape n) eqn:Et; [|discriminate].
    intros [= <- <-]. apply try_from_data_spec in Et. destruct Et as [E1 E2].
    repeat split; auto. discriminate.
Qed.

Lemma onnx_no_panic dtype dims raw n : onnx_constant dtype dims raw n <> LPanic.
Proof.
  unfold onnx_constant.
  destruct (onnx_shape dims) as [shape|]; [|discriminate].
  destruct (onnx_esize dtype) as [[es view]|]; [|discriminate].
  destruct raw.
  - destruct view.
    + destruct (n mod es =? 0); [|discriminate]. destruct (try_from_data shape (n / es)); discriminate.
    + destruct ((dtype =? 10) && negb (n mod es =? 0)); [discriminate|].
      destruct (try_from_data shape (n / es)); discriminate.
  - destruct (try_from_data shape n); discriminate.
Qed.

(* the check's oracle on an accepted constant says exactly this *)
Lemma lres_ok_LOk s n : lres_ok (LOk s n) = true -> prod s = n /\ prod s < two64.
Proof.
  cbn. intros H. apply andb_true_iff in H. destruct H as [H1 H2]. apply N.eqb_eq in H2.
  split; [exact H2|apply nonzero_fits_prod; exact H1].
Qed.

(* ------------------------------------------------------------------ F13: the code before the fix *)
Lemma f13_refuted :
  (* inline f32 constant, shape [2,3], 5 elements: from_data panics *)
  rten_constant false false MInl 4 [2; 3] 5 0 0 0 = LPanic /\
  (* tensor-data-segment f32 constant, shape [2^31, 2^31]: byte length wraps to 0 in a release
     build, zero bytes are sliced, from_data panics; a debug build panics on the overflow *)
  rten_constant false false MExt 4 [2147483648; 2147483648] 0 0 192 192 = LPanic /\
  rten_constant false true MExt 4 [2147483648; 2147483648] 0 0 192 192 = LPanic /\
  (* the same inputs are load errors now *)
  rten_constant true false MInl 4 [2; 3] 5 0 0 0 = LErr /\
  rten_constant true true MExt 4 [2147483648; 2147483648] 0 0 192 192 = LErr.
Proof. repeat split; vm_compute; reflexivity. Qed.

Lemma nonvacuous :
  from_buf (to_buf 2 32 8 40 ++ [1;2;3;4;5;6;7;8]) = HOk 2 32 8 40 /\
  rten_constant true false MExt 4 [2; 3] 0 8 192 224 = LOk [2; 3] 6 /\
  rten_constant true false MInl 1 [2; 0; 3] 0 0 0 0 = LOk [2; 0; 3] 0 /\
  onnx_constant 1 [2; 3]%Z true 24 = LOk [2; 3] 6 /\
  onnx_constant 7 [4294967296; 4294967296]%Z true 0 = LErr /\
  onnx_constant 1 [-1]%Z true 4 = LErr.
Proof. repeat split; vm_compute; reflexivity. Qed.
