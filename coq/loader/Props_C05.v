(* C05 -- Loading untrusted model bytes is safe, bounded and well-formed.
   Only statements; every proof is `exact <lemma>`.  The protobuf decoder half of this property
   is stated and proved in coq/proto/Props_C38.v (same development, group `proto`).

   usize = u64.  [prod shape] is the exact (unbounded) product of the dimensions. *)
From RV Require Import Prelude.
From Loader Require Import Pins ModelC05 Loader_proofs.
Open Scope N_scope.

(* (1) Header: writing a header whose fields satisfy the documented ranges and reading it
       back (followed by any [rest] of the file) gives the same header *)
Theorem C05_header_roundtrip : forall version mo ml tdo rest,
  let buf := to_buf version mo ml tdo ++ rest in
  version = 2 -> blen buf < two64 ->
  HEADER_LEN <= mo -> mo <= blen buf -> mo + ml <= blen buf ->
  HEADER_LEN <= tdo -> tdo <= blen buf ->
  from_buf buf = HOk version mo ml tdo.
Proof. exact header_roundtrip. Qed.

(* (2) an accepted header's segments lie inside the buffer, as integers (no wrap-around):
       so `&file_data[model_offset..model_offset + model_len]` in rten_loader::load and every
       later use of tensor_data_offset start inside the file *)
Theorem C05_header_accept_bounds : forall buf version mo ml tdo,
  blen buf < u64_max ->
  from_buf buf = HOk version mo ml tdo ->
  version = 2 /\ HEADER_LEN <= mo /\ mo <= blen buf /\ mo + ml <= blen buf /\
  HEADER_LEN <= tdo /\ tdo <= blen buf.
Proof. exact header_accept_bounds. Qed.

(* (3) from_buf always returns a header or an error *)
Theorem C05_header_total : forall buf, from_buf buf <> HPanic /\ from_buf buf <> HNotRun.
Proof. exact header_total. Qed.

(* (4) .rten constants (current code, RTEN_CHECKED pinned from the source): an accepted
       constant keeps the declared shape, its exact element count fits in usize and equals
       the number of elements of its backing data; for a constant in the tensor data segment
       the byte range [tdo+off, tdo+off+n*esize) lies inside the file, without wrap-around *)
Theorem C05_constant_accept_sound : forall debug m esize shape nelem off tdo flen s n,
  rten_constant RTEN_CHECKED debug m esize shape nelem off tdo flen = LOk s n ->
  s = shape /\ n = prod shape /\ prod shape < two64 /\
  match m with
  | MExt => tdo + off + n * esize <= flen /\ tdo + off + n * esize < two64
  | _ => n = nelem
  end.
Proof. exact rten_accept_sound. Qed.

(* (5) ONNX initializers: accepted => no negative dimension, the exact element count fits in
       usize and equals the number of elements supplied (typed data) or the number of whole
       elements in the raw bytes *)
Theorem C05_onnx_constant_accept_sound : forall dtype dims raw n s k,
  onnx_constant dtype dims raw n = LOk s k ->
  onnx_shape dims = Some s /\ Forall (fun d => (0 <= d)%Z) dims /\
  k = prod s /\ prod s < two64 /\
  (raw = false -> k = n) /\
  (raw = true -> exists es view, onnx_esize dtype = Some (es, view) /\ k = n / es).
Proof. exact onnx_accept_sound. Qed.

(* (6) no panic outcome on the modelled load paths, in debug and release arithmetic *)
Theorem C05_loader_no_panic :
  (forall debug m esize shape nelem off tdo flen,
     rten_constant RTEN_CHECKED debug m esize shape nelem off tdo flen <> LPanic) /\
  (forall dtype dims raw n, onnx_constant dtype dims raw n <> LPanic) /\
  (forall buf, from_buf buf <> HPanic).
Proof. exact (conj rten_no_panic (conj onnx_no_panic (fun buf => proj1 (header_total buf)))). Qed.

(* F13: the .rten loader before the fix panics on a shape/data mismatch and on a wrapping
   byte length (release) / overflow (debug); the same inputs are load errors now *)
Theorem C05_F13_refuted :
  rten_constant false false MInl 4 [2; 3] 5 0 0 0 = LPanic /\
  rten_constant false false MExt 4 [2147483648; 2147483648] 0 0 192 192 = LPanic /\
  rten_constant false true MExt 4 [2147483648; 2147483648] 0 0 192 192 = LPanic /\
  rten_constant true false MInl 4 [2; 3] 5 0 0 0 = LErr /\
  rten_constant true true MExt 4 [2147483648; 2147483648] 0 0 192 192 = LErr.
Proof. exact f13_refuted. Qed.

Example C05_nonvacuous :
  from_buf (to_buf 2 32 8 40 ++ [1;2;3;4;5;6;7;8]) = HOk 2 32 8 40 /\
  rten_constant true false MExt 4 [2; 3] 0 8 192 224 = LOk [2; 3] 6 /\
  rten_constant true false MInl 1 [2; 0; 3] 0 0 0 0 = LOk [2; 0; 3] 0 /\
  onnx_constant 1 [2; 3]%Z true 24 = LOk [2; 3] 6 /\
  onnx_constant 7 [4294967296; 4294967296]%Z true 0 = LErr /\
  onnx_constant 1 [-1]%Z true 4 = LErr.
Proof. exact nonvacuous. Qed.
