(* C38 -- The ONNX protobuf decoder terminates and never panics.
   Only statements; every proof is `exact <lemma>`.

   [pinned_cfg] is the configuration read back from /repo's Rust source on every run (Pins.v):
   MAX_VARINT_LEN, the read_varint exit test, whether LimitReader uses checked arithmetic,
   whether truncated fields are rejected, MAX_PREALLOC, MAX_DEPTH, whether a partial packed
   element is an error.  [orig_cfg] is the code before the fix commits.  Theorems quantify over
   every byte string [inp] (of at most isize::MAX bytes, as any Rust slice), every dispatch
   table [sch], every message type [m], debug and release arithmetic ([e_debug e]). *)
From RV Require Import Prelude.
From Proto Require Import Pins Model Varint_proofs Decode_proofs Decode_thms.
Open Scope N_scope.

(* (1) read_varint: MAX_VARINT_LEN (= 10) loop iterations always suffice -- the loop-budget
       outcome is unreachable -- and a successful read consumed between 1 and MAX_VARINT_LEN
       bytes that lie inside the input *)
Theorem C38_read_varint_terminates : forall debug inp pos,
  (forall fuel, (N.to_nat MAX_VARINT_LEN <= fuel)%nat ->
     varint_loop pinned_cfg debug fuel inp pos 0 0 <> OutOfFuel)
  /\ (forall v p, read_varint pinned_cfg debug inp pos = Ok (v, p) ->
        pos < p /\ p <= pos + MAX_VARINT_LEN /\ p <= blen inp).
Proof. exact pinned_varint. Qed.

(* (2) Fields::next consumes at least one byte whenever it yields a field (in every variant of
       the code), and in the current code a message that decodes ends at or after the position
       where it started, inside the input: the position never moves back *)
Theorem C38_position_strictly_increases :
  (forall c debug inp l pos number v fl p,
     next_field c debug inp l pos = Ok (Some (number, v, fl, p)) -> pos < p)
  /\ (forall e sch inp fuel m l pos depth p flds tr,
        blen inp <= isize_max -> pos <= blen inp -> depth <= MAX_DEPTH ->
        (N.to_nat (blen inp - pos) < fuel)%nat ->
        fields_loop pinned_cfg e sch inp fuel m l pos depth = Ok (p, flds, tr) ->
        pos <= p /\ p <= blen inp).
Proof. exact (conj next_field_advances pinned_position). Qed.

(* (3) decoding any byte string finishes: [decode] runs the walker with a budget of |inp|+1
       fields (one unit per Fields::next call, at any nesting depth, and per packed element),
       and the out-of-budget outcome is unreachable -- on any machine *)
Theorem C38_parse_terminates : forall e sch m inp,
  blen inp <= isize_max -> decode pinned_cfg e sch m inp <> OutOfFuel.
Proof. exact (fun e sch m inp H => decode_terminates pinned_cfg e sch inp _ _ pinned_fixed H m). Qed.

(* (4) no panic and no abort, in debug and release arithmetic, provided one allocation of
       MAX_PREALLOC bytes succeeds and MAX_DEPTH nested decoder frames fit on the stack *)
Theorem C38_no_panic : forall e sch m inp,
  blen inp <= isize_max -> machine_ok e MAX_PREALLOC MAX_DEPTH ->
  decode pinned_cfg e sch m inp <> Panic /\ decode pinned_cfg e sch m inp <> Abort.
Proof. exact (fun e sch m inp H => decode_no_crash pinned_cfg e sch inp _ _ pinned_fixed H m). Qed.

(* (5) hence every decode returns a message or an error *)
Theorem C38_decode_total : forall e sch m inp,
  blen inp <= isize_max -> machine_ok e MAX_PREALLOC MAX_DEPTH ->
  (exists p flds tr, decode pinned_cfg e sch m inp = Ok (p, flds, tr))
  \/ (exists x, decode pinned_cfg e sch m inp = Err x).
Proof. exact (fun e sch m inp H => decode_total pinned_cfg e sch inp _ _ pinned_fixed H m). Qed.

(* (6) field lengths larger than the remaining input are errors: if the decode succeeds, every
       length-delimited field met at any depth (start, length) ends inside the input.  [tr] is
       the walker's ghost output listing exactly these fields; [oversize] is the boolean form
       used by the check's oracle *)
Theorem C38_len_exceeds_input_is_error : forall e sch m inp p flds tr,
  blen inp <= isize_max ->
  decode pinned_cfg e sch m inp = Ok (p, flds, tr) ->
  p <= blen inp /\ Forall (fun x => fst x + snd x <= blen inp) tr /\ oversize inp tr = false.
Proof.
  exact (fun e sch m inp p flds tr H E =>
    let G := decode_len_in_bounds pinned_cfg e sch inp _ _ pinned_fixed H m p flds tr E in
    conj (proj1 G) (conj (proj2 G) (proj2 (oversize_false_iff inp tr) (proj2 G)))).
Qed.

(* ---- the code before the fixes violates each of these (witnesses replayed on the real code
        by the harness; see docs/C38.md) ---- *)

(* F1: ten 0x80 bytes and one more byte: read_varint never returns, for any budget *)
Theorem C38_F1_refuted :
  exists inp, length inp = 11%nat /\
    forall debug fuel, varint_loop orig_cfg debug fuel inp 0 0 0 = OutOfFuel.
Proof. exact f1_refuted. Qed.

(* F2, release build: a field of length 2^64-11 at offset 0 seeks back to offset 0 *)
Theorem C38_F2_release_refuted :
  exists inp, length inp = 11%nat /\
    forall fuel, fields_loop orig_cfg rel onnx_schema inp fuel MSG_MODEL (top_limit orig_cfg) 0 0 = OutOfFuel.
Proof. exact f2_release_refuted. Qed.

(* F2, debug build: the same input panics (`position + len` overflows) *)
Theorem C38_F2_debug_refuted :
  exists inp, length inp = 11%nat /\ decode orig_cfg dbg onnx_schema MSG_MODEL inp = Panic.
Proof. exact f2_debug_refuted. Qed.

(* F38a: read_bytes allocates the declared length first: 2^63 panics (capacity overflow),
   2^40 aborts on a machine that cannot allocate 2^34 bytes at once *)
Theorem C38_F38a_refuted :
  (exists inp, length inp = 11%nat /\ decode orig_cfg rel onnx_schema MSG_MODEL inp = Panic) /\
  (exists inp, length inp = 7%nat /\ decode orig_cfg rel onnx_schema MSG_MODEL inp = Abort).
Proof. exact f38a_refuted. Qed.

(* F38b: a skipped field declaring 100 bytes with 3 present decodes successfully *)
Theorem C38_F38b_refuted :
  exists inp p flds tr,
    decode orig_cfg rel onnx_schema MSG_MODEL inp = Ok (p, flds, tr) /\ oversize inp tr = true.
Proof. exact f38b_refuted. Qed.

(* F38c: 304 nested messages in 1.2 KB overflow a stack that holds 300 decoder frames; the
   current code answers RecursionLimitExceeded *)
Theorem C38_F38c_refuted :
  exists inp, blen inp < 1300 /\
    decode orig_cfg small_stack onnx_schema MSG_MODEL inp = Abort /\
    decode pinned_cfg small_stack onnx_schema MSG_MODEL inp = Err EDepth.
Proof. exact f38c_refuted. Qed.

(* F38d: without the FieldLengthMismatch check, (6) fails for a packed float field at the top
   level of a message: 6 bytes declared, 4 present *)
Theorem C38_F38d_refuted :
  exists sch inp p flds tr,
    decode pre_f38d_cfg rel sch 0 inp = Ok (p, flds, tr) /\ oversize inp tr = true.
Proof. exact f38d_refuted. Qed.

(* non-vacuity: the hypotheses hold for the harness machine; a small valid message decodes to
   the expected summary with three length-delimited fields in its trace; the F2 and F1 inputs
   are now errors *)
Example C38_nonvacuous :
  machine_ok (harness_env false) MAX_PREALLOC MAX_DEPTH /\
  blen tiny_valid <= isize_max /\
  model_outcome pinned_cfg rel tiny_valid = OOk (Some 8) true 0 0 false false /\
  (exists p flds tr, decode pinned_cfg rel onnx_schema MSG_MODEL tiny_valid = Ok (p, flds, tr) /\ length tr = 3%nat) /\
  model_outcome pinned_cfg rel f2_witness = OErr EEof /\
  model_outcome pinned_cfg rel f1_witness = OErr EInvalidVarint.
Proof. exact nonvacuous. Qed.
