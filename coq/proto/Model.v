(* Model of the rten-onnx protobuf decoder:
     rten-onnx/src/protobuf/varint.rs   read_varint
     rten-onnx/src/protobuf/value.rs    ValueReader::{read_bytes,skip,read_i32,read_i64}, LimitReader
     rten-onnx/src/protobuf/field.rs    Fields::next, Field::{skip,read_*,read_message,read_repeated_*}
     rten-onnx/src/onnx.rs              the DecodeMessage impls = a generic walker + dispatch table
   Executable definitions only.

   The input is a byte list, the reader state is its u64 position (std::io::Cursor semantics:
   reads at or past the end return nothing, seeks may go past the end).  BufRead chunking is
   abstracted: read_varint's result does not depend on how many bytes fill_buf returns as long
   as it returns at least one when one is available, so the loop is modelled byte by byte
   with the exact index / shift / limit / exit-test logic.

   [cfg] selects the code variant.  Every flag corresponds to one `fix:` commit; with the flag
   off the definition is the code as it was before that commit (used for the _refuted lemmas),
   with the flag on it is the code as it is now.  [pinned_cfg] (below) is read back from the
   Rust source on every run.

   [env] holds what the machine decides: debug (overflow checks) or release (wrapping)
   arithmetic, how large a single allocation may be before the allocator fails (abort), how
   many nested decode_fields frames fit on the stack (abort). *)
From RV Require Import Prelude.
From Proto Require Import Pins.
Open Scope N_scope.

Inductive err :=
  EIo | EInvalidVarint | EEof | ETypeMismatch | ELenMismatch | EInvalidWire
| EAlreadyConsumed | EUtf8 | ENotConsumed | EDepth | EOther.

(* Panic: a Rust panic.  Abort: the process dies (allocation failure, stack overflow).
   OutOfFuel: the model's loop budget ran out -- the implementation does not terminate. *)
Inductive res (A : Type) := Ok (a : A) | Err (e : err) | Panic | Abort | OutOfFuel.
Arguments Ok {A} a.
Arguments Err {A} e.
Arguments Panic {A}.
Arguments Abort {A}.
Arguments OutOfFuel {A}.

Definition bind {A B} (r : res A) (k : A -> res B) : res B :=
  match r with
  | Ok a => k a
  | Err e => Err e
  | Panic => Panic
  | Abort => Abort
  | OutOfFuel => OutOfFuel
  end.
Notation "x <- r ;; k" := (bind r (fun x => k)) (at level 61, r at next level, right associativity).
Notation "' p <- r ;; k" := (bind r (fun p => k)) (at level 61, p pattern, r at next level, right associativity).

Record cfg := {
  c_max : N;                 (* MAX_VARINT_LEN *)
  c_ge : bool;               (* read_varint exit test is `index >= MAX` (was `>`)            F1  *)
  c_checked : bool;          (* LimitReader uses saturating/checked adds, skip rejects > i64  F2  *)
  c_trunc : bool;            (* fields must end inside the enclosing message / the stream     F38b *)
  c_prealloc : option N;     (* read_bytes pre-allocates min(len, MAX_PREALLOC) (was len)     F38a *)
  c_depth : option N;        (* nesting limit MAX_DEPTH (was none)                            F38c *)
  c_lenmm : bool             (* packed fixed-width field with a partial last element is
                                FieldLengthMismatch (was: silently ends)                      F38d *)
}.

Record env := { e_debug : bool; e_mem : N; e_stack : N }.

Definition isize_max : N := 9223372036854775807.
Definition two63 : N := 9223372036854775808.

(* ------------------------------------------------------------------ bytes *)
Definition blen (inp : list N) : N := N.of_nat (length inp).
Definition byte_at (inp : list N) (pos : N) : option N :=
  if pos <? blen inp then nth_error inp (N.to_nat pos) else None.
Definition slice (inp : list N) (pos len : N) : list N :=
  if pos + len <=? blen inp then firstn (N.to_nat len) (skipn (N.to_nat pos) inp) else [].

(* ------------------------------------------------------------------ read_varint *)
(* `(x as u64) << s`: bits shifted out are dropped; a shift amount >= 64 panics in debug
   builds and is masked in release builds. *)
Definition shl64 (debug : bool) (x s : N) : res N :=
  if s <? 64 then Ok (wrap64 (N.shiftl x s))
  else if debug then Panic else Ok (wrap64 (N.shiftl x (s mod 64))).

Fixpoint varint_loop (c : cfg) (debug : bool) (fuel : nat) (inp : list N) (pos index value : N)
  : res (N * N) :=
  match fuel with
  | O => OutOfFuel
  | S f =>
    match byte_at inp pos with
    | None => Err EEof                                     (* fill_buf returned an empty buffer *)
    | Some b =>
      if index <? c_max c then                             (* buf_len = min(len, MAX - index) >= 1 *)
        sh <- shl64 debug (N.land b 127) (index * 7) ;;
        let value' := N.lor value sh in
        if b <=? 127 then
          if (index + 1 =? c_max c) && (1 <? b) then Err EInvalidVarint
          else Ok (value', pos + 1)
        else
          let index' := index + 1 in
          (* the chunk ends here exactly when index' = MAX; the exit test runs at chunk ends *)
          if c_ge c && (c_max c <=? index') then Err EInvalidVarint
          else varint_loop c debug f inp (pos + 1) index' value'
      else
        (* buf_len = 0: nothing is consumed, only the exit test runs *)
        if (if c_ge c then c_max c <=? index else c_max c <? index) then Err EInvalidVarint
        else varint_loop c debug f inp pos index value
    end
  end.

Definition varint_fuel (c : cfg) : nat := S (S (N.to_nat (c_max c))).
Definition read_varint (c : cfg) (debug : bool) (inp : list N) (pos : N) : res (N * N) :=
  varint_loop c debug (varint_fuel c) inp pos 0 0.

(* ------------------------------------------------------------------ Cursor *)
Definition read_exact (inp : list N) (pos n : N) : res N :=
  if pos + n <=? blen inp then Ok (pos + n) else Err EIo.

Definition seek_relative (pos : N) (off : Z) : res N :=
  let p := (Z.of_N pos + off)%Z in
  if ((p <? 0) || (Z.of_N two64 <=? p))%Z then Err EIo else Ok (Z.to_N p).

Definition as_i64 (x : N) : Z := if x <? two63 then Z.of_N x else (Z.of_N x - Z.of_N two64)%Z.

(* ------------------------------------------------------------------ ValueReader *)
Definition vr_skip (c : cfg) (pos len : N) (inp : list N) : res N :=
  if c_checked c then
    if len <? two63 then
      if c_trunc c then
        if len =? 0 then Ok pos
        else p <- seek_relative pos (Z.of_N len - 1) ;; read_exact inp p 1
      else seek_relative pos (Z.of_N len)
    else Err EEof
  else seek_relative pos (as_i64 len).

Definition vr_read_bytes (c : cfg) (e : env) (inp : list N) (pos len : N) : res (N * list N) :=
  match c_prealloc c with
  | None =>                                              (* vec![0; len]; read_exact *)
      if isize_max <? len then Panic
      else if e_mem e <? len then Abort
      else p <- read_exact inp pos len ;; Ok (p, slice inp pos len)
  | Some pre =>                                          (* with_capacity(min(len, pre)); take(len).read_to_end *)
      let cap := N.min len pre in
      if isize_max <? cap then Panic
      else if e_mem e <? cap then Abort
      else if pos + len <=? blen inp then Ok (pos + len, slice inp pos len) else Err EIo
  end.

(* ------------------------------------------------------------------ LimitReader *)
Definition lim := option N.          (* None: unbounded (top level, after F38b) *)
Definition bounded (l : lim) : bool := match l with Some _ => true | None => false end.

Definition add64 (debug : bool) (a b : N) : res N :=
  if a + b <? two64 then Ok (a + b) else if debug then Panic else Ok (wrap64 (a + b)).

Definition check_has_bytes (c : cfg) (debug : bool) (l : lim) (pos len : N) : res unit :=
  if c_checked c then
    if pos + len <? two64 then
      match l with
      | None => Ok tt
      | Some e => if pos + len <=? e then Ok tt else Err EEof
      end
    else Err EEof
  else
    s <- add64 debug pos len ;;
    match l with
    | None => Ok tt
    | Some e => if s <=? e then Ok tt else Err EEof
    end.

Definition sub_limit (c : cfg) (debug : bool) (pos len : N) : res lim :=
  if c_checked c then Ok (Some (N.min (pos + len) u64_max))
  else s <- add64 debug pos len ;; Ok (Some s).

Definition top_limit (c : cfg) : lim := if c_trunc c then None else Some u64_max.

Definition lr_read_varint (c : cfg) (debug : bool) (inp : list N) (l : lim) (pos : N) : res (N * N) :=
  _ <- check_has_bytes c debug l pos 1 ;;
  match read_varint c debug inp pos with
  | Err EEof => if c_trunc c && bounded l then Err EIo else Err EEof
  | r => r
  end.

Definition lr_read_fixed (c : cfg) (debug : bool) (inp : list N) (l : lim) (pos n : N) : res N :=
  _ <- check_has_bytes c debug l pos n ;; read_exact inp pos n.

Definition lr_skip (c : cfg) (debug : bool) (inp : list N) (l : lim) (pos len : N) : res N :=
  _ <- check_has_bytes c debug l pos len ;; vr_skip c pos len inp.

Definition lr_read_bytes (c : cfg) (e : env) (inp : list N) (l : lim) (pos len : N) : res (N * list N) :=
  _ <- check_has_bytes c (e_debug e) l pos len ;; vr_read_bytes c e inp pos len.

(* ------------------------------------------------------------------ String::from_utf8 *)
Definition cont (b : N) : bool := (128 <=? b) && (b <=? 191).
Definition inr (lo hi b : N) : bool := (lo <=? b) && (b <=? hi).
Fixpoint utf8_valid (l : list N) : bool :=
  match l with
  | [] => true
  | b0 :: r =>
    if b0 <? 128 then utf8_valid r
    else if inr 194 223 b0 then
      match r with b1 :: r1 => cont b1 && utf8_valid r1 | _ => false end
    else if inr 224 239 b0 then
      match r with
      | b1 :: b2 :: r2 =>
        (if b0 =? 224 then inr 160 191 b1 else if b0 =? 237 then inr 128 159 b1 else cont b1)
        && cont b2 && utf8_valid r2
      | _ => false
      end
    else if inr 240 244 b0 then
      match r with
      | b1 :: b2 :: b3 :: r3 =>
        (if b0 =? 240 then inr 144 191 b1 else if b0 =? 244 then inr 128 143 b1 else cont b1)
        && cont b2 && cont b3 && utf8_valid r3
      | _ => false
      end
    else false
  end.

(* ------------------------------------------------------------------ Fields::next *)
Inductive fval := VVarint (v : N) | VI64 | VLen (n : N) | VSgroup | VEgroup | VI32.

Definition fval_num (v : fval) : N := match v with VVarint x => x | VLen n => n | _ => 0 end.

(* Some (number, value, limit of the field's reader, position after the header) *)
Definition next_field (c : cfg) (debug : bool) (inp : list N) (l : lim) (pos : N)
  : res (option (N * fval * lim * N)) :=
  match lr_read_varint c debug inp l pos with
  | Err EEof => Ok None
  | Err e => Err e
  | Panic => Panic
  | Abort => Abort
  | OutOfFuel => OutOfFuel
  | Ok (tag, p1) =>
    let number := tag / 8 in
    let wt := tag mod 8 in
    ' (v, p2, len) <-
      (if wt =? 0 then ' (x, p2) <- lr_read_varint c debug inp l p1 ;; Ok (VVarint x, p2, 0)
       else if wt =? 1 then p2 <- lr_read_fixed c debug inp l p1 8 ;; Ok (VI64, p2, 0)
       else if wt =? 2 then
         ' (x, p2) <- lr_read_varint c debug inp l p1 ;;
         _ <- (if c_trunc c then check_has_bytes c debug l p2 x else Ok tt) ;;
         Ok (VLen x, p2, x)
       else if wt =? 3 then Ok (VSgroup, p1, 0)
       else if wt =? 4 then Ok (VEgroup, p1, 0)
       else if wt =? 5 then p2 <- lr_read_fixed c debug inp l p1 4 ;; Ok (VI32, p2, 0)
       else Err EInvalidWire) ;;
    fl <- sub_limit c debug p2 len ;;
    Ok (Some (number, v, fl, p2))
  end.

(* ------------------------------------------------------------------ field handlers *)
(* What a DecodeMessage impl does with a field number (rten-onnx/src/onnx.rs). *)
Inductive action :=
  ASkip                      (* field.skip()                                   *)
| AVarint                    (* get_int64 / get_int32 / get_enum               *)
| AFloat                     (* get_float                                      *)
| AString                    (* read_string                                    *)
| ABytes                     (* read_bytes                                     *)
| ARepVarint                 (* read_repeated_int32 / int64 / uint64           *)
| ARepF32                    (* read_repeated_float                            *)
| ARepF64                    (* read_repeated_double                           *)
| AMsg (m : N).              (* M::decode_field(&mut field)                    *)

Definition schema := N -> N -> action.      (* message type -> field number -> action *)

(* packed repeated varints: read until the sub-reader reports Eof *)
Fixpoint rep_varint_loop (c : cfg) (debug : bool) (inp : list N) (fuel : nat) (l : lim) (pos : N) : res N :=
  match fuel with
  | O => OutOfFuel
  | S f =>
    match lr_read_varint c debug inp l pos with
    | Err EEof => Ok pos
    | Err e => Err e
    | Panic => Panic
    | Abort => Abort
    | OutOfFuel => OutOfFuel
    | Ok (_, p) => rep_varint_loop c debug inp f l p
    end
  end.

Fixpoint rep_fixed_loop (c : cfg) (debug : bool) (inp : list N) (fuel : nat) (n : N) (l : lim) (pos : N) : res N :=
  match fuel with
  | O => OutOfFuel
  | S f =>
    match lr_read_fixed c debug inp l pos n with
    | Err EEof =>
        (* `*consumed = true; if !reader.at_end() { FieldLengthMismatch }` *)
        if c_lenmm c && (match l with Some e => pos <? e | None => false end) then Err ELenMismatch
        else Ok pos
    | Err e => Err e
    | Panic => Panic
    | Abort => Abort
    | OutOfFuel => OutOfFuel
    | Ok p => rep_fixed_loop c debug inp f n l p
    end
  end.

(* result of decoding one message: position after it, its own fields (number, varint value or
   length) in order, and the extents (start, length) of every length-delimited field met at
   any depth (ghost output used to state "lengths beyond the input are errors") *)
Definition mres := (N * list (N * N) * list (N * N))%type.

(* [rec m l pos depth] decodes an embedded message *)
Definition handle (c : cfg) (e : env) (inp : list N) (fuel : nat)
    (rec : N -> lim -> N -> N -> res mres)
    (a : action) (v : fval) (fl : lim) (pos depth : N) : res (N * list (N * N)) :=
  let debug := e_debug e in
  let mismatch := Err ETypeMismatch in
  match a, v with
  | ASkip, VLen n => p <- lr_skip c debug inp fl pos n ;; Ok (p, [])
  | ASkip, _ => Ok (pos, [])
  | AVarint, VVarint _ => Ok (pos, [])
  | AVarint, _ => mismatch
  | AFloat, VI32 => Ok (pos, [])
  | AFloat, _ => mismatch
  | AString, VLen n =>
      ' (p, bs) <- lr_read_bytes c e inp fl pos n ;;
      if utf8_valid bs then Ok (p, []) else Err EUtf8
  | AString, _ => mismatch
  | ABytes, VLen n => ' (p, _) <- lr_read_bytes c e inp fl pos n ;; Ok (p, [])
  | ABytes, _ => mismatch
  | ARepVarint, VVarint _ => Ok (pos, [])
  | ARepVarint, VLen n => l <- sub_limit c debug pos n ;; p <- rep_varint_loop c debug inp fuel l pos ;; Ok (p, [])
  | ARepVarint, _ => mismatch
  | ARepF32, VI32 => Ok (pos, [])
  | ARepF32, VLen n => l <- sub_limit c debug pos n ;; p <- rep_fixed_loop c debug inp fuel 4 l pos ;; Ok (p, [])
  | ARepF32, _ => mismatch
  | ARepF64, VI64 => Ok (pos, [])
  | ARepF64, VLen n => l <- sub_limit c debug pos n ;; p <- rep_fixed_loop c debug inp fuel 8 l pos ;; Ok (p, [])
  | ARepF64, _ => mismatch
  | AMsg m, VLen n =>
      if (match c_depth c with Some dmax => dmax <=? depth | None => false end) then Err EDepth
      else if e_stack e <? depth + 1 then Abort                 (* stack overflow *)
      else
        l <- sub_limit c debug pos n ;;
        ' (p, _, tr) <- rec m l pos (depth + 1) ;;
        Ok (p, tr)
  | AMsg _, _ => mismatch
  end.

(* `while let Some(mut field) = fields.next()? { match field.number() { ... } }` *)
Fixpoint fields_loop (c : cfg) (e : env) (sch : schema) (inp : list N) (fuel : nat)
    (m : N) (l : lim) (pos depth : N) : res mres :=
  match fuel with
  | O => OutOfFuel
  | S f =>
    match next_field c (e_debug e) inp l pos with
    | Ok None => Ok (pos, [], [])
    | Ok (Some (number, v, fl, p)) =>
        ' (p1, tr1) <- handle c e inp f (fields_loop c e sch inp f) (sch m number) v fl p depth ;;
        ' (p2, flds, tr2) <- fields_loop c e sch inp f m l p1 depth ;;
        Ok (p2, (number, fval_num v) :: flds,
            (match v with VLen n => [(p, n)] | _ => [] end) ++ tr1 ++ tr2)
    | Err x => Err x
    | Panic => Panic
    | Abort => Abort
    | OutOfFuel => OutOfFuel
    end
  end.

(* M::decode(reader): Fields::new at position 0; fuel = |input| + 1 *)
Definition decode (c : cfg) (e : env) (sch : schema) (m : N) (inp : list N) : res mres :=
  fields_loop c e sch inp (S (length inp)) m (top_limit c) 0 0.

(* ------------------------------------------------------------------ pinned configuration *)
Definition action_of_code (k : N) : action :=
  if k =? 0 then ASkip else if k =? 1 then AVarint else if k =? 2 then AFloat
  else if k =? 3 then AString else if k =? 4 then ABytes else if k =? 5 then ARepVarint
  else if k =? 6 then ARepF32 else if k =? 7 then ARepF64
  else if 100 <=? k then AMsg (k - 100) else ASkip.

Fixpoint assoc {A} (k : N) (l : list (N * A)) : option A :=
  match l with
  | [] => None
  | (k', a) :: r => if k =? k' then Some a else assoc k r
  end.

Definition schema_of (t : list (N * list (N * N))) : schema :=
  fun m number =>
    match assoc m t with
    | Some fs => match assoc number fs with Some k => action_of_code k | None => ASkip end
    | None => ASkip
    end.

Definition onnx_schema : schema := schema_of ONNX_SCHEMA.

Definition opt_of (x : N) : option N := if x =? 0 then None else Some x.

Definition pinned_cfg : cfg :=
  {| c_max := MAX_VARINT_LEN; c_ge := VARINT_EXIT_GE; c_checked := LIMIT_CHECKED;
     c_trunc := LIMIT_OPTIONAL_END; c_prealloc := opt_of MAX_PREALLOC; c_depth := opt_of MAX_DEPTH;
     c_lenmm := PACKED_LEN_MISMATCH |}.

(* the code before the six fix commits *)
Definition orig_cfg : cfg :=
  {| c_max := 10; c_ge := false; c_checked := false; c_trunc := false; c_prealloc := None; c_depth := None;
     c_lenmm := false |}.

(* ------------------------------------------------------------------ observations *)
Inductive outcome :=
  OOk (ir : option N) (graph : bool) (nopset nmeta : N) (pname pver : bool)
| OErr (e : err) | OPanic | OTimeout | OAbort
| ONotRun.     (* the harness' timeout budget was used up by earlier hangs: not observed *)
Inductive sniff := SBool (b : bool) | SPanic | STimeout | SAbort | SNotRun.

Definition count (k : N) (l : list (N * N)) : N := N.of_nat (length (filter (fun x => fst x =? k) l)).
Definition has (k : N) (l : list (N * N)) : bool := existsb (fun x => fst x =? k) l.
Fixpoint last_val (k : N) (l : list (N * N)) (acc : option N) : option N :=
  match l with
  | [] => acc
  | (k', v) :: r => last_val k r (if k =? k' then Some v else acc)
  end.

Definition model_outcome (c : cfg) (e : env) (inp : list N) : outcome :=
  match decode c e onnx_schema MSG_MODEL inp with
  | Ok (_, flds, _) =>
      OOk (last_val F_IR_VERSION flds None) (has F_GRAPH flds) (count F_OPSET_IMPORT flds)
          (count F_METADATA_PROPS flds) (has F_PRODUCER_NAME flds) (has F_PRODUCER_VERSION flds)
  | Err x => OErr x
  | Panic => OPanic
  | Abort => OAbort
  | OutOfFuel => OTimeout
  end.

(* is_onnx_model: decode as SlimModelProto, then ir_version.is_some() && graph *)
Definition model_sniff (c : cfg) (e : env) (inp : list N) : sniff :=
  match decode c e onnx_schema MSG_SLIM inp with
  | Ok (_, flds, _) => SBool (has F_IR_VERSION flds && has F_GRAPH flds)
  | Err _ => SBool false
  | Panic => SPanic
  | Abort => SAbort
  | OutOfFuel => STimeout
  end.

(* the machine the harness runs on: allocations up to 2^34 bytes succeed, 2000 nested
   frames fit on the 8 MiB stack the harness decodes on (neither matters for the fixed code) *)
Definition harness_env (debug : bool) : env := {| e_debug := debug; e_mem := 17179869184; e_stack := 2000 |}.

(* Oracle for "field lengths larger than the remaining input are errors": decode with the
   truncation checks switched off (so that the walk continues past such a field) and report
   whether some length-delimited field met on the way extends beyond the input. *)
Definition lenient_cfg (c : cfg) : cfg :=
  {| c_max := c_max c; c_ge := true; c_checked := true; c_trunc := false;
     c_prealloc := Some 1; c_depth := c_depth c; c_lenmm := false |}.
Definition oversize (inp : list N) (tr : list (N * N)) : bool :=
  existsb (fun x => blen inp <? fst x + snd x) tr.
Definition meets_oversize_field (c : cfg) (m : N) (inp : list N) : bool :=
  match decode (lenient_cfg c) {| e_debug := false; e_mem := two64; e_stack := two64 |} onnx_schema m inp with
  | Ok (_, _, tr) => oversize inp tr
  | _ => false
  end.

Definition err_eqb (a b : err) : bool :=
  match a, b with
  | EIo, EIo | EInvalidVarint, EInvalidVarint | EEof, EEof | ETypeMismatch, ETypeMismatch
  | ELenMismatch, ELenMismatch | EInvalidWire, EInvalidWire | EAlreadyConsumed, EAlreadyConsumed
  | EUtf8, EUtf8 | ENotConsumed, ENotConsumed | EDepth, EDepth | EOther, EOther => true
  | _, _ => false
  end.
Definition optN_eqb (a b : option N) : bool :=
  match a, b with Some x, Some y => x =? y | None, None => true | _, _ => false end.
Definition outcome_eqb (a b : outcome) : bool :=
  match a, b with
  | OOk i g o m n v, OOk i' g' o' m' n' v' =>
      optN_eqb i i' && Bool.eqb g g' && (o =? o') && (m =? m') && Bool.eqb n n' && Bool.eqb v v'
  | OErr x, OErr y => err_eqb x y
  | OPanic, OPanic | OTimeout, OTimeout | OAbort, OAbort => true
  | _, _ => false
  end.
Definition sniff_eqb (a b : sniff) : bool :=
  match a, b with
  | SBool x, SBool y => Bool.eqb x y
  | SPanic, SPanic | STimeout, STimeout | SAbort, SAbort => true
  | _, _ => false
  end.

(* ------------------------------------------------------------------ correspondence case *)
Record case := {
  c_debug : bool;            (* harness built with overflow checks *)
  c_input : list N;
  c_buf : outcome;           (* ModelProto::parse_buf *)
  c_file : outcome;          (* ModelProto::parse_file on a file holding the same bytes *)
  c_sniff : sniff            (* is_onnx_model(ValueReader::from_buf(..)) *)
}.

(* lazy conjunction: vm_compute is call-by-value, [andb] would evaluate both decodes *)
Notation "a &&& b" := (if a then b else false) (at level 40, left associativity).

Definition observed (k : case) : bool :=
  match c_buf k, c_file k, c_sniff k with
  | ONotRun, _, _ | _, ONotRun, _ | _, _, SNotRun => false
  | _, _, _ => true
  end.

Definition agree (k : case) : bool :=
  let e := harness_env (c_debug k) in
  if negb (observed k) then true else
  outcome_eqb (c_file k) (c_buf k)
  &&& outcome_eqb (model_outcome pinned_cfg e (c_input k)) (c_buf k)
  &&& sniff_eqb (model_sniff pinned_cfg e (c_input k)) (c_sniff k).

Definition returns (o : outcome) : bool := match o with OOk _ _ _ _ _ _ | OErr _ => true | _ => false end.
Definition is_ok (o : outcome) : bool := match o with OOk _ _ _ _ _ _ => true | _ => false end.

(* the property, on the implementation's own outcomes: every decode returns (no panic, hang,
   crash), and a decode that met a length-delimited field longer than the remaining input did
   not succeed *)
Definition prop_ok (k : case) : bool :=
  if negb (observed k) then true else
  returns (c_buf k) &&& returns (c_file k)
  &&& (match c_sniff k with SBool _ => true | _ => false end)
  &&& (if is_ok (c_buf k) || is_ok (c_file k)
       then negb (meets_oversize_field pinned_cfg MSG_MODEL (c_input k)) else true)
  &&& (match c_sniff k with
       | SBool true => negb (meets_oversize_field pinned_cfg MSG_SLIM (c_input k))
       | _ => true
       end).

Definition show (k : case) :=
  let e := harness_env (c_debug k) in
  (model_outcome pinned_cfg e (c_input k), model_sniff pinned_cfg e (c_input k),
   meets_oversize_field pinned_cfg MSG_MODEL (c_input k), pinned_cfg).
