(* Top-level consequences for the pinned configuration, and the witnesses refuting them for
   the code before each fix commit. *)
From RV Require Import Prelude.
From Proto Require Import Pins Model Varint_proofs Decode_proofs.
Open Scope N_scope.

(* the configuration read back from the Rust source is the fixed one *)
Lemma pinned_fixed : fixed pinned_cfg MAX_PREALLOC MAX_DEPTH.
Proof. unfold fixed. repeat split; try reflexivity; cbv; discriminate. Qed.

Lemma blen_fuel inp : (N.to_nat (blen inp - 0) < S (length inp))%nat.
Proof. unfold blen. rewrite N.sub_0_r, Nat2N.id. lia. Qed.

Section Any.
  Variables (c : cfg) (e : env) (sch : schema) (inp : list N) (pre dmax : N).
  Hypothesis Hfix : fixed c pre dmax.
  Hypothesis Hlen : blen inp <= isize_max.

  Lemma decode_good m : good e inp pre dmax 0 (top_limit c) (decode c e sch m inp).
  Proof.
    unfold decode. apply (fields_loop_ok c e sch inp pre dmax Hfix Hlen (S (length inp))).
    - lia.
    - lia.
    - apply blen_fuel.
  Qed.

  Lemma decode_terminates m : decode c e sch m inp <> OutOfFuel.
  Proof. pose proof (decode_good m) as H. intros E. rewrite E in H. exact H. Qed.

  Lemma decode_no_crash m : machine_ok e pre dmax -> decode c e sch m inp <> Panic /\ decode c e sch m inp <> Abort.
  Proof.
    intros Hm. pose proof (decode_good m) as H.
    split; intros E; rewrite E in H; exact (H Hm).
  Qed.

  Lemma decode_total m : machine_ok e pre dmax ->
    (exists p flds tr, decode c e sch m inp = Ok (p, flds, tr)) \/ (exists x, decode c e sch m inp = Err x).
  Proof.
    intros Hm. pose proof (decode_good m) as H.
    destruct (decode c e sch m inp) as [[[p flds] tr]|x| | |]; cbn in H; try tauto; [left|right]; eauto.
  Qed.

  Lemma decode_len_in_bounds m p flds tr :
    decode c e sch m inp = Ok (p, flds, tr) -> p <= blen inp /\ Forall (fun x => fst x + snd x <= blen inp) tr.
  Proof.
    intros E. pose proof (decode_good m) as H. rewrite E in H. cbn in H. tauto.
  Qed.
End Any.

(* the boolean oracle agrees with the Forall statement *)
Lemma oversize_false_iff inp tr :
  oversize inp tr = false <-> Forall (fun x => fst x + snd x <= blen inp) tr.
Proof.
  unfold oversize. induction tr as [|x r IH]; cbn [existsb].
  - split; auto.
  - rewrite orb_false_iff, IH. split.
    + intros [H1 H2]. constructor; auto. apply N.ltb_ge. exact H1.
    + intros H. inversion H; subst. split; auto. apply N.ltb_ge. assumption.
Qed.

(* next_field moves forward in every variant of the code *)
Lemma lr_read_varint_pos_any c d inp l pos v p :
  lr_read_varint c d inp l pos = Ok (v, p) -> pos < p /\ p <= blen inp.
Proof.
  unfold lr_read_varint. destruct (check_has_bytes c d l pos 1); cbn [bind]; try discriminate.
  destruct (read_varint c d inp pos) as [[v' p']|x| | |] eqn:E; try discriminate.
  - intros [= <- <-]. apply read_varint_pos in E. exact E.
  - destruct x; try discriminate. destruct (c_trunc c && bounded l); discriminate.
Qed.

Lemma lr_read_fixed_pos_any c d inp l pos n p :
  lr_read_fixed c d inp l pos n = Ok p -> pos <= p.
Proof.
  unfold lr_read_fixed. destruct (check_has_bytes c d l pos n); cbn [bind]; try discriminate.
  unfold read_exact. destruct (pos + n <=? blen inp); [|discriminate]. intros [= <-]. lia.
Qed.

Lemma next_field_advances c d inp l pos number v fl p :
  next_field c d inp l pos = Ok (Some (number, v, fl, p)) -> pos < p.
Proof.
  unfold next_field.
  destruct (lr_read_varint c d inp l pos) as [[tag p1]|x| | |] eqn:E; try discriminate.
  2: { destruct x; discriminate. }
  apply lr_read_varint_pos_any in E. destruct E as [E _].
  destruct (tag mod 8 =? 0).
  { destruct (lr_read_varint c d inp l p1) as [[x p2]|y| | |] eqn:E2; cbn [bind]; try discriminate.
    apply lr_read_varint_pos_any in E2.
    destruct (sub_limit c d p2 0); cbn [bind]; try discriminate. intros [= _ _ _ <-]. lia. }
  destruct (tag mod 8 =? 1).
  { destruct (lr_read_fixed c d inp l p1 8) as [p2|y| | |] eqn:E2; cbn [bind]; try discriminate.
    apply lr_read_fixed_pos_any in E2.
    destruct (sub_limit c d p2 0); cbn [bind]; try discriminate. intros [= _ _ _ <-]. lia. }
  destruct (tag mod 8 =? 2).
  { destruct (lr_read_varint c d inp l p1) as [[x p2]|y| | |] eqn:E2; cbn [bind]; try discriminate.
    apply lr_read_varint_pos_any in E2.
    destruct (if c_trunc c then check_has_bytes c d l p2 x else Ok tt); cbn [bind]; try discriminate.
    destruct (sub_limit c d p2 x); cbn [bind]; try discriminate. intros [= _ _ _ <-]. lia. }
  destruct (tag mod 8 =? 3).
  { cbn [bind]. destruct (sub_limit c d p1 0); cbn [bind]; try discriminate. intros [= _ _ _ <-]. lia. }
  destruct (tag mod 8 =? 4).
  { cbn [bind]. destruct (sub_limit c d p1 0); cbn [bind]; try discriminate. intros [= _ _ _ <-]. lia. }
  destruct (tag mod 8 =? 5).
  { destruct (lr_read_fixed c d inp l p1 4) as [p2|y| | |] eqn:E2; cbn [bind]; try discriminate.
    apply lr_read_fixed_pos_any in E2.
    destruct (sub_limit c d p2 0); cbn [bind]; try discriminate. intros [= _ _ _ <-]. lia. }
  cbn [bind]. discriminate.
Qed.

(* ------------------------------------------------------------------ witnesses *)
Definition rel : env := harness_env false.
Definition dbg : env := harness_env true.

(* F2: unknown field 15, wire type 2, length 2^64 - 11, at offset 0 *)
Definition f2_witness : list N := [122; 245; 255; 255; 255; 255; 255; 255; 255; 255; 1].
Definition f2_len : N := 18446744073709551605.

Lemma f2_next : next_field orig_cfg false f2_witness (top_limit orig_cfg) 0
                = Ok (Some (15, VLen f2_len, Some 0, 11)).
Proof. vm_compute. reflexivity. Qed.

Lemma f2_handle f rec :
  handle orig_cfg rel f2_witness f rec (onnx_schema MSG_MODEL 15) (VLen f2_len) (Some 0) 11 0 = Ok (0, []).
Proof. vm_compute. reflexivity. Qed.

(* in a release build the decoder is back at offset 0 after the field: it never finishes *)
Lemma f2_release_diverges :
  forall fuel, fields_loop orig_cfg rel onnx_schema f2_witness fuel MSG_MODEL (top_limit orig_cfg) 0 0 = OutOfFuel.
Proof.
  induction fuel as [|f IH]; [reflexivity|].
  cbn [fields_loop]. change (e_debug rel) with false. rewrite f2_next.
  cbv beta iota. rewrite f2_handle. cbn [bind]. rewrite IH. reflexivity.
Qed.

Lemma f2_debug_panics : decode orig_cfg dbg onnx_schema MSG_MODEL f2_witness = Panic.
Proof. vm_compute. reflexivity. Qed.

(* F38a: producer_name (field 2) declaring 2^63 bytes / 2^40 bytes *)
Definition f38a_panic : list N := [18; 128; 128; 128; 128; 128; 128; 128; 128; 128; 1].
Definition f38a_abort : list N := [18; 128; 128; 128; 128; 128; 32].

(* F38b: unknown field 15 declaring 100 bytes, 3 present *)
Definition f38b_witness : list N := [122; 100; 97; 98; 99].

(* F38c: n rounds of graph.node.attribute.g nesting *)
Fixpoint enc_varint (fuel : nat) (v : N) : list N :=
  match fuel with
  | O => []
  | S f => if v <? 128 then [v] else (v mod 128 + 128) :: enc_varint f (v / 128)
  end.
Definition f_len (number : N) (payload : list N) : list N :=
  enc_varint 10 (number * 8 + 2) ++ enc_varint 10 (blen payload) ++ payload.
Fixpoint deep_graph (cycles : nat) (g : list N) : list N :=
  match cycles with
  | O => f_len 7 g
  | S k => deep_graph k (f_len 1 (f_len 5 (f_len 6 g)))
  end.
Definition small_stack : env := {| e_debug := false; e_mem := two64; e_stack := 300 |}.

(* F38d: a packed float field of 6 bytes at the top level of a message, 4 bytes present *)
Definition f38d_witness : list N := [10; 6; 0; 0; 128; 63].
Definition pre_f38d_cfg : cfg :=
  {| c_max := 10; c_ge := true; c_checked := true; c_trunc := true; c_prealloc := Some 1048576;
     c_depth := Some 100; c_lenmm := false |}.

(* ------------------------------------------------------------------ statements used by Props_C38 *)
Lemma pinned_varint debug inp pos :
  (forall fuel, (N.to_nat MAX_VARINT_LEN <= fuel)%nat ->
     varint_loop pinned_cfg debug fuel inp pos 0 0 <> OutOfFuel)
  /\ (forall v p, read_varint pinned_cfg debug inp pos = Ok (v, p) ->
        pos < p /\ p <= pos + MAX_VARINT_LEN /\ p <= blen inp).
Proof.
  destruct pinned_fixed as (Hge & _ & _ & _ & _ & _ & Hmax1 & Hmax10).
  split.
  - intros fuel Hf. apply varint_loop_terminates; [exact Hge|change (c_max pinned_cfg) with MAX_VARINT_LEN in *; lia|].
    change (c_max pinned_cfg) with MAX_VARINT_LEN. rewrite N.sub_0_r. exact Hf.
  - intros v p E. pose proof (read_varint_pos _ _ _ _ _ _ E) as [H1 H2].
    unfold read_varint in E. apply varint_loop_pos_upper in E; [|exact Hge|lia].
    change (c_max pinned_cfg) with MAX_VARINT_LEN in E. lia.
Qed.

Lemma pinned_position e sch inp fuel m l pos depth p flds tr :
  blen inp <= isize_max -> pos <= blen inp -> depth <= MAX_DEPTH ->
  (N.to_nat (blen inp - pos) < fuel)%nat ->
  fields_loop pinned_cfg e sch inp fuel m l pos depth = Ok (p, flds, tr) -> pos <= p /\ p <= blen inp.
Proof.
  intros Hlen Hpos Hd Hf E.
  pose proof (fields_loop_ok pinned_cfg e sch inp _ _ pinned_fixed Hlen fuel m l pos depth Hpos Hd Hf) as H.
  rewrite E in H. cbn in H. tauto.
Qed.

Lemma f1_refuted :
  exists inp, length inp = 11%nat /\ forall debug fuel, varint_loop orig_cfg debug fuel inp 0 0 0 = OutOfFuel.
Proof. exists f1_witness. split; [reflexivity|]. intros. apply f1_diverges. Qed.

Lemma f2_release_refuted :
  exists inp, length inp = 11%nat /\
    forall fuel, fields_loop orig_cfg rel onnx_schema inp fuel MSG_MODEL (top_limit orig_cfg) 0 0 = OutOfFuel.
Proof. exists f2_witness. split; [reflexivity|apply f2_release_diverges]. Qed.

Lemma f2_debug_refuted :
  exists inp, length inp = 11%nat /\ decode orig_cfg dbg onnx_schema MSG_MODEL inp = Panic.
Proof. exists f2_witness. split; [reflexivity|apply f2_debug_panics]. Qed.

Lemma f38a_refuted :
  (exists inp, length inp = 11%nat /\ decode orig_cfg rel onnx_schema MSG_MODEL inp = Panic) /\
  (exists inp, length inp = 7%nat /\ decode orig_cfg rel onnx_schema MSG_MODEL inp = Abort).
Proof.
  split; [exists f38a_panic|exists f38a_abort]; (split; [reflexivity|vm_compute; reflexivity]).
Qed.

Lemma f38b_refuted :
  exists inp p flds tr,
    decode orig_cfg rel onnx_schema MSG_MODEL inp = Ok (p, flds, tr) /\ oversize inp tr = true.
Proof.
  exists f38b_witness. eexists. eexists. eexists. split; [vm_compute; reflexivity|vm_compute; reflexivity].
Qed.

Lemma f38c_refuted :
  exists inp, blen inp < 1300 /\
    decode orig_cfg small_stack onnx_schema MSG_MODEL inp = Abort /\
    decode pinned_cfg small_stack onnx_schema MSG_MODEL inp = Err EDepth.
Proof.
  exists (deep_graph 101 []). repeat split; vm_compute; reflexivity.
Qed.

Lemma f38d_refuted :
  exists sch inp p flds tr,
    decode pre_f38d_cfg rel sch 0 inp = Ok (p, flds, tr) /\ oversize inp tr = true.
Proof.
  exists (fun _ _ => ARepF32), f38d_witness. eexists. eexists. eexists.
  split; [vm_compute; reflexivity|vm_compute; reflexivity].
Qed.

Lemma harness_machine_ok debug : machine_ok (harness_env debug) MAX_PREALLOC MAX_DEPTH.
Proof. unfold machine_ok. repeat split; cbv; discriminate. Qed.

Definition tiny_valid : list N := [8; 8; 58; 4; 10; 2; 10; 0].
Lemma nonvacuous :
  machine_ok (harness_env false) MAX_PREALLOC MAX_DEPTH /\
  blen tiny_valid <= isize_max /\
  model_outcome pinned_cfg rel tiny_valid = OOk (Some 8) true 0 0 false false /\
  (exists p flds tr, decode pinned_cfg rel onnx_schema MSG_MODEL tiny_valid = Ok (p, flds, tr) /\ length tr = 3%nat) /\
  model_outcome pinned_cfg rel f2_witness = OErr EEof /\
  model_outcome pinned_cfg rel f1_witness = OErr EInvalidVarint.
Proof.
  split; [apply harness_machine_ok|].
  split; [vm_compute; discriminate|].
  split; [vm_compute; reflexivity|].
  split; [eexists; eexists; eexists; split; vm_compute; reflexivity|].
  split; vm_compute; reflexivity.
Qed.
