(* Lemmas about LimitReader, Fields::next, the field handlers and the message walker, for the
   code as it is after the fix commits ([fixed] configuration), for all inputs / schemas. *)
From RV Require Import Prelude.
From Proto Require Import Pins Model Varint_proofs.
Open Scope N_scope.

Definition fixed (c : cfg) (pre dmax : N) : Prop :=
  c_ge c = true /\ c_checked c = true /\ c_trunc c = true /\ c_prealloc c = Some pre /\
  c_depth c = Some dmax /\ c_lenmm c = true /\ 1 <= c_max c /\ c_max c <= 10.

(* the machine can allocate MAX_PREALLOC bytes and hold MAX_DEPTH nested decoder frames *)
Definition machine_ok (e : env) (pre dmax : N) : Prop :=
  pre <= e_mem e /\ pre <= isize_max /\ dmax <= e_stack e.

Definition returns_ {A} (r : res A) : Prop :=
  match r with Ok _ | Err _ => True | _ => False end.

Lemma returns_bind {A B} (r : res A) (k : A -> res B) :
  returns_ r -> (forall a, r = Ok a -> returns_ (k a)) -> returns_ (bind r k).
Proof. destruct r; cbn; auto; tauto. Qed.

Lemma u64_max_two64 : u64_max = two64 - 1.
Proof. reflexivity. Qed.

Section Fixed.
  Variable c : cfg.
  Variable e : env.
  Variable sch : schema.
  Variable inp : list N.
  Variables pre dmax : N.
  Hypothesis Hfix : fixed c pre dmax.
  (* a Rust slice (and a file offset) never exceeds isize::MAX / i64::MAX bytes *)
  Hypothesis Hlen : blen inp <= isize_max.

  Lemma Hlen64 : blen inp + 16 < two64.
  Proof. unfold isize_max, two64 in *. lia. Qed.

  Let debug := e_debug e.

  Ltac fx := destruct Hfix as (Hge & Hchk & Htr & Hpre & Hdep & Hmm & Hmax1 & Hmax10).

  (* ---------------------------------------------------------------- LimitReader *)
  Lemma check_has_bytes_cases d l pos len :
    (check_has_bytes c d l pos len = Ok tt /\ pos + len < two64 /\ (forall e', l = Some e' -> pos + len <= e'))
    \/ (check_has_bytes c d l pos len = Err EEof /\
        (two64 <= pos + len \/ exists e', l = Some e' /\ e' < pos + len)).
  Proof.
    fx. unfold check_has_bytes. rewrite Hchk.
    destruct (pos + len <? two64) eqn:E.
    - apply N.ltb_lt in E. destruct l as [e'|].
      + destruct (pos + len <=? e') eqn:E2.
        * apply N.leb_le in E2. left. repeat split; auto. intros ? [= <-]. exact E2.
        * apply N.leb_gt in E2. right. split; auto. right. eauto.
      + left. repeat split; auto. discriminate.
    - apply N.ltb_ge in E. right. auto.
  Qed.

  Lemma sub_limit_fixed d pos len : sub_limit c d pos len = Ok (Some (N.min (pos + len) u64_max)).
  Proof. fx. unfold sub_limit. rewrite Hchk. reflexivity. Qed.

  Lemma sub_limit_exact d pos len : pos + len < two64 -> sub_limit c d pos len = Ok (Some (pos + len)).
  Proof.
    intros H. rewrite sub_limit_fixed. rewrite N.min_l; [reflexivity|]. rewrite u64_max_two64. lia.
  Qed.

  (* read_varint in the fixed configuration: returns, and classifies *)
  Lemma read_varint_cases d pos :
    (exists v p, read_varint c d inp pos = Ok (v, p) /\ pos < p /\ p <= blen inp)
    \/ read_varint c d inp pos = Err EEof \/ read_varint c d inp pos = Err EInvalidVarint.
  Proof.
    fx. destruct (read_varint c d inp pos) as [[v p]|x| | |] eqn:E.
    - left. exists v, p. split; auto. apply read_varint_pos in E. exact E.
    - apply varint_loop_errs in E. destruct E; subst; auto.
    - exfalso. apply (proj1 (varint_loop_no_crash c d inp Hmax10 (varint_fuel c) pos 0 0)). exact E.
    - exfalso. apply (proj2 (varint_loop_no_crash c d inp Hmax10 (varint_fuel c) pos 0 0)). exact E.
    - exfalso. apply (read_varint_terminates c d inp pos Hge Hmax1). exact E.
  Qed.

  (* LimitReader::read_varint *)
  Lemma lr_read_varint_cases d l pos :
    pos <= blen inp ->
    (exists v p, lr_read_varint c d inp l pos = Ok (v, p) /\ pos < p /\ p <= blen inp)
    \/ (lr_read_varint c d inp l pos = Err EEof /\ (l = None \/ exists e', l = Some e' /\ e' <= pos))
    \/ (exists x, lr_read_varint c d inp l pos = Err x /\ x <> EEof).
  Proof.
    intros Hpos. assert (Htr : c_trunc c = true) by (fx; auto).
    unfold lr_read_varint.
    destruct (check_has_bytes_cases d l pos 1) as [(H & _ & _)|(H & Hw)]; rewrite H; cbn [bind].
    - destruct (read_varint_cases d pos) as [(v & p & E & Hp)|[E|E]]; rewrite E.
      + left. eauto.
      + rewrite Htr. destruct l as [e'|]; cbn [bounded andb].
        * right. right. exists EIo. split; [reflexivity|discriminate].
        * right. left. auto.
      + right. right. exists EInvalidVarint. split; [reflexivity|discriminate].
    - right. left. split; auto. destruct Hw as [Hw|(e' & -> & Hw)]; [pose proof Hlen64; lia|]. right. exists e'. split; auto. lia.
  Qed.

  Lemma lr_read_fixed_cases d l pos n :
    pos <= blen inp -> n <= 8 ->
    (lr_read_fixed c d inp l pos n = Ok (pos + n) /\ pos + n <= blen inp)
    \/ (lr_read_fixed c d inp l pos n = Err EEof /\ exists e', l = Some e' /\ e' < pos + n)
    \/ lr_read_fixed c d inp l pos n = Err EIo.
  Proof.
    intros Hpos Hn. unfold lr_read_fixed.
    destruct (check_has_bytes_cases d l pos n) as [(H & _ & _)|(H & Hw)]; rewrite H; cbn [bind].
    - unfold read_exact. destruct (pos + n <=? blen inp) eqn:E.
      + apply N.leb_le in E. left. auto.
      + right. right. reflexivity.
    - right. left. split; auto. destruct Hw as [Hw|Hw]; [|exact Hw]. exfalso.
      pose proof Hlen64. lia.
  Qed.

  Lemma seek_relative_fwd pos k : seek_relative pos (Z.of_N k) = if pos + k <? two64 then Ok (pos + k) else Err EIo.
  Proof.
    unfold seek_relative.
    assert (Hz : (Z.of_N pos + Z.of_N k = Z.of_N (pos + k))%Z) by lia. rewrite Hz.
    destruct (pos + k <? two64) eqn:E.
    - apply N.ltb_lt in E.
      assert (H1 : (Z.of_N (pos + k) <? 0)%Z = false) by (apply Z.ltb_ge; lia).
      assert (H2 : (Z.of_N two64 <=? Z.of_N (pos + k))%Z = false) by (apply Z.leb_gt; lia).
      rewrite H1, H2. cbn [orb]. rewrite N2Z.id. reflexivity.
    - apply N.ltb_ge in E.
      assert (H2 : (Z.of_N two64 <=? Z.of_N (pos + k))%Z = true) by (apply Z.leb_le; lia).
      rewrite H2. rewrite orb_true_r. reflexivity.
  Qed.

  (* ValueReader::skip: forward only, and never past the end of the input *)
  Lemma vr_skip_cases pos len :
    pos <= blen inp ->
    (vr_skip c pos len inp = Ok (pos + len) /\ pos + len <= blen inp)
    \/ exists x, vr_skip c pos len inp = Err x.
  Proof.
    intros Hpos. fx. unfold vr_skip. rewrite Hchk, Htr.
    destruct (len <? two63) eqn:E63; [|right; eauto].
    destruct (len =? 0) eqn:E0.
    - apply N.eqb_eq in E0. subst. left. rewrite N.add_0_r. auto.
    - apply N.eqb_neq in E0.
      assert (Hz : (Z.of_N len - 1 = Z.of_N (len - 1))%Z) by lia. rewrite Hz.
      rewrite seek_relative_fwd.
      destruct (pos + (len - 1) <? two64); cbn [bind]; [|right; eauto].
      unfold read_exact. destruct (pos + (len - 1) + 1 <=? blen inp) eqn:E.
      + apply N.leb_le in E. left. replace (pos + (len - 1) + 1) with (pos + len) in * by lia. auto.
      + right. eauto.
  Qed.

  Lemma lr_skip_cases d l pos len :
    pos <= blen inp ->
    (lr_skip c d inp l pos len = Ok (pos + len) /\ pos + len <= blen inp)
    \/ exists x, lr_skip c d inp l pos len = Err x.
  Proof.
    intros Hpos. unfold lr_skip.
    destruct (check_has_bytes_cases d l pos len) as [(H & _ & _)|(H & _)]; rewrite H; cbn [bind].
    - apply vr_skip_cases; auto.
    - right. eauto.
  Qed.

  (* a crash (panic / abort) is only possible on a machine that cannot allocate MAX_PREALLOC
     bytes or cannot hold MAX_DEPTH nested frames *)
  Definition crash {A} (r : res A) : Prop := (r = Panic \/ r = Abort) /\ ~ machine_ok e pre dmax.

  Lemma vr_read_bytes_cases pos len :
    (exists bs, vr_read_bytes c e inp pos len = Ok (pos + len, bs) /\ pos + len <= blen inp)
    \/ vr_read_bytes c e inp pos len = Err EIo
    \/ crash (vr_read_bytes c e inp pos len).
  Proof.
    fx. unfold vr_read_bytes, crash, machine_ok. rewrite Hpre.
    assert (Hcap : N.min len pre <= pre) by lia.
    destruct (isize_max <? N.min len pre) eqn:E1; [apply N.ltb_lt in E1; right; right; split; [auto|lia]|].
    destruct (e_mem e <? N.min len pre) eqn:E2; [apply N.ltb_lt in E2; right; right; split; [auto|lia]|].
    destruct (pos + len <=? blen inp) eqn:E3.
    - apply N.leb_le in E3. left. eauto.
    - right. left. reflexivity.
  Qed.

  Lemma lr_read_bytes_cases l pos len :
    (exists bs, lr_read_bytes c e inp l pos len = Ok (pos + len, bs) /\ pos + len <= blen inp)
    \/ (exists x, lr_read_bytes c e inp l pos len = Err x)
    \/ crash (lr_read_bytes c e inp l pos len).
  Proof.
    unfold lr_read_bytes.
    destruct (check_has_bytes_cases (e_debug e) l pos len) as [(H & _ & _)|(H & _)]; rewrite H; cbn [bind].
    - destruct (vr_read_bytes_cases pos len) as [H1|[H1|H1]]; [left; exact H1|right; left; eauto|right; right; exact H1].
    - right. left. eauto.
  Qed.

  (* ---------------------------------------------------------------- Fields::next *)
  Definition field_ok (pos : N) (r : N * fval * lim * N) : Prop :=
    let '(_, v, fl, p) := r in
    pos < p /\ p <= blen inp /\ (forall n, v = VLen n -> fl = Some (p + n) /\ p + n < two64).

  Lemma next_field_cases d l pos :
    pos <= blen inp ->
    (next_field c d inp l pos = Ok None /\ (l = None \/ exists e', l = Some e' /\ e' <= pos))
    \/ (exists r, next_field c d inp l pos = Ok (Some r) /\ field_ok pos r)
    \/ exists x, next_field c d inp l pos = Err x.
  Proof.
    intros Hpos. assert (Htr : c_trunc c = true) by (fx; auto).
    unfold next_field.
    destruct (lr_read_varint_cases d l pos Hpos) as [(tag & p1 & E & Hp1 & Hp1')|[(E & Hl)|(x & E & Hx)]]; rewrite E.
    2: { left. auto. }
    2: { right. right. destruct x; try (exfalso; apply Hx; reflexivity); eauto. }
    assert (Hp1le : p1 <= blen inp) by lia.
    destruct (tag mod 8 =? 0).
    { destruct (lr_read_varint_cases d l p1 Hp1le) as [(x & p2 & E2 & Hp2 & Hp2')|[(E2 & _)|(y & E2 & _)]]; rewrite E2; cbn [bind].
      - rewrite (sub_limit_exact d p2 0) by (pose proof Hlen64; lia). cbn [bind]. right. left.
        eexists. split; [reflexivity|]. cbn. repeat split; try lia; discriminate.
      - right. right. eauto.
      - right. right. eauto. }
    destruct (tag mod 8 =? 1).
    { destruct (lr_read_fixed_cases d l p1 8 Hp1le ltac:(lia)) as [(E2 & Hp2)|[(E2 & _)|E2]]; rewrite E2; cbn [bind].
      - rewrite (sub_limit_exact d (p1 + 8) 0) by (pose proof Hlen64; lia). cbn [bind]. right. left.
        eexists. split; [reflexivity|]. cbn. repeat split; try lia; discriminate.
      - right. right. eauto.
      - right. right. eauto. }
    destruct (tag mod 8 =? 2).
    { destruct (lr_read_varint_cases d l p1 Hp1le) as [(x & p2 & E2 & Hp2 & Hp2')|[(E2 & _)|(y & E2 & _)]]; rewrite E2; cbn [bind].
      - rewrite Htr.
        destruct (check_has_bytes_cases d l p2 x) as [(H & Hs & _)|(H & _)]; rewrite H; cbn [bind].
        + rewrite (sub_limit_exact d p2 x) by lia. cbn [bind]. right. left.
          eexists. split; [reflexivity|]. cbn. split; [lia|split; [lia|]].
          intros n [= <-]. split; [reflexivity|exact Hs].
        + right. right. eauto.
      - right. right. eauto.
      - right. right. eauto. }
    destruct (tag mod 8 =? 3).
    { cbn [bind]. rewrite (sub_limit_exact d p1 0) by (pose proof Hlen64; lia). cbn [bind]. right. left.
      eexists. split; [reflexivity|]. cbn. repeat split; try lia; discriminate. }
    destruct (tag mod 8 =? 4).
    { cbn [bind]. rewrite (sub_limit_exact d p1 0) by (pose proof Hlen64; lia). cbn [bind]. right. left.
      eexists. split; [reflexivity|]. cbn. repeat split; try lia; discriminate. }
    destruct (tag mod 8 =? 5).
    { destruct (lr_read_fixed_cases d l p1 4 Hp1le ltac:(lia)) as [(E2 & Hp2)|[(E2 & _)|E2]]; rewrite E2; cbn [bind].
      - rewrite (sub_limit_exact d (p1 + 4) 0) by (pose proof Hlen64; lia). cbn [bind]. right. left.
        eexists. split; [reflexivity|]. cbn. repeat split; try lia; discriminate.
      - right. right. eauto.
      - right. right. eauto. }
    cbn [bind]. right. right. eauto.
  Qed.

  (* ---------------------------------------------------------------- packed loops *)
  Definition end_ok (pos e' : N) (r : res N) : Prop :=
    match r with
    | Ok p => pos <= p /\ p <= blen inp /\ e' <= p
    | Err _ => True
    | _ => False
    end.

  Lemma rep_varint_loop_ok d e' :
    forall fuel pos, pos <= blen inp -> (N.to_nat (blen inp - pos) < fuel)%nat ->
      end_ok pos e' (rep_varint_loop c d inp fuel (Some e') pos).
  Proof.
    induction fuel as [|f IH]; intros pos Hpos Hf; [lia|].
    cbn [rep_varint_loop].
    destruct (lr_read_varint_cases d (Some e') pos Hpos) as [(v & p & E & Hp & Hp')|[(E & Hl)|(x & E & Hx)]]; rewrite E.
    - assert (H : end_ok p e' (rep_varint_loop c d inp f (Some e') p)) by (apply IH; lia).
      unfold end_ok in *. destruct (rep_varint_loop c d inp f (Some e') p); auto. lia.
    - destruct Hl as [Hl|(e'' & [= <-] & Hl)]; [discriminate|]. cbn. lia.
    - destruct x; cbn; auto. exfalso; apply Hx; reflexivity.
  Qed.

  Lemma rep_fixed_loop_ok d n e' :
    1 <= n -> n <= 8 ->
    forall fuel pos, pos <= blen inp -> (N.to_nat (blen inp - pos) < fuel)%nat ->
      end_ok pos e' (rep_fixed_loop c d inp fuel n (Some e') pos).
  Proof.
    intros Hn1 Hn8. assert (Hmm : c_lenmm c = true) by (fx; auto).
    induction fuel as [|f IH]; intros pos Hpos Hf; [lia|].
    cbn [rep_fixed_loop].
    destruct (lr_read_fixed_cases d (Some e') pos n Hpos Hn8) as [(E & Hp)|[(E & Hl)|E]]; rewrite E.
    - assert (H : end_ok (pos + n) e' (rep_fixed_loop c d inp f n (Some e') (pos + n))) by (apply IH; lia).
      unfold end_ok in *. destruct (rep_fixed_loop c d inp f n (Some e') (pos + n)); auto. lia.
    - rewrite Hmm. cbn [andb]. destruct (pos <? e') eqn:E2; cbn; auto.
      apply N.ltb_ge in E2. lia.
    - cbn. auto.
  Qed.

  (* ---------------------------------------------------------------- handlers and the walker *)
  Definition inb (x : N * N) : Prop := fst x + snd x <= blen inp.

  Definition good (pos : N) (l : lim) (r : res mres) : Prop :=
    match r with
    | Ok (p, _, tr) => pos <= p /\ p <= blen inp /\ (forall e', l = Some e' -> e' <= p) /\ Forall inb tr
    | Err _ => True
    | Panic | Abort => ~ machine_ok e pre dmax
    | OutOfFuel => False
    end.

  Definition rec_ok (fuel : nat) (rec : N -> lim -> N -> N -> res mres) : Prop :=
    forall m l pos depth, pos <= blen inp -> depth <= dmax ->
      (N.to_nat (blen inp - pos) < fuel)%nat -> good pos l (rec m l pos depth).

  Definition handled (p : N) (v : fval) (r : res (N * list (N * N))) : Prop :=
    match r with
    | Ok (p', tr) => p <= p' /\ p' <= blen inp /\ (forall n, v = VLen n -> p + n <= blen inp) /\ Forall inb tr
    | Err _ => True
    | Panic | Abort => ~ machine_ok e pre dmax
    | OutOfFuel => False
    end.

  Lemma handle_ok fuel rec a v fl p depth :
    rec_ok fuel rec ->
    p <= blen inp -> depth <= dmax -> (N.to_nat (blen inp - p) < fuel)%nat ->
    (forall n, v = VLen n -> fl = Some (p + n) /\ p + n < two64) ->
    handled p v (handle c e inp fuel rec a v fl p depth).
  Proof.
    intros Hrec Hp Hd Hf Hv.
    assert (Hdep : c_depth c = Some dmax) by (fx; auto).
    destruct v as [x| |n| | |];
      try (destruct a; unfold handle; cbv beta iota zeta;
           first [ exact I
                 | (cbn; repeat split; [lia|lia|intros ? HH; discriminate HH|constructor]) ]; fail).
    destruct (Hv n eq_refl) as [-> Hn]. clear Hv.
    destruct a; unfold handle; cbv beta iota zeta; try exact I.
    - (* ASkip *)
      destruct (lr_skip_cases (e_debug e) (Some (p + n)) p n Hp) as [(E & Hle)|(x & E)]; rewrite E; cbn [bind]; [|exact I].
      cbn. repeat split; try lia; [intros ? [= <-]; lia|constructor].
    - (* AString *)
      destruct (lr_read_bytes_cases (Some (p + n)) p n) as [(bs & E & Hle)|[(x & E)|([E|E] & Hc)]]; rewrite E; cbn [bind];
        [|exact I|exact Hc|exact Hc].
      destruct (utf8_valid bs); [|exact I].
      cbn. repeat split; try lia; [intros ? [= <-]; lia|constructor].
    - (* ABytes *)
      destruct (lr_read_bytes_cases (Some (p + n)) p n) as [(bs & E & Hle)|[(x & E)|([E|E] & Hc)]]; rewrite E; cbn [bind];
        [|exact I|exact Hc|exact Hc].
      cbn. repeat split; try lia; [intros ? [= <-]; lia|constructor].
    - (* ARepVarint *)
      rewrite (sub_limit_exact (e_debug e) p n Hn). cbn [bind].
      pose proof (rep_varint_loop_ok (e_debug e) (p + n) fuel p Hp Hf) as H.
      destruct (rep_varint_loop c (e_debug e) inp fuel (Some (p + n)) p); cbn in H |- *; try tauto.
      repeat split; try lia; [intros ? [= <-]; lia|constructor].
    - (* ARepF32 *)
      rewrite (sub_limit_exact (e_debug e) p n Hn). cbn [bind].
      pose proof (rep_fixed_loop_ok (e_debug e) 4 (p + n) ltac:(lia) ltac:(lia) fuel p Hp Hf) as H.
      destruct (rep_fixed_loop c (e_debug e) inp fuel 4 (Some (p + n)) p); cbn in H |- *; try tauto.
      repeat split; try lia; [intros ? [= <-]; lia|constructor].
    - (* ARepF64 *)
      rewrite (sub_limit_exact (e_debug e) p n Hn). cbn [bind].
      pose proof (rep_fixed_loop_ok (e_debug e) 8 (p + n) ltac:(lia) ltac:(lia) fuel p Hp Hf) as H.
      destruct (rep_fixed_loop c (e_debug e) inp fuel 8 (Some (p + n)) p); cbn in H |- *; try tauto.
      repeat split; try lia; [intros ? [= <-]; lia|constructor].
    - (* AMsg *)
      rewrite Hdep. destruct (dmax <=? depth) eqn:Ed; [exact I|]. apply N.leb_gt in Ed.
      destruct (e_stack e <? depth + 1) eqn:Es; [apply N.ltb_lt in Es; cbn; unfold machine_ok; intros (_ & _ & Hs); lia|].
      rewrite (sub_limit_exact (e_debug e) p n Hn). cbn [bind].
      pose proof (Hrec m (Some (p + n)) p (depth + 1) Hp ltac:(lia) Hf) as H.
      destruct (rec m (Some (p + n)) p (depth + 1)) as [[[p' flds] tr]|x| | |]; cbn in H |- *; try tauto.
      destruct H as (H1 & H2 & H3 & H4). specialize (H3 _ eq_refl).
      repeat split; try lia; [intros ? [= <-]; lia|exact H4].
  Qed.

  Lemma fields_loop_ok : forall fuel, rec_ok fuel (fields_loop c e sch inp fuel).
  Proof.
    induction fuel as [|f IH]; intros m l pos depth Hpos Hd Hf; [lia|].
    cbn [fields_loop].
    destruct (next_field_cases (e_debug e) l pos Hpos) as [(E & Hl)|[(r & E & Hr)|(x & E)]]; rewrite E.
    - cbn. repeat split; try lia; [|constructor].
      intros e' ->. destruct Hl as [Hl|(e'' & [= <-] & Hl)]; [discriminate|exact Hl].
    - destruct r as [[[number v] fl] p]. cbn in Hr. destruct Hr as (Hp1 & Hp2 & Hv).
      assert (Hf' : (N.to_nat (blen inp - p) < f)%nat) by lia.
      pose proof (handle_ok f (fields_loop c e sch inp f) (sch m number) v fl p depth IH Hp2 Hd Hf' Hv) as H.
      destruct (handle c e inp f (fields_loop c e sch inp f) (sch m number) v fl p depth) as [[p1 tr1]|x| | |];
        cbn in H; cbn [bind]; try tauto.
      destruct H as (H1 & H2 & H3 & H4).
      pose proof (IH m l p1 depth H2 Hd ltac:(lia)) as G.
      destruct (fields_loop c e sch inp f m l p1 depth) as [[[p2 flds] tr2]|x| | |]; cbn in G; cbn [bind]; try tauto.
      destruct G as (G1 & G2 & G3 & G4).
      cbn. repeat split; try lia; [exact G3|].
      apply Forall_app. split.
      + destruct v; try constructor; [|constructor]. unfold inb. cbn. apply H3. reflexivity.
      + apply Forall_app. split; assumption.
    - cbn. exact I.
  Qed.

End Fixed.
