(* Lemmas about read_varint (all inputs, all positions, debug and release arithmetic). *)
From RV Require Import Prelude.
From Proto Require Import Pins Model.
Open Scope N_scope.

Lemma byte_at_some inp pos b : byte_at inp pos = Some b -> pos < blen inp.
Proof.
  unfold byte_at. destruct (pos <? blen inp) eqn:E; [|discriminate].
  intros _. apply N.ltb_lt; exact E.
Qed.

Lemma shl64_cases debug x s :
  (exists v, shl64 debug x s = Ok v) \/ (shl64 debug x s = Panic /\ 64 <= s /\ debug = true).
Proof.
  unfold shl64. destruct (s <? 64) eqn:E.
  - left; eauto.
  - apply N.ltb_ge in E. destruct debug; [right; auto|left; eauto].
Qed.

Lemma shl64_small debug x s : s < 64 -> exists v, shl64 debug x s = Ok v.
Proof.
  intros H. unfold shl64. apply N.ltb_lt in H. rewrite H. eauto.
Qed.

(* ---- termination: with the `>=` exit test, at most MAX - index iterations ---- *)
Lemma varint_loop_terminates c debug inp :
  c_ge c = true ->
  forall fuel pos index value,
    index < c_max c -> (N.to_nat (c_max c - index) <= fuel)%nat ->
    varint_loop c debug fuel inp pos index value <> OutOfFuel.
Proof.
  intros Hge. induction fuel as [|f IH]; intros pos index value Hlt Hf.
  - exfalso. assert (N.to_nat (c_max c - index) <> 0%nat) by lia. lia.
  - cbn [varint_loop]. destruct (byte_at inp pos) as [b|]; [|discriminate].
    apply N.ltb_lt in Hlt. rewrite Hlt. apply N.ltb_lt in Hlt.
    destruct (shl64_cases debug (N.land b 127) (index * 7)) as [[v Hv]|[Hp _]]; rewrite ?Hv, ?Hp; cbn [bind]; [|discriminate].
    destruct (b <=? 127).
    + destruct ((index + 1 =? c_max c) && (1 <? b)); discriminate.
    + rewrite Hge. cbn [andb].
      destruct (c_max c <=? index + 1) eqn:E; [discriminate|].
      apply N.leb_gt in E. apply IH; lia.
Qed.

Lemma read_varint_terminates c debug inp pos :
  c_ge c = true -> 1 <= c_max c -> read_varint c debug inp pos <> OutOfFuel.
Proof.
  intros Hge Hmax. unfold read_varint, varint_fuel.
  apply varint_loop_terminates; [exact Hge|lia|rewrite N.sub_0_r; lia].
Qed.

(* ---- a successful read consumed at least one byte and stayed inside the input (any variant) ---- *)
Lemma varint_loop_pos c debug inp :
  forall fuel pos index value v p,
    varint_loop c debug fuel inp pos index value = Ok (v, p) -> pos < p /\ p <= blen inp.
Proof.
  induction fuel as [|f IH]; intros pos index value v p H; [discriminate|].
  cbn [varint_loop] in H. destruct (byte_at inp pos) as [b|] eqn:Hb; [|discriminate].
  apply byte_at_some in Hb.
  destruct (index <? c_max c).
  - destruct (shl64 debug (N.land b 127) (index * 7)); cbn [bind] in H; try discriminate.
    destruct (b <=? 127).
    + destruct ((index + 1 =? c_max c) && (1 <? b)); [discriminate|].
      inversion H; subst. lia.
    + destruct (c_ge c && (c_max c <=? index + 1)); [discriminate|].
      apply IH in H. lia.
  - destruct (if c_ge c then c_max c <=? index else c_max c <? index); [discriminate|].
    apply IH in H. lia.
Qed.

Lemma read_varint_pos c debug inp pos v p :
  read_varint c debug inp pos = Ok (v, p) -> pos < p /\ p <= blen inp.
Proof. apply varint_loop_pos. Qed.

(* with the `>=` test a successful read consumed at most MAX bytes *)
Lemma varint_loop_pos_upper c debug inp :
  c_ge c = true ->
  forall fuel pos index value v p,
    index <= c_max c ->
    varint_loop c debug fuel inp pos index value = Ok (v, p) -> p + index <= pos + c_max c.
Proof.
  intros Hge. induction fuel as [|f IH]; intros pos index value v p Hi H; [discriminate|].
  cbn [varint_loop] in H. destruct (byte_at inp pos) as [b|] eqn:Hb; [|discriminate].
  destruct (index <? c_max c) eqn:Hlt.
  - apply N.ltb_lt in Hlt.
    destruct (shl64 debug (N.land b 127) (index * 7)); cbn [bind] in H; try discriminate.
    destruct (b <=? 127).
    + destruct ((index + 1 =? c_max c) && (1 <? b)); [discriminate|].
      inversion H; subst. lia.
    + rewrite Hge in H. cbn [andb] in H.
      destruct (c_max c <=? index + 1) eqn:E; [discriminate|].
      apply N.leb_gt in E. apply IH in H; lia.
  - rewrite Hge in H. apply N.ltb_ge in Hlt. apply N.leb_le in Hlt. rewrite Hlt in H. discriminate.
Qed.

(* ---- no panic when every shift stays below 64 bits, never an abort ---- *)
Lemma varint_loop_no_crash c debug inp :
  c_max c <= 10 ->
  forall fuel pos index value,
    varint_loop c debug fuel inp pos index value <> Panic /\
    varint_loop c debug fuel inp pos index value <> Abort.
Proof.
  intros Hmax. induction fuel as [|f IH]; intros pos index value; [split; discriminate|].
  cbn [varint_loop]. destruct (byte_at inp pos) as [b|]; [|split; discriminate].
  destruct (index <? c_max c) eqn:Hlt.
  - apply N.ltb_lt in Hlt.
    destruct (shl64_small debug (N.land b 127) (index * 7)) as [v Hv]; [lia|].
    rewrite Hv. cbn [bind].
    destruct (b <=? 127).
    + destruct ((index + 1 =? c_max c) && (1 <? b)); split; discriminate.
    + destruct (c_ge c && (c_max c <=? index + 1)); [split; discriminate|apply IH].
  - destruct (if c_ge c then c_max c <=? index else c_max c <? index); [split; discriminate|apply IH].
Qed.

(* the only error kinds *)
Lemma varint_loop_errs c debug inp :
  forall fuel pos index value e,
    varint_loop c debug fuel inp pos index value = Err e -> e = EEof \/ e = EInvalidVarint.
Proof.
  induction fuel as [|f IH]; intros pos index value e H; [discriminate|].
  cbn [varint_loop] in H. destruct (byte_at inp pos) as [b|]; [|inversion H; auto].
  destruct (index <? c_max c).
  - destruct (shl64_cases debug (N.land b 127) (index * 7)) as [[v Hv]|[Hp _]]; rewrite ?Hv, ?Hp in H; cbn [bind] in H; [|discriminate].
    destruct (b <=? 127).
    + destruct ((index + 1 =? c_max c) && (1 <? b)); inversion H; auto.
    + destruct (c_ge c && (c_max c <=? index + 1)); [inversion H; auto|eauto].
  - destruct (if c_ge c then c_max c <=? index else c_max c <? index); [inversion H; auto|eauto].
Qed.

(* ---- F1: with the original `>` test, ten continuation bytes followed by one more byte
        make the loop spin with an unchanged state ---- *)
Definition f1_witness : list N := [128;128;128;128;128;128;128;128;128;128;1].

Lemma f1_spin debug : forall fuel value, varint_loop orig_cfg debug fuel f1_witness 10 10 value = OutOfFuel.
Proof.
  induction fuel as [|f IH]; intros value; [reflexivity|].
  cbn [varint_loop]. change (byte_at f1_witness 10) with (Some 1).
  change (10 <? c_max orig_cfg) with false. cbv iota.
  change (if c_ge orig_cfg then c_max orig_cfg <=? 10 else c_max orig_cfg <? 10) with false.
  cbv iota. apply IH.
Qed.

Lemma f1_diverges debug : forall fuel, varint_loop orig_cfg debug fuel f1_witness 0 0 0 = OutOfFuel.
Proof.
  intros fuel.
  do 10 (destruct fuel as [|fuel]; [reflexivity|]).
  transitivity (varint_loop orig_cfg debug fuel f1_witness 10 10 0).
  - destruct debug; lazy; reflexivity.
  - apply f1_spin.
Qed.
