(* C32 -- The generator feeds the model a consistent token history.
   Only statements; every proof is `exact <lemma>`.

   [run true g m ops] is the trace (operation, observation) list that the state-machine model of
   the FIXED rten_generate::Generator produces for configuration [g] (number of decoder /
   encoder KV-cache entries, use_cache_branch input), mock model [m] (arbitrary returned cache
   tensors) and operation list [ops] (with_prompt | append_prompt | clear_prompt |
   process_prompt | next -> token | next whose logits filter removes everything).
   [calls tr] is the log of model calls.  All theorems quantify over every g, m and ops. *)
From RV Require Import Prelude.
From Generator Require Import Model Spec_proofs Generator_proofs Main_proofs.
Open Scope N_scope.

(* (1a) tokens: every model call submits exactly the tokens pending at that moment, where
   "pending" is the API-level notion ([pend_step]: with_prompt sets, append_prompt extends,
   clear_prompt empties, a call consumes everything when the model has a KV cache, a produced
   token is appended); and prompt() reports that pending list after every operation.  With a
   KV cache a pending token is therefore submitted by exactly one call. *)
Theorem C32_tokens_once : forall g m ops,
  let tr := run true g m ops in
  map k_tokens (calls tr) = consumed (has_kv g) [] tr /\
  map (fun s => o_prompt (snd s)) tr = pendings (has_kv g) [] tr.
Proof. exact (run_tokens true). Qed.

(* (1b) positions, with a KV cache: the position ids of all calls put end to end are
   0,1,2,... one per submitted token; call i starts where call i-1 stopped; cache_position
   equals position_ids; the attention mask covers exactly the positions so far. *)
Theorem C32_positions_contiguous : forall g m ops,
  has_kv g = true ->
  let cs := calls (run true g m ops) in
  concat (map k_pos cs) = nseq 0 (ntok cs) /\
  forall i c, nth_error cs i = Some c ->
    k_pos c = nseq (N.of_nat (ntok (firstn i cs))) (length (k_tokens c)) /\
    k_cpos c = k_pos c /\
    k_mask c = N.of_nat (ntok (firstn (S i) cs)).
Proof. exact positions_contiguous. Qed.

(* without KV cache the whole retained sequence is re-submitted from position 0 *)
Theorem C32_positions_without_cache : forall g m ops,
  has_kv g = false ->
  let cs := calls (run true g m ops) in
  forall i c, nth_error cs i = Some c ->
    k_pos c = nseq 0 (length (k_tokens c)) /\ k_mask c = N.of_nat (length (k_tokens c)).
Proof. exact positions_nokv. Qed.

(* (2) cache hand-off: the first call receives the empty initial tensors; every later call
   receives, per decoder entry, the tensor the previous call returned, and per encoder entry
   the last non-empty tensor returned (merge_enc_nth below reads [merge_enc] entry-wise) *)
Theorem C32_cache_handoff : forall g m ops,
  let cs := calls (run true g m ops) in
  (forall c, nth_error cs 0 = Some c ->
     k_kv_in c = repeat (0, 0) (g_nd g) /\ k_enc_in c = repeat (0, 0) (g_ne g)) /\
  (forall i c c', nth_error cs i = Some c -> nth_error cs (S i) = Some c' ->
     k_kv_in c' = k_kv_out c /\ k_enc_in c' = merge_enc (k_enc_in c) (k_enc_out c)).
Proof. exact cache_handoff. Qed.

Theorem C32_encoder_entry_kept_or_replaced : forall cur outs j,
  length outs = length cur ->
  nth_error (merge_enc cur outs) j =
  match nth_error outs j with
  | Some (Some x) => Some x
  | _ => nth_error cur j
  end.
Proof. exact merge_enc_nth. Qed.

(* (3) prev_tokens() after every operation, and the previous-token list shown to the logits
   filter inside next(), equal the history of token occurrences [hist_step]: at a model call
   the pending tokens that are not yet part of the history are appended (a produced token that
   is re-submitted, and without KV cache the tokens of earlier calls, are not appended again),
   then the produced token *)
Theorem C32_prev_tokens_complete : forall g m ops,
  let tr := run true g m ops in
  map (fun s => o_prev (snd s)) tr = expected_prev (has_kv g) ([], []) tr /\
  seen tr = expected_seen (has_kv g) ([], []) tr.
Proof. exact run_prev. Qed.

(* (3') the same in terms of the call log alone, with a KV cache, as long as no
   with_prompt/clear_prompt throws away a produced token that was never submitted:
   prev_tokens ++ (pending tokens not yet recorded) = all submitted tokens ++ pending;
   in particular prev_tokens = all submitted tokens whenever nothing is pending *)
Theorem C32_prev_tokens_equal_submitted : forall g m ops,
  has_kv g = true ->
  let tr := run true g m ops in
  nodrop true ([], []) tr = true ->
  last (map (fun s => o_prev (snd s)) tr) [] ++ fresh (fst (hist_final true tr)) =
  concat (map k_tokens (calls tr)) ++ last (map (fun s => o_prompt (snd s)) tr) [].
Proof. exact prev_equals_submitted. Qed.

Theorem C32_prev_tokens_equal_submitted_when_consumed : forall g m ops,
  has_kv g = true ->
  let tr := run true g m ops in
  nodrop true ([], []) tr = true ->
  last (map (fun s => o_prompt (snd s)) tr) [] = [] ->
  last (map (fun s => o_prev (snd s)) tr) [] = concat (map k_tokens (calls tr)).
Proof. exact prev_equals_submitted_when_consumed. Qed.

(* the executable oracle used on the implementation's log is exactly the conjunction of the
   list equations above (so a case failing [prop_ok] is a counterexample to the property) *)
Theorem C32_oracle_reflects : forall c,
  prop_ok c = true <->
  let kv := negb (Nat.eqb (c_nd c) 0) in
  tokens_spec kv (c_steps c) /\ pos_spec kv (c_steps c) /\
  handoff_spec (c_nd c) (c_ne c) (c_steps c) /\ prev_spec kv (c_steps c).
Proof. exact prop_ok_spec. Qed.

Theorem C32_model_satisfies_oracle : forall g m ops,
  prop_ok (mkC (g_nd g) (g_ne g) (g_flag g) (run true g m ops)) = true.
Proof. exact run_prop_ok. Qed.

(* F8: the code before the fix (prompt copied into prev_tokens only while it is empty) violates
   clause (3): with_prompt [1;2]; next -> 4; append_prompt [3]; next -> 5 *)
Theorem C32_unfixed_code_refuted :
  exists g m ops, prev_ok (has_kv g) (run false g m ops) = false.
Proof. exact unfixed_prev_refuted. Qed.

(* non-vacuity: a chat-style history on a KV-cache model; the calls, positions and history *)
Example C32_nonvacuous :
  let g := {| g_nd := 2; g_ne := 0; g_flag := false |} in
  let tr := run true g std_mock [OpW [1; 2]; OpN 4; OpA [3]; OpN 5; OpP] in
  map k_tokens (calls tr) = [[1; 2]; [4; 3]; [5]] /\
  map k_pos (calls tr) = [[0; 1]; [2; 3]; [4]] /\
  last (map (fun s => o_prev (snd s)) tr) [] = [1; 2; 4; 3; 5] /\
  nodrop true ([], []) tr = true /\
  map (fun s => o_prev (snd s))
      (run false g std_mock [OpW [1; 2]; OpN 4; OpA [3]; OpN 5]) = [[]; [1; 2; 4]; [1; 2; 4]; [1; 2; 4; 5]].
Proof. vm_compute. repeat split; reflexivity. Qed.
