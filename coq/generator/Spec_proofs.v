(* Lemmas about the specification functions of Model.v alone (no reference to the state
   machine): what the list equations of the three clauses mean index by index. *)
From RV Require Import Prelude.
From Generator Require Import Model.
Open Scope N_scope.

Definition ntok (cs : list call) : nat := length (concat (map k_tokens cs)).

Lemma nseq_length a n : length (nseq a n) = n.
Proof. revert a; induction n as [|n IH]; intros a; cbn; [reflexivity|]. rewrite IH. reflexivity. Qed.

Lemma nseq_app : forall n m a, nseq a (n + m) = nseq a n ++ nseq (a + N.of_nat n) m.
Proof.
  induction n as [|n IH]; intros m a.
  - cbn [nseq app Nat.add]. rewrite N.add_0_r. reflexivity.
  - cbn [nseq app Nat.add]. rewrite IH. f_equal. f_equal. f_equal. lia.
Qed.

Lemma nseq_nth : forall n a i, (i < n)%nat -> nth_error (nseq a n) i = Some (a + N.of_nat i).
Proof.
  induction n as [|n IH]; intros a i Hi; [lia|].
  destruct i as [|i]; cbn [nseq nth_error].
  - rewrite N.add_0_r. reflexivity.
  - rewrite IH by lia. f_equal. lia.
Qed.

(* ---- positions: with a KV cache the position lists of all calls, put end to end, are
        0, 1, 2, ... without gap or repetition, one per submitted token ---- *)
Lemma expected_pos_concat cs : forall off,
  concat (map fst (expected_pos true off cs)) = nseq off (ntok cs).
Proof.
  unfold ntok. induction cs as [|c r IH]; intros off; [reflexivity|].
  cbn [expected_pos map fst concat]. rewrite IH, app_length, nseq_app. reflexivity.
Qed.

Lemma expected_pos_nth cs : forall off i c,
  nth_error cs i = Some c ->
  nth_error (expected_pos true off cs) i =
  Some (nseq (off + N.of_nat (ntok (firstn i cs))) (length (k_tokens c)),
        off + N.of_nat (ntok (firstn (S i) cs))).
Proof.
  unfold ntok. induction cs as [|c0 r IH]; intros off i c H; [destruct i; discriminate|].
  destruct i as [|i].
  - inversion H; subst. cbn. rewrite app_nil_r, N.add_0_r. reflexivity.
  - cbn [nth_error] in H. cbn [expected_pos nth_error]. rewrite (IH _ _ _ H).
    cbn [firstn map concat]. rewrite !app_length. f_equal. f_equal; [f_equal|]; lia.
Qed.

(* without KV cache every call starts again at position 0 *)
Lemma expected_pos_nokv_nth cs : forall i c,
  nth_error cs i = Some c ->
  nth_error (expected_pos false 0 cs) i =
  Some (nseq 0 (length (k_tokens c)), N.of_nat (length (k_tokens c))).
Proof.
  induction cs as [|c0 r IH]; intros i c H; [destruct i; discriminate|].
  destruct i as [|i].
  - inversion H; subst. cbn. rewrite N.add_0_l. reflexivity.
  - cbn [nth_error] in H. cbn [expected_pos nth_error]. apply IH. exact H.
Qed.

(* ---- cache hand-off ---- *)
Lemma expected_cache_in_hd kvc enc c r :
  nth_error (expected_cache_in kvc enc (c :: r)) 0 = Some (kvc, enc).
Proof. reflexivity. Qed.

Lemma expected_cache_in_step cs : forall kvc enc i c,
  nth_error cs i = Some c ->
  exists kin ein,
    nth_error (expected_cache_in kvc enc cs) i = Some (kin, ein) /\
    (forall c', nth_error cs (S i) = Some c' ->
       nth_error (expected_cache_in kvc enc cs) (S i) =
       Some (k_kv_out c, merge_enc ein (k_enc_out c))).
Proof.
  induction cs as [|c0 r IH]; intros kvc enc i c H; [destruct i; discriminate|].
  destruct i as [|i].
  - inversion H; subst. exists kvc, enc. split; [reflexivity|].
    intros c' H'. cbn [nth_error] in H'. cbn [expected_cache_in nth_error].
    destruct r as [|c1 r']; [discriminate|]. reflexivity.
  - cbn [nth_error] in H. cbn [expected_cache_in].
    destruct (IH (k_kv_out c0) (merge_enc enc (k_enc_out c0)) i c H) as (kin & ein & E1 & E2).
    exists kin, ein. cbn [nth_error]. split; [exact E1|]. intros c' H'. exact (E2 c' H').
Qed.

(* entry j of the encoder cache after a call: the tensor just returned if it is non-empty,
   otherwise the one held before *)
Lemma merge_enc_nth : forall cur outs j,
  length outs = length cur ->
  nth_error (merge_enc cur outs) j =
  match nth_error outs j with
  | Some (Some x) => Some x
  | _ => nth_error cur j
  end.
Proof.
  induction cur as [|c cr IH]; intros outs j Hl.
  - destruct outs; [|discriminate]. destruct j; reflexivity.
  - destruct outs as [|o orr]; [discriminate|]. cbn [merge_enc].
    destruct j as [|j]; cbn [nth_error].
    + destruct o; reflexivity.
    + apply IH. cbn in Hl. lia.
Qed.

(* ---- history ---- *)
Lemma last_cons {A} (l : list A) : forall x d, last (x :: l) d = last l x.
Proof.
  induction l as [|a l IH]; intros x d; [reflexivity|].
  change (last (x :: a :: l) d) with (last (a :: l) d).
  rewrite (IH a d), (IH a x). reflexivity.
Qed.

Lemma expected_prev_last kv tr : forall g,
  last (expected_prev kv g tr) (snd g) = snd (fold_left (hist_step kv) tr g).
Proof.
  induction tr as [|s r IH]; intros g; [reflexivity|].
  cbn [expected_prev fold_left]. rewrite last_cons. apply IH.
Qed.

Lemma pendings_last kv tr : forall p,
  last (pendings kv p tr) p = fold_left (pend_step kv) tr p.
Proof.
  induction tr as [|s r IH]; intros p; [reflexivity|].
  cbn [pendings fold_left]. rewrite last_cons. apply IH.
Qed.

(* the flagged pending list of the history and the plain pending list move together *)
Lemma pend_sync kv g s :
  map fst (fst (hist_step kv g s)) = pend_step kv (map fst (fst g)) s.
Proof.
  destruct g as [pf h]. destruct s as [o ob]. unfold hist_step, pend_step, produced, after_call.
  cbn [fst snd].
  assert (Hu : forall p, map fst (unflagged p) = p).
  { intros p. unfold unflagged. rewrite map_map. cbn. apply map_id. }
  assert (Ht : map fst (map (fun x : N * bool => (fst x, true)) pf) = map fst pf).
  { rewrite map_map. reflexivity. }
  destruct o; cbn [fst snd]; rewrite ?map_app, ?Hu; try reflexivity;
    destruct (o_res ob); destruct kv; cbn [fst snd map app]; rewrite ?map_app, ?Ht, ?app_nil_r; reflexivity.
Qed.

Lemma pend_sync_fold kv tr : forall g,
  map fst (fst (fold_left (hist_step kv) tr g)) = fold_left (pend_step kv) tr (map fst (fst g)).
Proof.
  induction tr as [|s r IH]; intros g; [reflexivity|].
  cbn [fold_left]. rewrite IH, pend_sync. reflexivity.
Qed.

Lemma fresh_unflagged' p : fresh (unflagged p) = p.
Proof. induction p as [|t r IH]; [reflexivity|]. unfold fresh, unflagged in *. cbn. f_equal. exact IH. Qed.

Lemma fresh_app' a b : fresh (a ++ b) = fresh a ++ fresh b.
Proof. unfold fresh. rewrite filter_app, map_app. reflexivity. Qed.

Lemma fresh_none_flagged (pf : list (N * bool)) :
  forallb (fun x => negb (snd x)) pf = true -> fresh pf = map fst pf.
Proof.
  induction pf as [|[t b] r IH]; [reflexivity|]. cbn [forallb snd].
  rewrite andb_true_iff. intros [Hb Hr]. unfold fresh in *. cbn [filter snd].
  rewrite Hb. cbn [map fst]. f_equal. apply IH. exact Hr.
Qed.

(* with a KV cache: history ++ pending-not-yet-recorded = everything submitted ++ pending *)
Definition balanced (g : gh) (sub : list N) : Prop :=
  snd g ++ fresh (fst g) = sub ++ map fst (fst g).

Lemma balanced_step g sub s :
  balanced g sub -> nodrop_step g s = true ->
  balanced (hist_step true g s)
           (sub ++ if is_call (fst s) then map fst (fst g) else []).
Proof.
  destruct g as [pf h]. destruct s as [o ob]. unfold balanced, nodrop_step, hist_step, after_call.
  cbn [fst snd]. intros B ND.
  destruct o; cbn [is_call fst snd] in *; rewrite ?app_nil_r.
  - rewrite (fresh_none_flagged _ ND) in B. apply app_inv_tail in B. subst h.
    rewrite fresh_unflagged'. unfold unflagged. rewrite map_map. cbn. rewrite map_id. reflexivity.
  - rewrite fresh_app', fresh_unflagged', map_app. unfold unflagged at 1. rewrite map_map. cbn.
    rewrite map_id. rewrite (app_assoc h), B, <- app_assoc. reflexivity.
  - rewrite (fresh_none_flagged _ ND) in B. apply app_inv_tail in B. subst h. reflexivity.
  - destruct (o_res ob); cbn [fst snd map]; unfold fresh; cbn; rewrite ?app_nil_r; try exact B.
    fold (fresh pf). rewrite B. reflexivity.
  - destruct (o_res ob); cbn [fst snd map]; unfold fresh; cbn; rewrite ?app_nil_r; try exact B.
    fold (fresh pf). rewrite B. reflexivity.
  - destruct (o_res ob); cbn [fst snd map]; unfold fresh; cbn; rewrite ?app_nil_r; try exact B.
    fold (fresh pf). rewrite B. reflexivity.
Qed.

Lemma balanced_fold tr : forall g sub,
  balanced g sub -> nodrop true g tr = true ->
  balanced (fold_left (hist_step true) tr g)
           (sub ++ concat (consumed true (map fst (fst g)) tr)).
Proof.
  induction tr as [|s r IH]; intros g sub B ND.
  - cbn. rewrite app_nil_r. exact B.
  - cbn [nodrop] in ND. apply andb_true_iff in ND. destruct ND as [ND1 ND2].
    cbn [fold_left consumed]. rewrite concat_app, app_assoc.
    specialize (IH _ _ (balanced_step g sub s B ND1) ND2).
    rewrite pend_sync in IH.
    replace (concat (if is_call (fst s) then [map fst (fst g)] else []))
      with (if is_call (fst s) then map fst (fst g) else []).
    + exact IH.
    + destruct (is_call (fst s)); cbn; rewrite ?app_nil_r; reflexivity.
Qed.
