(* Model of rten-generate/src/generator.rs: the token / position / KV-cache bookkeeping of
   `Generator` as a state machine, the log of model calls it produces, and (second half) an
   independent executable specification of property C32 over such a log.

   Executable definitions only; proofs are in Generator_proofs.v / Spec_proofs.v.

   Conventions
   * token ids, positions, cache tags and lengths are N; small internal counters are nat.
   * a KV-cache tensor is abstracted to its identity [cid = (tag, sequence length)]; the mock
     model of the harness fills every tensor it returns with a fresh tag and reads the tag of
     every tensor it receives (the generator may re-allocate the buffer, which preserves
     contents), an empty tensor has tag 0.
   * what the mock returns is a parameter ([mock]): [m_dec k e] is the decoder-cache tensor
     returned for entry [e] by call number [k]; [m_enc k e] the encoder (cross-attention)
     tensor, [None] when the model returns the empty dummy that the generator must ignore.
   * [fx = true] models the code with the F8 fix, [fx = false] the code before it
     (prompt tokens copied into prev_tokens only while prev_tokens is empty). *)
From RV Require Import Prelude.
Open Scope N_scope.

Definition cid := (N * N)%type.

Inductive op :=
| OpW (p : list N)        (* with_prompt: replaces the pending input ids *)
| OpA (p : list N)        (* append_prompt *)
| OpC                     (* clear_prompt *)
| OpP                     (* process_prompt: generate_impl(false) *)
| OpN (t : N)             (* Iterator::next, the sampler picks t *)
| OpF.                    (* Iterator::next, the logits filter removes every candidate *)

Inductive result := RUnit | RTok (t : N) | RErr | RPanic.

Record call := mkK {
  k_tokens : list N;            (* input_ids, as u32 *)
  k_pos : list N;               (* position_ids *)
  k_cpos : list N;              (* cache_position *)
  k_mask : N;                   (* length of the all-ones attention mask *)
  k_flag : option N;            (* use_cache_branch, when the model has that input *)
  k_kv_in : list cid;           (* decoder KV-cache tensors passed in, per entry *)
  k_enc_in : list cid;          (* encoder KV-cache tensors passed in *)
  k_kv_out : list cid;          (* what the model returned *)
  k_enc_out : list (option cid);
  k_logits : bool;              (* logits output requested *)
  k_bad : N                     (* harness anomaly bits: duplicated / unknown inputs ... *)
}.

Record obs := mkO {
  o_call : option call;         (* the model call made by this operation, if any *)
  o_res : result;
  o_filter : option (list N);   (* prev_tokens as seen by the logits filter *)
  o_prev : list N;              (* prev_tokens() after the operation *)
  o_prompt : list N;            (* prompt() after the operation *)
  o_kvlen : option N            (* kv_cache_len() after the operation *)
}.

Record mock := { m_dec : N -> N -> cid; m_enc : N -> N -> option cid }.

(* number of decoder / encoder cache entries, presence of use_cache_branch *)
Record cfg := { g_nd : nat; g_ne : nat; g_flag : bool }.
Definition has_kv (g : cfg) : bool := negb (Nat.eqb (g_nd g) 0).

Record st := {
  s_in : list N;      (* input_ids *)
  s_off : N;          (* input_offset *)
  s_prev : list N;    (* prev_tokens *)
  s_nrec : nat;       (* fix: leading tokens of input_ids already recorded in prev_tokens *)
  s_kv : list cid;    (* kv_cache[..].cache *)
  s_enc : list cid;   (* encoder_kv_cache[..].cache *)
  s_k : N             (* number of model calls so far (ghost: indexes the mock) *)
}.

Fixpoint nseq (start : N) (n : nat) : list N :=
  match n with O => [] | S n' => start :: nseq (N.succ start) n' end.

Definition lenN {A} (l : list A) : N := N.of_nat (length l).

(* "if output.is_empty() { continue }" *)
Fixpoint merge_enc (cur : list cid) (outs : list (option cid)) : list cid :=
  match cur, outs with
  | c :: cr, o :: orr => (match o with Some x => x | None => c end) :: merge_enc cr orr
  | _, _ => cur
  end.

Definition init (g : cfg) : st :=
  {| s_in := []; s_off := 0; s_prev := []; s_nrec := O;
     s_kv := repeat (0, 0) (g_nd g); s_enc := repeat (0, 0) (g_ne g); s_k := 0 |}.

(* Generator::generate_impl *)
Definition gen_impl (fx : bool) (g : cfg) (m : mock) (want : bool) (s : st) : st * call :=
  let n := length (s_in s) in
  let pos := nseq (s_off s) n in
  let kvo := map (m_dec m (s_k s)) (nseq 0 (g_nd g)) in
  let eno := map (m_enc m (s_k s)) (nseq 0 (g_ne g)) in
  let c := {| k_tokens := s_in s; k_pos := pos; k_cpos := pos; k_mask := s_off s + N.of_nat n;
              k_flag := if g_flag g then Some (if s_off s =? 0 then 0 else 1) else None;
              k_kv_in := s_kv s; k_enc_in := s_enc s; k_kv_out := kvo; k_enc_out := eno;
              k_logits := want; k_bad := 0 |} in
  let prev' := if fx then s_prev s ++ skipn (s_nrec s) (s_in s)
               else match s_prev s with [] => s_in s | _ => s_prev s end in
  let kv := has_kv g in
  ({| s_in := if kv then [] else s_in s;
      s_off := if kv then s_off s + N.of_nat n else s_off s;
      s_prev := prev';
      s_nrec := if kv then O else n;
      s_kv := kvo; s_enc := merge_enc (s_enc s) eno; s_k := s_k s + 1 |}, c).

Definition kvlen (s : st) : option N :=
  match s_kv s with [] => None | c :: _ => Some (snd c) end.

Definition snap (s : st) (c : option call) (r : result) (f : option (list N)) : obs :=
  {| o_call := c; o_res := r; o_filter := f; o_prev := s_prev s; o_prompt := s_in s;
     o_kvlen := kvlen s |}.

Definition set_in (s : st) (l : list N) (nrec : nat) : st :=
  {| s_in := l; s_off := s_off s; s_prev := s_prev s; s_nrec := nrec;
     s_kv := s_kv s; s_enc := s_enc s; s_k := s_k s |}.

(* generate_next_token after sampling: prev_tokens.push, input_ids.push *)
Definition push_tok (s : st) (t : N) : st :=
  {| s_in := s_in s ++ [t]; s_off := s_off s; s_prev := s_prev s ++ [t];
     s_nrec := length (s_in s ++ [t]);
     s_kv := s_kv s; s_enc := s_enc s; s_k := s_k s |}.

Definition step (fx : bool) (g : cfg) (m : mock) (s : st) (o : op) : st * obs :=
  match o with
  | OpW p => let s' := set_in s p O in (s', snap s' None RUnit None)
  | OpA p => let s' := set_in s (s_in s ++ p) (s_nrec s) in (s', snap s' None RUnit None)
  | OpC => let s' := set_in s [] O in (s', snap s' None RUnit None)
  | OpP => let (s', c) := gen_impl fx g m false s in (s', snap s' (Some c) RUnit None)
  | OpN t =>
      let (s', c) := gen_impl fx g m true s in
      match s_in s with
      | [] => (s', snap s' (Some c) RPanic None)   (* logits.slice((0, -1)) on an empty sequence *)
      | _ => let s'' := push_tok s' t in (s'', snap s'' (Some c) (RTok t) (Some (s_prev s')))
      end
  | OpF =>
      let (s', c) := gen_impl fx g m true s in
      match s_in s with
      | [] => (s', snap s' (Some c) RPanic None)
      | _ => (s', snap s' (Some c) RErr (Some (s_prev s')))
      end
  end.

Definition trace := list (op * obs).

Fixpoint run_from (fx : bool) (g : cfg) (m : mock) (s : st) (ops : list op) : trace :=
  match ops with
  | [] => []
  | o :: r => let (s', ob) := step fx g m s o in (o, ob) :: run_from fx g m s' r
  end.

Definition run (fx : bool) (g : cfg) (m : mock) (ops : list op) : trace :=
  run_from fx g m (init g) ops.

(* ------------------------------------------------------------------------------------- *)
(* The specification of C32 over a trace (any trace: the model's or the implementation's). *)

Definition calls (tr : trace) : list call :=
  flat_map (fun s => match o_call (snd s) with Some c => [c] | None => [] end) tr.

Definition is_call (o : op) : bool :=
  match o with OpP | OpN _ | OpF => true | _ => false end.

Definition produced (ob : obs) : list N :=
  match o_res ob with RTok t => [t] | _ => [] end.

(* The pending prompt as the API documents it: with_prompt sets it, append_prompt extends it,
   clear_prompt empties it, a model call consumes it when the model has a KV cache (and keeps
   it otherwise), a produced token is appended. *)
Definition pend_step (kv : bool) (pend : list N) (s : op * obs) : list N :=
  match fst s with
  | OpW p => p
  | OpA p => pend ++ p
  | OpC => []
  | _ => (if kv then [] else pend) ++ produced (snd s)
  end.

(* pending tokens at the moment of every model-calling operation *)
Fixpoint consumed (kv : bool) (pend : list N) (tr : trace) : list (list N) :=
  match tr with
  | [] => []
  | s :: r => (if is_call (fst s) then [pend] else []) ++ consumed kv (pend_step kv pend s) r
  end.

(* pending tokens after every operation *)
Fixpoint pendings (kv : bool) (pend : list N) (tr : trace) : list (list N) :=
  match tr with
  | [] => []
  | s :: r => let p := pend_step kv pend s in p :: pendings kv p r
  end.

(* positions and attention-mask length each call must carry: with a KV cache the positions
   continue where the previous call stopped; without one the whole sequence is re-submitted
   from position 0 *)
Fixpoint expected_pos (kv : bool) (off : N) (cs : list call) : list (list N * N) :=
  match cs with
  | [] => []
  | c :: r => let n := length (k_tokens c) in
      (nseq off n, off + N.of_nat n) :: expected_pos kv (if kv then off + N.of_nat n else off) r
  end.

(* the cache tensors each call must receive: what the previous call returned (for encoder
   entries: the last non-empty tensor returned) *)
Fixpoint expected_cache_in (kvc enc : list cid) (cs : list call) : list (list cid * list cid) :=
  match cs with
  | [] => []
  | c :: r => (kvc, enc) :: expected_cache_in (k_kv_out c) (merge_enc enc (k_enc_out c)) r
  end.

(* history of token occurrences: a pending token carries a flag "already part of the history"
   (true for a produced token and, without KV cache, for tokens of earlier calls that are
   re-submitted) *)
Definition gh := (list (N * bool) * list N)%type.
Definition unflagged (p : list N) : list (N * bool) := map (fun t => (t, false)) p.
Definition fresh (pf : list (N * bool)) : list N :=
  map fst (filter (fun x => negb (snd x)) pf).
Definition after_call (kv : bool) (g : gh) : gh :=
  (if kv then [] else map (fun x => (fst x, true)) (fst g), snd g ++ fresh (fst g)).
Definition hist_step (kv : bool) (g : gh) (s : op * obs) : gh :=
  match fst s with
  | OpW p => (unflagged p, snd g)
  | OpA p => (fst g ++ unflagged p, snd g)
  | OpC => ([], snd g)
  | _ => let g1 := after_call kv g in
         match o_res (snd s) with
         | RTok t => (fst g1 ++ [(t, true)], snd g1 ++ [t])
         | _ => g1
         end
  end.
Fixpoint expected_prev (kv : bool) (g : gh) (tr : trace) : list (list N) :=
  match tr with
  | [] => []
  | s :: r => let g' := hist_step kv g s in snd g' :: expected_prev kv g' r
  end.
(* what a logits filter must be shown: the history including the tokens just submitted *)
Fixpoint expected_seen (kv : bool) (g : gh) (tr : trace) : list (list N) :=
  match tr with
  | [] => []
  | s :: r => (match o_filter (snd s) with Some _ => [snd (after_call kv g)] | None => [] end)
              ++ expected_seen kv (hist_step kv g s) r
  end.
Definition seen (tr : trace) : list (list N) :=
  flat_map (fun s => match o_filter (snd s) with Some v => [v] | None => [] end) tr.

(* final ghost state, and the side condition of the corollary that relates prev_tokens to the
   plain concatenation of everything submitted: no with_prompt / clear_prompt discards a
   produced token that is still pending (such a token stays in the history although the model
   never receives it) *)
Definition hist_final (kv : bool) (tr : trace) : gh := fold_left (hist_step kv) tr ([], []).
Definition nodrop_step (g : gh) (s : op * obs) : bool :=
  match fst s with
  | OpW _ | OpC => forallb (fun x => negb (snd x)) (fst g)
  | _ => true
  end.
Fixpoint nodrop (kv : bool) (g : gh) (tr : trace) : bool :=
  match tr with
  | [] => true
  | s :: r => nodrop_step g s && nodrop kv (hist_step kv g s) r
  end.

(* ---- boolean equality ---- *)
Fixpoint list_eqb {A} (e : A -> A -> bool) (x y : list A) : bool :=
  match x, y with
  | [], [] => true
  | a :: r, b :: q => e a b && list_eqb e r q
  | _, _ => false
  end.
Definition pair_eqb {A B} (ea : A -> A -> bool) (eb : B -> B -> bool) (x y : A * B) : bool :=
  ea (fst x) (fst y) && eb (snd x) (snd y).
Definition opt_eqb {A} (e : A -> A -> bool) (x y : option A) : bool :=
  match x, y with
  | Some a, Some b => e a b
  | None, None => true
  | _, _ => false
  end.
Definition cid_eqb : cid -> cid -> bool := pair_eqb N.eqb N.eqb.
Definition ln_eqb : list N -> list N -> bool := list_eqb N.eqb.
Definition result_eqb (x y : result) : bool :=
  match x, y with
  | RUnit, RUnit | RErr, RErr | RPanic, RPanic => true
  | RTok a, RTok b => a =? b
  | _, _ => false
  end.
Definition call_eqb (x y : call) : bool :=
  ln_eqb (k_tokens x) (k_tokens y) && ln_eqb (k_pos x) (k_pos y) && ln_eqb (k_cpos x) (k_cpos y)
  && (k_mask x =? k_mask y) && opt_eqb N.eqb (k_flag x) (k_flag y)
  && list_eqb cid_eqb (k_kv_in x) (k_kv_in y) && list_eqb cid_eqb (k_enc_in x) (k_enc_in y)
  && list_eqb cid_eqb (k_kv_out x) (k_kv_out y)
  && list_eqb (opt_eqb cid_eqb) (k_enc_out x) (k_enc_out y)
  && Bool.eqb (k_logits x) (k_logits y) && (k_bad x =? k_bad y).
Definition obs_eqb (x y : obs) : bool :=
  opt_eqb call_eqb (o_call x) (o_call y) && result_eqb (o_res x) (o_res y)
  && opt_eqb ln_eqb (o_filter x) (o_filter y) && ln_eqb (o_prev x) (o_prev y)
  && ln_eqb (o_prompt x) (o_prompt y) && opt_eqb N.eqb (o_kvlen x) (o_kvlen y).

(* ---- the three clauses of the property as executable checks ---- *)
Definition tokens_ok (kv : bool) (tr : trace) : bool :=
  list_eqb ln_eqb (map k_tokens (calls tr)) (consumed kv [] tr)
  && list_eqb ln_eqb (map (fun s => o_prompt (snd s)) tr) (pendings kv [] tr).
Definition pos_ok (kv : bool) (tr : trace) : bool :=
  list_eqb (pair_eqb ln_eqb N.eqb) (map (fun c => (k_pos c, k_mask c)) (calls tr))
           (expected_pos kv 0 (calls tr))
  && list_eqb ln_eqb (map k_cpos (calls tr)) (map k_pos (calls tr)).
Definition handoff_ok (nd ne : nat) (tr : trace) : bool :=
  list_eqb (pair_eqb (list_eqb cid_eqb) (list_eqb cid_eqb))
           (map (fun c => (k_kv_in c, k_enc_in c)) (calls tr))
           (expected_cache_in (repeat (0, 0) nd) (repeat (0, 0) ne) (calls tr)).
Definition prev_ok (kv : bool) (tr : trace) : bool :=
  list_eqb ln_eqb (map (fun s => o_prev (snd s)) tr) (expected_prev kv ([], []) tr)
  && list_eqb ln_eqb (seen tr) (expected_seen kv ([], []) tr).

(* ---- correspondence cases ---- *)
Record case := mkC { c_nd : nat; c_ne : nat; c_flag : bool; c_steps : trace }.

Definition case_cfg (c : case) : cfg := {| g_nd := c_nd c; g_ne := c_ne c; g_flag := c_flag c |}.

(* the mock replays what the real mock returned in this run *)
Definition dummy_call : call :=
  {| k_tokens := []; k_pos := []; k_cpos := []; k_mask := 0; k_flag := None; k_kv_in := [];
     k_enc_in := []; k_kv_out := []; k_enc_out := []; k_logits := false; k_bad := 0 |}.
Definition mock_of (tr : trace) : mock :=
  let cs := calls tr in
  {| m_dec := fun k e => nth (N.to_nat e) (k_kv_out (nth (N.to_nat k) cs dummy_call)) (0, 0);
     m_enc := fun k e => nth (N.to_nat e) (k_enc_out (nth (N.to_nat k) cs dummy_call)) None |}.

Definition model_trace (fx : bool) (c : case) : trace :=
  run fx (case_cfg c) (mock_of (c_steps c)) (map fst (c_steps c)).

(* the model of the (fixed) code reproduces every observation of the implementation *)
Definition agree (c : case) : bool :=
  list_eqb obs_eqb (map snd (model_trace true c)) (map snd (c_steps c)).

(* the implementation's own log satisfies the property *)
Definition prop_ok (c : case) : bool :=
  let kv := negb (Nat.eqb (c_nd c) 0) in
  tokens_ok kv (c_steps c) && pos_ok kv (c_steps c) && handoff_ok (c_nd c) (c_ne c) (c_steps c)
  && prev_ok kv (c_steps c).

(* agreement with the model of the code *before* the F8 fix (diagnostic) *)
Definition agree_unfixed (c : case) : bool :=
  list_eqb obs_eqb (map snd (model_trace false c)) (map snd (c_steps c)).

(* replay file: (tokens_ok, pos_ok, handoff_ok, prev_ok, agrees with the model of the UNFIXED
   code), the prev_tokens history the specification expects after every operation, and the
   observations the model of the fixed code predicts *)
Definition show (c : case) :=
  let kv := negb (Nat.eqb (c_nd c) 0) in
  ((tokens_ok kv (c_steps c), pos_ok kv (c_steps c),
    handoff_ok (c_nd c) (c_ne c) (c_steps c), prev_ok kv (c_steps c), agree_unfixed c),
   expected_prev kv ([], []) (c_steps c),
   map snd (model_trace true c)).
