(* The list equations proved in Generator_proofs.v, read index by index with the lemmas of
   Spec_proofs.v: the statements that Props_C32.v exposes. *)
From RV Require Import Prelude.
From Generator Require Import Model Spec_proofs Generator_proofs.
Open Scope N_scope.

Lemma positions_contiguous g m ops :
  has_kv g = true ->
  let cs := calls (run true g m ops) in
  concat (map k_pos cs) = nseq 0 (ntok cs) /\
  forall i c, nth_error cs i = Some c ->
    k_pos c = nseq (N.of_nat (ntok (firstn i cs))) (length (k_tokens c)) /\
    k_cpos c = k_pos c /\
    k_mask c = N.of_nat (ntok (firstn (S i) cs)).
Proof.
  intros Hkv cs. destruct (run_pos true g m ops) as [H1 H2]. rewrite Hkv in H1. fold cs in H1, H2.
  split.
  - rewrite <- expected_pos_concat, <- H1, map_map. reflexivity.
  - intros i c Hc.
    pose proof (map_nth_error (fun c => (k_pos c, k_mask c)) i cs Hc) as E.
    rewrite H1, (expected_pos_nth cs 0 i c Hc) in E. injection E as E1 E2.
    rewrite N.add_0_l in E1. rewrite N.add_0_l in E2.
    split; [symmetry; exact E1|]. split; [|symmetry; exact E2].
    pose proof (map_nth_error k_cpos i cs Hc) as E3.
    pose proof (map_nth_error k_pos i cs Hc) as E4.
    rewrite H2, E4 in E3. injection E3 as E5. symmetry. exact E5.
Qed.

Lemma positions_nokv g m ops :
  has_kv g = false ->
  let cs := calls (run true g m ops) in
  forall i c, nth_error cs i = Some c ->
    k_pos c = nseq 0 (length (k_tokens c)) /\ k_mask c = N.of_nat (length (k_tokens c)).
Proof.
  intros Hkv cs i c Hc. destruct (run_pos true g m ops) as [H1 _]. rewrite Hkv in H1. fold cs in H1.
  pose proof (map_nth_error (fun c => (k_pos c, k_mask c)) i cs Hc) as E.
  rewrite H1, (expected_pos_nokv_nth cs i c Hc) in E. injection E as E1 E2.
  split; symmetry; assumption.
Qed.

Lemma cache_handoff g m ops :
  let cs := calls (run true g m ops) in
  (forall c, nth_error cs 0 = Some c ->
     k_kv_in c = repeat (0, 0) (g_nd g) /\ k_enc_in c = repeat (0, 0) (g_ne g)) /\
  (forall i c c', nth_error cs i = Some c -> nth_error cs (S i) = Some c' ->
     k_kv_in c' = k_kv_out c /\ k_enc_in c' = merge_enc (k_enc_in c) (k_enc_out c)).
Proof.
  intros cs. pose proof (run_handoff true g m ops) as H. unfold handoff_spec in H. fold cs in H.
  split.
  - intros c Hc. destruct cs as [|c0 r]; [discriminate|]. inversion Hc; subst.
    cbn [map expected_cache_in] in H. inversion H. split; reflexivity.
  - intros i c c' Hc Hc'.
    destruct (expected_cache_in_step cs (repeat (0, 0) (g_nd g)) (repeat (0, 0) (g_ne g)) i c Hc)
      as (kin & ein & E1 & E2).
    specialize (E2 c' Hc').
    pose proof (map_nth_error (fun c => (k_kv_in c, k_enc_in c)) i cs Hc) as F1.
    pose proof (map_nth_error (fun c => (k_kv_in c, k_enc_in c)) (S i) cs Hc') as F2.
    rewrite H in F1, F2. rewrite E1 in F1. rewrite E2 in F2.
    inversion F1; subst. inversion F2. split; reflexivity.
Qed.

Lemma prev_equals_submitted g m ops :
  has_kv g = true ->
  let tr := run true g m ops in
  nodrop true ([], []) tr = true ->
  last (map (fun s => o_prev (snd s)) tr) [] ++ fresh (fst (hist_final true tr)) =
  concat (map k_tokens (calls tr)) ++ last (map (fun s => o_prompt (snd s)) tr) [].
Proof.
  intros Hkv tr ND.
  destruct (run_tokens true g m ops) as [T1 T2]. destruct (run_prev g m ops) as [P1 _].
  rewrite Hkv in T1, T2, P1. fold tr in T1, T2, P1.
  assert (B0 : balanced ([], []) []) by reflexivity.
  pose proof (balanced_fold tr _ _ B0 ND) as B. unfold balanced in B. cbn [fst snd map app] in B.
  rewrite P1, T1, T2.
  assert (E1 : last (expected_prev true ([], []) tr) [] = snd (hist_final true tr))
    by exact (expected_prev_last true tr ([], [])).
  assert (E2 : last (pendings true [] tr) [] = map fst (fst (hist_final true tr))).
  { rewrite pendings_last. unfold hist_final. rewrite pend_sync_fold. reflexivity. }
  rewrite E1, E2. exact B.
Qed.

Lemma prev_equals_submitted_when_consumed g m ops :
  has_kv g = true ->
  let tr := run true g m ops in
  nodrop true ([], []) tr = true ->
  last (map (fun s => o_prompt (snd s)) tr) [] = [] ->
  last (map (fun s => o_prev (snd s)) tr) [] = concat (map k_tokens (calls tr)).
Proof.
  intros Hkv tr ND Hp. pose proof (prev_equals_submitted g m ops Hkv ND) as H. fold tr in H.
  rewrite Hp, app_nil_r in H. rewrite <- H.
  destruct (run_tokens true g m ops) as [_ T2]. rewrite Hkv in T2. fold tr in T2.
  assert (E2 : last (pendings true [] tr) [] = map fst (fst (hist_final true tr))).
  { rewrite pendings_last. unfold hist_final. rewrite pend_sync_fold. reflexivity. }
  rewrite T2, E2 in Hp.
  destruct (fst (hist_final true tr)); [|discriminate].
  cbn. rewrite app_nil_r. reflexivity.
Qed.
