(* Proofs about the state-machine model of Generator: every trace it produces satisfies the
   specification clauses of Model.v, for every configuration, every mock and every list of
   operations.  Induction over the operation list from an arbitrary state related to the
   ghost state of the specification by an invariant. *)
From RV Require Import Prelude.
From Generator Require Import Model.
Open Scope N_scope.

(* ---------------------------------------------------------------- boolean equalities *)
Lemma list_eqb_eq {A} (e : A -> A -> bool) :
  (forall a b, e a b = true <-> a = b) -> forall x y, list_eqb e x y = true <-> x = y.
Proof.
  intros He x. induction x as [|a r IH]; intros [|b q]; cbn [list_eqb]; try (split; congruence).
  rewrite andb_true_iff, He, IH. split.
  - intros [-> ->]. reflexivity.
  - intros H. inversion H. split; reflexivity.
Qed.

Lemma pair_eqb_eq {A B} (ea : A -> A -> bool) (eb : B -> B -> bool) :
  (forall a b, ea a b = true <-> a = b) -> (forall a b, eb a b = true <-> a = b) ->
  forall x y, pair_eqb ea eb x y = true <-> x = y.
Proof.
  intros Ha Hb [a1 b1] [a2 b2]. unfold pair_eqb. cbn [fst snd].
  rewrite andb_true_iff, Ha, Hb. split.
  - intros [-> ->]. reflexivity.
  - intros H. inversion H. split; reflexivity.
Qed.

Lemma ln_eqb_eq x y : ln_eqb x y = true <-> x = y.
Proof. apply list_eqb_eq. intros a b. apply N.eqb_eq. Qed.

Lemma cid_eqb_eq x y : cid_eqb x y = true <-> x = y.
Proof. apply pair_eqb_eq; intros a b; apply N.eqb_eq. Qed.

Lemma lln_eqb_eq x y : list_eqb ln_eqb x y = true <-> x = y.
Proof. apply list_eqb_eq. exact ln_eqb_eq. Qed.

Lemma lcid_eqb_eq x y : list_eqb cid_eqb x y = true <-> x = y.
Proof. apply list_eqb_eq. exact cid_eqb_eq. Qed.

(* ---------------------------------------------------------------- reflection of the clauses *)
Definition tokens_spec (kv : bool) (tr : trace) : Prop :=
  map k_tokens (calls tr) = consumed kv [] tr /\
  map (fun s => o_prompt (snd s)) tr = pendings kv [] tr.

Definition pos_spec (kv : bool) (tr : trace) : Prop :=
  map (fun c => (k_pos c, k_mask c)) (calls tr) = expected_pos kv 0 (calls tr) /\
  map k_cpos (calls tr) = map k_pos (calls tr).

Definition handoff_spec (nd ne : nat) (tr : trace) : Prop :=
  map (fun c => (k_kv_in c, k_enc_in c)) (calls tr) =
  expected_cache_in (repeat (0, 0) nd) (repeat (0, 0) ne) (calls tr).

Definition prev_spec (kv : bool) (tr : trace) : Prop :=
  map (fun s => o_prev (snd s)) tr = expected_prev kv ([], []) tr /\
  seen tr = expected_seen kv ([], []) tr.

Lemma tokens_ok_spec kv tr : tokens_ok kv tr = true <-> tokens_spec kv tr.
Proof. unfold tokens_ok, tokens_spec. rewrite andb_true_iff, !lln_eqb_eq. tauto. Qed.

Lemma pos_ok_spec kv tr : pos_ok kv tr = true <-> pos_spec kv tr.
Proof.
  unfold pos_ok, pos_spec. rewrite andb_true_iff, lln_eqb_eq.
  rewrite (list_eqb_eq _ (pair_eqb_eq _ _ ln_eqb_eq N.eqb_eq)). tauto.
Qed.

Lemma handoff_ok_spec nd ne tr : handoff_ok nd ne tr = true <-> handoff_spec nd ne tr.
Proof.
  unfold handoff_ok, handoff_spec.
  rewrite (list_eqb_eq _ (pair_eqb_eq _ _ lcid_eqb_eq lcid_eqb_eq)). tauto.
Qed.

Lemma prev_ok_spec kv tr : prev_ok kv tr = true <-> prev_spec kv tr.
Proof. unfold prev_ok, prev_spec. rewrite andb_true_iff, !lln_eqb_eq. tauto. Qed.

Lemma prop_ok_spec c :
  prop_ok c = true <->
  let kv := negb (Nat.eqb (c_nd c) 0) in
  tokens_spec kv (c_steps c) /\ pos_spec kv (c_steps c) /\
  handoff_spec (c_nd c) (c_ne c) (c_steps c) /\ prev_spec kv (c_steps c).
Proof.
  unfold prop_ok. cbv zeta.
  rewrite !andb_true_iff, tokens_ok_spec, pos_ok_spec, handoff_ok_spec, prev_ok_spec. tauto.
Qed.

(* ---------------------------------------------------------------- one step of the machine *)
Definition call_facts (g : cfg) (s s' : st) (c : call) : Prop :=
  k_tokens c = s_in s /\
  k_pos c = nseq (s_off s) (length (s_in s)) /\
  k_cpos c = k_pos c /\
  k_mask c = s_off s + N.of_nat (length (s_in s)) /\
  k_kv_in c = s_kv s /\ k_enc_in c = s_enc s /\
  s_kv s' = k_kv_out c /\ s_enc s' = merge_enc (s_enc s) (k_enc_out c) /\
  s_off s' = (if has_kv g then s_off s + N.of_nat (length (k_tokens c)) else s_off s).

Lemma step_facts fx g m s o :
  forall s' ob, step fx g m s o = (s', ob) ->
  o_prompt ob = s_in s' /\ o_prev ob = s_prev s' /\
  s_in s' = pend_step (has_kv g) (s_in s) (o, ob) /\
  (if is_call o
   then exists c, o_call ob = Some c /\ call_facts g s s' c
   else o_call ob = None /\ s_off s' = s_off s /\ s_kv s' = s_kv s /\ s_enc s' = s_enc s).
Proof.
  intros s' ob H. unfold call_facts.
  destruct o; cbn [step is_call] in H |- *.
  - inversion H; subst; clear H. cbn. repeat split; reflexivity.
  - inversion H; subst; clear H. cbn. repeat split; reflexivity.
  - inversion H; subst; clear H. cbn. repeat split; reflexivity.
  - unfold gen_impl in H. inversion H; subst; clear H.
    unfold pend_step, produced. cbn.
    split; [reflexivity|]. split; [reflexivity|]. split.
    { destruct (has_kv g); cbn; rewrite ?app_nil_r; reflexivity. }
    eexists. split; [reflexivity|]. cbn. repeat split; reflexivity.
  - unfold gen_impl in H. destruct (s_in s) as [|x xs] eqn:E.
    + inversion H; subst; clear H. unfold pend_step, produced. cbn.
      split; [reflexivity|]. split; [reflexivity|]. split.
      { destruct (has_kv g); reflexivity. }
      eexists. split; [reflexivity|]. cbn. repeat split; reflexivity.
    + inversion H; subst; clear H. unfold pend_step, produced. cbn.
      split; [reflexivity|]. split; [reflexivity|]. split.
      { destruct (has_kv g); reflexivity. }
      eexists. split; [reflexivity|]. cbn. repeat split; reflexivity.
  - unfold gen_impl in H. destruct (s_in s) as [|x xs] eqn:E.
    + inversion H; subst; clear H. unfold pend_step, produced. cbn.
      split; [reflexivity|]. split; [reflexivity|]. split.
      { destruct (has_kv g); reflexivity. }
      eexists. split; [reflexivity|]. cbn. repeat split; reflexivity.
    + inversion H; subst; clear H. unfold pend_step, produced. cbn.
      split; [reflexivity|]. split; [reflexivity|]. split.
      { destruct (has_kv g); cbn; rewrite ?app_nil_r; reflexivity. }
      eexists. split; [reflexivity|]. cbn. repeat split; reflexivity.
Qed.

Lemma calls_cons o ob r :
  calls ((o, ob) :: r) = (match o_call ob with Some c => [c] | None => [] end) ++ calls r.
Proof. reflexivity. Qed.

Lemma run_from_cons fx g m s o r :
  run_from fx g m s (o :: r) =
  (o, snd (step fx g m s o)) :: run_from fx g m (fst (step fx g m s o)) r.
Proof. cbn [run_from]. destruct (step fx g m s o). reflexivity. Qed.

(* ---------------------------------------------------------------- clause 1: tokens *)
Lemma tokens_from fx g m ops : forall s,
  let tr := run_from fx g m s ops in
  map k_tokens (calls tr) = consumed (has_kv g) (s_in s) tr /\
  map (fun x => o_prompt (snd x)) tr = pendings (has_kv g) (s_in s) tr.
Proof.
  induction ops as [|o r IH]; intros s; cbv zeta.
  - split; reflexivity.
  - rewrite run_from_cons. destruct (step fx g m s o) as [s' ob] eqn:E. cbn [fst snd].
    destruct (step_facts fx g m s o s' ob E) as (Hp & _ & Hin & Hc).
    destruct (IH s') as [IH1 IH2]. cbv zeta in IH1, IH2.
    rewrite calls_cons. cbn [consumed pendings map fst snd]. rewrite <- Hin. split.
    + rewrite map_app, IH1. f_equal.
      destruct (is_call o).
      * destruct Hc as (c & -> & Hk & _). cbn. rewrite Hk. reflexivity.
      * destruct Hc as (-> & _). reflexivity.
    + rewrite Hp, IH2. reflexivity.
Qed.

(* ---------------------------------------------------------------- clause 1: positions *)
Lemma pos_from fx g m ops : forall s,
  let cs := calls (run_from fx g m s ops) in
  map (fun c => (k_pos c, k_mask c)) cs = expected_pos (has_kv g) (s_off s) cs /\
  map k_cpos cs = map k_pos cs.
Proof.
  induction ops as [|o r IH]; intros s; cbv zeta.
  - split; reflexivity.
  - rewrite run_from_cons. destruct (step fx g m s o) as [s' ob] eqn:E. cbn [fst snd].
    destruct (step_facts fx g m s o s' ob E) as (_ & _ & _ & Hc).
    destruct (IH s') as [IH1 IH2]. cbv zeta in IH1, IH2.
    rewrite calls_cons. destruct (is_call o).
    + destruct Hc as (c & -> & Hk & Hpos & Hcp & Hm & _ & _ & _ & _ & Hoff).
      cbn [app map expected_pos]. rewrite <- Hoff, IH1, IH2, Hcp, Hpos, Hm, Hk. split; reflexivity.
    + destruct Hc as (-> & Hoff & _). cbn [app]. rewrite <- Hoff. split; assumption.
Qed.

(* ---------------------------------------------------------------- clause 2: cache hand-off *)
Lemma handoff_from fx g m ops : forall s,
  let cs := calls (run_from fx g m s ops) in
  map (fun c => (k_kv_in c, k_enc_in c)) cs = expected_cache_in (s_kv s) (s_enc s) cs.
Proof.
  induction ops as [|o r IH]; intros s; cbv zeta.
  - reflexivity.
  - rewrite run_from_cons. destruct (step fx g m s o) as [s' ob] eqn:E. cbn [fst snd].
    destruct (step_facts fx g m s o s' ob E) as (_ & _ & _ & Hc).
    specialize (IH s'). cbv zeta in IH.
    rewrite calls_cons. destruct (is_call o).
    + destruct Hc as (c & -> & _ & _ & _ & _ & Hkv & Hen & Hkv' & Hen' & _).
      cbn [app map expected_cache_in]. rewrite <- Hkv', <- Hen', IH, Hkv, Hen. reflexivity.
    + destruct Hc as (-> & _ & Hkv & Hen). cbn [app]. rewrite <- Hkv, <- Hen. exact IH.
Qed.

(* ---------------------------------------------------------------- clause 3: prev_tokens *)
(* the flagged pending list of the specification against input_ids + the recorded count *)
Definition inv (s : st) (pf : list (N * bool)) : Prop :=
  s_in s = map fst pf /\
  map snd pf = repeat true (s_nrec s) ++ repeat false (length pf - s_nrec s) /\
  (s_nrec s <= length pf)%nat.

Lemma fresh_all_false pf : map snd pf = repeat false (length pf) -> fresh pf = map fst pf.
Proof.
  induction pf as [|[t b] r IH]; cbn; [reflexivity|].
  intros H. inversion H; subst. unfold fresh in *. cbn. f_equal. apply IH. assumption.
Qed.

Lemma fresh_skipn : forall pf a,
  map snd pf = repeat true a ++ repeat false (length pf - a) -> (a <= length pf)%nat ->
  fresh pf = skipn a (map fst pf).
Proof.
  induction pf as [|[t b] r IH]; intros a H Hle.
  - destruct a; reflexivity.
  - destruct a as [|a].
    + cbn [repeat app skipn] in *. rewrite Nat.sub_0_r in H. apply fresh_all_false. exact H.
    + cbn [length] in *. cbn [repeat app map snd] in H. inversion H; subst.
      unfold fresh. cbn [filter snd negb map skipn fst]. apply IH; [assumption | lia].
Qed.

Lemma fresh_all_true (pf : list (N * bool)) : fresh (map (fun x => (fst x, true)) pf) = [].
Proof. induction pf as [|x r IH]; [reflexivity|]. unfold fresh in *. cbn. exact IH. Qed.

Lemma fresh_app a b : fresh (a ++ b) = fresh a ++ fresh b.
Proof. unfold fresh. rewrite filter_app, map_app. reflexivity. Qed.

Lemma fresh_unflagged p : fresh (unflagged p) = p.
Proof. induction p as [|t r IH]; [reflexivity|]. unfold fresh, unflagged in *. cbn. f_equal. exact IH. Qed.

Lemma map_fst_unflagged p : map fst (unflagged p) = p.
Proof. unfold unflagged. rewrite map_map. cbn. apply map_id. Qed.

Lemma map_snd_unflagged p : map snd (unflagged p) = repeat false (length p).
Proof. induction p as [|t r IH]; [reflexivity|]. cbn. f_equal. exact IH. Qed.

Lemma unflagged_length p : length (unflagged p) = length p.
Proof. unfold unflagged. apply map_length. Qed.

Lemma repeat_snoc {A} (x : A) n : repeat x n ++ [x] = repeat x (S n).
Proof. induction n as [|n IH]; [reflexivity|]. cbn. f_equal. exact IH. Qed.

Lemma inv_all_true (l : list N) :
  map snd (map (fun t => (t, true)) l) = repeat true (length l).
Proof. induction l as [|t r IH]; [reflexivity|]. cbn. f_equal. exact IH. Qed.

Lemma inv_fresh s pf : inv s pf -> fresh pf = skipn (s_nrec s) (s_in s).
Proof. intros (H1 & H2 & H3). rewrite H1. apply fresh_skipn; assumption. Qed.

(* state after generate_impl against the specification's [after_call] *)
Lemma gen_impl_inv g m want s pf :
  inv s pf ->
  let s' := fst (gen_impl true g m want s) in
  let g1 := after_call (has_kv g) (pf, s_prev s) in
  inv s' (fst g1) /\ s_prev s' = snd g1 /\ s_nrec s' = length (fst g1) /\
  s_in s' = (if has_kv g then [] else s_in s).
Proof.
  intros Hinv. pose proof (inv_fresh s pf Hinv) as Hf. destruct Hinv as (H1 & H2 & H3).
  cbv zeta. unfold gen_impl, after_call, inv. cbn [fst snd s_in s_prev s_nrec].
  destruct (has_kv g).
  - cbn. rewrite Hf. repeat split. lia.
  - rewrite Hf. rewrite !map_length, map_map. cbn [fst snd].
    rewrite H1, map_length, Nat.sub_diag. cbn [repeat]. rewrite app_nil_r.
    repeat split.
    + clear. induction pf as [|x r IH]; [reflexivity|]. cbn. f_equal. exact IH.
    + lia.
Qed.

Lemma push_tok_inv s pf t :
  inv s pf -> s_nrec s = length pf ->
  inv (push_tok s t) (pf ++ [(t, true)]).
Proof.
  intros (H1 & H2 & H3) Hn. unfold inv, push_tok. cbn [s_in s_nrec].
  rewrite !map_app, !app_length, H1, map_length. cbn [map fst snd length].
  rewrite H2, Hn, Nat.sub_diag. cbn [repeat]. rewrite app_nil_r.
  replace (length pf + 1 - (length pf + 1))%nat with 0%nat by lia. cbn [repeat]. rewrite app_nil_r.
  repeat split.
  - rewrite repeat_snoc. f_equal. lia.
  - lia.
Qed.

Lemma step_inv g m s o pf :
  inv s pf ->
  forall s' ob, step true g m s o = (s', ob) ->
  let g' := hist_step (has_kv g) (pf, s_prev s) (o, ob) in
  inv s' (fst g') /\ s_prev s' = snd g' /\
  (match o_filter ob with
   | Some v => v = snd (after_call (has_kv g) (pf, s_prev s))
   | None => True
   end).
Proof.
  intros Hinv s' ob H. cbv zeta.
  destruct o; cbn [step] in H.
  - inversion H; subst; clear H. unfold hist_step, inv. cbn.
    rewrite map_fst_unflagged, map_snd_unflagged, unflagged_length, Nat.sub_0_r. repeat split. lia.
  - inversion H; subst; clear H. destruct Hinv as (H1 & H2 & H3). unfold hist_step, inv. cbn.
    rewrite !map_app, map_fst_unflagged, map_snd_unflagged, H1, H2, app_length, unflagged_length.
    replace (length pf + length p - s_nrec s)%nat with ((length pf - s_nrec s) + length p)%nat by lia.
    rewrite repeat_app, app_assoc. repeat split. lia.
  - inversion H; subst; clear H. unfold hist_step, inv. cbn. repeat split. lia.
  - pose proof (gen_impl_inv g m false s pf Hinv) as G. cbv zeta in G.
    destruct (gen_impl true g m false s) as [s1 c] eqn:E. cbn [fst] in G.
    inversion H; subst; clear H. unfold hist_step. cbn [fst snd o_res snap o_filter].
    destruct G as (G1 & G2 & _). split; [exact G1|]. split; [exact G2|exact I].
  - pose proof (gen_impl_inv g m true s pf Hinv) as G. cbv zeta in G.
    destruct (gen_impl true g m true s) as [s1 c] eqn:E. cbn [fst] in G.
    destruct G as (G1 & G2 & G3 & G4).
    destruct (s_in s) as [|x xs] eqn:Es.
    + inversion H; subst; clear H. unfold hist_step. cbn [fst snd o_res snap o_filter].
      split; [exact G1|]. split; [exact G2|exact I].
    + inversion H; subst; clear H. unfold hist_step. cbn [fst snd o_res snap o_filter].
      split; [apply push_tok_inv; assumption|]. split; [|exact G2].
      cbn [push_tok s_prev]. rewrite G2. reflexivity.
  - pose proof (gen_impl_inv g m true s pf Hinv) as G. cbv zeta in G.
    destruct (gen_impl true g m true s) as [s1 c] eqn:E. cbn [fst] in G.
    destruct G as (G1 & G2 & G3 & G4).
    destruct (s_in s) as [|x xs] eqn:Es.
    + inversion H; subst; clear H. unfold hist_step. cbn [fst snd o_res snap o_filter].
      split; [exact G1|]. split; [exact G2|exact I].
    + inversion H; subst; clear H. unfold hist_step. cbn [fst snd o_res snap o_filter].
      split; [exact G1|]. split; [exact G2|exact G2].
Qed.

Lemma seen_cons o ob r :
  seen ((o, ob) :: r) = (match o_filter ob with Some v => [v] | None => [] end) ++ seen r.
Proof. reflexivity. Qed.

Lemma prev_from g m ops : forall s pf,
  inv s pf ->
  let tr := run_from true g m s ops in
  map (fun x => o_prev (snd x)) tr = expected_prev (has_kv g) (pf, s_prev s) tr /\
  seen tr = expected_seen (has_kv g) (pf, s_prev s) tr.
Proof.
  induction ops as [|o r IH]; intros s pf Hinv; cbv zeta.
  - split; reflexivity.
  - rewrite run_from_cons. destruct (step true g m s o) as [s' ob] eqn:E. cbn [fst snd].
    destruct (step_facts true g m s o s' ob E) as (_ & Hprev & _).
    destruct (step_inv g m s o pf Hinv s' ob E) as (Hi & Hp & Hf). cbv zeta in Hi, Hp.
    destruct (IH s' _ Hi) as [IH1 IH2]. cbv zeta in IH1, IH2.
    rewrite Hp in IH1, IH2.
    rewrite seen_cons. cbn [map expected_prev expected_seen fst snd].
    assert (Hg : hist_step (has_kv g) (pf, s_prev s) (o, ob) =
                 (fst (hist_step (has_kv g) (pf, s_prev s) (o, ob)),
                  snd (hist_step (has_kv g) (pf, s_prev s) (o, ob)))) by (destruct (hist_step _ _ _); reflexivity).
    rewrite <- Hg in IH1, IH2. split.
    + rewrite IH1, Hprev, Hp. reflexivity.
    + rewrite IH2. f_equal. destruct (o_filter ob); [rewrite Hf|]; reflexivity.
Qed.

Lemma inv_init g : inv (init g) [].
Proof. unfold inv, init. cbn. repeat split. lia. Qed.

(* ---------------------------------------------------------------- the theorems *)
Theorem run_tokens fx g m ops : tokens_spec (has_kv g) (run fx g m ops).
Proof. unfold tokens_spec, run. exact (tokens_from fx g m ops (init g)). Qed.

Theorem run_pos fx g m ops : pos_spec (has_kv g) (run fx g m ops).
Proof. unfold pos_spec, run. exact (pos_from fx g m ops (init g)). Qed.

Theorem run_handoff fx g m ops : handoff_spec (g_nd g) (g_ne g) (run fx g m ops).
Proof. unfold handoff_spec, run. exact (handoff_from fx g m ops (init g)). Qed.

Theorem run_prev g m ops : prev_spec (has_kv g) (run true g m ops).
Proof. unfold prev_spec, run. exact (prev_from g m ops (init g) [] (inv_init g)). Qed.

Theorem run_prop_ok g m ops :
  prop_ok (mkC (g_nd g) (g_ne g) (g_flag g) (run true g m ops)) = true.
Proof.
  apply prop_ok_spec. cbn [c_nd c_ne c_steps]. fold (has_kv g).
  split; [apply run_tokens|]. split; [apply run_pos|]. split; [apply run_handoff|apply run_prev].
Qed.

(* ---------------------------------------------------------------- F8: the unfixed code *)
Definition std_mock : mock :=
  {| m_dec := fun k e => (16 * k + e + 1, 0); m_enc := fun _ _ => None |}.

Lemma unfixed_prev_refuted :
  exists g m ops, prev_ok (has_kv g) (run false g m ops) = false.
Proof.
  exists {| g_nd := 2; g_ne := 0; g_flag := false |}, std_mock,
         [OpW [1; 2]; OpN 4; OpA [3]; OpN 5].
  vm_compute. reflexivity.
Qed.

Lemma unfixed_prev_refuted_nokv :
  exists m ops, prev_ok false (run false {| g_nd := 0; g_ne := 0; g_flag := false |} m ops) = false.
Proof.
  exists std_mock, [OpW [1; 2]; OpN 4; OpA [3]; OpN 5]. vm_compute. reflexivity.
Qed.
