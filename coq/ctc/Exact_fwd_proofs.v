(* C39 -- the brute-force sum `exact` (which enumerates alignments most-recent-symbol-first,
   the orientation the beam proofs need) equals the plain textbook sum `exact_fwd`:
     sum over every pi in {0..L-1}^T with collapse(pi) = y of prod_t m[t][pi_t]. *)
From RV Require Import Prelude.
From Ctc Require Import ModelCtc Greedy_proofs Beam_proofs Exact_proofs.
Open Scope N_scope.

(* ---------------- double sums ---------------- *)
Lemma sumN_swap {A B} (F : A -> B -> N) (l1 : list A) (l2 : list B) :
  sumN (map (fun x => sumN (map (fun y => F x y) l2)) l1) =
  sumN (map (fun y => sumN (map (fun x => F x y) l1)) l2).
Proof.
  induction l1 as [|x l1 IH]; cbn [map sumN].
  - symmetry. apply sumN_zero. reflexivity.
  - rewrite IH, <- sumN_add. reflexivity.
Qed.

(* ---------------- wpaths enumerates paths with their weights ---------------- *)
Lemma paths_S L T : paths L (S T) = flat_map (fun s => map (cons s) (paths L T)) (seq 0 L).
Proof. reflexivity. Qed.

Lemma wpaths_sum L rm : forall g : list nat * N -> N,
  sumN (map g (wpaths L rm)) = sumN (map (fun p => g (p, pweight rm p)) (paths L (length rm))).
Proof.
  induction rm as [|r rm IH]; intros g.
  - reflexivity.
  - rewrite wpaths_cons, sumN_flat_map.
    rewrite (IH (fun pw => sumN (map g (map (fun s => (s :: fst pw, snd pw * wt r s)) (seq 0 L))))).
    cbn [length]. rewrite paths_S, sumN_flat_map.
    rewrite (sumN_ext _ (fun p => sumN (map (fun s => g (s :: p, pweight (r :: rm) (s :: p))) (seq 0 L)))).
    + rewrite sumN_swap. apply sumN_ext. intros s _. rewrite map_map. reflexivity.
    + intros p _. rewrite map_map. cbn [fst snd]. apply sumN_ext. intros s _. cbn [pweight].
      rewrite N.mul_comm. reflexivity.
Qed.

Lemma in_paths_length L T : forall p, In p (paths L T) -> length p = T.
Proof.
  induction T as [|T IH]; intros p H.
  - destruct H as [<-|[]]. reflexivity.
  - rewrite paths_S in H. apply in_flat_map in H as (s & _ & H). apply in_map_iff in H as (q & <- & Hq).
    cbn. rewrite (IH q Hq). reflexivity.
Qed.

(* ---------------- summing over reversed paths ---------------- *)
Lemma paths_snoc_sum L : forall T (G : list nat -> N),
  sumN (map G (paths L (S T))) =
  sumN (map (fun p => sumN (map (fun s => G (p ++ [s])) (seq 0 L))) (paths L T)).
Proof.
  induction T as [|T IH]; intros G.
  - rewrite paths_S, sumN_flat_map. cbn [paths map sumN app].
    rewrite N.add_0_r. apply sumN_ext. intros s _. cbn. lia.
  - rewrite paths_S, sumN_flat_map.
    rewrite (sumN_ext _ (fun s => sumN (map (fun p => sumN (map (fun s2 => G (s :: p ++ [s2])) (seq 0 L))) (paths L T)))).
    + rewrite (paths_S L T), sumN_flat_map. apply sumN_ext. intros s _. rewrite map_map. reflexivity.
    + intros s _. rewrite map_map. apply (IH (fun q => G (s :: q))).
Qed.

Lemma paths_rev_sum L : forall T (F : list nat -> N),
  sumN (map (fun p => F (rev p)) (paths L T)) = sumN (map F (paths L T)).
Proof.
  induction T as [|T IH]; intros F; [reflexivity|].
  rewrite (paths_snoc_sum L T (fun p => F (rev p))).
  rewrite (sumN_ext _ (fun p => (fun q => sumN (map (fun s => F (s :: q)) (seq 0 L))) (rev p))).
  - rewrite (IH (fun q => sumN (map (fun s => F (s :: q)) (seq 0 L)))).
    rewrite sumN_swap, paths_S, sumN_flat_map. apply sumN_ext. intros s _. rewrite map_map. reflexivity.
  - intros p _. apply sumN_ext. intros s _. rewrite rev_app_distr. reflexivity.
Qed.

(* ---------------- collapse commutes with reversal ---------------- *)
Lemma collapse_cons s p : collapse (s :: p) = if hd_is p s then collapse p else keep s ++ collapse p.
Proof.
  destruct p as [|s' q].
  - cbn [hd_is]. rewrite collapse_single. unfold keep. destruct (Nat.eqb s 0); reflexivity.
  - rewrite collapse_cons2. cbn [hd_is]. destruct (Nat.eqb s' s); [reflexivity|].
    unfold keep. destruct (Nat.eqb s 0); reflexivity.
Qed.

Fixpoint last_is (q : list nat) (s : nat) : bool :=
  match q with
  | [] => false
  | [a] => Nat.eqb a s
  | _ :: q' => last_is q' s
  end.

Lemma last_is_cons2 a b q s : last_is (a :: b :: q) s = last_is (b :: q) s.
Proof. reflexivity. Qed.

Lemma collapse_snoc q s :
  collapse (q ++ [s]) = if last_is q s then collapse q else collapse q ++ keep s.
Proof.
  induction q as [|a q IH].
  - cbn [app last_is]. rewrite collapse_single. unfold keep. destruct (Nat.eqb s 0); reflexivity.
  - destruct q as [|b q].
    + cbn [app last_is]. rewrite collapse_cons2, !collapse_single. rewrite (Nat.eqb_sym s a).
      destruct (Nat.eqb a s) eqn:E.
      * apply Nat.eqb_eq in E; subst. reflexivity.
      * unfold keep. destruct (Nat.eqb a 0), (Nat.eqb s 0); reflexivity.
    + rewrite last_is_cons2. cbn [app] in *. rewrite collapse_cons2, IH, (collapse_cons2 a b q).
      destruct (Nat.eqb b a); [reflexivity|].
      destruct (Nat.eqb a 0); destruct (last_is (b :: q) s); reflexivity.
Qed.

Lemma last_is_rev p s : last_is (rev p) s = hd_is p s.
Proof.
  destruct p as [|a p]; [reflexivity|]. cbn [rev hd_is].
  generalize (rev p). intros q. induction q as [|b q IH]; [reflexivity|].
  cbn [app]. destruct (q ++ [a]) eqn:E; [destruct q; discriminate|]. rewrite last_is_cons2. exact IH.
Qed.

Lemma rev_keep s : rev (keep s) = keep s.
Proof. unfold keep. destruct (Nat.eqb s 0); reflexivity. Qed.

Lemma collapse_rev p : collapse (rev p) = rev (collapse p).
Proof.
  induction p as [|s p IH]; [reflexivity|].
  cbn [rev]. rewrite collapse_snoc, last_is_rev, IH, collapse_cons.
  destruct (hd_is p s); [reflexivity|]. rewrite rev_app_distr, rev_keep. reflexivity.
Qed.

(* ---------------- weights ---------------- *)
Lemma pweight_snoc m r : forall p s, length p = length m ->
  pweight (m ++ [r]) (p ++ [s]) = pweight m p * wt r s.
Proof.
  induction m as [|r0 m IH]; intros [|s0 p] s Hlen; try discriminate.
  - cbn. lia.
  - cbn [app pweight]. rewrite IH by (cbn in Hlen; lia). lia.
Qed.

Lemma pweight_rev m : forall p, length p = length m -> pweight (rev m) (rev p) = pweight m p.
Proof.
  induction m as [|r m IH]; intros [|s p] Hlen; try discriminate; [reflexivity|].
  cbn [rev pweight]. rewrite pweight_snoc by (rewrite !rev_length; cbn in Hlen; lia).
  rewrite IH by (cbn in Hlen; lia). lia.
Qed.

(* ---------------- the two brute-force sums agree ---------------- *)
Theorem exact_forward L m y : exact L m y = exact_fwd L m y.
Proof.
  unfold exact, exact_r, lookup, ctable, exact_fwd. rewrite map_map.
  cbn [fst snd]. rewrite wpaths_sum.
  cbn [fst snd]. rewrite rev_length.
  rewrite <- (paths_rev_sum L (length m) (fun p => if leqb (collapse p) (rev y) then pweight (rev m) p else 0)).
  apply sumN_ext. intros p Hp. apply in_paths_length in Hp.
  rewrite collapse_rev, (pweight_rev m p Hp).
  destruct (leqb (collapse p) y) eqn:E.
  - apply leqb_eq in E. rewrite E, leqb_refl. reflexivity.
  - apply leqb_neq in E. assert (H : leqb (rev (collapse p)) (rev y) = false).
    { apply leqb_neq. intros H. apply E. apply rev_inj. exact H. }
    rewrite H. reflexivity.
Qed.
