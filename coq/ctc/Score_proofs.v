(* C39 -- beam scores against the exact CTC probability:
   (1) every beam state's (prob_blank, prob_no_blank) is bounded by the forward variables of its
       label sequence  =>  score <= exact probability;
   (2) when no offered extension is ever pruned the beam holds exactly the label sequences of
       non-zero probability, with their forward variables  =>  score = exact probability. *)
From RV Require Import Prelude.
From Ctc Require Import ModelCtc Greedy_proofs Beam_proofs Exact_proofs.
Open Scope N_scope.

Definition labels_dec : forall a b : list nat, {a = b} + {a <> b} := list_eq_dec Nat.eq_dec.

(* ---------------- sums with at most one non-zero term ---------------- *)
Lemma sumN_unique_le {A K} (dec : forall a b : K, {a = b} + {a <> b})
      (key : A -> K) (f : A -> N) (l : list A) (k0 : K) (B : N) :
  NoDup (map key l) ->
  (forall x, In x l -> key x <> k0 -> f x = 0) ->
  (forall x, In x l -> key x = k0 -> f x <= B) ->
  sumN (map f l) <= B.
Proof.
  induction l as [|x l IH]; intros Hnd Hz Hb; cbn [map sumN]; [lia|].
  cbn [map] in Hnd. inversion Hnd as [|? ? Hnotin Hnd']; subst.
  destruct (dec (key x) k0) as [E|E].
  - rewrite sumN_zero.
    + rewrite N.add_0_r. apply Hb; [left; reflexivity|exact E].
    + intros y Hy. apply Hz; [right; exact Hy|]. intros Ey. apply Hnotin.
      apply in_map_iff. exists y. split; [congruence|exact Hy].
  - rewrite (Hz x) by (auto; left; reflexivity). rewrite N.add_0_l. apply IH; auto.
    + intros y Hy. apply Hz. right; exact Hy.
    + intros y Hy. apply Hb. right; exact Hy.
Qed.

Lemma sumN_unique_eq {A K} (key : A -> K) (f : A -> N) (l : list A) (a : A) :
  NoDup (map key l) -> In a l ->
  (forall x, In x l -> key x <> key a -> f x = 0) ->
  sumN (map f l) = f a.
Proof.
  induction l as [|x l IH]; intros Hnd Hin Hz; [destruct Hin|].
  cbn [map] in Hnd. inversion Hnd as [|? ? Hnotin Hnd']; subst. cbn [map sumN].
  destruct Hin as [->|Hin].
  - rewrite sumN_zero; [lia|]. intros y Hy. apply Hz; [right; exact Hy|]. intros Ey. apply Hnotin.
    apply in_map_iff. exists y. split; [congruence|exact Hy].
  - rewrite (Hz x); [|left; reflexivity|].
    + rewrite N.add_0_l. apply IH; auto. intros y Hy. apply Hz. right; exact Hy.
    + intros Ex. apply Hnotin. apply in_map_iff. exists a. split; [congruence|exact Hin].
Qed.

(* ---------------- the merged-in mass ---------------- *)
Lemma incoming_eq L beam r bi :
  incoming (merge_table L beam r) bi =
  sumN (map (fun s1 => sumN (map (fun c => if opt_is (merge_target beam s1 c) bi then contrib r s1 c else 0)
                                 (seq 1 (L - 1)))) beam).
Proof.
  unfold incoming, merge_table. rewrite map_map. apply sumN_ext. intros s1 _.
  rewrite map_map. reflexivity.
Qed.

Lemma opt_is_true o i : opt_is o i = true <-> o = Some i.
Proof.
  destruct o as [j|]; cbn [opt_is]; [rewrite Nat.eqb_eq|]; split; congruence.
Qed.

(* a term of `incoming` can be non-zero only for the parent prefix and the last label *)
Lemma incoming_term beam s1 c' i s c l0 :
  nth_error beam i = Some s -> labels s = c :: l0 ->
  opt_is (merge_target beam s1 c') i = true -> c' = c /\ labels s1 = l0.
Proof.
  intros Hn Hl H. apply opt_is_true in H. apply merge_target_some in H as (s2 & H1 & H2).
  rewrite Hn in H1. injection H1 as <-. rewrite Hl in H2. injection H2 as -> ->. auto.
Qed.

Lemma incoming_nil L beam r i s :
  nth_error beam i = Some s -> labels s = [] -> incoming (merge_table L beam r) i = 0.
Proof.
  intros Hn Hl. rewrite incoming_eq. apply sumN_zero. intros s1 _. apply sumN_zero. intros c' _.
  destruct (opt_is (merge_target beam s1 c') i) eqn:E; [|reflexivity].
  apply opt_is_true in E. apply merge_target_some in E as (s2 & H1 & H2).
  rewrite Hn in H1. injection H1 as <-. congruence.
Qed.

Lemma incoming_le L beam r i s c l0 B :
  distinct beam -> nth_error beam i = Some s -> labels s = c :: l0 ->
  (forall s1, In s1 beam -> labels s1 = l0 -> contrib r s1 c <= B) ->
  incoming (merge_table L beam r) i <= B.
Proof.
  intros D Hn Hl HB. rewrite incoming_eq.
  apply (sumN_unique_le labels_dec labels _ beam l0); [exact D| |].
  - intros s1 _ Hne. apply sumN_zero. intros c' _.
    destruct (opt_is (merge_target beam s1 c') i) eqn:E; [|reflexivity].
    destruct (incoming_term _ _ _ _ _ _ _ Hn Hl E). contradiction.
  - intros s1 Hin He.
    apply (sumN_unique_le Nat.eq_dec (fun c' => c') _ (seq 1 (L - 1)) c); [rewrite map_id; apply seq_NoDup| |].
    + intros c' _ Hne. destruct (opt_is (merge_target beam s1 c') i) eqn:E; [|reflexivity].
      destruct (incoming_term _ _ _ _ _ _ _ Hn Hl E). contradiction.
    + intros c' _ ->. destruct (opt_is (merge_target beam s1 c) i); [apply HB; auto|lia].
Qed.

Lemma incoming_no_parent L beam r i s c l0 :
  nth_error beam i = Some s -> labels s = c :: l0 ->
  (forall s1, In s1 beam -> labels s1 <> l0) ->
  incoming (merge_table L beam r) i = 0.
Proof.
  intros Hn Hl Hno. rewrite incoming_eq. apply sumN_zero. intros s1 Hin. apply sumN_zero. intros c' _.
  destruct (opt_is (merge_target beam s1 c') i) eqn:E; [|reflexivity].
  destruct (incoming_term _ _ _ _ _ _ _ Hn Hl E) as [_ H]. exfalso. exact (Hno s1 Hin H).
Qed.

Lemma incoming_parent L beam r i s c l0 s1 :
  distinct beam -> nth_error beam i = Some s -> labels s = c :: l0 -> In c (seq 1 (L - 1)) ->
  In s1 beam -> labels s1 = l0 ->
  incoming (merge_table L beam r) i = contrib r s1 c.
Proof.
  intros D Hn Hl Hc Hin He. rewrite incoming_eq.
  rewrite (sumN_unique_eq labels _ beam s1 D Hin).
  - rewrite (sumN_unique_eq (fun c' => c') _ (seq 1 (L - 1)) c); [| rewrite map_id; apply seq_NoDup | exact Hc |].
    + rewrite (merge_target_unique beam s1 c i s D Hn) by congruence. cbn [opt_is]. rewrite Nat.eqb_refl. reflexivity.
    + intros c' _ Hne. destruct (opt_is (merge_target beam s1 c') i) eqn:E; [|reflexivity].
      destruct (incoming_term _ _ _ _ _ _ _ Hn Hl E). contradiction.
  - intros s1' _ Hne. apply sumN_zero. intros c' _.
    destruct (opt_is (merge_target beam s1' c') i) eqn:E; [|reflexivity].
    destruct (incoming_term _ _ _ _ _ _ _ Hn Hl E) as [_ H]. congruence.
Qed.

Lemma is_prev_hd_is s c : is_prev s c = hd_is (labels s) c.
Proof. unfold is_prev, prev_label. destruct (labels s); reflexivity. Qed.

(* ---------------- (1) the bound ---------------- *)
Definition bounded (rm : list row) (s : bstate) : Prop :=
  b_pb s <= fst (alpha rm (labels s)) /\ b_pnb s <= snd (alpha rm (labels s)).

Lemma contrib_le rm r s1 c l0 :
  bounded rm s1 -> labels s1 = l0 ->
  contrib r s1 c <= (fst (alpha rm l0) + (if hd_is l0 c then 0 else snd (alpha rm l0))) * wt r c.
Proof.
  intros [B1 B2] <-. unfold contrib. rewrite is_prev_hd_is. apply N.mul_le_mono_r.
  destruct (hd_is (labels s1) c); lia.
Qed.

Lemma alpha_cons_fst r rm l : fst (alpha (r :: rm) l) = (fst (alpha rm l) + snd (alpha rm l)) * wt r 0.
Proof. reflexivity. Qed.
Lemma alpha_cons_snd_nil r rm : snd (alpha (r :: rm) []) = 0.
Proof. reflexivity. Qed.
Lemma alpha_cons_snd_cons r rm c l0 :
  snd (alpha (r :: rm) (c :: l0)) =
  (snd (alpha rm (c :: l0)) + fst (alpha rm l0) + (if hd_is l0 c then 0 else snd (alpha rm l0))) * wt r c.
Proof. reflexivity. Qed.

Lemma own_repeat_cons r s c l0 : labels s = c :: l0 -> own_repeat r s = b_pnb s * wt r c.
Proof. intros H. unfold own_repeat, prev_label. rewrite H. reflexivity. Qed.
Lemma own_repeat_nil r s : labels s = [] -> own_repeat r s = 0.
Proof. intros H. unfold own_repeat, prev_label. rewrite H. reflexivity. Qed.

Lemma bounded_cands L beam r pos rm x :
  distinct beam -> Forall (bounded rm) beam ->
  In x (cand_states L beam r pos) -> bounded (r :: rm) x.
Proof.
  intros D HB Hx. rewrite Forall_forall in HB.
  apply in_cand_states in Hx as (i & s & Hn & Hx).
  assert (Hs : In s beam) by (eapply nth_error_In; eauto).
  destruct (HB s Hs) as [B1 B2].
  destruct Hx as [->|(c & Hc & ->)]; unfold bounded.
  - rewrite labels_cand_blank, alpha_cons_fst. cbn [cand_blank b_pb b_pnb]. split.
    + apply N.mul_le_mono_r. lia.
    + destruct (labels s) as [|c l0] eqn:El.
      * rewrite alpha_cons_snd_nil, (own_repeat_nil r s El), (incoming_nil L beam r i s Hn El). lia.
      * rewrite alpha_cons_snd_cons, (own_repeat_cons r s c l0 El).
        assert (Hin : incoming (merge_table L beam r) i <=
                      (fst (alpha rm l0) + (if hd_is l0 c then 0 else snd (alpha rm l0))) * wt r c).
        { apply (incoming_le L beam r i s c l0); auto.
          intros s1 Hs1 E1. apply contrib_le; auto. }
        rewrite ?El in B2. nia.
  - rewrite labels_cand_label, alpha_cons_fst, alpha_cons_snd_cons. cbn [cand_label b_pb b_pnb]. split; [lia|].
    destruct (merge_target beam s c); [lia|].
    pose proof (contrib_le rm r s c (labels s) (conj B1 B2) eq_refl). nia.
Qed.

Definition InvLe (rm : list row) (beam : list bstate) : Prop :=
  distinct beam /\ Forall (bounded rm) beam.

Lemma InvLe_step k L beam r pos rm :
  InvLe rm beam -> InvLe (r :: rm) (beam_step true k L beam r pos).
Proof.
  intros [D HB]. split; [apply distinct_step; exact D|].
  apply Forall_forall. intros x Hx. unfold beam_step in Hx. apply in_select in Hx as [Hx _].
  eapply bounded_cands; eauto.
Qed.

Lemma InvLe_run k L m : forall beam pos rm,
  InvLe rm beam -> InvLe (rev m ++ rm) (beam_run true k L beam pos m).
Proof.
  induction m as [|r m IH]; intros beam pos rm H; cbn [beam_run rev app]; [exact H|].
  rewrite <- app_assoc. cbn [app]. apply IH. apply InvLe_step. exact H.
Qed.

Lemma InvLe_init : InvLe [] init_beam.
Proof.
  split; [apply distinct_init|]. repeat constructor; cbn; lia.
Qed.

Lemma exact_hyp L m s : (1 <= L)%nat -> valid L (labels s) ->
  alpha_tot (rev m) (labels s) = exact L m (hyp_labels s).
Proof.
  intros HL V. unfold exact, hyp_labels. rewrite rev_involutive. apply alpha_exact; assumption.
Qed.

Theorem beam_score_le_exact k n L m s : (1 <= L)%nat ->
  In s (decode_beam_nbest true k n L m) -> total s <= exact L m (hyp_labels s).
Proof.
  intros HL Hin. unfold decode_beam_nbest in Hin. apply in_firstn in Hin.
  assert (V : valid L (labels s)).
  { pose proof (valid_run true k L m) as HV. rewrite Forall_forall in HV. apply HV; exact Hin. }
  rewrite <- (exact_hyp L m s HL V).
  destruct (InvLe_run k L m init_beam 0 [] InvLe_init) as [_ HB].
  rewrite app_nil_r in HB. rewrite Forall_forall in HB. destruct (HB s Hin) as [B1 B2].
  unfold total, alpha_tot. lia.
Qed.

(* ---------------- (2) exactness when nothing is pruned ---------------- *)
Definition exact_state (rm : list row) (s : bstate) : Prop :=
  b_pb s = fst (alpha rm (labels s)) /\ b_pnb s = snd (alpha rm (labels s)).
Definition complete (L : nat) (rm : list row) (beam : list bstate) : Prop :=
  forall l, valid L l -> alpha_tot rm l <> 0 -> exists s, In s beam /\ labels s = l.
Definition InvEq (L : nat) (rm : list row) (beam : list bstate) : Prop :=
  distinct beam /\ Forall (fun s => valid L (labels s)) beam /\ Forall (exact_state rm) beam /\ complete L rm beam.

Lemma valid_tail L c l0 : valid L (c :: l0) -> (1 <= c < L)%nat /\ valid L l0.
Proof. intros H; inversion H; subst; auto. Qed.

Lemma not_in_beam_zero L rm beam l :
  complete L rm beam -> valid L l -> (forall s, In s beam -> labels s <> l) ->
  fst (alpha rm l) = 0 /\ snd (alpha rm l) = 0.
Proof.
  intros C V Hno. destruct (N.eq_dec (alpha_tot rm l) 0) as [E|E].
  - unfold alpha_tot in E. lia.
  - destruct (C l V E) as (s & Hs & Hl). exfalso. exact (Hno s Hs Hl).
Qed.

Lemma in_beam_dec beam l : (exists s, In s beam /\ labels s = l) \/ (forall s, In s beam -> labels s <> l).
Proof.
  induction beam as [|a b IH].
  - right. intros s [].
  - destruct (labels_dec (labels a) l) as [E|E].
    + left. exists a. split; [left; reflexivity|exact E].
    + destruct IH as [(s & Hs & Hl)|Hno].
      * left. exists s. split; [right; exact Hs|exact Hl].
      * right. intros s [<-|Hs]; auto.
Qed.

(* the blank candidate of a beam state carries the exact forward variables *)
Lemma exact_cand_blank L beam r rm i s :
  InvEq L rm beam -> nth_error beam i = Some s ->
  exact_state (r :: rm) (cand_blank (merge_table L beam r) r i s).
Proof.
  intros (D & V & HE & C) Hn.
  assert (Hs : In s beam) by (eapply nth_error_In; eauto).
  rewrite Forall_forall in HE, V. destruct (HE s Hs) as [E1 E2]. pose proof (V s Hs) as Vs.
  unfold exact_state. rewrite labels_cand_blank, alpha_cons_fst. cbn [cand_blank b_pb b_pnb].
  split; [rewrite E1, E2; reflexivity|].
  destruct (labels s) as [|c l0] eqn:El.
  - rewrite alpha_cons_snd_nil, (own_repeat_nil r s El), (incoming_nil L beam r i s Hn El). reflexivity.
  - rewrite alpha_cons_snd_cons, (own_repeat_cons r s c l0 El), E2.
    destruct (valid_tail _ _ _ Vs) as [Hc V0].
    assert (Hcs : In c (seq 1 (L - 1))) by (apply in_seq; lia).
    destruct (in_beam_dec beam l0) as [(s1 & Hs1 & Hl1)|Hno].
    + rewrite (incoming_parent L beam r i s c l0 s1 D Hn El Hcs Hs1 Hl1).
      destruct (HE s1 Hs1) as [F1 F2]. unfold contrib. rewrite is_prev_hd_is, Hl1, F1, F2, Hl1.
      destruct (hd_is l0 c); lia.
    + rewrite (incoming_no_parent L beam r i s c l0 Hn El Hno).
      destruct (not_in_beam_zero L rm beam l0 C V0 Hno) as [Z1 Z2]. rewrite Z1, Z2.
      destruct (hd_is l0 c); lia.
Qed.

(* a live label candidate carries the exact forward variables *)
Lemma exact_cand_label L beam r pos rm s c :
  InvEq L rm beam -> In s beam -> In c (seq 1 (L - 1)) ->
  merge_target beam s c = None ->
  exact_state (r :: rm) (cand_label beam r pos s c).
Proof.
  intros (D & V & HE & C) Hs Hc Hm.
  rewrite Forall_forall in HE, V. destruct (HE s Hs) as [E1 E2]. pose proof (V s Hs) as Vs.
  assert (Vc : valid L (c :: labels s)). { constructor; auto. apply in_seq in Hc. lia. }
  rewrite merge_target_none in Hm.
  destruct (not_in_beam_zero L rm beam (c :: labels s) C Vc Hm) as [Z1 Z2].
  unfold exact_state. rewrite labels_cand_label, alpha_cons_fst, alpha_cons_snd_cons, Z1, Z2.
  cbn [cand_label b_pb b_pnb]. split; [lia|].
  assert (Hm' : merge_target beam s c = None) by (apply merge_target_none; exact Hm).
  rewrite Hm'. unfold contrib. rewrite is_prev_hd_is, E1, E2. destruct (hd_is (labels s) c); lia.
Qed.

Lemma InvEq_step k L beam r pos rm : (1 <= L)%nat ->
  InvEq L rm beam ->
  (length (offered true (cand_states L beam r pos)) <= k)%nat ->
  InvEq L (r :: rm) (beam_step true k L beam r pos).
Proof.
  intros HL Inv Hk. pose proof Inv as (D & V & HE & C).
  split; [apply distinct_step; exact D|]. split; [apply valid_step; exact V|]. split.
  - (* every selected candidate is exact *)
    apply Forall_forall. intros x Hx. unfold beam_step in Hx. apply in_select in Hx as [Hx Hl].
    specialize (Hl eq_refl).
    apply in_cand_states in Hx as (i & s & Hn & Hx).
    destruct Hx as [->|(c & Hc & ->)].
    + apply exact_cand_blank; assumption.
    + apply (exact_cand_label L); auto; [eapply nth_error_In; eauto|].
      apply live_total in Hl. unfold total, cand_label in Hl; cbn [b_pb b_pnb] in Hl.
      destruct (merge_target beam s c); [lia|reflexivity].
  - (* every label sequence of non-zero probability is selected *)
    intros l Vl Hnz.
    assert (Hsel : forall x, In x (cand_states L beam r pos) -> live x = true -> labels x = l ->
                   exists s', In s' (beam_step true k L beam r pos) /\ labels s' = l).
    { intros x Hx Hlx Hlab. exists x. split; [|exact Hlab]. unfold beam_step. apply select_all; [exact Hk|].
      unfold offered. apply filter_In. auto. }
    unfold alpha_tot in Hnz.
    destruct (in_beam_dec beam l) as [(s & Hs & Hl)|Hno].
    + (* l is in the beam: its blank candidate is live *)
      destruct (In_nth_error _ _ Hs) as (i & Hn).
      pose proof (exact_cand_blank L beam r rm i s Inv Hn) as [X1 X2].
      rewrite labels_cand_blank, Hl in X1, X2.
      apply (Hsel (cand_blank (merge_table L beam r) r i s)).
      * apply in_cand_states. exists i, s. auto.
      * apply live_total. unfold total. lia.
      * rewrite labels_cand_blank. exact Hl.
    + (* l is new: it extends a beam state *)
      destruct (not_in_beam_zero L rm beam l C Vl Hno) as [Z1 Z2].
      rewrite alpha_cons_fst, Z1, Z2 in Hnz.
      destruct l as [|c l0]; [rewrite alpha_cons_snd_nil in Hnz; lia|].
      rewrite alpha_cons_snd_cons, Z2 in Hnz.
      destruct (valid_tail _ _ _ Vl) as [Hc V0].
      assert (Hcs : In c (seq 1 (L - 1))) by (apply in_seq; lia).
      assert (Hnz0 : alpha_tot rm l0 <> 0).
      { unfold alpha_tot. destruct (hd_is l0 c); nia. }
      destruct (C l0 V0 Hnz0) as (s1 & Hs1 & Hl1).
      assert (Hm : merge_target beam s1 c = None).
      { apply merge_target_none. intros s2 Hs2 E. apply (Hno s2 Hs2). congruence. }
      destruct (In_nth_error _ _ Hs1) as (i1 & Hn1).
      pose proof (exact_cand_label L beam r pos rm s1 c Inv Hs1 Hcs Hm) as [X1 X2].
      rewrite labels_cand_label, Hl1 in X1, X2. rewrite alpha_cons_snd_cons, Z2 in X2.
      apply (Hsel (cand_label beam r pos s1 c)).
      * apply in_cand_states. exists i1, s1. split; auto. right. exists c. auto.
      * apply live_total. unfold total. lia.
      * rewrite labels_cand_label, Hl1. reflexivity.
Qed.

Lemma InvEq_run k L m : (1 <= L)%nat -> forall beam pos rm,
  InvEq L rm beam -> unpruned_from true k L beam pos m = true ->
  InvEq L (rev m ++ rm) (beam_run true k L beam pos m).
Proof.
  intros HL. induction m as [|r m IH]; intros beam pos rm H U; cbn [beam_run rev app]; [exact H|].
  cbn [unpruned_from] in U. apply andb_true_iff in U as [U1 U2]. apply Nat.leb_le in U1.
  rewrite <- app_assoc. cbn [app]. apply IH; [|exact U2]. apply InvEq_step; assumption.
Qed.

Lemma InvEq_init L : InvEq L [] init_beam.
Proof.
  split; [apply distinct_init|]. split; [repeat constructor|]. split; [repeat constructor|].
  intros l _ H. exists (mkB [] 1 0). split; [left; reflexivity|].
  destruct l; [reflexivity|]. unfold alpha_tot in H. cbn in H. lia.
Qed.

Theorem beam_exact_when_unpruned k n L m s : (1 <= L)%nat ->
  unpruned true k L m = true ->
  In s (decode_beam_nbest true k n L m) -> total s = exact L m (hyp_labels s).
Proof.
  intros HL U Hin. unfold decode_beam_nbest in Hin. apply in_firstn in Hin.
  destruct (InvEq_run k L m HL init_beam 0 [] (InvEq_init L) U) as (_ & V & HE & _).
  rewrite app_nil_r in HE. rewrite Forall_forall in HE, V.
  rewrite <- (exact_hyp L m s HL (V s Hin)).
  destruct (HE s Hin) as [E1 E2]. unfold total, alpha_tot. lia.
Qed.

(* ... and then the beam is complete: every label sequence of non-zero probability is in it *)
Theorem beam_complete_when_unpruned k L m y : (1 <= L)%nat ->
  unpruned true k L m = true -> valid L y -> exact L m y <> 0 ->
  exists s, In s (decode_beam_impl true k L m) /\ hyp_labels s = y.
Proof.
  intros HL U V Hnz.
  destruct (InvEq_run k L m HL init_beam 0 [] (InvEq_init L) U) as (_ & _ & _ & C).
  rewrite app_nil_r in C.
  assert (Vr : valid L (rev y)). { apply Forall_rev. exact V. }
  destruct (C (rev y) Vr) as (s & Hs & Hl).
  - rewrite (alpha_exact L _ _ HL Vr). exact Hnz.
  - exists s. split; [exact Hs|]. unfold hyp_labels. rewrite Hl. apply rev_involutive.
Qed.
