(* C39 -- soundness of the executable property oracle used on the implementation's output:
   what `prop_ok c = true` guarantees about the hypotheses the implementation returned. *)
From RV Require Import Prelude.
From Ctc Require Import ModelCtc Greedy_proofs Beam_proofs Exact_proofs.
Open Scope N_scope.

Lemma steps_eqb_eq a b : steps_eqb a b = true <-> a = b.
Proof.
  revert b; induction a as [|[x1 x2] a IH]; intros [|[y1 y2] b]; cbn [steps_eqb];
    try (split; [discriminate|discriminate]); try tauto.
  rewrite !andb_true_iff, !Nat.eqb_eq, IH. split.
  - intros [[-> ->] ->]. reflexivity.
  - intros [= -> -> ->]. auto.
Qed.

(* ---- row maxima ---- *)
Lemma fold_max_ge r : forall acc, acc <= fold_left N.max r acc /\ forall x, In x r -> x <= fold_left N.max r acc.
Proof.
  induction r as [|y r IH]; intros acc; cbn [fold_left].
  - split; [lia|intros x []].
  - destruct (IH (N.max acc y)) as [H1 H2]. split; [lia|].
    intros x [<-|Hx]; [lia|auto].
Qed.

Lemma row_max_ge r j : wt r j <= row_max r.
Proof.
  unfold wt, row_max. destruct (Nat.lt_ge_cases j (length r)) as [H|H].
  - apply (proj2 (fold_max_ge r 0)). apply nth_In. exact H.
  - rewrite nth_overflow by exact H. lia.
Qed.

Lemma in_max_indices_from mx r : forall s i,
  In i (max_indices_from s mx r) <-> (s <= i)%nat /\ (i - s < length r)%nat /\ nth (i - s) r 0 = mx.
Proof.
  induction r as [|x r IH]; intros s i; cbn [max_indices_from length].
  - split; [intros []|lia].
  - assert (Hrec : In i (max_indices_from (S s) mx r) <->
                   (s < i)%nat /\ (i - s < S (length r))%nat /\ nth (i - s) (x :: r) 0 = mx).
    { rewrite IH. split.
      - intros (A & B & C). split; [lia|]. split; [lia|]. replace (i - s)%nat with (S (i - S s)) by lia. exact C.
      - intros (A & B & C). split; [lia|]. split; [lia|]. replace (i - s)%nat with (S (i - S s)) in C by lia. exact C. }
    destruct (x =? mx) eqn:E.
    + apply N.eqb_eq in E. cbn [In]. rewrite Hrec. split.
      * intros [<-|(A & B & C)].
        -- rewrite Nat.sub_diag. cbn. split; [lia|]. split; [lia|exact E].
        -- split; [lia|]. auto.
      * intros (A & B & C). destruct (Nat.eq_dec i s) as [->|Hne]; [left; reflexivity|right].
        split; [lia|]. auto.
    + apply N.eqb_neq in E. rewrite Hrec. split.
      * intros (A & B & C). split; [lia|]. auto.
      * intros (A & B & C). destruct (Nat.eq_dec i s) as [->|Hne].
        -- rewrite Nat.sub_diag in C. cbn in C. contradiction.
        -- split; [lia|]. auto.
Qed.

Lemma in_max_indices r i : In i (max_indices r) -> is_max_index r i.
Proof.
  unfold max_indices. rewrite in_max_indices_from, Nat.sub_0_r. intros (_ & Hlt & Hv).
  split; [exact Hlt|]. intros j _. unfold wt at 2. rewrite Hv. apply row_max_ge.
Qed.

Lemma in_argmax_paths m : forall p, In p (argmax_paths m) -> Forall2 is_max_index m p.
Proof.
  induction m as [|r m IH]; intros p H; cbn [argmax_paths] in H.
  - destruct H as [<-|[]]. constructor.
  - apply in_flat_map in H as (s & Hs & H). apply in_map_iff in H as (q & <- & Hq).
    constructor; [apply in_max_indices; exact Hs|apply IH; exact Hq].
Qed.

(* ---- what the oracle guarantees ---- *)
Theorem greedy_ok_sound c : greedy_ok c = true ->
  exists h p, c_greedy c = Hyps [h]
    /\ Forall2 is_max_index (c_m c) p          (* p is an arg-max path (some tie-break) *)
    /\ h_steps h = collapse_pos p               (* repeats merged, blanks removed, first positions *)
    /\ h_labels h = collapse p.
Proof.
  unfold greedy_ok. destruct (c_greedy c) as [[|h [|]]|]; try discriminate.
  rewrite andb_true_iff. intros [H _]. apply existsb_exists in H as (p & Hp & He).
  apply steps_eqb_eq in He. exists h, p. split; [reflexivity|]. split; [apply in_argmax_paths; exact Hp|].
  split; [exact He|]. unfold h_labels. rewrite He. apply collapse_pos_labels.
Qed.

Lemma valid_labels_spec L y : valid_labels L y = true -> valid L y.
Proof.
  unfold valid_labels, valid. rewrite forallb_forall, Forall_forall. intros H c Hc.
  specialize (H c Hc). apply andb_true_iff in H as [H1 H2].
  apply Nat.leb_le in H1. apply Nat.ltb_lt in H2. lia.
Qed.

(* the reference the oracle uses (brute force, or the forward recursion on long inputs) is the
   exact probability *)
Lemma ref_prob_exact c y : (1 <= c_L c)%nat -> valid (c_L c) y ->
  ref_prob c (ref_table c) y = exact (c_L c) (c_m c) y.
Proof.
  intros HL V. unfold ref_prob, ref_table. destruct (small_case c); [reflexivity|].
  rewrite alpha_dp_spec. unfold exact. apply alpha_exact; [exact HL|]. apply Forall_rev. exact V.
Qed.

Theorem beam_ok_sound c : (1 <= c_L c)%nat -> beam_ok c = true ->
  exists hs, c_nbest c = Hyps hs
    /\ NoDup (map h_labels hs)
    /\ (hs = [] -> c_n c = 0%nat \/ c_k c = 0%nat \/ exists r, In r (c_m c) /\ dead_row (c_L c) r = true)
    /\ Forall (fun h => valid (c_L c) (h_labels h)
                        /\ sc_finite (h_sc h) = true
                        /\ sc_le (h_sc h) (exact (c_L c) (c_m c) (h_labels h)) (Dpow c) (Tn c) = true
                        /\ (unpruned true (c_k c) (c_L c) (c_m c) = true ->
                            sc_ge (h_sc h) (exact (c_L c) (c_m c) (h_labels h)) (Dpow c) (Tn c) = true)) hs.
Proof.
  intros HL. unfold beam_ok. destruct (c_nbest c) as [hs|]; [|discriminate].
  rewrite !andb_true_iff. intros [[[[H1 _] H2] H3] _]. exists hs. split; [reflexivity|].
  split; [apply nodup_labels_spec; exact H1|]. split.
  - intros ->. rewrite !orb_true_iff, !Nat.eqb_eq in H2. destruct H2 as [[A|A]|A]; auto.
    right; right. apply existsb_exists in A. exact A.
  - apply Forall_forall. intros h Hh. rewrite forallb_forall in H3. specialize (H3 h Hh).
    rewrite !andb_true_iff in H3. destruct H3 as [[[V A] B] C].
    apply valid_labels_spec in V. rewrite (ref_prob_exact c _ HL V) in B, C.
    split; [exact V|]. split; [exact A|]. split; [exact B|]. intros U. rewrite U in C. exact C.
Qed.
