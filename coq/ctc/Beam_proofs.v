(* C39 -- beam search: structure of the candidate list, the merge map, and the invariant
   "the beam holds pairwise distinct label sequences" (for the code after the F14 fix). *)
From RV Require Import Prelude.
From Ctc Require Import ModelCtc Greedy_proofs.
From Coq Require Import Permutation.
Open Scope N_scope.

Definition distinct (beam : list bstate) : Prop := NoDup (map labels beam).
Definition valid (L : nat) (l : list nat) : Prop := Forall (fun c => (1 <= c < L)%nat) l.

(* ---------------- generic list lemmas ---------------- *)
Lemma in_firstn {A} (k : nat) (l : list A) x : In x (firstn k l) -> In x l.
Proof.
  revert k; induction l as [|y l IH]; intros [|k]; cbn; try tauto.
  intros [->|H]; auto. right. apply (IH k). exact H.
Qed.

Lemma nodup_firstn {A} (k : nat) (l : list A) : NoDup l -> NoDup (firstn k l).
Proof.
  revert k; induction l as [|y l IH]; intros [|k] H; cbn; try constructor.
  - inversion H; subst. intros Hin. apply in_firstn in Hin. contradiction.
  - inversion H; subst. apply IH; assumption.
Qed.

Lemma nodup_app {A} (l1 l2 : list A) :
  NoDup l1 -> NoDup l2 -> (forall x, In x l1 -> In x l2 -> False) -> NoDup (l1 ++ l2).
Proof.
  induction l1 as [|a l1 IH]; intros H1 H2 Hd; cbn; [exact H2|].
  inversion H1; subst. constructor.
  - rewrite in_app_iff. intros [H|H]; [contradiction|]. apply (Hd a); cbn; auto.
  - apply IH; auto. intros x Hx. apply Hd. cbn; auto.
Qed.

Lemma nodup_map_filter {A B} (f : A -> B) (p : A -> bool) (l : list A) :
  NoDup (map f l) -> NoDup (map f (filter p l)).
Proof.
  induction l as [|a l IH]; cbn; intros H; [constructor|].
  inversion H; subst. destruct (p a); cbn; auto.
  constructor; auto. intros Hin. apply H2.
  apply in_map_iff in Hin as (y & Hy & Hin). apply filter_In in Hin as [Hin _].
  apply in_map_iff. exists y; auto.
Qed.

Lemma in_combine_seq {A} (l : list A) : forall start i s,
  In (i, s) (combine (seq start (length l)) l) <-> (start <= i)%nat /\ nth_error l (i - start) = Some s.
Proof.
  induction l as [|a l IH]; intros start i s; cbn [length seq combine In].
  - split; [tauto|]. intros [_ H]. destruct (i - start)%nat; discriminate.
  - rewrite IH. split.
    + intros [[= <- <-]|[H1 H2]].
      * rewrite Nat.sub_diag. cbn. split; [lia|reflexivity].
      * split; [lia|]. replace (i - start)%nat with (S (i - S start)) by lia. exact H2.
    + intros [H1 H2]. destruct (Nat.eq_dec i start) as [->|Hne].
      * rewrite Nat.sub_diag in H2. cbn in H2. injection H2 as <-. left; reflexivity.
      * right. split; [lia|]. replace (i - start)%nat with (S (i - S start)) in H2 by lia. exact H2.
Qed.

Lemma map_snd_combine_seq {A} (l : list A) : forall start, map snd (combine (seq start (length l)) l) = l.
Proof. induction l as [|a l IH]; intros start; cbn; [reflexivity|]. rewrite IH. reflexivity. Qed.

(* ---------------- the merge map ---------------- *)
Lemma find_last_from_some f beam : forall i acc j,
  find_last_from f i beam acc = Some j ->
  acc = Some j \/ (exists s, nth_error beam (j - i) = Some s /\ f s = true /\ (i <= j)%nat).
Proof.
  induction beam as [|s b IH]; intros i acc j H; cbn [find_last_from] in H; [left; exact H|].
  apply IH in H. destruct H as [H|(s' & H1 & H2 & H3)].
  - destruct (f s) eqn:E; [|left; exact H].
    injection H as <-. right. exists s. rewrite Nat.sub_diag. cbn. auto.
  - right. exists s'. replace (j - i)%nat with (S (j - S i)) by lia. cbn. split; auto. split; auto. lia.
Qed.

Lemma find_last_from_none f beam : forall i acc,
  find_last_from f i beam acc = None -> acc = None /\ forall s, In s beam -> f s = false.
Proof.
  induction beam as [|a b IH]; intros i acc H; cbn [find_last_from] in H.
  - split; auto. intros s [].
  - apply IH in H as [H1 H2]. destruct (f a) eqn:E; [discriminate|]. split; auto.
    intros s [<-|Hin]; auto.
Qed.

Lemma merge_target_some beam s1 c j : merge_target beam s1 c = Some j ->
  exists s2, nth_error beam j = Some s2 /\ labels s2 = c :: labels s1.
Proof.
  unfold merge_target. intros H. apply find_last_from_some in H as [H|(s & H1 & H2 & _)]; [discriminate|].
  rewrite Nat.sub_0_r in H1. exists s. split; auto. apply leqb_eq; exact H2.
Qed.

Lemma merge_target_none beam s1 c :
  merge_target beam s1 c = None <-> forall s2, In s2 beam -> labels s2 <> c :: labels s1.
Proof.
  split.
  - intros H s2 Hin. unfold merge_target in H. apply find_last_from_none in H as [_ H].
    apply leqb_neq. apply H; exact Hin.
  - intros H. destruct (merge_target beam s1 c) eqn:E; auto.
    apply merge_target_some in E as (s2 & H1 & H2). apply nth_error_In in H1. exfalso. eapply H; eauto.
Qed.

Lemma distinct_same_index beam i j s s' :
  distinct beam -> nth_error beam i = Some s -> nth_error beam j = Some s' -> labels s = labels s' -> i = j.
Proof.
  intros D Hi Hj He. unfold distinct in D. rewrite NoDup_nth_error in D. apply D.
  - rewrite map_length. apply nth_error_Some. congruence.
  - rewrite (map_nth_error labels _ _ Hi), (map_nth_error labels _ _ Hj). congruence.
Qed.

Lemma merge_target_unique beam s1 c j s2 :
  distinct beam -> nth_error beam j = Some s2 -> labels s2 = c :: labels s1 ->
  merge_target beam s1 c = Some j.
Proof.
  intros D H1 H2. destruct (merge_target beam s1 c) eqn:E.
  - apply merge_target_some in E as (s2' & H1' & H2'). f_equal.
    eapply distinct_same_index; eauto. congruence.
  - rewrite merge_target_none in E. exfalso. apply (E s2); auto. eapply nth_error_In; eauto.
Qed.

(* ---------------- candidates ---------------- *)
Lemma labels_cand_blank mt r i s : labels (cand_blank mt r i s) = labels s.
Proof. reflexivity. Qed.
Lemma labels_cand_label beam r pos s c : labels (cand_label beam r pos s c) = c :: labels s.
Proof. reflexivity. Qed.

Lemma in_cand_states L beam r pos x :
  In x (cand_states L beam r pos) <->
  exists i s, nth_error beam i = Some s /\
    (x = cand_blank (merge_table L beam r) r i s \/
     exists c, In c (seq 1 (L - 1)) /\ x = cand_label beam r pos s c).
Proof.
  unfold cand_states. rewrite in_flat_map. split.
  - intros ([i s] & Hin & Hx). apply in_combine_seq in Hin as [_ Hin]. rewrite Nat.sub_0_r in Hin.
    exists i, s. split; auto. unfold cands_of in Hx. cbn [fst snd] in Hx.
    destruct Hx as [<-|Hx]; [left; reflexivity|]. right.
    apply in_map_iff in Hx as (c & <- & Hc). exists c; auto.
  - intros (i & s & Hn & Hx). exists (i, s). split.
    + apply in_combine_seq. rewrite Nat.sub_0_r. split; [lia|exact Hn].
    + unfold cands_of; cbn [fst snd]. destruct Hx as [->|(c & Hc & ->)]; [left; reflexivity|].
      right. apply in_map_iff. exists c; auto.
Qed.

Lemma live_total s : live s = true <-> total s <> 0.
Proof. unfold live. rewrite negb_true_iff, N.eqb_neq. tauto. Qed.

Lemma live_cands_labels L beam mt r pos i s x :
  In x (cands_of L beam mt r pos (i, s)) -> live x = true ->
  labels x = labels s \/ (exists c, In c (seq 1 (L - 1)) /\ labels x = c :: labels s /\ merge_target beam s c = None).
Proof.
  unfold cands_of; cbn [fst snd]. intros [<-|Hin] Hl; [left; reflexivity|].
  apply in_map_iff in Hin as (c & <- & Hc). right. exists c. split; auto. split; [reflexivity|].
  apply live_total in Hl. unfold total, cand_label in Hl; cbn [b_pb b_pnb] in Hl.
  destruct (merge_target beam s c); [lia|reflexivity].
Qed.

Lemma nodup_cands_of L beam mt r pos i s :
  NoDup (map labels (filter live (cands_of L beam mt r pos (i, s)))).
Proof.
  apply nodup_map_filter. unfold cands_of; cbn [fst snd map]. rewrite map_map.
  constructor.
  - intros Hin. apply in_map_iff in Hin as (c & Hc & _). rewrite labels_cand_label, labels_cand_blank in Hc.
    apply (f_equal (@length nat)) in Hc. cbn in Hc. lia.
  - apply FinFun.Injective_map_NoDup; [|apply seq_NoDup].
    intros c c' H. rewrite !labels_cand_label in H. congruence.
Qed.

Lemma nodup_cands L beam mt r pos : forall part,
  (forall i s, In (i, s) part -> In s beam) ->
  NoDup (map (fun bis => labels (snd bis)) part) ->
  NoDup (map labels (filter live (flat_map (cands_of L beam mt r pos) part))).
Proof.
  induction part as [|[i s] part IH]; intros Hsub Hnd; cbn [flat_map]; [constructor|].
  rewrite filter_app, map_app. cbn [map snd] in Hnd. inversion Hnd as [|? ? Hnotin Hnd']; subst.
  apply nodup_app.
  - apply nodup_cands_of.
  - apply IH; auto. intros i' s' H. apply (Hsub i' s'). right; exact H.
  - intros y Hy1 Hy2.
    apply in_map_iff in Hy1 as (x1 & <- & Hx1). apply filter_In in Hx1 as [Hx1 Hl1].
    apply in_map_iff in Hy2 as (x2 & He & Hx2). apply filter_In in Hx2 as [Hx2 Hl2].
    apply in_flat_map in Hx2 as ([i' s'] & Hin' & Hx2).
    assert (Hs' : In s' beam) by (apply (Hsub i' s'); right; exact Hin').
    assert (Hs : In s beam) by (apply (Hsub i s); left; reflexivity).
    assert (Hne : labels s <> labels s').
    { intros E. apply Hnotin. apply in_map_iff. exists (i', s'). cbn [snd]. auto. }
    apply (live_cands_labels _ _ _ _ _ _ _ _ Hx1) in Hl1.
    apply (live_cands_labels _ _ _ _ _ _ _ _ Hx2) in Hl2.
    destruct Hl1 as [E1|(c1 & _ & E1 & M1)], Hl2 as [E2|(c2 & _ & E2 & M2)].
    + congruence.
    + rewrite merge_target_none in M2. apply (M2 s Hs). congruence.
    + rewrite merge_target_none in M1. apply (M1 s' Hs'). congruence.
    + rewrite E1, E2 in He. injection He as _ He. congruence.
Qed.

Lemma distinct_live_cands L beam r pos :
  distinct beam -> NoDup (map labels (filter live (cand_states L beam r pos))).
Proof.
  intros D. unfold cand_states. apply nodup_cands.
  - intros i s H. apply in_combine_seq in H as [_ H]. eapply nth_error_In; eauto.
  - rewrite <- map_map, map_snd_combine_seq. exact D.
Qed.

(* ---------------- selection ---------------- *)
Lemma insert_desc_perm x l : Permutation (insert_desc x l) (x :: l).
Proof.
  induction l as [|y l IH]; cbn [insert_desc]; [apply Permutation_refl|].
  destruct (total y <? total x); [apply Permutation_refl|].
  eapply perm_trans; [apply perm_skip; exact IH|apply perm_swap].
Qed.

Lemma sort_desc_perm_acc l : forall acc,
  Permutation (fold_left (fun a x => insert_desc x a) l acc) (l ++ acc).
Proof.
  induction l as [|x l IH]; intros acc; cbn [fold_left app]; [apply Permutation_refl|].
  eapply perm_trans; [apply IH|].
  eapply perm_trans; [apply Permutation_app_head; apply insert_desc_perm|].
  apply Permutation_sym, Permutation_middle.
Qed.

Lemma sort_desc_perm l : Permutation (sort_desc l) l.
Proof. unfold sort_desc. eapply perm_trans; [apply sort_desc_perm_acc|]. rewrite app_nil_r. apply Permutation_refl. Qed.

Lemma in_select fixed k cs x : In x (select fixed k cs) -> In x cs /\ (fixed = true -> live x = true).
Proof.
  unfold select. intros H. apply in_firstn in H.
  apply (Permutation_in _ (sort_desc_perm _)) in H. unfold offered in H.
  destruct fixed.
  - apply filter_In in H. tauto.
  - split; auto. discriminate.
Qed.

Lemma select_all fixed k cs x :
  (length (offered fixed cs) <= k)%nat -> In x (offered fixed cs) -> In x (select fixed k cs).
Proof.
  intros Hlen Hin. unfold select. rewrite firstn_all2.
  - apply (Permutation_in _ (Permutation_sym (sort_desc_perm _))). exact Hin.
  - rewrite (Permutation_length (sort_desc_perm _)). exact Hlen.
Qed.

Lemma distinct_select k cs :
  NoDup (map labels (filter live cs)) -> distinct (select true k cs).
Proof.
  intros H. unfold distinct, select, offered. rewrite <- firstn_map. apply nodup_firstn.
  eapply Permutation_NoDup; [|exact H]. apply Permutation_map, Permutation_sym, sort_desc_perm.
Qed.

(* ---------------- the invariant of the fixed code ---------------- *)
Lemma distinct_step k L beam r pos :
  distinct beam -> distinct (beam_step true k L beam r pos).
Proof. intros D. unfold beam_step. apply distinct_select, distinct_live_cands, D. Qed.

Lemma distinct_init : distinct init_beam.
Proof. unfold distinct, init_beam; cbn. constructor; [intros []|constructor]. Qed.

Lemma beam_run_invariant (P : list bstate -> Prop) fixed k L :
  (forall beam r pos, P beam -> P (beam_step fixed k L beam r pos)) ->
  forall m beam pos, P beam -> P (beam_run fixed k L beam pos m).
Proof.
  intros Hstep. induction m as [|r m IH]; intros beam pos H; cbn [beam_run]; auto.
Qed.

Lemma distinct_run k L m : distinct (decode_beam_impl true k L m).
Proof.
  unfold decode_beam_impl. apply (beam_run_invariant distinct true k L).
  - intros; apply distinct_step; assumption.
  - apply distinct_init.
Qed.

(* every state of the beam has non-zero probability (finite log score) *)
Lemma live_step k L beam r pos : Forall (fun s => live s = true) (beam_step true k L beam r pos).
Proof. apply Forall_forall. intros x H. unfold beam_step in H. apply in_select in H as [_ H]. auto. Qed.

Lemma live_run k L m : Forall (fun s => live s = true) (decode_beam_impl true k L m).
Proof.
  unfold decode_beam_impl. apply (beam_run_invariant (Forall (fun s => live s = true)) true k L).
  - intros; apply live_step.
  - repeat constructor.
Qed.

(* labels stay in 1..L-1 *)
Lemma valid_step fixed k L beam r pos :
  Forall (fun s => valid L (labels s)) beam -> Forall (fun s => valid L (labels s)) (beam_step fixed k L beam r pos).
Proof.
  intros V. apply Forall_forall. intros x H. unfold beam_step in H. apply in_select in H as [H _].
  apply in_cand_states in H as (i & s & Hn & Hx).
  assert (Vs : valid L (labels s)). { rewrite Forall_forall in V. apply V. eapply nth_error_In; eauto. }
  destruct Hx as [->|(c & Hc & ->)]; [exact Vs|].
  rewrite labels_cand_label. constructor; auto. apply in_seq in Hc. lia.
Qed.

Lemma valid_run fixed k L m : Forall (fun s => valid L (labels s)) (decode_beam_impl fixed k L m).
Proof.
  unfold decode_beam_impl. apply (beam_run_invariant (Forall (fun s => valid L (labels s))) fixed k L).
  - intros; apply valid_step; assumption.
  - repeat constructor.
Qed.

(* ---------------- returned hypotheses ---------------- *)
Lemma rev_inj {A} (a b : list A) : rev a = rev b -> a = b.
Proof. intros H. rewrite <- (rev_involutive a), <- (rev_involutive b), H. reflexivity. Qed.

Theorem beam_prefixes_distinct k n L m :
  NoDup (map hyp_labels (decode_beam_nbest true k n L m)).
Proof.
  unfold decode_beam_nbest. rewrite <- firstn_map. apply nodup_firstn.
  unfold hyp_labels. rewrite <- (map_map labels (@rev nat)).
  apply FinFun.Injective_map_NoDup; [intros a b; apply rev_inj|]. apply distinct_run.
Qed.

Theorem beam_scores_nonzero k n L m s :
  In s (decode_beam_nbest true k n L m) -> total s <> 0.
Proof.
  unfold decode_beam_nbest. intros H. apply in_firstn in H.
  pose proof (live_run k L m) as Hl. rewrite Forall_forall in Hl. apply live_total, Hl, H.
Qed.

(* boolean distinctness test used by the property oracle *)
Lemma nodup_labels_spec l : nodup_labels l = true <-> NoDup l.
Proof.
  induction l as [|x l IH]; cbn [nodup_labels]; [split; [constructor|reflexivity]|].
  rewrite andb_true_iff, negb_true_iff, IH. split.
  - intros [H1 H2]. constructor; auto. intros Hin.
    assert (existsb (leqb x) l = true) by (apply existsb_exists; exists x; split; [exact Hin|apply leqb_refl]).
    congruence.
  - intros H; inversion H; subst. split; auto.
    destruct (existsb (leqb x) l) eqn:E; auto.
    apply existsb_exists in E as (y & Hy & Hxy). apply leqb_eq in Hxy; subst. contradiction.
Qed.

(* ---------------- the unfixed selection loop violates distinctness (F14) ---------------- *)
Lemma beam_prefixes_distinct_refuted :
  exists k n L m,
    ~ NoDup (map hyp_labels (decode_beam_nbest false k n L m))
    /\ exists s, In s (decode_beam_nbest false k n L m) /\ total s = 0.
Proof.
  exists 20%nat, 20%nat, 3%nat, [[4; 4; 4]; [4; 4; 4]]. split.
  - rewrite <- nodup_labels_spec. vm_compute. discriminate.
  - vm_compute. eexists. split; [do 5 right; left; reflexivity|reflexivity].
Qed.
