(* C39 -- CTC decoding returns distinct, correctly scored hypotheses.
   Only statements; every proof is `exact <lemma>`.

   Reading guide.  Matrices are lists of rows of weights in N (numerators of probabilities over
   a common denominator; the algorithm is homogeneous, see ModelCtc.v).  `fixed = true` selects
   the model of src/ctc.rs after the F14 repair (zero-probability extensions are not offered to
   the top-k selection), `fixed = false` the code before it.  A hypothesis is a beam state `s`;
   `hyp_labels s` is its label sequence, `total s` its score as a weight (= exp(score) * den^T).
   `exact L m y` is the brute-force sum over ALL alignments of the T frames that collapse to y. *)
From RV Require Import Prelude.
From Ctc Require Import ModelCtc Greedy_proofs Beam_proofs Exact_proofs Exact_fwd_proofs Score_proofs Oracle_proofs.
Open Scope N_scope.

(* ------------------------------- greedy ------------------------------- *)

(* (1) decode_greedy = collapse of the arg-max path: runs merged, blanks removed, each label with
       the position of the first frame of its run; its label sequence is the CTC collapse; the
       score is the product of the chosen entries (sum of their logs); the chosen entry of every
       row is a maximum of that row. *)
Theorem C39_greedy_is_collapsed_argmax : forall m : list row,
  greedy_steps m = collapse_pos (map argmax_row m)
  /\ map fst (greedy_steps m) = collapse (map argmax_row m)
  /\ greedy_score m = prodN (map (fun r => wt r (argmax_row r)) m)
  /\ (forall r, In r m -> r <> [] -> is_max_index r (argmax_row r)).
Proof. exact greedy_is_collapsed_argmax. Qed.

(* (1') the loop itself, for ANY sequence of per-frame labels (whatever tie-break chose them) *)
Theorem C39_greedy_loop_is_collapse : forall labs : list nat,
  greedy_loop 0 0 labs = collapse_pos labs /\ map fst (collapse_pos labs) = collapse labs.
Proof. exact (fun labs => conj (greedy_loop_is_collapse_pos labs) (collapse_pos_labels labs)). Qed.

(* (2) what "position of first occurrence" means for the specification collapse_pos *)
Theorem C39_greedy_positions_first : forall labs l p,
  In (l, p) (collapse_pos labs) ->
  l <> 0%nat /\ nth_error labs p = Some l /\ ((0 < p)%nat -> nth_error labs (p - 1) <> Some l).
Proof. exact collapse_pos_first. Qed.

(* (3) tie-breaking as coded (max_position_by): the FIRST maximal index *)
Theorem C39_argmax_first_max : forall r : row, r <> [] ->
  (argmax_row r < length r)%nat /\
  (forall j, (j < length r)%nat -> wt r j <= wt r (argmax_row r)) /\
  (forall j, (j < argmax_row r)%nat -> wt r j < wt r (argmax_row r)).
Proof. exact argmax_row_spec. Qed.

(* ------------------------------- beam ------------------------------- *)

(* (4) the invariant, per time step: distinct label sequences in, distinct label sequences out *)
Theorem C39_beam_step_keeps_prefixes_distinct : forall k L beam r pos,
  NoDup (map labels beam) -> NoDup (map labels (beam_step true k L beam r pos)).
Proof. exact distinct_step. Qed.

(* (5) hence: the returned hypotheses have pairwise distinct label sequences ... *)
Theorem C39_beam_prefixes_distinct : forall k n L m,
  NoDup (map hyp_labels (decode_beam_nbest true k n L m)).
Proof. exact beam_prefixes_distinct. Qed.

(* (6) ... and non-zero probability, i.e. a finite log score *)
Theorem C39_beam_scores_nonzero : forall k n L m s,
  In s (decode_beam_nbest true k n L m) -> total s <> 0.
Proof. exact beam_scores_nonzero. Qed.

(* (7) a score never exceeds the exact probability of its label sequence *)
Theorem C39_beam_score_le_exact : forall k n L m s, (1 <= L)%nat ->
  In s (decode_beam_nbest true k n L m) -> total s <= exact L m (hyp_labels s).
Proof. exact beam_score_le_exact. Qed.

(* (8) and is exact when the beam is wide enough that no offered extension is ever dropped *)
Theorem C39_beam_exact_when_unpruned : forall k n L m s, (1 <= L)%nat ->
  unpruned true k L m = true ->
  In s (decode_beam_nbest true k n L m) -> total s = exact L m (hyp_labels s).
Proof. exact beam_exact_when_unpruned. Qed.

(* (9) in that case the beam also misses nothing: every label sequence of non-zero probability
       is one of its hypotheses *)
Theorem C39_beam_complete_when_unpruned : forall k L m y, (1 <= L)%nat ->
  unpruned true k L m = true -> Forall (fun c => (1 <= c < L)%nat) y -> exact L m y <> 0 ->
  exists s, In s (decode_beam_impl true k L m) /\ hyp_labels s = y.
Proof. exact beam_complete_when_unpruned. Qed.

(* (10) the specification side: `exact` is the textbook sum over all alignments pi in
        {0..L-1}^T with collapse(pi) = y of prod_t m[t][pi_t] ... *)
Theorem C39_exact_is_alignment_sum : forall L m y,
  exact L m y =
  sumN (map (fun p => if leqb (collapse p) y then pweight m p else 0) (paths L (length m))).
Proof. exact exact_forward. Qed.

(* (11) ... and the standard CTC forward recursion computes it *)
Theorem C39_forward_recursion_is_exact : forall L rm l, (1 <= L)%nat ->
  Forall (fun c => (1 <= c < L)%nat) l -> alpha_tot rm l = exact_r L rm l.
Proof. exact alpha_exact. Qed.

(* (12) F14: the selection loop as it was before the repair returns duplicated label sequences
        and zero-probability (-inf) hypotheses *)
Theorem C39_beam_prefixes_distinct_refuted :
  exists k n L m,
    ~ NoDup (map hyp_labels (decode_beam_nbest false k n L m))
    /\ exists s, In s (decode_beam_nbest false k n L m) /\ total s = 0.
Proof. exact beam_prefixes_distinct_refuted. Qed.

(* ------------------------------- oracle ------------------------------- *)

(* (13),(14) the executable oracle applied to the implementation's own output is sound *)
Theorem C39_oracle_greedy_sound : forall c, greedy_ok c = true ->
  exists h p, c_greedy c = Hyps [h]
    /\ Forall2 is_max_index (c_m c) p
    /\ h_steps h = collapse_pos p
    /\ h_labels h = collapse p.
Proof. exact greedy_ok_sound. Qed.

Theorem C39_oracle_beam_sound : forall c, (1 <= c_L c)%nat -> beam_ok c = true ->
  exists hs, c_nbest c = Hyps hs
    /\ NoDup (map h_labels hs)
    /\ (hs = [] -> c_n c = 0%nat \/ c_k c = 0%nat \/ exists r, In r (c_m c) /\ dead_row (c_L c) r = true)
    /\ Forall (fun h => Forall (fun l => (1 <= l < c_L c)%nat) (h_labels h)
                        /\ sc_finite (h_sc h) = true
                        /\ sc_le (h_sc h) (exact (c_L c) (c_m c) (h_labels h)) (Dpow c) (Tn c) = true
                        /\ (unpruned true (c_k c) (c_L c) (c_m c) = true ->
                            sc_ge (h_sc h) (exact (c_L c) (c_m c) (h_labels h)) (Dpow c) (Tn c) = true)) hs.
Proof. exact beam_ok_sound. Qed.

(* (15) the linear-time dynamic program used as the reference on long inputs is the forward
        recursion of (11) *)
Theorem C39_alpha_dp_is_alpha : forall rm l, alpha_dp rm l = alpha_tot rm l.
Proof. exact alpha_dp_spec. Qed.

(* ------------------------------- non-vacuity ------------------------------- *)
Example C39_nonvacuous :
  (* greedy on the path "a--bb" of the doc comment: ('a',0), ('b',3); a tie picks the first index *)
  greedy_steps [[0;16;0]; [16;0;0]; [16;0;0]; [0;0;16]; [0;0;16]] = [(1,0); (2,3)]%nat
  /\ argmax_row [4;4;4] = 0%nat
  (* a pruned run: beam 1 keeps [1] after frame 0 and loses the alignment (blank, 1):
     score 208/256 < exact 226/256 *)
  /\ map (fun s => (hyp_labels s, total s, exact 2 [[3;13];[10;6]] (hyp_labels s)))
         (decode_beam_nbest true 1 5 2 [[3;13];[10;6]]) = [([1%nat], 208, 226)]
  /\ unpruned true 1 2 [[3;13];[10;6]] = false
  (* an unpruned run over a flat distribution with a wide beam: 5 distinct exact hypotheses *)
  /\ unpruned true 20 3 [[4;4;4];[4;4;4]] = true
  /\ map (fun s => (hyp_labels s, total s)) (decode_beam_nbest true 20 20 3 [[4;4;4];[4;4;4]])
     = [([1%nat], 48); ([2%nat], 48); ([], 16); ([1;2]%nat, 16); ([2;1]%nat, 16)].
Proof. vm_compute. repeat split. Qed.
