(* C39 -- the CTC forward variables (alpha) computed by the standard recursion are the
   brute-force sums over all alignments. *)
From RV Require Import Prelude.
From Ctc Require Import ModelCtc Greedy_proofs Beam_proofs.
Open Scope N_scope.

Definition ind (b : bool) (w : N) : N := if b then w else 0.
Definition blank_ended (p : list nat) : bool := match p with [] => true | s :: _ => Nat.eqb s 0 end.
Definition Sb (L : nat) (rm : list row) (l : list nat) : N :=
  sumN (map (fun pw => ind (leqb (collapse (fst pw)) l && blank_ended (fst pw)) (snd pw)) (wpaths L rm)).
Definition Snb (L : nat) (rm : list row) (l : list nat) : N :=
  sumN (map (fun pw => ind (leqb (collapse (fst pw)) l && negb (blank_ended (fst pw))) (snd pw)) (wpaths L rm)).

(* ---------------- sums ---------------- *)
Lemma sumN_app l1 l2 : sumN (l1 ++ l2) = sumN l1 + sumN l2.
Proof. induction l1 as [|x l1 IH]; cbn [sumN app]; [lia|]. rewrite IH. lia. Qed.

Lemma sumN_flat_map {A B} (f : A -> list B) (g : B -> N) (l : list A) :
  sumN (map g (flat_map f l)) = sumN (map (fun x => sumN (map g (f x))) l).
Proof.
  induction l as [|x l IH]; cbn [flat_map map sumN]; [reflexivity|].
  rewrite map_app, sumN_app, IH. reflexivity.
Qed.

Lemma sumN_ext {A} (f g : A -> N) (l : list A) :
  (forall x, In x l -> f x = g x) -> sumN (map f l) = sumN (map g l).
Proof.
  induction l as [|x l IH]; intros H; cbn [map sumN]; [reflexivity|].
  rewrite (H x) by (left; reflexivity). rewrite IH; [reflexivity|]. intros y Hy. apply H. right; exact Hy.
Qed.

Lemma sumN_add {A} (f g : A -> N) (l : list A) :
  sumN (map (fun x => f x + g x) l) = sumN (map f l) + sumN (map g l).
Proof. induction l as [|x l IH]; cbn [map sumN]; [lia|]. rewrite IH. lia. Qed.

Lemma sumN_mul_r {A} (f : A -> N) (k : N) (l : list A) :
  sumN (map (fun x => f x * k) l) = sumN (map f l) * k.
Proof. induction l as [|x l IH]; cbn [map sumN]; [lia|]. rewrite IH. lia. Qed.

Lemma sumN_zero {A} (f : A -> N) (l : list A) :
  (forall x, In x l -> f x = 0) -> sumN (map f l) = 0.
Proof.
  induction l as [|x l IH]; intros H; cbn [map sumN]; [reflexivity|].
  rewrite (H x) by (left; reflexivity). rewrite IH; [reflexivity|]. intros y Hy. apply H. right; exact Hy.
Qed.

Lemma sumN_single {A} (f : A -> N) (l : list A) (a : A) :
  NoDup l -> In a l -> (forall x, In x l -> x <> a -> f x = 0) -> sumN (map f l) = f a.
Proof.
  induction l as [|x l IH]; intros Hnd Hin Hz; [destruct Hin|].
  inversion Hnd; subst. cbn [map sumN]. destruct Hin as [->|Hin].
  - rewrite sumN_zero; [lia|]. intros y Hy. apply Hz; [right; exact Hy|]. intros ->. contradiction.
  - rewrite (Hz x); [|left; reflexivity|intros ->; contradiction].
    rewrite IH; auto. intros y Hy. apply Hz. right; exact Hy.
Qed.

(* ---------------- collapse ---------------- *)
Lemma collapse_single s : collapse [s] = if Nat.eqb s 0 then [] else [s].
Proof. reflexivity. Qed.
Lemma collapse_cons2 s s' q :
  collapse (s :: s' :: q) =
  if Nat.eqb s' s then collapse (s' :: q) else if Nat.eqb s 0 then collapse (s' :: q) else s :: collapse (s' :: q).
Proof. reflexivity. Qed.

Lemma collapse_blank p : collapse (0%nat :: p) = collapse p.
Proof. destruct p as [|s' q]; [reflexivity|]. rewrite collapse_cons2. destruct (Nat.eqb s' 0); reflexivity. Qed.

Lemma collapse_hd s q : s <> 0%nat -> exists t, collapse (s :: q) = s :: t.
Proof.
  intros Hs. apply Nat.eqb_neq in Hs. induction q as [|s' q IH].
  - rewrite collapse_single, Hs. eauto.
  - rewrite collapse_cons2. destruct (Nat.eqb s' s) eqn:E.
    + apply Nat.eqb_eq in E; subst s'. exact IH.
    + rewrite Hs. eauto.
Qed.

Lemma ind_split b e w : ind b w = ind (b && e) w + ind (b && negb e) w.
Proof. destruct b, e; cbn; lia. Qed.

(* ---------------- one frame ---------------- *)
Lemma wpaths_cons L r rm :
  wpaths L (r :: rm) = flat_map (fun pw => map (fun s => (s :: fst pw, snd pw * wt r s)) (seq 0 L)) (wpaths L rm).
Proof. reflexivity. Qed.

Lemma Sb_step L r rm l : (1 <= L)%nat ->
  Sb L (r :: rm) l = (Sb L rm l + Snb L rm l) * wt r 0.
Proof.
  intros HL. unfold Sb at 1. rewrite wpaths_cons, sumN_flat_map.
  unfold Sb, Snb. rewrite <- sumN_add, <- sumN_mul_r. apply sumN_ext. intros [p w] _. cbn [fst snd].
  rewrite map_map. cbn [fst snd].
  rewrite (sumN_single _ (seq 0 L) 0%nat).
  - cbn [blank_ended]. rewrite Nat.eqb_refl, andb_true_r, collapse_blank.
    destruct (leqb (collapse p) l), (blank_ended p); cbn [ind andb negb]; lia.
  - apply seq_NoDup.
  - apply in_seq. lia.
  - intros s _ Hs. cbn [blank_ended]. apply Nat.eqb_neq in Hs. rewrite Hs, andb_false_r. reflexivity.
Qed.

Lemma Snb_step_nil L r rm : Snb L (r :: rm) [] = 0.
Proof.
  unfold Snb. rewrite wpaths_cons, sumN_flat_map. apply sumN_zero. intros [p w] _. cbn [fst snd].
  rewrite map_map. apply sumN_zero. intros s _. cbn [fst snd blank_ended].
  destruct (Nat.eqb s 0) eqn:E; [rewrite andb_false_r; reflexivity|].
  apply Nat.eqb_neq in E. destruct (collapse_hd s p E) as (t & ->). reflexivity.
Qed.

Lemma leqb_cons x a y b : leqb (x :: a) (y :: b) = Nat.eqb x y && leqb a b.
Proof. reflexivity. Qed.

Ltac ind_fin :=
  rewrite ?andb_false_r, ?andb_true_r; cbn [andb negb ind];
  repeat match goal with |- context [ind ?b _] => destruct b; cbn [andb negb ind] end; lia.

Lemma nb_pointwise p c l0 w k : c <> 0%nat ->
  ind (leqb (collapse (c :: p)) (c :: l0)) (w * k) =
  (ind (leqb (collapse p) (c :: l0) && negb (blank_ended p)) w
   + ind (leqb (collapse p) l0 && blank_ended p) w
   + (if hd_is l0 c then 0 else ind (leqb (collapse p) l0 && negb (blank_ended p)) w)) * k.
Proof.
  intros Hc. pose proof Hc as Hcb. apply Nat.eqb_neq in Hcb.
  destruct p as [|s' q].
  - rewrite collapse_single, Hcb, leqb_cons, Nat.eqb_refl. cbn [andb collapse blank_ended negb leqb].
    rewrite !andb_false_r, andb_true_r. cbn [ind]. destruct (hd_is l0 c), l0; cbn [ind]; lia.
  - rewrite collapse_cons2. cbn [blank_ended]. destruct (Nat.eqb s' c) eqn:E.
    + apply Nat.eqb_eq in E; subst s'. rewrite Hcb. cbn [negb]. rewrite andb_true_r, !andb_false_r. cbn [ind].
      destruct (hd_is l0 c) eqn:Eh; [destruct (leqb (collapse (c :: q)) (c :: l0)); cbn [ind]; lia|].
      destruct (collapse_hd c q Hc) as (t & Ht). rewrite Ht.
      assert (Hf : leqb (c :: t) l0 = false).
      { destruct l0 as [|c' l1]; [reflexivity|]. cbn [hd_is] in Eh. rewrite leqb_cons, Nat.eqb_sym, Eh. reflexivity. }
      rewrite Hf. ind_fin.
    + rewrite Hcb, leqb_cons, Nat.eqb_refl. cbn [andb].
      destruct (Nat.eqb s' 0) eqn:E0; cbn [negb].
      * destruct (hd_is l0 c); ind_fin.
      * apply Nat.eqb_neq in E0. destruct (collapse_hd s' q E0) as (t & Ht). rewrite Ht.
        rewrite leqb_cons, E.
        destruct (hd_is l0 c) eqn:Eh.
        -- destruct l0 as [|c' l1]; [discriminate|]. cbn [hd_is] in Eh. apply Nat.eqb_eq in Eh; subst c'.
           rewrite leqb_cons, E. ind_fin.
        -- ind_fin.
Qed.

Lemma Snb_step_cons L r rm c l0 : (1 <= c < L)%nat ->
  Snb L (r :: rm) (c :: l0) =
  (Snb L rm (c :: l0) + Sb L rm l0 + (if hd_is l0 c then 0 else Snb L rm l0)) * wt r c.
Proof.
  intros Hc. unfold Snb at 1. rewrite wpaths_cons, sumN_flat_map.
  assert (E : (Snb L rm (c :: l0) + Sb L rm l0 + (if hd_is l0 c then 0 else Snb L rm l0)) * wt r c =
          sumN (map (fun pw =>
            (ind (leqb (collapse (fst pw)) (c :: l0) && negb (blank_ended (fst pw))) (snd pw)
             + ind (leqb (collapse (fst pw)) l0 && blank_ended (fst pw)) (snd pw)
             + (if hd_is l0 c then 0 else ind (leqb (collapse (fst pw)) l0 && negb (blank_ended (fst pw))) (snd pw))) * wt r c)
            (wpaths L rm))).
  { rewrite sumN_mul_r. f_equal. rewrite !sumN_add. unfold Snb, Sb. f_equal.
    destruct (hd_is l0 c); [|reflexivity]. symmetry. apply sumN_zero. reflexivity. }
  rewrite E. apply sumN_ext. intros [p w] _. cbn [fst snd]. rewrite map_map. cbn [fst snd].
  rewrite (sumN_single _ (seq 0 L) c).
  - cbn [blank_ended]. assert (Hcb : Nat.eqb c 0 = false) by (apply Nat.eqb_neq; lia).
    rewrite Hcb. cbn [negb]. rewrite andb_true_r. apply nb_pointwise. lia.
  - apply seq_NoDup.
  - apply in_seq. lia.
  - intros s _ Hs. cbn [blank_ended]. destruct (Nat.eqb s 0) eqn:E0; [rewrite andb_false_r; reflexivity|].
    apply Nat.eqb_neq in E0. destruct (collapse_hd s p E0) as (t & ->).
    rewrite leqb_cons. apply Nat.eqb_neq in Hs. rewrite Hs. reflexivity.
Qed.

(* ---------------- the forward recursion is the brute-force sum ---------------- *)
Theorem alpha_split L : (1 <= L)%nat -> forall rm l, valid L l -> alpha rm l = (Sb L rm l, Snb L rm l).
Proof.
  intros HL. induction rm as [|r rm IH]; intros l V.
  - cbn [alpha]. unfold Sb, Snb. cbn [wpaths map fst snd sumN collapse blank_ended negb].
    rewrite andb_true_r, andb_false_r. destruct l; cbn; reflexivity.
  - cbn [alpha]. rewrite (IH l V). cbn [fst snd]. rewrite Sb_step by exact HL. f_equal.
    destruct l as [|c l0].
    + symmetry. apply Snb_step_nil.
    + inversion V as [|? ? Hc V0]; subst. rewrite (IH l0 V0). cbn [fst snd].
      symmetry. apply Snb_step_cons. exact Hc.
Qed.

Lemma exact_r_split L rm l : exact_r L rm l = Sb L rm l + Snb L rm l.
Proof.
  unfold exact_r, lookup, ctable, Sb, Snb. rewrite map_map, <- sumN_add. apply sumN_ext.
  intros [p w] _. cbn [fst snd]. apply (ind_split (leqb (collapse p) l) (blank_ended p) w).
Qed.

Theorem alpha_exact L rm l : (1 <= L)%nat -> valid L l -> alpha_tot rm l = exact_r L rm l.
Proof.
  intros HL V. unfold alpha_tot. rewrite (alpha_split L HL rm l V), exact_r_split. reflexivity.
Qed.

(* ---------------- the dynamic program computes the same forward variables ---------------- *)
Lemma tails_length l : length (tails l) = S (length l).
Proof. induction l as [|c l IH]; cbn; [reflexivity|]. rewrite IH. reflexivity. Qed.

Lemma tails_hd l : exists ts, tails l = l :: ts.
Proof. destruct l; cbn; eauto. Qed.

Lemma arow_step_spec r rm : forall l,
  arow_step r l (map (alpha rm) (tails l)) = map (alpha (r :: rm)) (tails l).
Proof.
  induction l as [|c l0 IH].
  - reflexivity.
  - cbn [tails map]. destruct (tails_hd l0) as [ts Et]. rewrite Et in IH |- *.
    cbn [map] in IH |- *. cbn [arow_step]. f_equal. exact IH.
Qed.

Lemma alpha_row_spec rm l : alpha_row rm l = map (alpha rm) (tails l).
Proof.
  induction rm as [|r rm IH]; cbn [alpha_row].
  - apply map_ext. intros t. reflexivity.
  - rewrite IH. apply arow_step_spec.
Qed.

Theorem alpha_dp_spec rm l : alpha_dp rm l = alpha_tot rm l.
Proof.
  unfold alpha_dp. rewrite alpha_row_spec. destruct l; reflexivity.
Qed.
