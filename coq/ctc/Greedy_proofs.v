(* C39 -- proofs about greedy decoding *)
From RV Require Import Prelude.
From Ctc Require Import ModelCtc.
Open Scope N_scope.

(* ---- leqb reflects equality ---- *)
Lemma leqb_eq a b : leqb a b = true <-> a = b.
Proof.
  revert b; induction a as [|x a IH]; intros [|y b]; cbn [leqb]; try (split; [discriminate|discriminate]); try tauto.
  rewrite andb_true_iff, Nat.eqb_eq, IH. split; [intros [-> ->]; reflexivity|intros [= -> ->]; auto].
Qed.
Lemma leqb_refl a : leqb a a = true.
Proof. apply leqb_eq; reflexivity. Qed.
Lemma leqb_neq a b : leqb a b = false <-> a <> b.
Proof. rewrite <- leqb_eq. destruct (leqb a b); split; congruence. Qed.

(* ---- the loop equals the run/blank specification ---- *)
Lemma greedy_loop_runs labs : forall last pos,
  greedy_loop last pos labs = filter nonblank (runs_from pos (Some last) labs).
Proof.
  induction labs as [|l rest IH]; intros last pos; cbn [greedy_loop runs_from filter]; [reflexivity|].
  destruct (Nat.eqb l last) eqn:E1; [apply IH|].
  cbn [filter]. unfold nonblank at 1; cbn [fst].
  destruct (Nat.eqb l 0) eqn:E2; cbn [negb]; rewrite IH; reflexivity.
Qed.

Lemma greedy_loop_is_collapse_pos labs : greedy_loop 0 0 labs = collapse_pos labs.
Proof.
  unfold collapse_pos. destruct labs as [|l rest]; [reflexivity|].
  cbn [greedy_loop runs_from filter]. unfold nonblank at 1; cbn [fst].
  destruct (Nat.eqb l 0) eqn:E; cbn [negb].
  - apply Nat.eqb_eq in E; subst l. apply greedy_loop_runs.
  - rewrite greedy_loop_runs. reflexivity.
Qed.

(* ---- the labels of the specification are the CTC collapse used for the exact probability ---- *)
Definition keep (q : nat) : list nat := if Nat.eqb q 0 then [] else [q].

Lemma collapse_cons_runs p : forall q pos,
  collapse (q :: p) = keep q ++ map fst (filter nonblank (runs_from pos (Some q) p)).
Proof.
  induction p as [|s p IH]; intros q pos.
  - cbn. unfold keep. destruct (Nat.eqb q 0); reflexivity.
  - cbn [runs_from]. destruct (Nat.eqb s q) eqn:E.
    + apply Nat.eqb_eq in E; subst s.
      assert (H : collapse (q :: q :: p) = collapse (q :: p)).
      { cbn [collapse]. rewrite Nat.eqb_refl. reflexivity. }
      rewrite H. apply IH.
    + assert (H : collapse (q :: s :: p) = keep q ++ collapse (s :: p)).
      { change (collapse (q :: s :: p)) with
          (if Nat.eqb s q then collapse (s :: p) else if Nat.eqb q 0 then collapse (s :: p) else q :: collapse (s :: p)).
        rewrite E. unfold keep. destruct (Nat.eqb q 0); reflexivity. }
      rewrite H, (IH s (S pos)). cbn [filter]. unfold nonblank at 2; cbn [fst]. unfold keep at 2.
      destruct (Nat.eqb s 0); cbn [negb map app fst]; reflexivity.
Qed.

Lemma collapse_pos_labels p : map fst (collapse_pos p) = collapse p.
Proof.
  unfold collapse_pos. destruct p as [|s p]; [reflexivity|].
  rewrite (collapse_cons_runs p s 1). cbn [runs_from filter]. unfold nonblank at 1; cbn [fst]. unfold keep.
  destruct (Nat.eqb s 0); reflexivity.
Qed.

(* ---- positions are those of the first frame of each run ---- *)
Lemma runs_from_first labs : forall pos prev l p,
  In (l, p) (runs_from pos prev labs) ->
  (pos <= p)%nat /\ nth_error labs (p - pos) = Some l /\
  (p = pos -> prev <> Some l) /\
  ((pos < p)%nat -> nth_error labs (p - pos - 1) <> Some l).
Proof.
  induction labs as [|x rest IH]; intros pos prev l p Hin; [destruct Hin|].
  cbn [runs_from] in Hin.
  assert (Hrec : forall prev', In (l, p) (runs_from (S pos) prev' rest) ->
            (prev' = Some x) ->
            (pos <= p)%nat /\ nth_error (x :: rest) (p - pos) = Some l /\
            (p = pos -> prev <> Some l) /\ ((pos < p)%nat -> nth_error (x :: rest) (p - pos - 1) <> Some l)).
  { intros prev' H Hp. destruct (IH _ _ _ _ H) as (H1 & H2 & H3 & H4).
    split; [lia|]. split.
    - replace (p - pos)%nat with (S (p - S pos)) by lia. exact H2.
    - split; [intros; lia|]. intros _.
      destruct (Nat.eq_dec p (S pos)) as [->|Hne].
      + replace (S pos - pos - 1)%nat with 0%nat by lia. cbn. intros [= ->]. apply H3; auto.
      + replace (p - pos - 1)%nat with (S (p - S pos - 1)) by lia. cbn. apply H4. lia. }
  destruct prev as [q|].
  - destruct (Nat.eqb x q) eqn:E.
    + apply Nat.eqb_eq in E; subst q. apply (Hrec (Some x)); auto.
    + destruct Hin as [[= -> ->]|Hin].
      * split; [lia|]. rewrite Nat.sub_diag. split; [reflexivity|]. split; [|lia].
        intros _ [= ->]. rewrite Nat.eqb_refl in E; discriminate.
      * apply (Hrec (Some x)); auto.
  - destruct Hin as [[= -> ->]|Hin].
    + split; [lia|]. rewrite Nat.sub_diag. split; [reflexivity|]. split; [discriminate|lia].
    + apply (Hrec (Some x)); auto.
Qed.

Lemma collapse_pos_first labs l p :
  In (l, p) (collapse_pos labs) ->
  l <> 0%nat /\ nth_error labs p = Some l /\ ((0 < p)%nat -> nth_error labs (p - 1) <> Some l).
Proof.
  unfold collapse_pos. rewrite filter_In. intros [Hin Hnb].
  unfold nonblank in Hnb; cbn [fst] in Hnb. apply negb_true_iff, Nat.eqb_neq in Hnb.
  destruct (runs_from_first _ _ _ _ _ Hin) as (_ & H2 & _ & H4).
  rewrite Nat.sub_0_r in *. auto.
Qed.

(* ---- arg_max picks a maximal entry (the first one) ---- *)
Lemma argmax_from_spec rest : forall pre bi b,
  (bi < length pre)%nat -> b = nth bi (pre ++ rest) 0 ->
  (forall j, (j < length pre)%nat -> nth j (pre ++ rest) 0 <= b) ->
  (forall j, (j < bi)%nat -> nth j (pre ++ rest) 0 < b) ->
  let k := argmax_from bi b (length pre) rest in
  (k < length (pre ++ rest))%nat /\
  (forall j, (j < length (pre ++ rest))%nat -> nth j (pre ++ rest) 0 <= nth k (pre ++ rest) 0) /\
  (forall j, (j < k)%nat -> nth j (pre ++ rest) 0 < nth k (pre ++ rest) 0).
Proof.
  induction rest as [|x rest IH]; intros pre bi b Hbi Hb Hle Hlt; cbn [argmax_from].
  - rewrite app_nil_r in *. subst b. auto.
  - assert (Hx : nth (length pre) (pre ++ x :: rest) 0 = x).
    { rewrite app_nth2 by lia. rewrite Nat.sub_diag. reflexivity. }
    assert (Happ : pre ++ x :: rest = (pre ++ [x]) ++ rest) by (rewrite <- app_assoc; reflexivity).
    assert (Hlen : length (pre ++ [x]) = S (length pre)) by (rewrite app_length; cbn; lia).
    destruct (b <? x) eqn:E.
    + apply N.ltb_lt in E.
      specialize (IH (pre ++ [x]) (length pre) x). rewrite Hlen in IH. rewrite Happ.
      apply IH; [lia| rewrite <- Happ; auto | |].
      * intros j Hj. rewrite <- Happ. destruct (Nat.eq_dec j (length pre)) as [->|Hne]; [rewrite Hx; lia|].
        specialize (Hle j ltac:(lia)). lia.
      * intros j Hj. rewrite <- Happ. specialize (Hle j Hj). lia.
    + apply N.ltb_ge in E.
      specialize (IH (pre ++ [x]) bi b). rewrite Hlen in IH. rewrite Happ.
      apply IH; [lia| rewrite <- Happ; auto | |].
      * intros j Hj. rewrite <- Happ. destruct (Nat.eq_dec j (length pre)) as [->|Hne]; [rewrite Hx; lia|].
        apply Hle; lia.
      * intros j Hj. rewrite <- Happ. apply Hlt; lia.
Qed.

Lemma argmax_row_spec (r : row) : r <> [] ->
  let k := argmax_row r in
  (k < length r)%nat /\
  (forall j, (j < length r)%nat -> wt r j <= wt r k) /\
  (forall j, (j < k)%nat -> wt r j < wt r k).
Proof.
  destruct r as [|x rest]; [congruence|]. intros _. unfold argmax_row, wt.
  apply (argmax_from_spec rest [x] 0%nat x); cbn [length app nth]; try lia.
  - intros j Hj. assert (j = 0)%nat by lia. subst. cbn. lia.
Qed.

Lemma argmax_row_is_max (r : row) : r <> [] -> is_max_index r (argmax_row r).
Proof. intros H. destruct (argmax_row_spec r H) as (A & B & _). split; auto. Qed.

(* ---- score ---- *)
Fixpoint prodN (l : list N) : N := match l with [] => 1 | x :: r => x * prodN r end.

Lemma fold_left_mul_acc (m : list row) (f : row -> N) : forall acc,
  fold_left (fun a r => a * f r) m acc = acc * prodN (map f m).
Proof.
  induction m as [|r m IH]; intros acc; cbn [fold_left map prodN]; [lia|].
  rewrite IH. lia.
Qed.

Lemma greedy_score_prod m : greedy_score m = prodN (map (fun r => wt r (argmax_row r)) m).
Proof. unfold greedy_score. rewrite fold_left_mul_acc. lia. Qed.

(* the main statement *)
Theorem greedy_is_collapsed_argmax (m : list row) :
  greedy_steps m = collapse_pos (map argmax_row m)
  /\ map fst (greedy_steps m) = collapse (map argmax_row m)
  /\ greedy_score m = prodN (map (fun r => wt r (argmax_row r)) m)
  /\ (forall r, In r m -> r <> [] -> is_max_index r (argmax_row r)).
Proof.
  unfold greedy_steps. rewrite greedy_loop_is_collapse_pos.
  split; [reflexivity|]. split; [apply collapse_pos_labels|]. split; [apply greedy_score_prod|].
  intros r _ Hr. apply argmax_row_is_max; exact Hr.
Qed.
