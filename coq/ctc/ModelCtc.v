(* C39 -- executable model of src/ctc.rs (CtcDecoder::decode_greedy, decode_beam_impl,
   decode_beam_nbest, decode_beam) and of the specification side (brute-force alignment
   enumeration).  Definitions only; proofs are in *_proofs.v.

   Arithmetic.  The implementation works with log-probabilities in f32.  The model works with the
   PROBABILITIES themselves, in an exact ordered commutative semiring: a matrix entry is a weight
   in N, read as the numerator of a probability with a common denominator `den` (the harness uses
   den = 2^j, so that num/den is an exact f32 and ln(num/den) is what the implementation receives).
   After t frames every quantity the algorithm holds is a numerator over den^t, and all
   comparisons the algorithm makes are between quantities of the same step, hence between
   numerators.  `+` in log space (log_sum_exp) is `+` here, `+` of logs is `*` here, `-inf` is 0.
   Everything is homogeneous in the weights, so theorems over N-weighted matrices are theorems
   over all matrices of rational probabilities.  f32 rounding inside log_sum_exp is NOT modelled. *)
From RV Require Import Prelude.
Open Scope N_scope.

Definition row := list N.
Definition wt (r : row) (l : nat) : N := nth l r 0.

Fixpoint sumN (l : list N) : N := match l with [] => 0 | x :: r => x + sumN r end.

Fixpoint leqb (a b : list nat) : bool :=
  match a, b with
  | [], [] => true
  | x :: a', y :: b' => Nat.eqb x y && leqb a' b'
  | _, _ => false
  end.

(* ------------------------------------------------------------------------------------------ *)
(* Greedy decoding                                                                            *)
(* ------------------------------------------------------------------------------------------ *)

(* `arg_max` = select_max_index/max_position_by over the lane: a reduce that replaces the best
   element only when the next one compares Greater, so ties resolve to the FIRST maximal index
   (since "fix: ArgMax/ArgMin select the first of several equal extrema"; before that commit
   Iterator::max_by returned the last).  The tie-break is a policy: the check does not alarm on
   it (see `agree`), it only reports drift from this deterministic model. *)
Fixpoint argmax_from (bi : nat) (b : N) (i : nat) (r : list N) : nat :=
  match r with
  | [] => bi
  | x :: r' => if b <? x then argmax_from i x (S i) r' else argmax_from bi b (S i) r'
  end.
Definition argmax_row (r : row) : nat :=
  match r with [] => 0%nat | x :: r' => argmax_from 0 x 1 r' end.

(* the loop of decode_greedy over the arg-max labels; steps are (label, pos) *)
Fixpoint greedy_loop (last : nat) (pos : nat) (labs : list nat) : list (nat * nat) :=
  match labs with
  | [] => []
  | l :: rest =>
      if Nat.eqb l last then greedy_loop last (S pos) rest
      else if Nat.eqb l 0 then greedy_loop l (S pos) rest
      else (l, pos) :: greedy_loop l (S pos) rest
  end.
Definition greedy_steps (m : list row) : list (nat * nat) := greedy_loop 0 0 (map argmax_row m).
(* score: sum of the chosen log-probabilities = log of the product of the chosen weights *)
Definition greedy_score (m : list row) : N :=
  fold_left (fun acc r => acc * wt r (argmax_row r)) m 1.

(* ---- specification of greedy decoding ---- *)
(* runs of equal symbols, each with the position of its first element *)
Fixpoint runs_from (pos : nat) (prev : option nat) (labs : list nat) : list (nat * nat) :=
  match labs with
  | [] => []
  | l :: rest =>
      match prev with
      | Some p => if Nat.eqb l p then runs_from (S pos) prev rest
                  else (l, pos) :: runs_from (S pos) (Some l) rest
      | None => (l, pos) :: runs_from (S pos) (Some l) rest
      end
  end.
Definition nonblank (s : nat * nat) : bool := negb (Nat.eqb (fst s) 0).
(* "repeats merged, blanks removed, positions of first occurrence" *)
Definition collapse_pos (labs : list nat) : list (nat * nat) :=
  filter nonblank (runs_from 0 None labs).
Definition is_max_index (r : row) (i : nat) : Prop :=
  (i < length r)%nat /\ forall j, (j < length r)%nat -> wt r j <= wt r i.

(* ------------------------------------------------------------------------------------------ *)
(* Beam search                                                                                *)
(* ------------------------------------------------------------------------------------------ *)

(* BeamState.  b_pre is the prefix with the MOST RECENT step first (a representation choice of
   the model; hypotheses are reversed on output). *)
Record bstate := mkB { b_pre : list (nat * nat); b_pb : N; b_pnb : N }.
Definition labels (s : bstate) : list nat := map fst (b_pre s).
Definition total (s : bstate) : N := b_pb s + b_pnb s.
Definition prev_label (s : bstate) : option nat := hd_error (labels s).
Definition is_prev (s : bstate) (c : nat) : bool :=
  match prev_label s with Some p => Nat.eqb p c | None => false end.

(* The `merges` map: (s1_index, c) -> s2_index whenever labels(s2) = labels(s1) ++ [c].
   HashMap::insert overwrites, the s2 loop runs in index order: the LAST such s2 wins. *)
Fixpoint find_last_from (f : bstate -> bool) (i : nat) (beam : list bstate) (acc : option nat) : option nat :=
  match beam with
  | [] => acc
  | s :: b => find_last_from f (S i) b (if f s then Some i else acc)
  end.
Definition merge_target (beam : list bstate) (s1 : bstate) (c : nat) : option nat :=
  find_last_from (fun s2 => leqb (labels s2) (c :: labels s1)) 0 beam None.

(* probability mass that extending s1 by label c moves to the extended prefix *)
Definition contrib (r : row) (s1 : bstate) (c : nat) : N :=
  (if is_prev s1 c then b_pb s1 else b_pb s1 + b_pnb s1) * wt r c.
(* ... and, when c repeats the last label, the mass that stays on the unchanged prefix *)
Definition own_repeat (r : row) (s : bstate) : N :=
  match prev_label s with Some c => b_pnb s * wt r c | None => 0 end.

Definition opt_is (o : option nat) (i : nat) : bool :=
  match o with Some j => Nat.eqb j i | None => false end.

(* The extension pass, as a table: for every beam state s1 and label c in 1..L-1 the entry
   (merge target of (s1,c), mass moved by extending s1 with c). *)
Definition merge_table (L : nat) (beam : list bstate) (r : row) : list (list (option nat * N)) :=
  map (fun s1 => map (fun c => (merge_target beam s1 c, contrib r s1 c)) (seq 1 (L - 1))) beam.
(* mass redirected by the merge map into next_prob_no_blank[[bi, 0]] *)
Definition incoming (mt : list (list (option nat * N))) (bi : nat) : N :=
  sumN (map (fun row => sumN (map (fun e => if opt_is (fst e) bi then snd e else 0) row)) mt).

(* candidate new beam states, in the order of the selection loop (beam index, then label);
   next_prob_blank[[bi,label]] / next_prob_no_blank[[bi,label]] are b_pb / b_pnb of the candidate *)
Definition cand_blank (mt : list (list (option nat * N))) (r : row) (bi : nat) (s : bstate) : bstate :=
  mkB (b_pre s) ((b_pb s + b_pnb s) * wt r 0) (own_repeat r s + incoming mt bi).
Definition cand_label (beam : list bstate) (r : row) (pos : nat) (s : bstate) (c : nat) : bstate :=
  mkB ((c, pos) :: b_pre s) 0
      (match merge_target beam s c with Some _ => 0 | None => contrib r s c end).
Definition cands_of (L : nat) (beam : list bstate) (mt : list (list (option nat * N))) (r : row) (pos : nat)
                    (bis : nat * bstate) : list bstate :=
  cand_blank mt r (fst bis) (snd bis)
    :: map (cand_label beam r pos (snd bis)) (seq 1 (L - 1)).
Definition cand_states (L : nat) (beam : list bstate) (r : row) (pos : nat) : list bstate :=
  let mt := merge_table L beam r in
  flat_map (cands_of L beam mt r pos) (combine (seq 0 (length beam)) beam).

(* top-k selection: push / stable sort by probability descending / truncate, which keeps the
   first k of the stable descending sort of the candidates that are offered to it *)
Fixpoint insert_desc (x : bstate) (l : list bstate) : list bstate :=
  match l with
  | [] => [x]
  | y :: l' => if total y <? total x then x :: y :: l' else y :: insert_desc x l'
  end.
Definition sort_desc (l : list bstate) : list bstate :=
  fold_left (fun acc x => insert_desc x acc) l [].
Definition live (s : bstate) : bool := negb (total s =? 0).
(* fixed = true: the code after the F14 fix (zero-probability extensions, which include the
   slots emptied by the merge map, are not offered); fixed = false: the code before it *)
Definition offered (fixed : bool) (cs : list bstate) : list bstate :=
  if fixed then filter live cs else cs.
Definition select (fixed : bool) (k : nat) (cs : list bstate) : list bstate :=
  firstn k (sort_desc (offered fixed cs)).

Definition beam_step (fixed : bool) (k L : nat) (beam : list bstate) (r : row) (pos : nat) : list bstate :=
  select fixed k (cand_states L beam r pos).
Fixpoint beam_run (fixed : bool) (k L : nat) (beam : list bstate) (pos : nat) (m : list row) : list bstate :=
  match m with
  | [] => beam
  | r :: m' => beam_run fixed k L (beam_step fixed k L beam r pos) (S pos) m'
  end.
Definition init_beam : list bstate := [mkB [] 1 0].
Definition decode_beam_impl (fixed : bool) (k L : nat) (m : list row) : list bstate :=
  beam_run fixed k L init_beam 0 m.

(* a hypothesis: steps in order, label sequence, score (as a weight) *)
Definition hyp_steps (s : bstate) : list (nat * nat) := rev (b_pre s).
Definition hyp_labels (s : bstate) : list nat := rev (labels s).
Definition decode_beam_nbest (fixed : bool) (k n L : nat) (m : list row) : list bstate :=
  firstn n (decode_beam_impl fixed k L m).

(* "nothing is pruned": at every step all offered candidates fit into the beam *)
Fixpoint unpruned_from (fixed : bool) (k L : nat) (beam : list bstate) (pos : nat) (m : list row) : bool :=
  match m with
  | [] => true
  | r :: m' => (length (offered fixed (cand_states L beam r pos)) <=? k)%nat
               && unpruned_from fixed k L (beam_step fixed k L beam r pos) (S pos) m'
  end.
Definition unpruned (fixed : bool) (k L : nat) (m : list row) : bool :=
  unpruned_from fixed k L init_beam 0 m.

(* ------------------------------------------------------------------------------------------ *)
(* Exact CTC probability by brute-force enumeration of every alignment                        *)
(* ------------------------------------------------------------------------------------------ *)

(* CTC collapse of a symbol sequence: drop a symbol equal to its neighbour (merging repeats),
   then drop blanks.  The function is symmetric under reversal (proved: collapse_rev). *)
Fixpoint collapse (p : list nat) : list nat :=
  match p with
  | [] => []
  | s :: p' =>
      if (match p' with s' :: _ => Nat.eqb s' s | [] => false end) then collapse p'
      else if Nat.eqb s 0 then collapse p'
      else s :: collapse p'
  end.

(* all alignments of the frames with their weights (product of the chosen entries).  Frames and
   alignment symbols are listed most recent first: `wpaths L (rev m)` enumerates rev(pi) for
   every pi in {0..L-1}^T, with weight prod_t m[t][pi_t]. *)
Fixpoint wpaths (L : nat) (rm : list row) : list (list nat * N) :=
  match rm with
  | [] => [([], 1)]
  | r :: rm' => flat_map (fun pw => map (fun s => (s :: fst pw, snd pw * wt r s)) (seq 0 L)) (wpaths L rm')
  end.
(* (collapsed label sequence, weight) of every alignment; summed per label sequence *)
Definition ctable (L : nat) (rm : list row) : list (list nat * N) :=
  map (fun pw => (collapse (fst pw), snd pw)) (wpaths L rm).
Definition lookup (t : list (list nat * N)) (rl : list nat) : N :=
  sumN (map (fun e => if leqb (fst e) rl then snd e else 0) t).
Definition exact_r (L : nat) (rm : list row) (rl : list nat) : N := lookup (ctable L rm) rl.
(* exact probability (numerator over den^T) that the frames m emit the label sequence y *)
Definition exact (L : nat) (m : list row) (y : list nat) : N := exact_r L (rev m) (rev y).

(* the same sum written over forward alignments (proved equal: exact_forward) *)
Fixpoint paths (L T : nat) : list (list nat) :=
  match T with
  | O => [[]]
  | S T' => flat_map (fun s => map (cons s) (paths L T')) (seq 0 L)
  end.
Fixpoint pweight (m : list row) (p : list nat) : N :=
  match m, p with
  | r :: m', s :: p' => wt r s * pweight m' p'
  | _, _ => 1
  end.
Definition exact_fwd (L : nat) (m : list row) (y : list nat) : N :=
  sumN (map (fun p => if leqb (collapse p) y then pweight m p else 0) (paths L (length m))).

(* ------------------------------------------------------------------------------------------ *)
(* The CTC forward recursion (proved equal to the brute-force sum: alpha_exact); used as the    *)
(* reference on inputs too long to enumerate                                                    *)
(* ------------------------------------------------------------------------------------------ *)
Definition hd_is (l : list nat) (c : nat) : bool :=
  match l with c' :: _ => Nat.eqb c' c | [] => false end.

(* forward variables; frames and labels most recent first.
   fst: alignments of the frames that collapse to l and end in a blank (or are empty)
   snd: ... and end in a non-blank *)
Fixpoint alpha (rm : list row) (l : list nat) : N * N :=
  match rm with
  | [] => (match l with [] => 1 | _ => 0 end, 0)
  | r :: rm' =>
      let a := alpha rm' l in
      ((fst a + snd a) * wt r 0,
       match l with
       | [] => 0
       | c :: l0 =>
           let a0 := alpha rm' l0 in
           (snd a + fst a0 + (if hd_is l0 c then 0 else snd a0)) * wt r c
       end)
  end.
Definition alpha_tot (rm : list row) (l : list nat) : N := fst (alpha rm l) + snd (alpha rm l).

(* the same recursion as a dynamic program over all tails of l (linear instead of exponential
   in the number of frames); proved: alpha_row rm l = map (alpha rm) (tails l) *)
Fixpoint tails (l : list nat) : list (list nat) :=
  match l with [] => [[]] | _ :: l0 => l :: tails l0 end.
Fixpoint arow_step (r : row) (l : list nat) (prev : list (N * N)) : list (N * N) :=
  match l, prev with
  | c :: l0, a :: ((a0 :: _) as prev') =>
      ((fst a + snd a) * wt r 0, (snd a + fst a0 + (if hd_is l0 c then 0 else snd a0)) * wt r c)
        :: arow_step r l0 prev'
  | [], a :: _ => [((fst a + snd a) * wt r 0, 0)]
  | _, _ => []
  end.
Fixpoint alpha_row (rm : list row) (l : list nat) : list (N * N) :=
  match rm with
  | [] => map (fun t => (match t with [] => 1 | _ => 0 end, 0)) (tails l)
  | r :: rm' => arow_step r l (alpha_row rm' l)
  end.
Definition alpha_dp (rm : list row) (l : list nat) : N :=
  match alpha_row rm l with a :: _ => fst a + snd a | [] => 0 end.

(* ------------------------------------------------------------------------------------------ *)
(* Correspondence cases                                                                       *)
(* ------------------------------------------------------------------------------------------ *)

(* exp(score) as reported by the harness: the exact value m * 2^e of an f64, or a special *)
Inductive fscore := FNaN | FInf | FZero | FVal (m : N) (e : Z).
Record hyp := { h_steps : list (nat * nat); h_bits : N; h_sc : fscore }.
Inductive outcome := Hyps (l : list hyp) | Panic.
Record case := {
  c_L : nat; c_den : N; c_m : list row; c_k : nat; c_n : nat;
  c_greedy : outcome; c_nbest : outcome; c_best : outcome }.

Definition h_labels (h : hyp) : list nat := map fst (h_steps h).

Fixpoint steps_eqb (a b : list (nat * nat)) : bool :=
  match a, b with
  | [], [] => true
  | (x1, x2) :: a', (y1, y2) :: b' => Nat.eqb x1 y1 && Nat.eqb x2 y2 && steps_eqb a' b'
  | _, _ => false
  end.

(* compare the implementation's probability m*2^e with the model's num/D.
   Both sides are brought to a common scale: A = m * D * 2^max(e,0), B = num * 2^max(-e,0). *)
Definition scaled (m : N) (e : Z) (num D : N) : N * N :=
  match e with
  | Z0 => (m * D, num)
  | Zpos p => (m * D * 2 ^ Npos p, num)
  | Zneg p => (m * D, num * 2 ^ Npos p)
  end.
(* score tolerance, relative on the probability = absolute on the log score:
     2^-13  +  T * B * 2^-24     with B = bits of 1/probability,
   i.e. a fixed 1.2e-4 plus what T frames of f32 operations (3 roundings each, half an ulp of a
   log score of magnitude 0.69*B) can accumulate in the worst case.  For the shallow families
   (T <= 6, B <= 42) the second term is below 1.6e-5. *)
Definition tol_num (T num D : N) : N := 2048 + T * (N.log2 D + 1 - N.log2 num).
Definition tol_one : N := 16777216.
Definition close_ab (tn a b : N) : bool := ((if a <=? b then b - a else a - b) * tol_one <=? b * tn).
Definition le_tol_ab (tn a b : N) : bool := (a * tol_one <=? b * (tol_one + tn)).
Definition ge_tol_ab (tn a b : N) : bool := (b * (tol_one - tn) <=? a * tol_one).
Definition sc_rel (f : N -> N -> N -> bool) (sc : fscore) (num D T : N) : bool :=
  match sc with
  | FVal m e => let (a, b) := scaled m e num D in f (tol_num T num D) a b
  | FZero => f (tol_num T num D) 0 num
  | _ => false
  end.
Definition sc_close := sc_rel close_ab.
Definition sc_le := sc_rel le_tol_ab.
Definition sc_ge := sc_rel ge_tol_ab.
Definition sc_finite (sc : fscore) : bool := match sc with FVal _ _ => true | _ => false end.

(* ranking margin: two model probabilities closer than 2^-10 relative are "not separated":
   the f32 computation may order them either way *)
Definition separated (hi lo : N) : bool := (lo * 1024 <? hi * 1023).
Definition near (a b : N) : bool := negb (separated a b) && negb (separated b a).

Definition Dpow (c : case) : N := c_den c ^ N.of_nat (length (c_m c)).
Definition Tn (c : case) : N := N.of_nat (length (c_m c)).

(* ---- greedy ---- *)
Definition greedy_agree (c : case) : bool :=
  match c_greedy c with
  | Hyps [h] => steps_eqb (h_steps h) (greedy_steps (c_m c)) && sc_close (h_sc h) (greedy_score (c_m c)) (Dpow c) (Tn c)
  | _ => false
  end.

(* every arg-max path (all tie-breaks) *)
Fixpoint max_indices_from (i : nat) (mx : N) (r : list N) : list nat :=
  match r with [] => [] | x :: r' => if x =? mx then i :: max_indices_from (S i) mx r' else max_indices_from (S i) mx r' end.
Definition row_max (r : row) : N := fold_left N.max r 0.
Definition max_indices (r : row) : list nat := max_indices_from 0 (row_max r) r.
Fixpoint argmax_paths (m : list row) : list (list nat) :=
  match m with
  | [] => [[]]
  | r :: m' => flat_map (fun s => map (cons s) (argmax_paths m')) (max_indices r)
  end.
(* property oracle for greedy: the output is the collapse (first positions) of SOME arg-max
   path, and the score is the sum of the maximal log-probabilities *)
Definition greedy_ok (c : case) : bool :=
  match c_greedy c with
  | Hyps [h] =>
      existsb (fun p => steps_eqb (h_steps h) (collapse_pos p)) (argmax_paths (c_m c))
      && sc_close (h_sc h) (fold_left (fun acc r => acc * row_max r) (c_m c) 1) (Dpow c) (Tn c)
  | _ => false
  end.

(* ---- beam ---- *)
Fixpoint nodup_labels (l : list (list nat)) : bool :=
  match l with [] => true | x :: r => negb (existsb (leqb x) r) && nodup_labels r end.

(* reference probability of a label sequence: brute force over every alignment when there are at
   most 4096 of them, otherwise the forward recursion (equal to it for labels in 1..L-1:
   C39_forward_recursion_is_exact, C39_alpha_dp_is_alpha) *)
Definition exact_of (c : case) (y : list nat) : N := exact (c_L c) (c_m c) y.
Definition small_case (c : case) : bool := (N.of_nat (c_L c) ^ Tn c <=? 4096).
Definition ref_table (c : case) : list (list nat * N) :=
  if small_case c then ctable (c_L c) (rev (c_m c)) else [].
Definition ref_prob (c : case) (tbl : list (list nat * N)) (y : list nat) : N :=
  if small_case c then lookup tbl (rev y) else alpha_dp (rev (c_m c)) (rev y).
Definition valid_labels (L : nat) (y : list nat) : bool :=
  forallb (fun l => (1 <=? l)%nat && (l <? L)%nat) y.
Definition dead_row (L : nat) (r : row) : bool := forallb (fun l => wt r l =? 0) (seq 0 L).

Definition beam_ok (c : case) : bool :=
  match c_nbest c with
  | Hyps hs =>
      let unp := unpruned true (c_k c) (c_L c) (c_m c) in
      let tbl := ref_table c in
      nodup_labels (map h_labels hs)
      && (length hs <=? c_n c)%nat
      (* some hypothesis must be returned unless every alignment has probability zero *)
      && match hs with
         | [] => (c_n c =? 0)%nat || (c_k c =? 0)%nat || existsb (dead_row (c_L c)) (c_m c)
         | _ => true
         end
      && forallb (fun h =>
            let ex := ref_prob c tbl (h_labels h) in
            valid_labels (c_L c) (h_labels h)
            && sc_finite (h_sc h) && sc_le (h_sc h) ex (Dpow c) (Tn c)
            && (if unp then sc_ge (h_sc h) ex (Dpow c) (Tn c) else true)) hs
      && match c_best c with
         | Hyps [b] =>
             match hs with
             | h :: _ => steps_eqb (h_steps b) (h_steps h) && (h_bits b =? h_bits h)
             | [] => (* no label sequence has non-zero probability inside the beam *)
                     (c_n c =? 0)%nat || negb (sc_finite (h_sc b))
             end
         | _ => false
         end
  | Panic => false
  end.

(* Does the exact model decide the run?  At every pruning step the last kept and the first
   dropped candidate must be separated by the ranking margin. *)
Fixpoint cut_separated (k : nat) (sorted : list bstate) : bool :=
  match k, sorted with
  | _, [] => true
  | O, _ => true
  | S O, a :: b :: _ => separated (total a) (total b)
  | S O, [_] => true
  | S k', _ :: rest => cut_separated k' rest
  end.
Fixpoint decisive_from (k L : nat) (beam : list bstate) (pos : nat) (m : list row) : bool :=
  match m with
  | [] => true
  | r :: m' => cut_separated k (sort_desc (offered true (cand_states L beam r pos)))
               && decisive_from k L (beam_step true k L beam r pos) (S pos) m'
  end.
Definition decisive (c : case) : bool :=
  decisive_from (c_k c) (c_L c) init_beam 0 (c_m c)
  && cut_separated (c_n c) (decode_beam_impl true (c_k c) (c_L c) (c_m c)).

(* the i-th implementation hypothesis must be a model hypothesis whose model probability is
   within the ranking margin of the model's i-th, with the same steps and a close score *)
Fixpoint beam_match (D T : N) (model : list bstate) (ms : list bstate) (hs : list hyp) : bool :=
  match ms, hs with
  | [], [] => true
  | mi :: ms', h :: hs' =>
      existsb (fun mj => steps_eqb (h_steps h) (hyp_steps mj) && near (total mj) (total mi)
                         && sc_close (h_sc h) (total mj) D T) model
      && beam_match D T model ms' hs'
  | _, _ => false
  end.
Definition beam_agree (c : case) : bool :=
  if decisive c then
    match c_nbest c with
    | Hyps hs =>
        let full := decode_beam_impl true (c_k c) (c_L c) (c_m c) in
        beam_match (Dpow c) (Tn c) full (firstn (c_n c) full) hs
    | Panic => false
    end
  else true.

(* Tie-breaking of arg_max is a policy the property does not constrain ("the arg-max path" is any
   path of row maxima): the alarm-raising comparison accepts every tie-break (greedy_ok); whether
   the implementation still uses the tie-break modelled by argmax_row (first maximum) is reported
   as an informational count through greedy_agree. *)
Definition agree (c : case) : bool := greedy_ok c && beam_agree c.
Definition greedy_tiebreak_as_modelled (c : case) : bool := greedy_agree c.
Definition prop_ok (c : case) : bool := greedy_ok c && beam_ok c.
(* counted by the check: cases whose beam part is skipped for model/implementation comparison *)
Definition is_decisive (c : case) : bool := decisive c.
Definition is_unpruned (c : case) : bool := unpruned true (c_k c) (c_L c) (c_m c).

Definition show_state (s : bstate) := (hyp_steps s, total s).
Definition show (c : case) :=
  (greedy_steps (c_m c), greedy_score (c_m c),
   map show_state (decode_beam_nbest true (c_k c) (c_n c) (c_L c) (c_m c)),
   map show_state (decode_beam_nbest false (c_k c) (c_n c) (c_L c) (c_m c)),
   (decisive c, is_unpruned c, Dpow c),
   match c_nbest c with Hyps hs => map (fun h => ref_prob c (ref_table c) (h_labels h)) hs | Panic => [] end).
