(* Model of the storage-length side of rten-tensor's constructors and of checked indexing
   (rten-tensor/src/layout.rs: NdLayout/DynLayout::{from_shape, offset, offset_unchecked},
   Layout::min_data_len, checked_min_data_len, checked_non_zero_len;
   rten-tensor/src/tensor.rs: try_from_data, from_data, from_data_with_strides,
   from_slice_with_strides, from_storage_and_layout, expanded_layout/has_capacity,
   Index/get/WeaklyCheckedView).

   Every usize operation is modelled twice, selected by [mode]:
     Release : wraps modulo 2^64 (overflow-checks = off)
     Debug   : an overflow is the distinct result [Ovf] (the "attempt to ... with overflow" panic)
   The checked_* helpers introduced by the fix do not depend on the mode.

   Definitions whose name ends in [_old] are the arithmetic of the unfixed tree (kept for the
   refutation witnesses in Props_C06); the others are the code after the `fix:` commits.
   Executable definitions only. *)
From RV Require Import Prelude.
From Tensor Require Import Overlap.
Open Scope N_scope.

Inductive mode := Release | Debug.
Inductive kind := KNd | KDyn.        (* NdLayout<N> (arrays) / DynLayout (one SmallVec) *)

Inductive res (A : Type) := Val (a : A) | Ovf.
Arguments Val {A} a.
Arguments Ovf {A}.
Definition bind {A B} (r : res A) (f : A -> res B) : res B :=
  match r with Val a => f a | Ovf => Ovf end.
Notation "x <- e ;; k" := (bind e (fun x => k)) (at level 61, e at next level, right associativity).

Definition mul_m (m : mode) (a b : N) : res N :=
  match m with
  | Release => Val (wrap64 (a * b))
  | Debug => if a * b <? two64 then Val (a * b) else Ovf
  end.
Definition add_m (m : mode) (a b : N) : res N :=
  match m with
  | Release => Val (wrap64 (a + b))
  | Debug => if a + b <? two64 then Val (a + b) else Ovf
  end.
(* `size - 1` on usize *)
Definition pred_m (m : mode) (a : N) : res N :=
  if a =? 0 then match m with Release => Val u64_max | Debug => Ovf end else Val (a - 1).

Definition is_zero (d : N) : bool := d =? 0.
Definition has_zero_dim (shape : list N) : bool := existsb is_zero shape.

(* ---- Layout::min_data_len:
     if shape.any(|d| d == 0) { return 0 }
     shape.zip(strides).map(|(size, stride)| (size - 1) * stride).sum() + 1 *)
Fixpoint max_offset_m (m : mode) (dims : list dim) (acc : N) : res N :=
  match dims with
  | [] => Val acc
  | d :: r => p <- pred_m m (d_size d) ;; t <- mul_m m p (d_stride d) ;;
              a <- add_m m acc t ;; max_offset_m m r a
  end.
Definition min_data_len_m (m : mode) (shape strides : list N) : res N :=
  if has_zero_dim shape then Val 0
  else mo <- max_offset_m m (combine strides shape) 0 ;; add_m m mo 1.

(* ---- checked_min_data_len (added by the fix): checked_mul / checked_add / checked_add(1) *)
Fixpoint checked_max_offset (dims : list dim) (acc : N) : option N :=
  match dims with
  | [] => Some acc
  | d :: r =>
      let t := (d_size d - 1) * d_stride d in
      if t <? two64 then (if acc + t <? two64 then checked_max_offset r (acc + t) else None) else None
  end.
Definition checked_min_data_len (shape strides : list N) : option N :=
  if has_zero_dim shape then Some 0
  else match checked_max_offset (combine strides shape) 0 with
       | Some mo => if mo + 1 <? two64 then Some (mo + 1) else None
       | None => None
       end.
(* `checked_min_data_len(&layout).is_some_and(|min_len| min_len <= n)` *)
Definition fits (shape strides : list N) (n : N) : bool :=
  match checked_min_data_len shape strides with Some l => l <=? n | None => false end.

(* ---- checked_non_zero_len (added by the fix):
     shape.filter(|s| s != 0).try_fold(1, |len, s| len.checked_mul(s)) *)
Fixpoint checked_prod (l : list N) (acc : N) : option N :=
  match l with
  | [] => Some acc
  | d :: r => if acc * d <? two64 then checked_prod r (acc * d) else None
  end.
Definition checked_nz_len (shape : list N) : option N :=
  checked_prod (filter (fun d => negb (is_zero d)) shape) 1.

(* ---- contiguous strides.
   NdLayout::contiguous_strides: strides[i] = shape[i+1..].iter().product()  (fold from 1) *)
Fixpoint prod_m (m : mode) (l : list N) (acc : N) : res N :=
  match l with
  | [] => Val acc
  | d :: r => a <- mul_m m acc d ;; prod_m m r a
  end.
Fixpoint nd_contig (m : mode) (shape : list N) : res (list N) :=
  match shape with
  | [] => Val []
  | _ :: r => s <- prod_m m r 1 ;; rest <- nd_contig m r ;; Val (s :: rest)
  end.
(* DynLayout::contiguous_shape_and_strides:
     let mut stride = 1; for i in (0..n).rev() { strides[i] = stride; stride *= shape[i]; } *)
Fixpoint dyn_contig_aux (m : mode) (rshape : list N) (stride : N) (acc : list N) : res (list N) :=
  match rshape with
  | [] => Val acc
  | d :: r => s' <- mul_m m stride d ;; dyn_contig_aux m r s' (stride :: acc)
  end.
Definition dyn_contig (m : mode) (shape : list N) : res (list N) :=
  dyn_contig_aux m (rev shape) 1 [].
Definition from_shape_m (m : mode) (k : kind) (shape : list N) : res (list N) :=
  match k with KNd => nd_contig m shape | KDyn => dyn_contig m shape end.

(* exact reference *)
Fixpoint nprod (l : list N) : N := match l with [] => 1 | d :: r => d * nprod r end.
Fixpoint contig_strides (shape : list N) : list N :=
  match shape with [] => [] | _ :: r => nprod r :: contig_strides r end.

(* ---- from_shape_and_strides: NdLayout keeps two arrays; DynLayout concatenates the two
   slices and splits the SmallVec at len/2 (identity when both slices have the same length) *)
Definition norm (k : kind) (shape strides : list N) : list N * list N :=
  match k with
  | KNd => (shape, strides)
  | KDyn => let all := shape ++ strides in
            let n := Nat.div (length all) 2 in (firstn n all, skipn n all)
  end.

(* ---- overlap.rs with both arithmetic modes (Tensor.Overlap has the wrapping and the exact
   version; here overflow in a debug build is a distinct result) *)
Fixpoint contig_aux_m (m : mode) (rdims : list dim) (product : N) : res bool :=
  match rdims with
  | [] => Val true
  | d :: r =>
      if d_size d =? 1 then contig_aux_m m r product
      else if d_stride d =? product then (p <- mul_m m product (d_size d) ;; contig_aux_m m r p)
      else Val false
  end.
Fixpoint overlap_loop_m (m : mode) (ss : list dim) (max_offset : N) : res bool :=
  match ss with
  | [] => Val false
  | d :: r =>
      if d_stride d <=? max_offset then Val true
      else p <- pred_m m (d_size d) ;; t <- mul_m m p (d_stride d) ;;
           mo <- add_m m max_offset t ;; overlap_loop_m m r mo
  end.
Definition may_overlap_m (m : mode) (shape strides : list N) : res bool :=
  if has_zero_dim shape then Val false
  else let dims := combine strides shape in
       c <- contig_aux_m m (rev dims) 1 ;;
       if c then Val false else overlap_loop_m m (isort (filter non_unit dims)) 0.

(* ---- outcomes observed at the public API *)
Inductive outcome :=
| Accept (shape strides : list N)       (* Ok(tensor) with tensor.shape(), tensor.strides() *)
| ErrTooShort | ErrLenMismatch | ErrMayOverlap   (* FromDataError *)
| PanicOverflow                          (* "attempt to ... with overflow" *)
| PanicAssert                            (* assert!(..) / from_data's "does not match shape" *)
| PanicOther                             (* index out of bounds, "invalid offset", ... *)
| CapYes | CapNo                         (* has_capacity *)
| OffSome (o : N) | OffNone              (* Layout::offset / get *)
| OffList (l : list N).                  (* get_array: the offsets read *)

Definition lift (r : res outcome) : outcome := match r with Val o => o | Ovf => PanicOverflow end.

(* ---- constructors: the fixed code *)
Definition try_from_data_old (m : mode) (k : kind) (shape : list N) (n : N) : outcome :=
  lift (st <- from_shape_m m k shape ;; l <- min_data_len_m m shape st ;;
        Val (if l =? n then Accept shape st else ErrLenMismatch)).
Definition try_from_data (m : mode) (k : kind) (shape : list N) (n : N) : outcome :=
  match checked_nz_len shape with
  | None => ErrLenMismatch
  | Some _ => try_from_data_old m k shape n
  end.
Definition err_to_panic (o : outcome) : outcome :=
  match o with ErrTooShort | ErrLenMismatch | ErrMayOverlap => PanicAssert | _ => o end.
Definition from_data (m : mode) (k : kind) (shape : list N) (n : N) : outcome :=
  err_to_panic (try_from_data m k shape n).
Definition from_data_old (m : mode) (k : kind) (shape : list N) (n : N) : outcome :=
  err_to_panic (try_from_data_old m k shape n).

Definition from_data_with_strides (m : mode) (k : kind) (shape strides : list N) (n : N) : outcome :=
  let '(sh, st) := norm k shape strides in
  if fits sh st n
  then lift (o <- may_overlap_m m sh st ;; Val (if o then ErrMayOverlap else Accept sh st))
  else ErrTooShort.
Definition from_data_with_strides_old (m : mode) (k : kind) (shape strides : list N) (n : N) : outcome :=
  let '(sh, st) := norm k shape strides in
  lift (o <- may_overlap_m m sh st ;;
        if o then Val ErrMayOverlap
        else l <- min_data_len_m m sh st ;; Val (if n <? l then ErrTooShort else Accept sh st)).

Definition from_slice_with_strides (k : kind) (shape strides : list N) (n : N) : outcome :=
  let '(sh, st) := norm k shape strides in
  if fits sh st n then Accept sh st else ErrTooShort.
Definition from_slice_with_strides_old (m : mode) (k : kind) (shape strides : list N) (n : N) : outcome :=
  let '(sh, st) := norm k shape strides in
  lift (l <- min_data_len_m m sh st ;; Val (if n <? l then ErrTooShort else Accept sh st)).

(* from_storage_and_layout(data, layout) with layout = from_shape_and_strides(.., AllowOverlap):
     assert!(len >= min_data_len); assert!(!S::MUTABLE || !may_have_internal_overlap(..)) *)
Definition from_storage_and_layout (m : mode) (k : kind) (mutable : bool)
           (shape strides : list N) (n : N) : outcome :=
  let '(sh, st) := norm k shape strides in
  if fits sh st n
  then if mutable
       then lift (o <- may_overlap_m m sh st ;; Val (if o then PanicAssert else Accept sh st))
       else Accept sh st
  else PanicAssert.
Definition from_storage_and_layout_old (m : mode) (k : kind) (mutable : bool)
           (shape strides : list N) (n : N) : outcome :=
  let '(sh, st) := norm k shape strides in
  lift (l <- min_data_len_m m sh st ;;
        if n <? l then Val PanicAssert
        else if mutable
             then o <- may_overlap_m m sh st ;; Val (if o then PanicAssert else Accept sh st)
             else Val (Accept sh st)).

(* ---- TensorBase<Vec<T>, L>::expanded_layout (has_capacity / append):
     new_layout.resize_dim(axis, new_size);
     min_data_len <= capacity && !may_have_internal_overlap(new_layout) *)
Fixpoint set_nth (l : list N) (i : nat) (v : N) : option (list N) :=
  match l, i with
  | [], _ => None
  | _ :: r, O => Some (v :: r)
  | x :: r, S j => match set_nth r j v with Some r' => Some (x :: r') | None => None end
  end.
(* NdLayout: self.shape[dim] = size;  DynLayout: self.shape_and_strides[dim] = size *)
Definition resize_dim (k : kind) (shape strides : list N) (axis : nat) (v : N)
  : option (list N * list N) :=
  match k with
  | KNd => match set_nth shape axis v with Some s => Some (s, strides) | None => None end
  | KDyn => match set_nth (shape ++ strides) axis v with
            | Some all => let n := Nat.div (length all) 2 in Some (firstn n all, skipn n all)
            | None => None
            end
  end.
Definition expanded_layout (m : mode) (k : kind) (shape strides : list N) (cap : N)
           (axis : nat) (v : N) : outcome :=
  match resize_dim k shape strides axis v with
  | None => PanicOther
  | Some (sh, st) =>
      if fits sh st cap
      then lift (o <- may_overlap_m m sh st ;; Val (if o then CapNo else Accept sh st))
      else CapNo
  end.
Definition expanded_layout_old (m : mode) (k : kind) (shape strides : list N) (cap : N)
           (axis : nat) (v : N) : outcome :=
  match resize_dim k shape strides axis v with
  | None => PanicOther
  | Some (sh, st) =>
      lift (l <- min_data_len_m m sh st ;;
            if l <=? cap
            then o <- may_overlap_m m sh st ;; Val (if o then CapNo else Accept sh st)
            else Val CapNo)
  end.
Definition cap_answer (o : outcome) : outcome := match o with Accept _ _ => CapYes | _ => o end.
Definition has_capacity (m : mode) (k : kind) shape strides cap axis v : outcome :=
  cap_answer (expanded_layout m k shape strides cap axis v).
Definition has_capacity_old (m : mode) (k : kind) shape strides cap axis v : outcome :=
  cap_answer (expanded_layout_old m k shape strides cap axis v).

(* ---- indexing.  offset_unchecked: offset += index[i] * strides[i] *)
Fixpoint offset_acc_m (m : mode) (idx strides : list N) (acc : N) : res N :=
  match idx, strides with
  | i :: ir, s :: sr => t <- mul_m m i s ;; a <- add_m m acc t ;; offset_acc_m m ir sr a
  | _, _ => Val acc
  end.
(* NdLayout::index_valid: every index[i] < shape[i] (same rank by typing) *)
Fixpoint nd_valid (idx shape : list N) : bool :=
  match idx, shape with
  | [], [] => true
  | i :: ir, s :: sr => (i <? s) && nd_valid ir sr
  | _, _ => false
  end.
(* NdLayout::offset: validity first, then offset_unchecked *)
Definition offset_nd (m : mode) (shape strides idx : list N) : res (option N) :=
  if nd_valid idx shape then o <- offset_acc_m m idx strides 0 ;; Val (Some o) else Val None.
(* DynLayout::offset: one loop computes validity and the offset together, so the
   multiplications happen for invalid indices too *)
Fixpoint dyn_off_loop (m : mode) (idx shape strides : list N) (valid : bool) (acc : N)
  : res (bool * N) :=
  match idx, shape, strides with
  | i :: ir, s :: sr, t :: tr =>
      p <- mul_m m i t ;; a <- add_m m acc p ;; dyn_off_loop m ir sr tr (valid && (i <? s)) a
  | _, _, _ => Val (valid, acc)
  end.
Definition offset_dyn (m : mode) (shape strides idx : list N) : res (option N) :=
  r <- dyn_off_loop m idx shape strides (Nat.eqb (length idx) (length shape)) 0 ;;
  Val (if fst r then Some (snd r) else None).
Definition offset_k (m : mode) (k : kind) (shape strides idx : list N) : res (option N) :=
  match k with KNd => offset_nd m shape strides idx | KDyn => offset_dyn m shape strides idx end.
Definition offset_out (r : res (option N)) : outcome :=
  match r with Val (Some o) => OffSome o | Val None => OffNone | Ovf => PanicOverflow end.
(* WeaklyCheckedView: offset_unchecked, then storage.get(offset).expect("invalid offset") *)
Definition weak_index (m : mode) (strides idx : list N) (n : N) : outcome :=
  match offset_acc_m m idx strides 0 with
  | Val o => if o <? n then OffSome o else PanicOther
  | Ovf => PanicOverflow
  end.

(* get_array / set_array (static rank only) go through array_offsets:
     assert!(base[dim] < usize::MAX - M && layout.size(dim) >= base[dim] + M, "array indices invalid");
     let offset = layout.must_offset(base); let stride = layout.stride(dim);
     for i in 0..M { offsets[i] = offset + i * stride; }
   followed by get_unchecked(offsets[i]). *)
Fixpoint arr_loop (m : mode) (off stride : N) (count : nat) (i : N) : res (list N) :=
  match count with
  | O => Val []
  | S c => t <- mul_m m i stride ;; o <- add_m m off t ;;
           rest <- arr_loop m off stride c (i + 1) ;; Val (o :: rest)
  end.
Definition array_offsets (m : mode) (shape strides base : list N) (dim : nat) (M : nat) : outcome :=
  match nth_error base dim, nth_error shape dim, nth_error strides dim with
  | Some b, Some sz, Some st =>
      if (b <? u64_max - N.of_nat M) && (b + N.of_nat M <=? sz)
      then match offset_nd m shape strides base with
           | Ovf => PanicOverflow
           | Val None => PanicOther
           | Val (Some off) => lift (l <- arr_loop m off st M 0 ;; Val (OffList l))
           end
      else PanicAssert
  | _, _, _ => PanicOther
  end.

(* ---- specification side (exact arithmetic).  [dot] and [max_off] come from Tensor.Overlap *)
Definition Inv (shape strides : list N) (n : N) : Prop :=
  forall idx, Forall2 N.lt idx shape -> dot idx strides < n.
Definition inv_b (shape strides : list N) (n : N) : bool :=
  has_zero_dim shape || (max_off (combine strides shape) + 1 <=? n).
Definition Injective (shape strides : list N) : Prop :=
  forall i j, Forall2 N.lt i shape -> Forall2 N.lt j shape -> dot i strides = dot j strides -> i = j.
Definition valid_b (idx shape : list N) : bool := nd_valid idx shape.

(* ---- exact-arithmetic specifications of the constructors (no mode: the theorems say that
   the code computes exactly these in both build modes) *)
Definition overlap_exact (shape strides : list N) : bool :=
  if has_zero_dim shape then false else may_overlap false (combine strides shape).
Definition nz_prod (shape : list N) : N := nprod (filter (fun d => negb (is_zero d)) shape).
Definition try_from_data_spec (shape : list N) (n : N) : outcome :=
  if nz_prod shape <? two64
  then (if nprod shape =? n then Accept shape (contig_strides shape) else ErrLenMismatch)
  else ErrLenMismatch.
Definition from_data_with_strides_spec (k : kind) (shape strides : list N) (n : N) : outcome :=
  let '(sh, st) := norm k shape strides in
  if inv_b sh st n then (if overlap_exact sh st then ErrMayOverlap else Accept sh st) else ErrTooShort.
Definition from_slice_with_strides_spec (k : kind) (shape strides : list N) (n : N) : outcome :=
  let '(sh, st) := norm k shape strides in
  if inv_b sh st n then Accept sh st else ErrTooShort.
Definition from_storage_and_layout_spec (k : kind) (mutable : bool) (shape strides : list N) (n : N) : outcome :=
  let '(sh, st) := norm k shape strides in
  if inv_b sh st n then (if mutable && overlap_exact sh st then PanicAssert else Accept sh st) else PanicAssert.
Definition expanded_layout_spec (k : kind) (shape strides : list N) (cap : N) (axis : nat) (v : N) : outcome :=
  match resize_dim k shape strides axis v with
  | None => PanicOther
  | Some (sh, st) => if inv_b sh st cap then (if overlap_exact sh st then CapNo else Accept sh st) else CapNo
  end.

(* ---- correspondence cases *)
Inductive ctor := CTryFromData | CFromData | CFromDataWithStrides | CFromSliceWithStrides
                | CFromStorage (mutable : bool).
Inductive query :=
| QCtor (c : ctor) (shape strides : list N) (n : N)
| QExpand (shape strides : list N) (cap : N) (axis : nat) (new_size : N)
| QOffset (shape strides idx : list N)
| QWeak (shape strides idx : list N) (n : N)
| QArray (shape strides : list N) (n : N) (base : list N) (dim : nat) (M : nat)
(* an owned tensor reached by a history of append / transpose / permute calls (state: shape,
   strides, Vec length n and capacity cap), then has_capacity(axis, new_size) *)
| QHist (shape strides : list N) (n cap : N) (axis : nat) (new_size : N)
| QSkip.
Record case := {
  c_mode : mode; c_kind : kind; c_q : query;
  c_out : outcome;                            (* what the implementation did *)
  c_probes : list (list N * outcome);         (* get(idx) on the accepted tensor: (idx, result) *)
  c_small : bool                              (* index space small enough to enumerate *)
}.

Fixpoint list_eqb (a b : list N) : bool :=
  match a, b with
  | [], [] => true
  | x :: r, y :: s => (x =? y) && list_eqb r s
  | _, _ => false
  end.
Definition outcome_eqb (a b : outcome) : bool :=
  match a, b with
  | Accept s t, Accept s' t' => list_eqb s s' && list_eqb t t'
  | ErrTooShort, ErrTooShort | ErrLenMismatch, ErrLenMismatch | ErrMayOverlap, ErrMayOverlap
  | PanicOverflow, PanicOverflow | PanicAssert, PanicAssert | PanicOther, PanicOther
  | CapYes, CapYes | CapNo, CapNo | OffNone, OffNone => true
  | OffSome x, OffSome y => x =? y
  | OffList x, OffList y => list_eqb x y
  | _, _ => false
  end.

Definition run_ctor (m : mode) (k : kind) (c : ctor) (shape strides : list N) (n : N) : outcome :=
  match c with
  | CTryFromData => try_from_data m k shape n
  | CFromData => from_data m k shape n
  | CFromDataWithStrides => from_data_with_strides m k shape strides n
  | CFromSliceWithStrides => from_slice_with_strides k shape strides n
  | CFromStorage mu => from_storage_and_layout m k mu shape strides n
  end.
Definition run_ctor_old (m : mode) (k : kind) (c : ctor) (shape strides : list N) (n : N) : outcome :=
  match c with
  | CTryFromData => try_from_data_old m k shape n
  | CFromData => from_data_old m k shape n
  | CFromDataWithStrides => from_data_with_strides_old m k shape strides n
  | CFromSliceWithStrides => from_slice_with_strides_old m k shape strides n
  | CFromStorage mu => from_storage_and_layout_old m k mu shape strides n
  end.
Definition model_gen (old : bool) (c : case) : outcome :=
  let m := c_mode c in let k := c_kind c in
  match c_q c with
  | QCtor ct shape strides n => if old then run_ctor_old m k ct shape strides n
                                else run_ctor m k ct shape strides n
  | QExpand shape strides cap axis v => if old then has_capacity_old m k shape strides cap axis v
                                        else has_capacity m k shape strides cap axis v
  | QOffset shape strides idx =>
      let '(sh, st) := norm k shape strides in offset_out (offset_k m k sh st idx)
  | QWeak shape strides idx n => weak_index m (snd (norm k shape strides)) idx n
  | QArray shape strides n base dim M => array_offsets m shape strides base dim M
  | QHist shape strides _ cap axis v => if old then has_capacity_old m k shape strides cap axis v
                                        else has_capacity m k shape strides cap axis v
  | QSkip => c_out c
  end.
Definition model := model_gen false.

Definition probes_agree (c : case) : bool :=
  match c_q c, c_out c with
  | QCtor _ _ _ _, Accept sh st =>
      forallb (fun p => outcome_eqb (offset_out (offset_k (c_mode c) (c_kind c) sh st (fst p))) (snd p))
              (c_probes c)
  | _, _ => match c_probes c with [] => true | _ => false end
  end.
Definition agree (c : case) : bool := outcome_eqb (model c) (c_out c) && probes_agree c.
(* the arithmetic of the unfixed tree (used to validate the [_old] definitions against /repo before the fix) *)
Definition agree_old (c : case) : bool := outcome_eqb (model_gen true c) (c_out c) && probes_agree c.

(* ---- property oracle, evaluated on the implementation's own outcome in exact arithmetic *)
Definition ctor_unique (c : ctor) : bool :=
  match c with CFromDataWithStrides => true | CFromStorage mu => mu | _ => false end.
Definition probe_ok (sh st : list N) (n : N) (p : list N * outcome) : bool :=
  match snd p with
  | OffSome o => valid_b (fst p) sh && (o =? dot (fst p) st) && (o <? n)
  | OffNone | PanicOther => negb (valid_b (fst p) sh)
  | PanicOverflow => negb (valid_b (fst p) sh)
  | _ => false
  end.
Definition prop_ok (c : case) : bool :=
  match c_q c, c_out c with
  | QCtor ct _ _ n, Accept sh st =>
      inv_b sh st n
      && (if ctor_unique ct && c_small c then injective_b (combine st sh) else true)
      && forallb (probe_ok sh st n) (c_probes c)
  | QCtor _ _ _ _, PanicOverflow => false     (* must reject with its error, not by overflow *)
  | QCtor _ _ _ _, _ => true
  | QExpand shape strides cap axis v, CapYes =>
      match resize_dim (c_kind c) shape strides axis v with
      | Some (sh, st) => inv_b sh st cap && (if c_small c then injective_b (combine st sh) else true)
      | None => false
      end
  | QExpand _ _ _ _ _, PanicOverflow => false
  | QExpand _ _ _ _ _, _ => true
  | QOffset shape strides idx, o =>
      let '(sh, st) := norm (c_kind c) shape strides in
      match o with
      (* a pure layout query has no storage: when the true offset does not fit usize the
         wrapped value is meaningless, and no constructor attaches such a layout to storage *)
      | OffSome x => valid_b idx sh && ((x =? dot idx st) || negb (dot idx st <? two64))
      | OffNone => negb (valid_b idx sh)
      | PanicOverflow => negb (valid_b idx sh) || negb (dot idx st <? two64)
      | _ => false
      end
  | QWeak _ _ _ n, OffSome o => o <? n
  | QWeak _ _ _ _, _ => true
  | QArray _ _ n _ _ _, OffList l => forallb (fun o => o <? n) l
  | QArray _ _ _ _ _ _, PanicOverflow => false
  | QArray _ _ _ _ _ _, _ => true
  | QHist shape strides n cap axis v, o =>
      (* every state a history of safe calls reaches keeps the promise and stays alias-free *)
      inv_b shape strides n && (n <=? cap)
      && (if c_small c then injective_b (combine strides shape) else true)
      && match o with
         | CapYes => match resize_dim (c_kind c) shape strides axis v with
                     | Some (sh, st) => inv_b sh st cap && (if c_small c then injective_b (combine st sh) else true)
                     | None => false
                     end
         | PanicOverflow => false
         | _ => true
         end
  | QSkip, _ => true
  end.

Definition show (c : case) :=
  (model c, model_gen true c,
   match c_q c, c_out c with
   | QCtor _ _ _ n, Accept sh st => Some (inv_b sh st n, max_off (combine st sh) + 1)
   | _, _ => None
   end).
