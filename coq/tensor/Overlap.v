(* Model of rten-tensor/src/overlap.rs: is_contiguous, may_have_internal_overlap.
   A layout is a list of dimensions (stride, size), outermost first -- the pairs that
   `strides.iter().zip(shape.iter())` yields.  [w = true] models a release build on a
   64-bit target (usize arithmetic wraps); [w = false] is exact arithmetic (and a debug
   build whenever it does not panic). *)
From RV Require Import Prelude.
Open Scope N_scope.

Definition dim := (N * N)%type.          (* (stride, size) *)
Definition d_stride (d : dim) : N := fst d.
Definition d_size (d : dim) : N := snd d.

Definition wr (w : bool) (x : N) : N := if w then wrap64 x else x.

(* for (size, stride) in shape.zip(strides).rev() { if size == 1 continue;
     if stride != product return false; product *= size } true *)
Fixpoint contig_aux (w : bool) (rdims : list dim) (product : N) : bool :=
  match rdims with
  | [] => true
  | d :: r =>
      if d_size d =? 1 then contig_aux w r product
      else if d_stride d =? product then contig_aux w r (wr w (product * d_size d))
      else false
  end.
Definition is_contiguous (w : bool) (dims : list dim) : bool := contig_aux w (rev dims) 1.

(* lexicographic (stride, size) order used by sort_unstable on tuples *)
Definition dim_leb (a b : dim) : bool :=
  (d_stride a <? d_stride b) || ((d_stride a =? d_stride b) && (d_size a <=? d_size b)).
Fixpoint insert (d : dim) (l : list dim) : list dim :=
  match l with
  | [] => [d]
  | x :: r => if dim_leb d x then d :: l else x :: insert d r
  end.
Fixpoint isort (l : list dim) : list dim :=
  match l with [] => [] | d :: r => insert d (isort r) end.

(* for (stride, shape) in stride_shape { if stride <= max_offset return true;
     max_offset += (shape - 1) * stride } false *)
Fixpoint overlap_loop (w : bool) (ss : list dim) (max_offset : N) : bool :=
  match ss with
  | [] => false
  | d :: r =>
      if d_stride d <=? max_offset then true
      else overlap_loop w r (wr w (max_offset + wr w ((d_size d - 1) * d_stride d)))
  end.

Definition non_unit (d : dim) : bool := negb (d_size d =? 1).

Definition may_overlap (w : bool) (dims : list dim) : bool :=
  if existsb (fun d => d_size d =? 0) dims then false
  else if is_contiguous w dims then false
  else overlap_loop w (isort (filter non_unit dims)) 0.

(* API level: separate shape and strides slices *)
Definition may_have_internal_overlap (w : bool) (shape strides : list N) : bool :=
  may_overlap w (combine strides shape).

(* ---- the specification side: indices, true (unbounded) offsets ---- *)
Fixpoint offset (dims : list dim) (idx : list N) : N :=
  match dims, idx with
  | d :: r, i :: ir => i * d_stride d + offset r ir
  | _, _ => 0
  end.
Definition valid (dims : list dim) (idx : list N) : Prop :=
  Forall2 (fun i d => i < d_size d) idx dims.
Definition injective (dims : list dim) : Prop :=
  forall i j, valid dims i -> valid dims j -> offset dims i = offset dims j -> i = j.

Fixpoint dot (idx strides : list N) : N :=
  match idx, strides with
  | i :: ir, s :: sr => i * s + dot ir sr
  | _, _ => 0
  end.

(* largest true offset: sum (size-1)*stride *)
Fixpoint max_off (dims : list dim) : N :=
  match dims with [] => 0 | d :: r => (d_size d - 1) * d_stride d + max_off r end.

(* ---- executable brute force, used as the property oracle in the correspondence check ---- *)
Fixpoint all_offsets (dims : list dim) : list N :=
  match dims with
  | [] => [0]
  | d :: r => flat_map (fun i => map (N.add (N.of_nat i * d_stride d)) (all_offsets r))
                       (seq 0 (N.to_nat (d_size d)))
  end.
Fixpoint nodupb (l : list N) : bool :=
  match l with [] => true | x :: r => negb (existsb (N.eqb x) r) && nodupb r end.
Definition injective_b (dims : list dim) : bool := nodupb (all_offsets dims).

(* ---- correspondence case: (shape, strides, implementation's answer) ---- *)
Record case := { c_shape : list N; c_strides : list N; c_impl : bool; c_small : bool }.
(* the model in the mode the harness was built in (release: wrapping) equals the implementation *)
Definition agree (c : case) : bool :=
  Bool.eqb (may_have_internal_overlap true (c_shape c) (c_strides c)) (c_impl c).
(* property oracle on the implementation's own answer: "accepted => injective" (brute force,
   only evaluated when the layout is small enough to enumerate) *)
(* Offsets are storage offsets: a layout whose largest offset does not fit the 64-bit address
   space cannot be backed by any storage (every tensor constructor compares min_data_len =
   max_off + 1 with the storage length -- C06), so the property is about layouts with
   max_off + 1 < 2^64 -- exactly the hypothesis of the release-mode theorem. *)
Definition addressable (dims : list dim) : bool := max_off dims + 1 <? two64.
Definition prop_ok (c : case) : bool :=
  let dims := combine (c_strides c) (c_shape c) in
  if c_impl c then true
  else if negb (addressable dims) then true
  else if c_small c then injective_b dims else true.
Definition show (c : case) :=
  (may_have_internal_overlap true (c_shape c) (c_strides c),
   may_have_internal_overlap false (c_shape c) (c_strides c),
   if c_small c then Some (injective_b (combine (c_strides c) (c_shape c))) else None).
