(* Release-mode (wrapping) soundness and the completeness half of C08:
   layouts derived from a contiguous one are always accepted. *)
From RV Require Import Prelude.
From Tensor Require Import Overlap Overlap_proofs.
From Coq Require Import Permutation Sorted.
Open Scope N_scope.

(* ------------------------------------------------------------ max_off facts *)
Lemma max_off_perm l l' : Permutation l l' -> max_off l = max_off l'.
Proof. induction 1; cbn [max_off]; lia. Qed.

Lemma max_off_filter l : max_off (filter non_unit l) = max_off l.
Proof.
  induction l as [|d r IH]; [reflexivity|].
  assert (Hnu : non_unit d = negb (d_size d =? 1)) by reflexivity.
  cbn [filter]. rewrite Hnu. destruct (d_size d =? 1) eqn:E; cbn [negb max_off].
  - apply N.eqb_eq in E. rewrite E, IH. lia.
  - rewrite IH. reflexivity.
Qed.

(* ------------------------------------------------------ wrapping arithmetic *)
Lemma loop_wrap_eq : forall ss m, m + max_off ss < two64 ->
  overlap_loop true ss m = overlap_loop false ss m.
Proof.
  induction ss as [|d r IH]; intros m Hb; [reflexivity|].
  cbn [overlap_loop wr max_off] in *.
  destruct (d_stride d <=? m); [reflexivity|].
  rewrite (wrap64_small ((d_size d - 1) * d_stride d)) by lia.
  rewrite wrap64_small by lia.
  apply IH. lia.
Qed.

Lemma contig_wrap_true : forall rd p, p + max_off rd < two64 ->
  contig_aux true rd p = true -> contig_aux false rd p = true.
Proof.
  induction rd as [|d r IH]; intros p Hb Hc; [reflexivity|].
  cbn [contig_aux wr max_off] in *.
  destruct (d_size d =? 1) eqn:E1.
  - apply IH; [|exact Hc]. apply N.eqb_eq in E1. rewrite E1 in Hb. lia.
  - destruct (d_stride d =? p) eqn:E2; [|discriminate].
    apply N.eqb_eq in E2. subst p.
    destruct (N.eq_dec (d_size d) 0) as [Z|NZ].
    + rewrite Z in *. rewrite N.mul_0_r in *. rewrite wrap64_small in Hc by (cbv; reflexivity).
      exact (IH 0 ltac:(lia) Hc).
    + assert (Hlt : d_stride d * d_size d + max_off r < two64) by nia.
      rewrite wrap64_small in Hc by lia. apply IH; assumption.
Qed.

Theorem may_overlap_wrap_sound dims :
  max_off dims + 1 < two64 ->
  may_overlap true dims = false -> injective dims.
Proof.
  intros Hb H. apply may_overlap_sound.
  unfold may_overlap in *.
  destruct (existsb (fun d => d_size d =? 0) dims); [reflexivity|].
  destruct (is_contiguous false dims) eqn:Ce; [reflexivity|].
  destruct (is_contiguous true dims) eqn:Cw.
  - unfold is_contiguous in *. apply contig_wrap_true in Cw; [congruence|].
    rewrite (max_off_perm _ _ (Permutation_sym (Permutation_rev dims))). lia.
  - rewrite loop_wrap_eq in H; [exact H|].
    rewrite (max_off_perm _ _ (isort_perm _)), max_off_filter. lia.
Qed.

(* -------------------------------------------------- order facts for dim_leb *)
Lemma dim_leb_total a b : dim_leb a b = true \/ dim_leb b a = true.
Proof.
  unfold dim_leb.
  destruct (d_stride a <? d_stride b) eqn:E1; [left; reflexivity|].
  destruct (d_stride b <? d_stride a) eqn:E2; [right; reflexivity|].
  apply N.ltb_ge in E1, E2. assert (E : d_stride a = d_stride b) by lia.
  rewrite E, N.eqb_refl. cbn [orb andb].
  destruct (d_size a <=? d_size b) eqn:E3; [left; reflexivity|].
  right. apply N.leb_gt in E3. apply N.leb_le. lia.
Qed.

Lemma dim_leb_spec a b : dim_leb a b = true <->
  d_stride a < d_stride b \/ (d_stride a = d_stride b /\ d_size a <= d_size b).
Proof.
  unfold dim_leb. rewrite orb_true_iff, andb_true_iff, N.ltb_lt, N.eqb_eq, N.leb_le. tauto.
Qed.

Lemma dim_leb_antisym a b : dim_leb a b = true -> dim_leb b a = true -> a = b.
Proof.
  rewrite !dim_leb_spec. destruct a as [s1 z1], b as [s2 z2]; unfold d_stride, d_size; cbn [fst snd].
  intros H1 H2. f_equal; lia.
Qed.

Lemma dim_leb_trans a b c : dim_leb a b = true -> dim_leb b c = true -> dim_leb a c = true.
Proof. rewrite !dim_leb_spec. lia. Qed.

Lemma insert_comm x y s : insert x (insert y s) = insert y (insert x s).
Proof.
  induction s as [|z r IH]; cbn [insert].
  - destruct (dim_leb x y) eqn:Exy, (dim_leb y x) eqn:Eyx; try reflexivity.
    + rewrite (dim_leb_antisym _ _ Exy Eyx). reflexivity.
    + destruct (dim_leb_total x y); congruence.
  - destruct (dim_leb y z) eqn:Eyz, (dim_leb x z) eqn:Exz; cbn [insert]; rewrite ?Eyz, ?Exz.
    + destruct (dim_leb x y) eqn:Exy, (dim_leb y x) eqn:Eyx; try reflexivity.
      * rewrite (dim_leb_antisym _ _ Exy Eyx). reflexivity.
      * destruct (dim_leb_total x y); congruence.
    + destruct (dim_leb x y) eqn:Exy; [|reflexivity].
      rewrite (dim_leb_trans _ _ _ Exy Eyz) in Exz. discriminate.
    + destruct (dim_leb y x) eqn:Eyx; [|reflexivity].
      rewrite (dim_leb_trans _ _ _ Eyx Exz) in Eyz. discriminate.
    + rewrite IH. reflexivity.
Qed.

Lemma isort_canonical l l' : Permutation l l' -> isort l = isort l'.
Proof.
  induction 1 as [| x l l' _ IH | x y l | l l' l'' _ IH1 _ IH2]; cbn [isort].
  - reflexivity.
  - rewrite IH. reflexivity.
  - apply insert_comm.
  - congruence.
Qed.

(* a list that passes the stepping check is strictly sorted by stride *)
Definition stride_lt (a b : dim) : Prop := d_stride a < d_stride b.

Lemma loop_pass_sorted : forall l m, Forall (fun d => 2 <= d_size d) l ->
  overlap_loop false l m = false ->
  Forall (fun d => m < d_stride d) l /\ StronglySorted stride_lt l.
Proof.
  induction l as [|d r IH]; intros m Hs Hl; [split; constructor|].
  inversion Hs as [|? ? Hd Hr]; subst.
  cbn [overlap_loop wr] in Hl.
  destruct (d_stride d <=? m) eqn:E; [discriminate|]. apply N.leb_gt in E.
  destruct (IH _ Hr Hl) as [Hall Hsorted].
  assert (Hall' : Forall (fun x => d_stride d < d_stride x) r).
  { eapply Forall_impl; [|exact Hall]. cbn. intros x Hx. nia. }
  split.
  - constructor; [exact E|]. eapply Forall_impl; [|exact Hall']. cbn. intros; lia.
  - constructor; [exact Hsorted|exact Hall'].
Qed.

Lemma sorted_isort_id l : StronglySorted stride_lt l -> isort l = l.
Proof.
  induction 1 as [|d r Hs IH Hall]; [reflexivity|].
  cbn [isort]. rewrite IH. destruct r as [|x r']; [reflexivity|].
  cbn [insert]. inversion Hall as [|? ? Hx _]; subst.
  replace (dim_leb d x) with true; [reflexivity|].
  symmetry. apply dim_leb_spec. left. exact Hx.
Qed.

(* ------------------------------------------- completeness characterisation *)
Lemma non_unit_nonzero_ge2 dims :
  existsb (fun d => d_size d =? 0) dims = false ->
  Forall (fun d => 2 <= d_size d) (filter non_unit dims).
Proof.
  intros Z. apply existsb_zero_false in Z.
  induction Z as [|d r Hd _ IH]; [constructor|].
  assert (Hnu : non_unit d = negb (d_size d =? 1)) by reflexivity.
  cbn [filter]. rewrite Hnu. destruct (d_size d =? 1) eqn:E; cbn [negb]; [exact IH|].
  constructor; [|exact IH]. apply N.eqb_neq in E. lia.
Qed.

(* If *some* ordering of the non-unit dimensions passes the stepping check, the layout is
   accepted (the sort finds that ordering). *)
Theorem accepted_if_some_order_steps dims l :
  Permutation l (filter non_unit dims) ->
  overlap_loop false l 0 = false ->
  may_overlap false dims = false.
Proof.
  intros HP Hl. unfold may_overlap.
  destruct (existsb (fun d => d_size d =? 0) dims) eqn:Z; [reflexivity|].
  destruct (is_contiguous false dims); [reflexivity|].
  rewrite <- (isort_canonical _ _ HP).
  assert (Hge : Forall (fun d => 2 <= d_size d) l).
  { pose proof (non_unit_nonzero_ge2 _ Z) as H.
    rewrite Forall_forall in *. intros x Hx. apply H.
    eapply Permutation_in; eassumption. }
  destruct (loop_pass_sorted _ _ Hge Hl) as [_ Hs].
  rewrite (sorted_isort_id _ Hs). exact Hl.
Qed.

(* "steps": the order-free acceptance criterion *)
Definition steps (dims : list dim) : Prop :=
  exists l, Permutation l (filter non_unit dims) /\ overlap_loop false l 0 = false.

Lemma steps_accepted dims : steps dims -> may_overlap false dims = false.
Proof. intros (l & HP & Hl). eapply accepted_if_some_order_steps; eassumption. Qed.

(* -- contiguous layouts step *)
Lemma contiguous_steps dims :
  existsb (fun d => d_size d =? 0) dims = false ->
  is_contiguous false dims = true -> steps dims.
Proof.
  intros Z C. exists (rev (filter non_unit dims)). split.
  - symmetry. apply Permutation_rev.
  - rewrite <- filter_rev. unfold is_contiguous in C.
    apply (contig_loop (rev dims) 1); [lia| |exact C].
    apply Forall_rev. apply existsb_zero_false. exact Z.
Qed.

(* -- permuting the dimensions *)
Lemma filter_perm {A} (f : A -> bool) l l' : Permutation l l' -> Permutation (filter f l) (filter f l').
Proof.
  induction 1; cbn [filter].
  - constructor.
  - destruct (f x); [constructor|]; assumption.
  - destruct (f x), (f y); try reflexivity. apply perm_swap.
  - etransitivity; eassumption.
Qed.

Theorem permute_steps dims dims' : Permutation dims dims' -> steps dims -> steps dims'.
Proof.
  intros HP (l & Hl & Hs). exists l. split; [|exact Hs].
  etransitivity; [exact Hl|]. apply filter_perm. exact HP.
Qed.

(* -- monotonicity of the stepping check: shrinking extents / growing strides keeps it passing.
   [shrinks d' d]: d' is what slicing dimension d with a positive step yields
   (stride' = k*stride >= stride, (size'-1)*stride' <= (size-1)*stride). *)
Definition shrinks (d' d : dim) : Prop :=
  d_stride d <= d_stride d' /\ (d_size d' - 1) * d_stride d' <= (d_size d - 1) * d_stride d.

Lemma loop_mono : forall l l' m m', Forall2 shrinks l' l -> m' <= m ->
  overlap_loop false l m = false -> overlap_loop false l' m' = false.
Proof.
  induction l as [|d r IH]; intros l' m m' HF Hm Hl; inversion HF as [|d' ? r' ? [Hs He] Hr]; subst.
  - reflexivity.
  - cbn [overlap_loop wr] in *.
    destruct (d_stride d <=? m) eqn:E; [discriminate|]. apply N.leb_gt in E.
    destruct (d_stride d' <=? m') eqn:E'; [apply N.leb_le in E'; lia|].
    eapply IH; [exact Hr| |exact Hl]. lia.
Qed.

(* dropping any dimension keeps the check passing (index_axis, or a slice to size 1) *)
Lemma loop_drop : forall l1 d l2 m m', m' <= m ->
  overlap_loop false (l1 ++ d :: l2) m = false -> overlap_loop false (l1 ++ l2) m' = false.
Proof.
  induction l1 as [|x r IH]; intros d l2 m m' Hm Hl; cbn [app] in *.
  - cbn [overlap_loop wr] in Hl. destruct (d_stride d <=? m); [discriminate|].
    apply (loop_mono l2 l2 (m + (d_size d - 1) * d_stride d) m'); [| |exact Hl].
    + clear. induction l2; constructor; [split; lia|assumption].
    + nia.
  - cbn [overlap_loop wr] in *.
    destruct (d_stride x <=? m) eqn:E; [discriminate|]. apply N.leb_gt in E.
    destruct (d_stride x <=? m') eqn:E'; [apply N.leb_le in E'; lia|].
    eapply IH; [|exact Hl]. lia.
Qed.

(* ------------------------------------------------ layouts the library derives *)
Definition has_zero (dims : list dim) : bool := existsb (fun d => d_size d =? 0) dims.

Lemma has_zero_accepted dims : has_zero dims = true -> may_overlap false dims = false.
Proof. unfold may_overlap, has_zero. intros ->. reflexivity. Qed.

Lemma has_zero_app a b : has_zero (a ++ b) = has_zero a || has_zero b.
Proof. apply existsb_app. Qed.

Lemma shrinks_refl_all l : Forall2 shrinks l l.
Proof. induction l; constructor; [split; lia|assumption]. Qed.

Lemma Forall2_shrinks_mid l1 l2 d' d : shrinks d' d -> Forall2 shrinks (l1 ++ d' :: l2) (l1 ++ d :: l2).
Proof.
  intros H. apply Forall2_app; [apply shrinks_refl_all|]. constructor; [exact H|apply shrinks_refl_all].
Qed.

(* replacing one dimension by a shrunken one (slice with positive step) *)
Theorem slice_steps a d d' b :
  shrinks d' d -> d_size d' <= d_size d -> d_size d' <> 0 ->
  steps (a ++ d :: b) -> steps (a ++ d' :: b).
Proof.
  intros Hsh Hle Hnz (l & HP & Hl). unfold steps.
  rewrite filter_app in *. cbn [filter] in *.
  assert (Hd : non_unit d = negb (d_size d =? 1)) by reflexivity.
  assert (Hd' : non_unit d' = negb (d_size d' =? 1)) by reflexivity.
  rewrite Hd in HP. rewrite Hd'.
  destruct (d_size d =? 1) eqn:E; cbn [negb] in HP.
  - apply N.eqb_eq in E. assert (d_size d' = 1) as -> by lia. cbn [N.eqb Pos.eqb negb].
    exists l. split; assumption.
  - assert (Hin : In d l).
    { eapply Permutation_in; [symmetry; exact HP|]. apply in_elt. }
    apply in_split in Hin as (l1 & l2 & ->).
    apply Permutation_app_inv in HP.
    destruct (d_size d' =? 1) eqn:E'; cbn [negb].
    + exists (l1 ++ l2). split; [exact HP|]. eapply loop_drop; [|exact Hl]. lia.
    + exists (l1 ++ d' :: l2). split.
      * apply Permutation_elt. exact HP.
      * eapply loop_mono; [apply Forall2_shrinks_mid; exact Hsh| |exact Hl]. lia.
Qed.

(* removing a dimension (index_axis / squeeze / remove_axis) *)
Theorem drop_steps a d b : steps (a ++ d :: b) -> steps (a ++ b).
Proof.
  intros (l & HP & Hl). unfold steps. rewrite filter_app in *. cbn [filter] in HP.
  destruct (non_unit d).
  - assert (Hin : In d l).
    { eapply Permutation_in; [symmetry; exact HP|]. apply in_elt. }
    apply in_split in Hin as (l1 & l2 & ->).
    apply Permutation_app_inv in HP.
    exists (l1 ++ l2). split; [exact HP|]. eapply loop_drop; [|exact Hl]. lia.
  - exists l. split; assumption.
Qed.

(* adding a dimension of size 1 with any stride (insert_axis / unsqueeze) *)
Theorem insert_unit_steps a s b : steps (a ++ b) -> steps (a ++ (s, 1) :: b).
Proof.
  intros (l & HP & Hl). exists l. split; [|exact Hl].
  rewrite filter_app in *. exact HP.
Qed.

Inductive derived : list dim -> Prop :=
| D_contig dims : is_contiguous false dims = true -> derived dims
| D_perm dims dims' : derived dims -> Permutation dims dims' -> derived dims'
| D_slice a d d' b : derived (a ++ d :: b) -> shrinks d' d -> d_size d' <= d_size d ->
    derived (a ++ d' :: b)
| D_index a d b : derived (a ++ d :: b) -> d_size d <> 0 -> derived (a ++ b)
| D_insert a s b : derived (a ++ b) -> derived (a ++ (s, 1) :: b).

Lemma has_zero_perm l l' : Permutation l l' -> has_zero l = has_zero l'.
Proof.
  unfold has_zero. induction 1; cbn [existsb]; try congruence.
  - rewrite !orb_assoc, (orb_comm (d_size y =? 0)). reflexivity.
Qed.

Lemma derived_inv dims : derived dims -> has_zero dims = true \/ steps dims.
Proof.
  induction 1 as [dims C|dims dims' _ IH HP|a d d' b _ IH Hsh Hle|a d b _ IH Hnz|a s b _ IH].
  - destruct (has_zero dims) eqn:Z; [left; reflexivity|right].
    apply contiguous_steps; assumption.
  - destruct IH as [Z|S]; [left|right].
    + rewrite <- (has_zero_perm _ _ HP). exact Z.
    + eapply permute_steps; eassumption.
  - destruct (d_size d' =? 0) eqn:Z'.
    + left. rewrite has_zero_app. cbn [has_zero existsb]. rewrite Z'. rewrite orb_true_r. reflexivity.
    + apply N.eqb_neq in Z'. destruct IH as [Z|S].
      * left. rewrite has_zero_app in *. cbn [has_zero existsb] in *.
        destruct (d_size d =? 0) eqn:Zd; [apply N.eqb_eq in Zd; lia|].
        apply N.eqb_neq in Z'. rewrite Z'. exact Z.
      * right. eapply slice_steps; eassumption.
  - destruct IH as [Z|S].
    + left. rewrite has_zero_app in *. cbn [has_zero existsb] in *.
      apply N.eqb_neq in Hnz. rewrite Hnz in Z. exact Z.
    + right. eapply drop_steps; exact S.
  - destruct IH as [Z|S].
    + left. rewrite has_zero_app in *. cbn [has_zero existsb]. cbn [d_size snd N.eqb]. exact Z.
    + right. apply insert_unit_steps. exact S.
Qed.

Theorem derived_accepted dims : derived dims -> may_overlap false dims = false.
Proof.
  intros H. destruct (derived_inv _ H) as [Z|S].
  - apply has_zero_accepted. exact Z.
  - apply steps_accepted. exact S.
Qed.

(* non-vacuity / conservativeness examples *)
Example doc_example_rejected_though_injective :
  may_overlap false [(3, 4); (4, 4)] = true /\ injective_b [(3, 4); (4, 4)] = true.
Proof. split; vm_compute; reflexivity. Qed.

Example transposed_slice_derived :
  (* [6,8] contiguous -> slice rows 1..6 step 2, cols step 3 -> transpose *)
  derived [(3, 3); (16, 3)].
Proof.
  apply (D_perm [(16, 3); (3, 3)]); [|apply perm_swap].
  apply (D_slice [(16, 3)] (1, 8) (3, 3) []); [|split; cbn; lia|cbn; lia].
  apply (D_slice [] (8, 6) (16, 3) [(1, 8)]); [|split; cbn; lia|cbn; lia].
  apply D_contig. vm_compute. reflexivity.
Qed.
