(* C06 -- Safe tensor APIs never access memory out of bounds or alias mutably.
   Only statements; every proof is `exact <lemma>` (or a closed computation for witnesses).

   Reading guide.  [mode] is the build profile (Release: usize wraps; Debug: overflow panics,
   outcome PanicOverflow).  [kind] is NdLayout / DynLayout.  [Inv sh st n] is the TrustedLayout
   promise for a tensor with shape sh, strides st and n elements of storage: every valid index
   has a TRUE (unbounded) offset below n.  [Injective sh st]: distinct valid indices have
   distinct true offsets.  The *_spec functions are defined with exact arithmetic only. *)
From RV Require Import Prelude.
From Tensor Require Import Overlap Overlap_proofs Overlap_oracle Layout Layout_proofs.
From Coq Require Import Permutation.
Open Scope N_scope.

(* ---- (1) the constructors compute exactly the exact-arithmetic decision, in both build
        modes: no wrap-around acceptance, no overflow panic, same answer in debug and release *)
Theorem C06_try_from_data_exact : forall m k shape n,
  try_from_data m k shape n = try_from_data_spec shape n.
Proof. exact try_from_data_exact. Qed.

Theorem C06_from_data_with_strides_exact : forall m k shape strides n, n < two64 ->
  from_data_with_strides m k shape strides n = from_data_with_strides_spec k shape strides n.
Proof. exact from_data_with_strides_exact. Qed.

Theorem C06_from_slice_with_strides_exact : forall k shape strides n, n < two64 ->
  from_slice_with_strides k shape strides n = from_slice_with_strides_spec k shape strides n.
Proof. exact from_slice_with_strides_exact. Qed.

Theorem C06_from_storage_and_layout_exact : forall m k mu shape strides n, n < two64 ->
  from_storage_and_layout m k mu shape strides n = from_storage_and_layout_spec k mu shape strides n.
Proof. exact from_storage_and_layout_exact. Qed.

Theorem C06_expanded_layout_exact : forall m k shape strides cap axis v, cap < two64 ->
  expanded_layout m k shape strides cap axis v = expanded_layout_spec k shape strides cap axis v.
Proof. exact expanded_layout_exact. Qed.

(* ---- (2) constructor_establishes_inv: whatever is accepted satisfies the promise *)
Theorem C06_try_from_data_establishes_inv : forall m k shape n sh st,
  try_from_data m k shape n = Accept sh st ->
  sh = shape /\ st = contig_strides shape /\ n = nprod shape /\ n < two64 /\ Inv sh st n.
Proof. exact try_from_data_inv. Qed.

Theorem C06_from_data_establishes_inv : forall m k shape n sh st,
  from_data m k shape n = Accept sh st ->
  sh = shape /\ st = contig_strides shape /\ n = nprod shape /\ n < two64 /\ Inv sh st n.
Proof. exact from_data_inv. Qed.

(* contiguous layouts never alias (owned tensors made by from_data are mutable) *)
Theorem C06_contiguous_unique : forall shape, Injective shape (contig_strides shape).
Proof. exact contig_injective. Qed.

Theorem C06_from_data_with_strides_establishes_inv : forall m k shape strides n sh st,
  n < two64 -> (k = KNd -> length shape = length strides) ->
  from_data_with_strides m k shape strides n = Accept sh st ->
  norm k shape strides = (sh, st) /\ Inv sh st n /\ Injective sh st.
Proof. exact from_data_with_strides_inv. Qed.

Theorem C06_from_slice_with_strides_establishes_inv : forall k shape strides n sh st,
  n < two64 ->
  from_slice_with_strides k shape strides n = Accept sh st ->
  norm k shape strides = (sh, st) /\ Inv sh st n.
Proof. exact from_slice_with_strides_inv. Qed.

Theorem C06_from_storage_and_layout_establishes_inv : forall m k mu shape strides n sh st,
  n < two64 -> (k = KNd -> length shape = length strides) ->
  from_storage_and_layout m k mu shape strides n = Accept sh st ->
  norm k shape strides = (sh, st) /\ Inv sh st n /\ (mu = true -> Injective sh st).
Proof. exact from_storage_and_layout_inv. Qed.

(* has_capacity / append: the expanded layout fits the Vec's capacity and does not alias *)
Theorem C06_expanded_layout_establishes_inv : forall m k shape strides cap axis v sh st,
  cap < two64 -> (k = KNd -> length shape = length strides) ->
  expanded_layout m k shape strides cap axis v = Accept sh st ->
  resize_dim k shape strides axis v = Some (sh, st) /\ Inv sh st cap /\ Injective sh st.
Proof. exact expanded_layout_inv. Qed.

(* ---- (3) index_checked: under the promise, Layout::offset (behind get/get_mut/Index/IndexMut)
        returns the true offset, below the storage length, for a valid index -- in both modes,
        i.e. the wrapping computation did not wrap and the debug one did not panic -- and never
        returns an offset for an invalid index *)
Theorem C06_index_checked : forall m k shape strides n idx,
  Inv shape strides n -> n <= two64 -> (length shape <= length strides)%nat ->
  (Forall2 N.lt idx shape ->
     offset_k m k shape strides idx = Val (Some (dot idx strides)) /\ dot idx strides < n) /\
  (~ Forall2 N.lt idx shape ->
     offset_k m k shape strides idx = Val None \/
     (m = Debug /\ k = KDyn /\ offset_k m k shape strides idx = Ovf)).
Proof. exact index_checked. Qed.

Theorem C06_index_some_in_bounds : forall m k shape strides n idx o,
  Inv shape strides n -> n <= two64 -> (length shape <= length strides)%nat ->
  offset_k m k shape strides idx = Val (Some o) ->
  Forall2 N.lt idx shape /\ o = dot idx strides /\ o < n.
Proof. exact index_some_in_bounds. Qed.

(* layouts made by the constructors always have at least as many strides as sizes *)
Theorem C06_norm_len : forall k shape strides sh st, norm k shape strides = (sh, st) ->
  (k = KNd -> length shape = length strides) -> (length sh <= length st)%nat.
Proof. exact norm_len. Qed.

(* get_array / set_array (array_offsets + get_unchecked): under the promise every offset read
   or written is in bounds, and neither build mode overflows *)
Theorem C06_array_offsets_in_bounds : forall m shape strides n base dim M,
  Inv shape strides n -> n <= two64 -> length shape = length strides ->
  match array_offsets m shape strides base dim M with
  | OffList l => Forall (fun o => o < n) l /\ length l = M
  | PanicOverflow => False
  | _ => True
  end.
Proof. exact array_offsets_in_bounds. Qed.

Theorem C06_weak_index_in_bounds : forall m strides idx n o,
  weak_index m strides idx n = OffSome o -> o < n.
Proof. exact weak_index_in_bounds. Qed.

(* ---- (4) the promise survives the simplest view operations (the rest is C09) *)
Theorem C06_inv_permute : forall sh st sh' st' n,
  length sh = length st -> length sh' = length st' ->
  Permutation (combine st sh) (combine st' sh') -> Inv sh st n -> Inv sh' st' n.
Proof. exact inv_permute. Qed.

Theorem C06_inv_shrink : forall sh sh' st n, Forall2 N.le sh' sh -> Inv sh st n -> Inv sh' st n.
Proof. exact inv_shrink. Qed.

Theorem C06_inv_mono : forall sh st n n', n <= n' -> Inv sh st n -> Inv sh st n'.
Proof. exact inv_mono. Qed.

(* ---- (5) the oracles used on the implementation's outcomes are the property *)
Theorem C06_oracle_inv : forall shape strides n, inv_b shape strides n = true <-> Inv shape strides n.
Proof. exact inv_b_iff. Qed.

Theorem C06_oracle_injective : forall shape strides, (length shape <= length strides)%nat ->
  Injective shape strides -> injective_b (combine strides shape) = true.
Proof. exact oracle_injective. Qed.

(* ---- (6) refutation witnesses for the arithmetic of the unfixed tree (finding F4 and its
        siblings): accepted although the promise is false, or an overflow panic *)
Definition p32 : N := 4294967296.
Definition p63 : N := 9223372036854775808.

Theorem C06_try_from_data_old_refuted : exists k shape n sh st,
  try_from_data_old Release k shape n = Accept sh st /\ ~ Inv sh st n.
Proof.
  exists KNd, [p32; p32], 0, [p32; p32], [p32; 1]. split; [vm_compute; reflexivity|].
  apply (not_inv_witness _ _ _ [1; 1]); [repeat constructor|vm_compute; discriminate].
Qed.

Theorem C06_try_from_data_old_debug_panics :
  try_from_data_old Debug KNd [p32; p32] 0 = PanicOverflow /\
  try_from_data_old Debug KDyn [p32; p32] 0 = PanicOverflow /\
  try_from_data_old Debug KDyn [0; p32; p32] 0 = PanicOverflow.
Proof. repeat split; vm_compute; reflexivity. Qed.

Theorem C06_from_data_with_strides_old_refuted : exists k shape strides n sh st,
  from_data_with_strides_old Release k shape strides n = Accept sh st /\ ~ Inv sh st n.
Proof.
  exists KNd, [3], [p63], 1, [3], [p63]. split; [vm_compute; reflexivity|].
  apply (not_inv_witness _ _ _ [1]); [repeat constructor|vm_compute; discriminate].
Qed.

Theorem C06_from_slice_with_strides_old_refuted : exists k shape strides n sh st,
  from_slice_with_strides_old Release k shape strides n = Accept sh st /\ ~ Inv sh st n.
Proof.
  exists KDyn, [3], [p63], 1, [3], [p63]. split; [vm_compute; reflexivity|].
  apply (not_inv_witness _ _ _ [1]); [repeat constructor|vm_compute; discriminate].
Qed.

Theorem C06_from_storage_and_layout_old_refuted : exists k shape strides n sh st,
  from_storage_and_layout_old Release k true shape strides n = Accept sh st /\ ~ Inv sh st n.
Proof.
  exists KNd, [3], [p63], 1, [3], [p63]. split; [vm_compute; reflexivity|].
  apply (not_inv_witness _ _ _ [1]); [repeat constructor|vm_compute; discriminate].
Qed.

Theorem C06_expanded_layout_old_refuted : exists k shape strides cap axis v sh st,
  expanded_layout_old Release k shape strides cap axis v = Accept sh st /\ ~ Inv sh st cap.
Proof.
  exists KNd, [1; 4], [4; 1], 8, 0%nat, 4611686018427387905, [4611686018427387905; 4], [4; 1].
  split; [vm_compute; reflexivity|].
  apply (not_inv_witness _ _ _ [2; 0]); [repeat constructor|vm_compute; discriminate].
Qed.

(* the repaired code on the same inputs *)
Example C06_fixed_on_witnesses :
  try_from_data Release KNd [p32; p32] 0 = ErrLenMismatch /\
  try_from_data Debug KDyn [p32; p32] 0 = ErrLenMismatch /\
  from_data_with_strides Release KNd [3] [p63] 1 = ErrTooShort /\
  from_data_with_strides Debug KNd [3] [p63] 1 = ErrTooShort /\
  has_capacity Release KNd [1; 4] [4; 1] 8 0%nat 4611686018427387905 = CapNo.
Proof. repeat split; vm_compute; reflexivity. Qed.

(* ---- non-vacuity: the hypotheses of the positive theorems are met by ordinary tensors *)
Example C06_nonvacuous :
  try_from_data Release KNd [2; 3] 6 = Accept [2; 3] [3; 1] /\
  from_data_with_strides Debug KDyn [2; 2; 1] [1; 2; 4] 4 = Accept [2; 2; 1] [1; 2; 4] /\
  from_data_with_strides Release KNd [2; 2] [0; 1] 2 = ErrMayOverlap /\
  from_slice_with_strides KNd [2; 2] [0; 1] 2 = Accept [2; 2] [0; 1] /\
  has_capacity Release KDyn [2; 0; 3] [15; 3; 1] 30 1%nat 5 = CapYes /\
  has_capacity Release KDyn [2; 0; 3] [15; 3; 1] 30 1%nat 6 = CapNo /\
  offset_k Release KDyn [2; 3] [3; 1] [1; 2] = Val (Some 5) /\
  array_offsets Debug [2; 3] [3; 1] [0; 1] 0%nat 2%nat = OffList [1; 4] /\
  Inv [2; 3] [3; 1] 6 /\ ~ Inv [2; 3] [3; 1] 5.
Proof.
  repeat split; try (vm_compute; reflexivity).
  - apply inv_b_iff. vm_compute. reflexivity.
  - apply (not_inv_witness _ _ _ [1; 2]); [repeat constructor|vm_compute; discriminate].
Qed.
