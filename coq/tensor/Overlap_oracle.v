(* Reflection of the brute-force oracle: when [injective_b] says false the layout really is
   not injective, so a case failing [prop_ok] is a genuine counterexample. *)
From RV Require Import Prelude.
From Tensor Require Import Overlap Overlap_proofs.
Open Scope N_scope.

Lemma nodupb_NoDup l : NoDup l -> nodupb l = true.
Proof.
  induction 1 as [|x l Hn _ IH]; [reflexivity|].
  cbn [nodupb]. rewrite IH, andb_true_r. apply negb_true_iff.
  destruct (existsb (N.eqb x) l) eqn:E; [|reflexivity].
  apply existsb_exists in E as (y & Hy & Exy). apply N.eqb_eq in Exy. subst y. contradiction.
Qed.

Lemma NoDup_app_intro {A} (l1 l2 : list A) :
  NoDup l1 -> NoDup l2 -> (forall x, In x l1 -> In x l2 -> False) -> NoDup (l1 ++ l2).
Proof.
  induction 1 as [|x l Hn _ IH]; intros H2 Hd; [exact H2|].
  cbn [app]. constructor.
  - rewrite in_app_iff. intros [H|H]; [contradiction|]. apply (Hd x); [left; reflexivity|exact H].
  - apply IH; [exact H2|]. intros y Hy1 Hy2. apply (Hd y); [right; exact Hy1|exact Hy2].
Qed.

Lemma NoDup_flat_map {A B} (f : A -> list B) l :
  NoDup l -> (forall x, In x l -> NoDup (f x)) ->
  (forall x y b, In x l -> In y l -> In b (f x) -> In b (f y) -> x = y) ->
  NoDup (flat_map f l).
Proof.
  induction 1 as [|x l Hn _ IH]; intros Hf Hd; [constructor|].
  cbn [flat_map]. apply NoDup_app_intro.
  - apply Hf. left; reflexivity.
  - apply IH; [intros; apply Hf; right; assumption|].
    intros a b c Ha Hb. apply Hd; right; assumption.
  - intros b Hb1 Hb2. apply in_flat_map in Hb2 as (y & Hy & Hby).
    assert (x = y) by (eapply Hd; [left; reflexivity|right; exact Hy|exact Hb1|exact Hby]).
    subst y. contradiction.
Qed.

Lemma all_offsets_valid dims : forall o, In o (all_offsets dims) ->
  exists idx, valid dims idx /\ offset dims idx = o.
Proof.
  induction dims as [|d r IH]; intros o Ho.
  - destruct Ho as [<-|[]]. exists []. split; [constructor|reflexivity].
  - cbn [all_offsets] in Ho. apply in_flat_map in Ho as (i & Hi & Ho).
    apply in_map_iff in Ho as (o' & <- & Ho').
    destruct (IH _ Ho') as (idx & Hv & <-).
    apply in_seq in Hi.
    exists (N.of_nat i :: idx). split; [|reflexivity].
    apply valid_cons; [lia|exact Hv].
Qed.

Lemma injective_tail d r : d_size d <> 0 -> injective (d :: r) -> injective r.
Proof.
  intros Hnz Inj i j Hi Hj He.
  assert (E : 0 :: i = 0 :: j).
  { apply Inj; try (apply valid_cons; [lia|assumption]). cbn [offset]. lia. }
  inversion E; reflexivity.
Qed.

Lemma injective_all_offsets dims : injective dims -> NoDup (all_offsets dims).
Proof.
  induction dims as [|d r IH]; intros Inj.
  - cbn. constructor; [intros []|constructor].
  - cbn [all_offsets].
    destruct (N.eq_dec (d_size d) 0) as [Z|NZ]; [rewrite Z; cbn; constructor|].
    pose proof (IH (injective_tail _ _ NZ Inj)) as Hr.
    apply NoDup_flat_map.
    + apply seq_NoDup.
    + intros i _. apply FinFun.Injective_map_NoDup; [|exact Hr]. intros a b. lia.
    + intros i j b Hi Hj Hb1 Hb2.
      apply in_map_iff in Hb1 as (o1 & <- & Ho1). apply in_map_iff in Hb2 as (o2 & E & Ho2).
      destruct (all_offsets_valid _ _ Ho1) as (i1 & V1 & <-).
      destruct (all_offsets_valid _ _ Ho2) as (i2 & V2 & <-).
      apply in_seq in Hi, Hj.
      assert (EE : N.of_nat i :: i1 = N.of_nat j :: i2).
      { apply Inj; try (apply valid_cons; [lia|assumption]). cbn [offset]. lia. }
      inversion EE. lia.
Qed.

Theorem injective_b_complete dims : injective dims -> injective_b dims = true.
Proof. intros H. apply nodupb_NoDup, injective_all_offsets, H. Qed.

(* hence: the oracle rejecting an accepted, addressable layout contradicts injectivity *)
Corollary oracle_false_is_counterexample dims :
  injective_b dims = false -> ~ injective dims.
Proof. intros H Inj. rewrite (injective_b_complete _ Inj) in H. discriminate. Qed.
