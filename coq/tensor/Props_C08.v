(* C08 -- The overlap check never admits aliasing layouts.
   Only statements; every proof is `exact <lemma>`. *)
From RV Require Import Prelude.
From Tensor Require Import Overlap Overlap_proofs Overlap_complete.
From Coq Require Import Permutation.
Open Scope N_scope.

(* (1) exact arithmetic: an accepted shape/strides pair maps distinct valid indices to
       distinct storage offsets *)
Theorem C08_no_overlap_injective : forall shape strides,
  length shape = length strides ->
  may_have_internal_overlap false shape strides = false ->
  forall i j, Forall2 N.lt i shape -> Forall2 N.lt j shape ->
    dot i strides = dot j strides -> i = j.
Proof. exact no_overlap_injective. Qed.

(* (2) the code as compiled for release (usize arithmetic wraps mod 2^64): same conclusion
       whenever the layout's min_data_len = max_off + 1 fits in usize -- which every
       constructor must establish before calling the check (C06) *)
Theorem C08_release_mode_injective : forall dims,
  max_off dims + 1 < two64 ->
  may_overlap true dims = false -> injective dims.
Proof. exact may_overlap_wrap_sound. Qed.

(* (3) no false rejection for the layouts the library itself derives from a contiguous one:
       permuting, slicing with positive steps, indexing an axis, inserting unit axes *)
Theorem C08_derived_layouts_accepted : forall dims,
  derived dims -> may_overlap false dims = false.
Proof. exact derived_accepted. Qed.

(* (4) order-free characterisation used by (3): accepted as soon as some ordering of the
       non-unit dimensions steps over everything before it *)
Theorem C08_accepted_if_some_order_steps : forall dims l,
  Permutation l (filter non_unit dims) ->
  overlap_loop false l 0 = false -> may_overlap false dims = false.
Proof. exact accepted_if_some_order_steps. Qed.

(* non-vacuity: an accepted non-contiguous layout, and the conservative rejection from the
   function's doc comment *)
Example C08_nonvacuous :
  may_have_internal_overlap false [3; 2] [1; 5] = false /\
  may_have_internal_overlap false [4; 4] [3; 4] = true.
Proof. split; vm_compute; reflexivity. Qed.

(* (5) the executable oracle used by the correspondence check's counterexample search is
       complete: a layout it rejects really maps two valid indices to one offset *)
From Tensor Require Import Overlap_oracle.
Theorem C08_oracle_counterexample_is_genuine : forall dims,
  injective_b dims = false -> ~ injective dims.
Proof. exact oracle_false_is_counterexample. Qed.
