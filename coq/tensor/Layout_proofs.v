(* Proofs about Tensor.Layout: the checked length computations are exact, the mode-dependent
   arithmetic never overflows below 2^64, and an accepted constructor call establishes Inv. *)
From RV Require Import Prelude.
From Tensor Require Import Overlap Overlap_proofs Overlap_complete Overlap_oracle Layout.
From Coq Require Import Permutation.
Open Scope N_scope.

Lemma two64_pos : 0 < two64.
Proof. reflexivity. Qed.

(* ------------------------------------------------------------ machine arithmetic *)
Lemma mul_m_exact m a b : a * b < two64 -> mul_m m a b = Val (a * b).
Proof.
  intros H. destruct m; cbn [mul_m].
  - rewrite wrap64_small by exact H. reflexivity.
  - apply N.ltb_lt in H. rewrite H. reflexivity.
Qed.

Lemma add_m_exact m a b : a + b < two64 -> add_m m a b = Val (a + b).
Proof.
  intros H. destruct m; cbn [add_m].
  - rewrite wrap64_small by exact H. reflexivity.
  - apply N.ltb_lt in H. rewrite H. reflexivity.
Qed.

Lemma pred_m_nz m a : a <> 0 -> pred_m m a = Val (a - 1).
Proof. intros H. unfold pred_m. apply N.eqb_neq in H. rewrite H. reflexivity. Qed.

Lemma mul_m_release a b : exists v, mul_m Release a b = Val v.
Proof. eexists; reflexivity. Qed.
Lemma add_m_release a b : exists v, add_m Release a b = Val v.
Proof. eexists; reflexivity. Qed.

(* ------------------------------------------------------------ zero-sized dimensions *)
Definition nz_dims (dims : list dim) : Prop := Forall (fun d => d_size d <> 0) dims.

Lemma has_zero_false_Forall shape : has_zero_dim shape = false -> Forall (fun s => s <> 0) shape.
Proof.
  induction shape as [|s r IH]; cbn [has_zero_dim existsb]; intros H; constructor.
  - apply orb_false_elim in H as [H _]. unfold is_zero in H. apply N.eqb_neq in H. exact H.
  - apply IH. apply orb_false_elim in H as [_ H]. exact H.
Qed.

Lemma has_zero_true_no_index shape idx : has_zero_dim shape = true -> ~ Forall2 N.lt idx shape.
Proof.
  revert idx; induction shape as [|s r IH]; intros idx H Hv; [discriminate|].
  inversion Hv as [|i s' ir r' Hi Hr]; subst.
  cbn [has_zero_dim existsb] in H. apply orb_true_iff in H as [H|H].
  - unfold is_zero in H. apply N.eqb_eq in H. lia.
  - exact (IH _ H Hr).
Qed.

Lemma combine_nz : forall shape strides, Forall (fun s => s <> 0) shape -> nz_dims (combine strides shape).
Proof.
  induction shape as [|s r IH]; intros [|t tr] H; cbn [combine]; try constructor.
  - inversion H; subst. assumption.
  - inversion H; subst. apply IH. assumption.
Qed.

Lemma nz_dims_no_zero dims : nz_dims dims -> existsb (fun d => d_size d =? 0) dims = false.
Proof.
  induction 1 as [|d r Hd _ IH]; [reflexivity|].
  cbn [existsb]. apply N.eqb_neq in Hd. rewrite Hd, IH. reflexivity.
Qed.

(* ------------------------------------------------------------ max offset / min_data_len *)
Lemma max_offset_m_exact m : forall dims acc, nz_dims dims -> acc + max_off dims < two64 ->
  max_offset_m m dims acc = Val (acc + max_off dims).
Proof.
  induction dims as [|d r IH]; intros acc Hnz Hb.
  - cbn [max_offset_m max_off]. f_equal. lia.
  - inversion Hnz as [|? ? Hd Hr]; subst. cbn [max_off] in Hb.
    cbn [max_offset_m]. rewrite (pred_m_nz m _ Hd). cbn [bind].
    rewrite mul_m_exact by lia. cbn [bind].
    rewrite add_m_exact by lia. cbn [bind].
    rewrite IH by (try assumption; lia). cbn [max_off]. f_equal. lia.
Qed.

Lemma checked_max_offset_spec : forall dims acc, acc < two64 ->
  checked_max_offset dims acc =
  if acc + max_off dims <? two64 then Some (acc + max_off dims) else None.
Proof.
  induction dims as [|d r IH]; intros acc Ha.
  - cbn [checked_max_offset max_off]. rewrite N.add_0_r.
    apply N.ltb_lt in Ha. rewrite Ha. reflexivity.
  - cbn [checked_max_offset max_off].
    destruct ((d_size d - 1) * d_stride d <? two64) eqn:E1.
    + destruct (acc + (d_size d - 1) * d_stride d <? two64) eqn:E2.
      * rewrite IH by (apply N.ltb_lt; exact E2). rewrite N.add_assoc. reflexivity.
      * apply N.ltb_ge in E2.
        destruct (acc + ((d_size d - 1) * d_stride d + max_off r) <? two64) eqn:E3; [|reflexivity].
        apply N.ltb_lt in E3. lia.
    + apply N.ltb_ge in E1.
      destruct (acc + ((d_size d - 1) * d_stride d + max_off r) <? two64) eqn:E3; [|reflexivity].
      apply N.ltb_lt in E3. lia.
Qed.

Lemma checked_min_data_len_spec shape strides :
  checked_min_data_len shape strides =
  if has_zero_dim shape then Some 0
  else if max_off (combine strides shape) + 1 <? two64
       then Some (max_off (combine strides shape) + 1) else None.
Proof.
  unfold checked_min_data_len. destruct (has_zero_dim shape); [reflexivity|].
  rewrite checked_max_offset_spec by reflexivity. rewrite N.add_0_l.
  destruct (max_off (combine strides shape) <? two64) eqn:E1.
  - reflexivity.
  - apply N.ltb_ge in E1.
    destruct (max_off (combine strides shape) + 1 <? two64) eqn:E2; [|reflexivity].
    apply N.ltb_lt in E2. lia.
Qed.

(* the storage-length test of every constructor is the exact one *)
Lemma fits_inv_b shape strides n : n < two64 -> fits shape strides n = inv_b shape strides n.
Proof.
  intros Hn. unfold fits, inv_b. rewrite checked_min_data_len_spec.
  destruct (has_zero_dim shape); cbn [orb]; [apply N.leb_le; lia|].
  destruct (max_off (combine strides shape) + 1 <? two64) eqn:E; [reflexivity|].
  apply N.ltb_ge in E. symmetry. apply N.leb_gt. lia.
Qed.

Lemma min_data_len_m_exact m shape strides :
  has_zero_dim shape = false -> max_off (combine strides shape) + 1 < two64 ->
  min_data_len_m m shape strides = Val (max_off (combine strides shape) + 1).
Proof.
  intros Hz Hb. unfold min_data_len_m. rewrite Hz.
  rewrite max_offset_m_exact; [|apply combine_nz, has_zero_false_Forall, Hz|lia].
  cbn [bind]. rewrite N.add_0_l. apply add_m_exact. exact Hb.
Qed.

(* ------------------------------------------------------------ Inv <-> inv_b *)
Lemma dot_le_max_off : forall idx shape strides, Forall2 N.lt idx shape ->
  dot idx strides <= max_off (combine strides shape).
Proof.
  induction idx as [|i ir IH]; intros shape strides H.
  - cbn [dot]. lia.
  - inversion H as [|? s ? sr Hi Hr]; subst. destruct strides as [|t tr].
    + cbn [dot]. lia.
    + cbn [dot combine max_off]. specialize (IH _ tr Hr).
      unfold d_size, d_stride; cbn [fst snd]. nia.
Qed.

Definition last_index (shape : list N) : list N := map (fun s => s - 1) shape.

Lemma last_index_valid shape : Forall (fun s => s <> 0) shape -> Forall2 N.lt (last_index shape) shape.
Proof.
  induction 1 as [|s r Hs _ IH]; cbn [last_index map]; constructor; [lia|exact IH].
Qed.

Lemma last_index_dot : forall shape strides,
  dot (last_index shape) strides = max_off (combine strides shape).
Proof.
  induction shape as [|s r IH]; intros [|t tr]; cbn [last_index map dot combine max_off]; try reflexivity.
  fold (last_index r). rewrite IH. unfold d_size, d_stride; cbn [fst snd]. reflexivity.
Qed.

Theorem inv_b_iff shape strides n : inv_b shape strides n = true <-> Inv shape strides n.
Proof.
  unfold inv_b, Inv. split.
  - intros H idx Hv. apply orb_true_iff in H as [H|H].
    + exfalso. exact (has_zero_true_no_index _ _ H Hv).
    + apply N.leb_le in H. pose proof (dot_le_max_off _ _ strides Hv). lia.
  - intros H. destruct (has_zero_dim shape) eqn:Z; [reflexivity|]. cbn [orb].
    apply N.leb_le. pose proof (has_zero_false_Forall _ Z) as Hnz.
    specialize (H _ (last_index_valid _ Hnz)). rewrite last_index_dot in H. lia.
Qed.

(* ------------------------------------------------------------ link to C08's index spaces *)
Lemma valid_combine_le : forall shape strides idx, (length shape <= length strides)%nat ->
  Forall2 N.lt idx shape -> valid (combine strides shape) idx.
Proof.
  induction shape as [|s sr IH]; intros strides idx Hl H.
  - inversion H; subst. destruct strides; constructor.
  - destruct strides as [|t tr]; [cbn in Hl; lia|]. inversion H; subst. cbn [combine].
    constructor; [assumption|]. apply IH; [cbn in Hl; lia|assumption].
Qed.

Lemma offset_combine_le : forall shape strides idx, (length shape <= length strides)%nat ->
  length idx = length shape -> offset (combine strides shape) idx = dot idx strides.
Proof.
  induction shape as [|s sr IH]; intros [|t tr] [|i ir] Hl Hi; cbn in *; try reflexivity; try discriminate; try lia.
  rewrite IH by lia. reflexivity.
Qed.

Lemma injective_Injective shape strides : (length shape <= length strides)%nat ->
  injective (combine strides shape) -> Injective shape strides.
Proof.
  intros Hl H i j Hi Hj He.
  pose proof (Forall2_len _ _ _ Hi) as Li. pose proof (Forall2_len _ _ _ Hj) as Lj.
  apply H; try (apply valid_combine_le; assumption).
  rewrite !offset_combine_le; try assumption.
Qed.

Lemma norm_len k shape strides sh st : norm k shape strides = (sh, st) ->
  (k = KNd -> length shape = length strides) -> (length sh <= length st)%nat.
Proof.
  destruct k; cbn [norm]; intros E Hk.
  - inversion E; subst. rewrite Hk by reflexivity. lia.
  - apply pair_equal_spec in E as [<- <-]. rewrite firstn_length, skipn_length.
    pose proof (Nat.div_mod (length (shape ++ strides)) 2 ltac:(lia)).
    pose proof (Nat.mod_upper_bound (length (shape ++ strides)) 2 ltac:(lia)). lia.
Qed.

Lemma norm_same_len k shape strides : length shape = length strides -> norm k shape strides = (shape, strides).
Proof.
  intros Hl. destruct k; cbn [norm]; [reflexivity|].
  rewrite app_length, <- Hl.
  replace (length shape + length shape)%nat with (length shape * 2)%nat by lia.
  rewrite Nat.div_mul by lia.
  rewrite firstn_app, Nat.sub_diag, firstn_all, firstn_O, app_nil_r.
  rewrite skipn_app, Nat.sub_diag, skipn_all, skipn_O. reflexivity.
Qed.

(* ------------------------------------------------------------ the overlap check in both modes *)
Lemma contig_aux_m_exact m : forall rd p, nz_dims rd -> p + max_off rd < two64 ->
  contig_aux_m m rd p = Val (contig_aux false rd p).
Proof.
  induction rd as [|d r IH]; intros p Hnz Hb; [reflexivity|].
  inversion Hnz as [|? ? Hd Hr]; subst.
  cbn [contig_aux_m contig_aux wr max_off] in *.
  destruct (d_size d =? 1) eqn:E1.
  - apply IH; [assumption|]. apply N.eqb_eq in E1. rewrite E1 in Hb. lia.
  - destruct (d_stride d =? p) eqn:E2; [|reflexivity].
    apply N.eqb_eq in E2. subst p.
    assert (Hlt : d_stride d * d_size d + max_off r < two64) by nia.
    rewrite mul_m_exact by lia. cbn [bind]. apply IH; assumption.
Qed.

Lemma overlap_loop_m_exact m : forall ss mo, nz_dims ss -> mo + max_off ss < two64 ->
  overlap_loop_m m ss mo = Val (overlap_loop false ss mo).
Proof.
  induction ss as [|d r IH]; intros mo Hnz Hb; [reflexivity|].
  inversion Hnz as [|? ? Hd Hr]; subst.
  cbn [overlap_loop_m overlap_loop wr max_off] in *.
  destruct (d_stride d <=? mo); [reflexivity|].
  rewrite (pred_m_nz m _ Hd). cbn [bind].
  rewrite mul_m_exact by lia. cbn [bind].
  rewrite add_m_exact by lia. cbn [bind].
  apply IH; [assumption|lia].
Qed.

Lemma nz_dims_perm l l' : Permutation l l' -> nz_dims l -> nz_dims l'.
Proof. intros P H. unfold nz_dims in *. rewrite Forall_forall in *. intros x Hx. apply H. eapply Permutation_in; [apply Permutation_sym; exact P|exact Hx]. Qed.

Lemma nz_dims_filter f l : nz_dims l -> nz_dims (filter f l).
Proof. unfold nz_dims. rewrite !Forall_forall. intros H x Hx. apply filter_In in Hx as [Hx _]. auto. Qed.

Lemma may_overlap_m_exact m shape strides :
  has_zero_dim shape = true \/ max_off (combine strides shape) + 1 < two64 ->
  may_overlap_m m shape strides = Val (overlap_exact shape strides).
Proof.
  intros H. unfold may_overlap_m, overlap_exact.
  destruct (has_zero_dim shape) eqn:Z; [reflexivity|].
  destruct H as [H|Hb]; [discriminate|].
  pose proof (combine_nz _ strides (has_zero_false_Forall _ Z)) as Hnz.
  set (dims := combine strides shape) in *.
  unfold may_overlap. rewrite (nz_dims_no_zero _ Hnz). unfold is_contiguous.
  rewrite contig_aux_m_exact.
  - cbn [bind]. unfold dim in *. destruct (contig_aux false (rev dims) 1); [reflexivity|].
    apply overlap_loop_m_exact.
    + eapply nz_dims_perm; [apply Permutation_sym, isort_perm|]. apply nz_dims_filter, Hnz.
    + rewrite (max_off_perm _ _ (isort_perm _)), max_off_filter. lia.
  - eapply nz_dims_perm; [apply Permutation_rev|exact Hnz].
  - rewrite <- (max_off_perm _ _ (Permutation_rev dims)). lia.
Qed.

Lemma overlap_exact_sound shape strides : (length shape <= length strides)%nat ->
  overlap_exact shape strides = false -> Injective shape strides.
Proof.
  intros Hl H. unfold overlap_exact in H. destruct (has_zero_dim shape) eqn:Z.
  - intros i j Hi. exfalso. exact (has_zero_true_no_index _ _ Z Hi).
  - apply injective_Injective; [exact Hl|]. apply may_overlap_sound. exact H.
Qed.

Lemma inv_b_addressable shape strides n : n < two64 -> inv_b shape strides n = true ->
  has_zero_dim shape = true \/ max_off (combine strides shape) + 1 < two64.
Proof.
  intros Hn H. unfold inv_b in H. apply orb_true_iff in H as [H|H]; [left; exact H|right].
  apply N.leb_le in H. lia.
Qed.

(* ------------------------------------------------------------ strided constructors *)
Theorem from_data_with_strides_exact m k shape strides n : n < two64 ->
  from_data_with_strides m k shape strides n = from_data_with_strides_spec k shape strides n.
Proof.
  intros Hn. unfold from_data_with_strides, from_data_with_strides_spec.
  destruct (norm k shape strides) as [sh st].
  rewrite fits_inv_b by exact Hn. destruct (inv_b sh st n) eqn:I; [|reflexivity].
  rewrite may_overlap_m_exact by (apply (inv_b_addressable _ _ n); assumption).
  cbn [bind lift]. reflexivity.
Qed.

Theorem from_slice_with_strides_exact k shape strides n : n < two64 ->
  from_slice_with_strides k shape strides n = from_slice_with_strides_spec k shape strides n.
Proof.
  intros Hn. unfold from_slice_with_strides, from_slice_with_strides_spec.
  destruct (norm k shape strides) as [sh st]. rewrite fits_inv_b by exact Hn. reflexivity.
Qed.

Theorem from_storage_and_layout_exact m k mu shape strides n : n < two64 ->
  from_storage_and_layout m k mu shape strides n = from_storage_and_layout_spec k mu shape strides n.
Proof.
  intros Hn. unfold from_storage_and_layout, from_storage_and_layout_spec.
  destruct (norm k shape strides) as [sh st].
  rewrite fits_inv_b by exact Hn. destruct (inv_b sh st n) eqn:I; [|reflexivity].
  destruct mu; cbn [andb]; [|reflexivity].
  rewrite may_overlap_m_exact by (apply (inv_b_addressable _ _ n); assumption).
  cbn [bind lift]. reflexivity.
Qed.

Theorem expanded_layout_exact m k shape strides cap axis v : cap < two64 ->
  expanded_layout m k shape strides cap axis v = expanded_layout_spec k shape strides cap axis v.
Proof.
  intros Hn. unfold expanded_layout, expanded_layout_spec.
  destruct (resize_dim k shape strides axis v) as [[sh st]|]; [|reflexivity].
  rewrite fits_inv_b by exact Hn. destruct (inv_b sh st cap) eqn:I; [|reflexivity].
  rewrite may_overlap_m_exact by (apply (inv_b_addressable _ _ cap); assumption).
  cbn [bind lift]. reflexivity.
Qed.

(* what an accepted strided layout guarantees *)
Lemma spec_accept_inv sh st n : inv_b sh st n = true -> Inv sh st n.
Proof. apply inv_b_iff. Qed.

Theorem from_data_with_strides_inv m k shape strides n sh st : n < two64 ->
  (k = KNd -> length shape = length strides) ->
  from_data_with_strides m k shape strides n = Accept sh st ->
  norm k shape strides = (sh, st) /\ Inv sh st n /\ Injective sh st.
Proof.
  intros Hn Hk H. rewrite from_data_with_strides_exact in H by exact Hn.
  unfold from_data_with_strides_spec in H.
  destruct (norm k shape strides) as [sh' st'] eqn:En.
  destruct (inv_b sh' st' n) eqn:I; [|discriminate].
  destruct (overlap_exact sh' st') eqn:O; [discriminate|].
  inversion H; subst sh' st'. split; [reflexivity|]. split; [apply inv_b_iff, I|].
  apply overlap_exact_sound; [|exact O]. eapply norm_len; eassumption.
Qed.

Theorem from_slice_with_strides_inv k shape strides n sh st : n < two64 ->
  from_slice_with_strides k shape strides n = Accept sh st ->
  norm k shape strides = (sh, st) /\ Inv sh st n.
Proof.
  intros Hn H. rewrite from_slice_with_strides_exact in H by exact Hn.
  unfold from_slice_with_strides_spec in H.
  destruct (norm k shape strides) as [sh' st'] eqn:En.
  destruct (inv_b sh' st' n) eqn:I; [|discriminate].
  inversion H; subst sh' st'. split; [reflexivity|]. apply inv_b_iff, I.
Qed.

Theorem from_storage_and_layout_inv m k mu shape strides n sh st : n < two64 ->
  (k = KNd -> length shape = length strides) ->
  from_storage_and_layout m k mu shape strides n = Accept sh st ->
  norm k shape strides = (sh, st) /\ Inv sh st n /\ (mu = true -> Injective sh st).
Proof.
  intros Hn Hk H. rewrite from_storage_and_layout_exact in H by exact Hn.
  unfold from_storage_and_layout_spec in H.
  destruct (norm k shape strides) as [sh' st'] eqn:En.
  destruct (inv_b sh' st' n) eqn:I; [|discriminate].
  destruct (mu && overlap_exact sh' st') eqn:O; [discriminate|].
  inversion H; subst sh' st'. split; [reflexivity|]. split; [apply inv_b_iff, I|].
  intros ->. cbn [andb] in O. apply overlap_exact_sound; [|exact O]. eapply norm_len; eassumption.
Qed.

Lemma set_nth_length : forall l i v l', set_nth l i v = Some l' -> length l' = length l.
Proof.
  induction l as [|x r IH]; intros [|j] v l' H; cbn [set_nth] in H; try discriminate.
  - inversion H; reflexivity.
  - destruct (set_nth r j v) eqn:E; [|discriminate]. inversion H; subst. cbn [length]. f_equal. eauto.
Qed.

Lemma half_split_len (all : list N) :
  (length (firstn (Nat.div (length all) 2) all) <= length (skipn (Nat.div (length all) 2) all))%nat.
Proof.
  rewrite firstn_length, skipn_length.
  pose proof (Nat.div_mod (length all) 2 ltac:(lia)).
  pose proof (Nat.mod_upper_bound (length all) 2 ltac:(lia)). lia.
Qed.

Lemma resize_dim_len k shape strides axis v sh st :
  (k = KNd -> length shape = length strides) -> resize_dim k shape strides axis v = Some (sh, st) ->
  (length sh <= length st)%nat.
Proof.
  intros Hl H. destruct k; cbn [resize_dim] in H.
  - destruct (set_nth shape axis v) eqn:E; [|discriminate].
    injection H as <- <-. apply set_nth_length in E. rewrite E, Hl by reflexivity. lia.
  - destruct (set_nth (shape ++ strides) axis v) as [all|] eqn:E; [|discriminate].
    injection H as <- <-. apply half_split_len.
Qed.

Theorem expanded_layout_inv m k shape strides cap axis v sh st : cap < two64 ->
  (k = KNd -> length shape = length strides) ->
  expanded_layout m k shape strides cap axis v = Accept sh st ->
  resize_dim k shape strides axis v = Some (sh, st) /\ Inv sh st cap /\ Injective sh st.
Proof.
  intros Hn Hk H. rewrite expanded_layout_exact in H by exact Hn.
  unfold expanded_layout_spec in H.
  destruct (resize_dim k shape strides axis v) as [[sh' st']|] eqn:En; [|discriminate].
  destruct (inv_b sh' st' cap) eqn:I; [|discriminate].
  destruct (overlap_exact sh' st') eqn:O; [discriminate|].
  inversion H; subst sh' st'. split; [reflexivity|]. split; [apply inv_b_iff, I|].
  apply overlap_exact_sound; [|exact O]. eapply resize_dim_len; eassumption.
Qed.

(* ------------------------------------------------------------ contiguous layouts (try_from_data) *)
Definition nonzero (d : N) : bool := negb (is_zero d).

Lemma nprod_nz_ge1 l : Forall (fun d => d <> 0) l -> 1 <= nprod l.
Proof. induction 1 as [|d r Hd _ IH]; cbn [nprod]; nia. Qed.

Lemma filter_nonzero_nz l : Forall (fun d => d <> 0) (filter nonzero l).
Proof.
  apply Forall_forall. intros x Hx. apply filter_In in Hx as [_ Hx].
  unfold nonzero, is_zero in Hx. apply negb_true_iff, N.eqb_neq in Hx. exact Hx.
Qed.

Lemma nz_prod_ge1 l : 1 <= nz_prod l.
Proof. apply nprod_nz_ge1, filter_nonzero_nz. Qed.

Lemma nz_prod_cons d r : nz_prod (d :: r) = if d =? 0 then nz_prod r else d * nz_prod r.
Proof.
  unfold nz_prod. cbn [filter]. unfold is_zero. destruct (d =? 0); cbn [negb nprod]; reflexivity.
Qed.

Lemma nprod_le_nz_prod l : nprod l <= nz_prod l.
Proof.
  induction l as [|d r IH]; [cbn; lia|].
  rewrite nz_prod_cons. cbn [nprod]. destruct (d =? 0) eqn:E.
  - apply N.eqb_eq in E. subst. lia.
  - nia.
Qed.

Lemma nz_prod_tail d r : nz_prod r <= nz_prod (d :: r).
Proof.
  rewrite nz_prod_cons. destruct (d =? 0) eqn:E; [lia|]. apply N.eqb_neq in E. nia.
Qed.

Lemma nz_prod_app a b : nz_prod (a ++ b) = nz_prod a * nz_prod b.
Proof.
  induction a as [|d r IH]; [cbn [app]; unfold nz_prod at 2; cbn; lia|].
  cbn [app]. rewrite !nz_prod_cons, IH. destruct (d =? 0); lia.
Qed.

Lemma checked_prod_spec : forall l acc, Forall (fun d => d <> 0) l -> acc < two64 ->
  checked_prod l acc = if acc * nprod l <? two64 then Some (acc * nprod l) else None.
Proof.
  induction l as [|d r IH]; intros acc Hnz Ha.
  - cbn [checked_prod nprod]. rewrite N.mul_1_r. apply N.ltb_lt in Ha. rewrite Ha. reflexivity.
  - inversion Hnz as [|? ? Hd Hr]; subst. cbn [checked_prod nprod].
    pose proof (nprod_nz_ge1 _ Hr).
    destruct (acc * d <? two64) eqn:E.
    + rewrite IH by (try assumption; apply N.ltb_lt; exact E). rewrite N.mul_assoc. reflexivity.
    + apply N.ltb_ge in E. destruct (acc * (d * nprod r) <? two64) eqn:E2; [|reflexivity].
      apply N.ltb_lt in E2. nia.
Qed.

Lemma checked_nz_len_spec shape :
  checked_nz_len shape = if nz_prod shape <? two64 then Some (nz_prod shape) else None.
Proof.
  unfold checked_nz_len. rewrite checked_prod_spec; [|apply filter_nonzero_nz|reflexivity].
  rewrite N.mul_1_l. reflexivity.
Qed.

(* a product taken left to right stays below the product of the non-zero entries *)
Lemma prod_m_exact m : forall l acc, acc * nz_prod l < two64 -> prod_m m l acc = Val (acc * nprod l).
Proof.
  induction l as [|d r IH]; intros acc Hb.
  - cbn [prod_m nprod]. f_equal. lia.
  - cbn [prod_m nprod]. rewrite nz_prod_cons in Hb. pose proof (nz_prod_ge1 r).
    destruct (d =? 0) eqn:E.
    + apply N.eqb_eq in E. subst d. rewrite mul_m_exact by (rewrite N.mul_0_r; reflexivity).
      cbn [bind]. rewrite IH by (rewrite N.mul_0_r, N.mul_0_l; reflexivity). f_equal. lia.
    + rewrite mul_m_exact by nia. cbn [bind]. rewrite IH by nia. f_equal. lia.
Qed.

Lemma nd_contig_exact m : forall shape, nz_prod shape < two64 ->
  nd_contig m shape = Val (contig_strides shape).
Proof.
  induction shape as [|d r IH]; intros Hb; [reflexivity|].
  pose proof (nz_prod_tail d r).
  cbn [nd_contig contig_strides]. rewrite prod_m_exact by lia. cbn [bind].
  rewrite IH by lia. cbn [bind]. rewrite N.mul_1_l. reflexivity.
Qed.

Lemma dyn_contig_aux_exact m : forall pre suf, nz_prod (pre ++ suf) < two64 ->
  dyn_contig_aux m (rev pre) (nprod suf) (contig_strides suf) = Val (contig_strides (pre ++ suf)).
Proof.
  induction pre as [|d init IH] using rev_ind; intros suf Hb.
  - reflexivity.
  - rewrite rev_app_distr. cbn [rev app dyn_contig_aux].
    rewrite <- app_assoc in Hb. cbn [app] in Hb.
    assert (Hd : nprod suf * d < two64).
    { pose proof (nprod_le_nz_prod (d :: suf)) as H1. cbn [nprod] in H1.
      rewrite nz_prod_app in Hb. pose proof (nz_prod_ge1 init). nia. }
    rewrite mul_m_exact by exact Hd. cbn [bind].
    replace (nprod suf * d) with (nprod (d :: suf)) by (cbn [nprod]; lia).
    change (nprod suf :: contig_strides suf) with (contig_strides (d :: suf)).
    rewrite IH by exact Hb. rewrite <- app_assoc. reflexivity.
Qed.

Lemma dyn_contig_exact m shape : nz_prod shape < two64 ->
  dyn_contig m shape = Val (contig_strides shape).
Proof.
  intros Hb. unfold dyn_contig.
  pose proof (dyn_contig_aux_exact m shape [] ltac:(rewrite app_nil_r; exact Hb)) as H.
  cbn [nprod contig_strides] in H. rewrite app_nil_r in H. exact H.
Qed.

Lemma from_shape_m_exact m k shape : nz_prod shape < two64 ->
  from_shape_m m k shape = Val (contig_strides shape).
Proof. destruct k; cbn [from_shape_m]; [apply nd_contig_exact|apply dyn_contig_exact]. Qed.

(* the telescoping sum: a contiguous layout needs exactly product-of-shape elements *)
Lemma max_off_contig shape : Forall (fun s => s <> 0) shape ->
  max_off (combine (contig_strides shape) shape) + 1 = nprod shape.
Proof.
  induction 1 as [|d r Hd _ IH]; [reflexivity|].
  cbn [contig_strides combine max_off nprod]. unfold d_size, d_stride; cbn [fst snd]. nia.
Qed.

Lemma has_zero_nprod shape : has_zero_dim shape = true -> nprod shape = 0.
Proof.
  induction shape as [|d r IH]; [discriminate|]. cbn [has_zero_dim existsb nprod].
  intros H. apply orb_true_iff in H as [H|H].
  - unfold is_zero in H. apply N.eqb_eq in H. subst. lia.
  - rewrite (IH H). lia.
Qed.

Lemma min_data_len_contig m shape : nz_prod shape < two64 ->
  min_data_len_m m shape (contig_strides shape) = Val (nprod shape).
Proof.
  intros Hb. destruct (has_zero_dim shape) eqn:Z.
  - unfold min_data_len_m. rewrite Z, (has_zero_nprod _ Z). reflexivity.
  - pose proof (max_off_contig _ (has_zero_false_Forall _ Z)) as E.
    pose proof (nprod_le_nz_prod shape).
    rewrite min_data_len_m_exact by (try assumption; lia). rewrite E. reflexivity.
Qed.

Theorem try_from_data_exact m k shape n :
  try_from_data m k shape n = try_from_data_spec shape n.
Proof.
  unfold try_from_data, try_from_data_spec. rewrite checked_nz_len_spec.
  destruct (nz_prod shape <? two64) eqn:E; [|reflexivity].
  apply N.ltb_lt in E. unfold try_from_data_old.
  rewrite from_shape_m_exact by exact E. cbn [bind].
  rewrite min_data_len_contig by exact E. cbn [bind lift]. reflexivity.
Qed.

Lemma contig_inv shape : Inv shape (contig_strides shape) (nprod shape).
Proof.
  apply inv_b_iff. unfold inv_b. destruct (has_zero_dim shape) eqn:Z; [reflexivity|]. cbn [orb].
  rewrite (max_off_contig _ (has_zero_false_Forall _ Z)). apply N.leb_le. lia.
Qed.

Theorem try_from_data_inv m k shape n sh st :
  try_from_data m k shape n = Accept sh st ->
  sh = shape /\ st = contig_strides shape /\ n = nprod shape /\ n < two64 /\ Inv sh st n.
Proof.
  rewrite try_from_data_exact. unfold try_from_data_spec.
  destruct (nz_prod shape <? two64) eqn:E; [|discriminate].
  destruct (nprod shape =? n) eqn:E2; [|discriminate].
  apply N.eqb_eq in E2. apply N.ltb_lt in E. intros H. injection H as Hs Ht. subst sh st n.
  pose proof (nprod_le_nz_prod shape).
  repeat (split; [reflexivity || lia|]). apply contig_inv.
Qed.

Theorem from_data_inv m k shape n sh st :
  from_data m k shape n = Accept sh st ->
  sh = shape /\ st = contig_strides shape /\ n = nprod shape /\ n < two64 /\ Inv sh st n.
Proof.
  unfold from_data. intros H. apply (try_from_data_inv m k).
  destruct (try_from_data m k shape n); cbn [err_to_panic] in H; try discriminate. exact H.
Qed.

Lemma contig_strides_length shape : length (contig_strides shape) = length shape.
Proof. induction shape; cbn [contig_strides length]; congruence. Qed.

(* a contiguous layout never aliases *)
Theorem contig_injective shape : Injective shape (contig_strides shape).
Proof.
  destruct (has_zero_dim shape) eqn:Z.
  - intros i j Hi. exfalso. exact (has_zero_true_no_index _ _ Z Hi).
  - apply injective_Injective; [rewrite contig_strides_length; lia|].
    pose proof (has_zero_false_Forall _ Z) as Hnz.
    apply contiguous_injective; [apply combine_nz; exact Hnz|].
    unfold is_contiguous.
    assert (H : forall sh, Forall (fun s => s <> 0) sh -> forall tl,
               contig_aux false (rev (combine (contig_strides sh) sh) ++ tl) 1 =
               contig_aux false tl (nprod sh)).
    { induction 1 as [|d r Hd Hr IH]; intros tl; [reflexivity|].
      cbn [contig_strides combine rev]. rewrite <- app_assoc. rewrite IH. cbn [app contig_aux wr].
      unfold d_size, d_stride; cbn [fst snd]. rewrite N.eqb_refl.
      destruct (d =? 1) eqn:E1.
      - apply N.eqb_eq in E1. subst d. cbn [nprod]. rewrite N.mul_1_l. reflexivity.
      - cbn [nprod]. rewrite (N.mul_comm (nprod r) d). reflexivity. }
    specialize (H _ Hnz []). rewrite app_nil_r in H. etransitivity; [exact H|reflexivity].
Qed.

(* ------------------------------------------------------------ checked indexing *)
Lemma nd_valid_iff : forall idx shape, nd_valid idx shape = true <-> Forall2 N.lt idx shape.
Proof.
  induction idx as [|i ir IH]; intros [|s sr]; cbn [nd_valid]; split; intros H;
    try discriminate; try constructor; try (inversion H; fail).
  - apply andb_true_iff in H as [H _]. apply N.ltb_lt. exact H.
  - apply andb_true_iff in H as [_ H]. apply IH. exact H.
  - inversion H; subst. apply andb_true_iff. split; [apply N.ltb_lt; assumption|apply IH; assumption].
Qed.

Lemma offset_acc_m_exact m : forall idx strides acc, acc + dot idx strides < two64 ->
  offset_acc_m m idx strides acc = Val (acc + dot idx strides).
Proof.
  induction idx as [|i ir IH]; intros [|s sr] acc Hb; cbn [offset_acc_m dot] in *;
    try (f_equal; lia).
  rewrite mul_m_exact by lia. cbn [bind]. rewrite add_m_exact by lia. cbn [bind].
  rewrite IH by lia. f_equal. lia.
Qed.

Lemma dyn_off_loop_exact m : forall idx shape strides v acc,
  Forall2 N.lt idx shape -> (length shape <= length strides)%nat -> acc + dot idx strides < two64 ->
  dyn_off_loop m idx shape strides v acc = Val (v, acc + dot idx strides).
Proof.
  induction idx as [|i ir IH]; intros shape strides v acc Hv Hl Hb.
  - inversion Hv; subst. cbn [dyn_off_loop dot]. rewrite N.add_0_r. reflexivity.
  - inversion Hv as [|? s ? sr Hi Hr]; subst. destruct strides as [|t tr]; [cbn in Hl; lia|].
    cbn [dyn_off_loop dot] in *. rewrite mul_m_exact by lia. cbn [bind].
    rewrite add_m_exact by lia. cbn [bind].
    rewrite IH; [|exact Hr|cbn in Hl; lia|lia].
    apply N.ltb_lt in Hi. rewrite Hi, andb_true_r. f_equal. f_equal. lia.
Qed.

(* the validity flag computed by the loop: false stays false, and over full-length lists it is
   exactly per-dimension validity *)
Lemma dyn_off_loop_false m : forall idx shape strides acc r,
  dyn_off_loop m idx shape strides false acc = Val r -> fst r = false.
Proof.
  induction idx as [|i ir IH]; intros [|s sr] [|t tr] acc r H; cbn [dyn_off_loop] in H;
    try (inversion H; reflexivity).
  destruct (mul_m m i t) as [p|]; [|discriminate]. cbn [bind] in H.
  destruct (add_m m acc p) as [a|]; [|discriminate]. cbn [bind andb] in H. eauto.
Qed.

Lemma dyn_off_loop_flag m : forall idx shape strides v acc r,
  length idx = length shape -> (length shape <= length strides)%nat ->
  dyn_off_loop m idx shape strides v acc = Val r -> fst r = v && nd_valid idx shape.
Proof.
  induction idx as [|i ir IH]; intros [|s sr] strides v acc r Hl Hs H; try discriminate.
  - destruct strides; cbn [dyn_off_loop] in H; inversion H; cbn [fst nd_valid]; rewrite andb_true_r; reflexivity.
  - destruct strides as [|t tr]; [cbn in Hs; lia|]. cbn [dyn_off_loop] in H.
    destruct (mul_m m i t) as [p|]; [|discriminate]. cbn [bind] in H.
    destruct (add_m m acc p) as [a|]; [|discriminate]. cbn [bind] in H.
    apply IH in H; [|cbn in Hl; lia|cbn in Hs; lia]. rewrite H. cbn [nd_valid].
    rewrite andb_assoc. reflexivity.
Qed.

Lemma dyn_off_loop_release : forall idx shape strides v acc,
  exists r, dyn_off_loop Release idx shape strides v acc = Val r.
Proof.
  induction idx as [|i ir IH]; intros [|s sr] [|t tr] v acc; cbn [dyn_off_loop]; try (eexists; reflexivity).
  cbn [mul_m add_m bind]. apply IH.
Qed.

Theorem index_checked m k shape strides n idx :
  Inv shape strides n -> n <= two64 -> (length shape <= length strides)%nat ->
  (Forall2 N.lt idx shape ->
     offset_k m k shape strides idx = Val (Some (dot idx strides)) /\ dot idx strides < n) /\
  (~ Forall2 N.lt idx shape ->
     offset_k m k shape strides idx = Val None \/
     (m = Debug /\ k = KDyn /\ offset_k m k shape strides idx = Ovf)).
Proof.
  intros HI Hn Hl. split.
  - intros Hv. pose proof (HI _ Hv) as Hlt. split; [|exact Hlt].
    destruct k; cbn [offset_k].
    + unfold offset_nd. apply nd_valid_iff in Hv. rewrite Hv.
      rewrite offset_acc_m_exact by lia. cbn [bind]. rewrite N.add_0_l. reflexivity.
    + unfold offset_dyn. rewrite (Forall2_len _ _ _ Hv), Nat.eqb_refl.
      rewrite dyn_off_loop_exact by (try assumption; lia). cbn [bind fst snd].
      rewrite N.add_0_l. reflexivity.
  - intros Hnv. destruct k; cbn [offset_k].
    + left. unfold offset_nd. destruct (nd_valid idx shape) eqn:E; [|reflexivity].
      apply nd_valid_iff in E. contradiction.
    + unfold offset_dyn.
      destruct (dyn_off_loop m idx shape strides (Nat.eqb (length idx) (length shape)) 0) as [r|] eqn:E.
      * left. cbn [bind]. replace (fst r) with false; [reflexivity|]. symmetry.
        destruct (Nat.eqb (length idx) (length shape)) eqn:El.
        -- apply Nat.eqb_eq in El. rewrite (dyn_off_loop_flag _ _ _ _ _ _ _ El Hl E). cbn [andb].
           destruct (nd_valid idx shape) eqn:Ev; [|reflexivity]. apply nd_valid_iff in Ev. contradiction.
        -- exact (dyn_off_loop_false _ _ _ _ _ _ E).
      * right. destruct m.
        -- destruct (dyn_off_loop_release idx shape strides (Nat.eqb (length idx) (length shape)) 0) as [r Hr].
           congruence.
        -- repeat split; reflexivity.
Qed.

(* get / get_mut / Index / IndexMut: an offset is only ever produced for a valid index and is
   then the true offset, below the storage length *)
Corollary index_some_in_bounds m k shape strides n idx o :
  Inv shape strides n -> n <= two64 -> (length shape <= length strides)%nat ->
  offset_k m k shape strides idx = Val (Some o) ->
  Forall2 N.lt idx shape /\ o = dot idx strides /\ o < n.
Proof.
  intros HI Hn Hl H.
  destruct (index_checked m k shape strides n idx HI Hn Hl) as [Hv Hnv].
  destruct (nd_valid idx shape) eqn:E.
  - apply nd_valid_iff in E. destruct (Hv E) as [E1 E2]. rewrite E1 in H. inversion H; subst. auto.
  - assert (Hn' : ~ Forall2 N.lt idx shape) by (intros C; apply nd_valid_iff in C; congruence).
    destruct (Hnv Hn') as [E1|(_ & _ & E1)]; rewrite E1 in H; discriminate.
Qed.

Theorem weak_index_in_bounds m strides idx n o : weak_index m strides idx n = OffSome o -> o < n.
Proof.
  unfold weak_index. destruct (offset_acc_m m idx strides 0) as [x|]; [|discriminate].
  destruct (x <? n) eqn:E; [|discriminate]. intros H. inversion H; subst. apply N.ltb_lt. exact E.
Qed.

(* ------------------------------------------------------------ Inv under simple layout changes *)
Lemma inv_b_dims sh st n : (length sh <= length st)%nat ->
  inv_b sh st n = existsb (fun d => d_size d =? 0) (combine st sh) || (max_off (combine st sh) + 1 <=? n).
Proof.
  intros Hl. unfold inv_b. f_equal. revert st Hl.
  induction sh as [|s r IH]; intros [|t tr] Hl; cbn in Hl; try lia; try reflexivity.
  cbn [has_zero_dim existsb combine]. unfold is_zero, d_size; cbn [snd]. f_equal.
  apply IH. lia.
Qed.

Theorem inv_permute sh st sh' st' n :
  length sh = length st -> length sh' = length st' ->
  Permutation (combine st sh) (combine st' sh') -> Inv sh st n -> Inv sh' st' n.
Proof.
  intros L1 L2 P H. apply inv_b_iff. apply inv_b_iff in H.
  rewrite inv_b_dims in * by lia.
  pose proof (has_zero_perm _ _ P) as Hz. unfold has_zero in Hz.
  rewrite <- Hz. rewrite <- (max_off_perm _ _ P). exact H.
Qed.

(* shrinking dimensions (slice from the start, clip_dim, the left half of split) *)
Theorem inv_shrink sh sh' st n : Forall2 N.le sh' sh -> Inv sh st n -> Inv sh' st n.
Proof.
  intros Hle H idx Hv. apply H. clear H.
  revert sh Hle. induction Hv as [|i s' ir sr' Hi Hr IH]; intros sh Hle; inversion Hle; subst; constructor.
  - lia.
  - apply IH. assumption.
Qed.

(* a larger storage keeps the promise (views of a prefix, Vec capacity growth) *)
Theorem inv_mono sh st n n' : n <= n' -> Inv sh st n -> Inv sh st n'.
Proof. intros Hn H idx Hv. specialize (H idx Hv). lia. Qed.

(* ------------------------------------------------------------ oracle reflection (injectivity) *)
Lemma valid_combine_inv : forall shape strides idx, (length shape <= length strides)%nat ->
  valid (combine strides shape) idx -> Forall2 N.lt idx shape.
Proof.
  induction shape as [|s sr IH]; intros strides idx Hl H.
  - destruct strides; cbn [combine] in H; apply valid_nil_inv in H; subst; constructor.
  - destruct strides as [|t tr]; [cbn in Hl; lia|]. cbn [combine] in H.
    apply valid_cons_inv in H as (i0 & ir & -> & Hi & Hr). unfold d_size in Hi; cbn [snd] in Hi.
    constructor; [exact Hi|]. apply (IH tr); [cbn in Hl; lia|exact Hr].
Qed.

Lemma Injective_injective shape strides : (length shape <= length strides)%nat ->
  Injective shape strides -> injective (combine strides shape).
Proof.
  intros Hl H i j Hi Hj He.
  apply valid_combine_inv in Hi; [|exact Hl]. apply valid_combine_inv in Hj; [|exact Hl].
  pose proof (Forall2_len _ _ _ Hi) as Li. pose proof (Forall2_len _ _ _ Hj) as Lj.
  rewrite !offset_combine_le in He by assumption. apply H; assumption.
Qed.

Lemma oracle_injective shape strides : (length shape <= length strides)%nat ->
  Injective shape strides -> injective_b (combine strides shape) = true.
Proof. intros Hl H. apply injective_b_complete, Injective_injective; assumption. Qed.

Lemma not_inv_witness sh st n idx : Forall2 N.lt idx sh -> n <= dot idx st -> ~ Inv sh st n.
Proof. intros Hv Hle H. specialize (H idx Hv). lia. Qed.

(* ------------------------------------------------------------ get_array / set_array *)
Fixpoint bump (idx : list N) (dim : nat) (i : N) : list N :=
  match idx, dim with
  | [], _ => []
  | b :: r, O => (b + i) :: r
  | b :: r, S d => b :: bump r d i
  end.

Lemma bump_valid : forall idx sh dim i b sz, Forall2 N.lt idx sh ->
  nth_error idx dim = Some b -> nth_error sh dim = Some sz -> b + i < sz ->
  Forall2 N.lt (bump idx dim i) sh.
Proof.
  induction idx as [|x r IH]; intros sh dim i b sz Hv Hb Hs Hlt.
  - destruct dim; discriminate.
  - inversion Hv as [|? s ? sr Hx Hr]; subst. destruct dim as [|d]; cbn [bump nth_error] in *.
    + inversion Hb; inversion Hs; subst. constructor; assumption.
    + constructor; [assumption|]. eapply IH; eassumption.
Qed.

Lemma bump_dot : forall idx st dim i b s,
  nth_error idx dim = Some b -> nth_error st dim = Some s ->
  dot (bump idx dim i) st = dot idx st + i * s.
Proof.
  induction idx as [|x r IH]; intros st dim i b s Hb Hs.
  - destruct dim; discriminate.
  - destruct st as [|t tr]; [destruct dim; discriminate|].
    destruct dim as [|d]; cbn [bump nth_error dot] in *.
    + inversion Hs; subst. lia.
    + rewrite (IH tr d i b s Hb Hs). lia.
Qed.

Lemma arr_loop_bound m off stride n : n <= two64 -> forall count i,
  (forall j, i <= j < i + N.of_nat count -> off + j * stride < n) ->
  exists l, arr_loop m off stride count i = Val l /\ Forall (fun o => o < n) l /\ length l = count.
Proof.
  intros Hn. induction count as [|c IH]; intros i H.
  - exists []. repeat split. constructor.
  - assert (Hi : off + i * stride < n) by (apply H; lia).
    destruct (IH (i + 1)) as (l & El & Fl & Ll); [intros j Hj; apply H; lia|].
    exists ((off + i * stride) :: l). cbn [arr_loop].
    rewrite mul_m_exact by lia. cbn [bind]. rewrite add_m_exact by lia. cbn [bind].
    rewrite El. cbn [bind]. repeat split; [constructor; assumption|cbn [length]; lia].
Qed.

Theorem array_offsets_in_bounds m shape strides n base dim M :
  Inv shape strides n -> n <= two64 -> length shape = length strides ->
  match array_offsets m shape strides base dim M with
  | OffList l => Forall (fun o => o < n) l /\ length l = M
  | PanicOverflow => False
  | _ => True
  end.
Proof.
  intros HI Hn Hl. unfold array_offsets.
  destruct (nth_error base dim) as [b|] eqn:Eb; [|exact I].
  destruct (nth_error shape dim) as [sz|] eqn:Es; [|exact I].
  destruct (nth_error strides dim) as [st|] eqn:Et; [|exact I].
  destruct ((b <? u64_max - N.of_nat M) && (b + N.of_nat M <=? sz)) eqn:C; [|exact I].
  apply andb_true_iff in C as [_ C]. apply N.leb_le in C.
  destruct (index_checked m KNd shape strides n base HI Hn ltac:(lia)) as [Hv Hnv].
  cbn [offset_k] in Hv, Hnv.
  destruct (nd_valid base shape) eqn:V.
  - apply nd_valid_iff in V. destruct (Hv V) as [E Hlt]. rewrite E.
    destruct (arr_loop_bound m (dot base strides) st n Hn M 0) as (l & El & Fl & Ll).
    + intros j Hj. rewrite <- (bump_dot base strides dim j b st Eb Et).
      apply HI. eapply bump_valid; try eassumption. lia.
    + rewrite El. cbn [bind lift]. split; assumption.
  - assert (Hn' : ~ Forall2 N.lt base shape) by (intros X; apply nd_valid_iff in X; congruence).
    destruct (Hnv Hn') as [E|(_ & Ek & _)]; [rewrite E; exact I|discriminate].
Qed.
