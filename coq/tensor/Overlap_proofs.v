From RV Require Import Prelude.
From Tensor Require Import Overlap.
From Coq Require Import Permutation.
Open Scope N_scope.

(* ------------------------------------------------------------------ basics *)
Lemma valid_nil_inv i : valid [] i -> i = [].
Proof. intros H; inversion H; reflexivity. Qed.

Lemma valid_cons_inv d r i : valid (d :: r) i ->
  exists i0 ir, i = i0 :: ir /\ i0 < d_size d /\ valid r ir.
Proof. intros H; inversion H; subst; eauto. Qed.

Lemma valid_cons d r i0 ir : i0 < d_size d -> valid r ir -> valid (d :: r) (i0 :: ir).
Proof. intros; constructor; assumption. Qed.

Lemma offset_le_max dims : forall i, valid dims i -> offset dims i <= max_off dims.
Proof.
  induction dims as [|d r IH]; intros i Hv.
  - apply valid_nil_inv in Hv; subst; cbn; lia.
  - apply valid_cons_inv in Hv as (i0 & ir & -> & Hi & Hr).
    cbn [offset max_off]. specialize (IH _ Hr). nia.
Qed.

(* ------------------------------------------------------ the stepping check *)
(* If every stride steps over everything reachable so far, the offset map is injective,
   even when started from two different base offsets a, b <= m. *)
Lemma loop_core : forall ss m, overlap_loop false ss m = false ->
  forall a b i j, a <= m -> b <= m -> valid ss i -> valid ss j ->
    a + offset ss i = b + offset ss j -> a = b /\ i = j.
Proof.
  induction ss as [|d r IH]; intros m Hl a b i j Ha Hb Hi Hj He.
  - apply valid_nil_inv in Hi, Hj; subst; cbn in He; split; [lia|reflexivity].
  - apply valid_cons_inv in Hi as (i0 & ir & -> & Hi0 & Hir).
    apply valid_cons_inv in Hj as (j0 & jr & -> & Hj0 & Hjr).
    cbn [overlap_loop wr] in Hl.
    destruct (d_stride d <=? m) eqn:Hs; [discriminate|].
    apply N.leb_gt in Hs.
    cbn [offset] in He.
    specialize (IH _ Hl (a + i0 * d_stride d) (b + j0 * d_stride d) ir jr).
    destruct IH as [E1 E2]; try assumption; try nia.
    subst jr.
    assert (i0 = j0) by nia. subst j0.
    split; [lia|reflexivity].
Qed.

Lemma loop_injective ss : overlap_loop false ss 0 = false -> injective ss.
Proof.
  intros Hl i j Hi Hj He.
  destruct (loop_core ss 0 Hl 0 0 i j) as [_ E]; try assumption; try lia.
Qed.

(* ---------------------------------------- transport along permutations *)
Definition transports (l l' : list dim) : Prop :=
  forall i' j', valid l' i' -> valid l' j' ->
    exists i j, valid l i /\ valid l j /\ offset l i = offset l' i' /\ offset l j = offset l' j'
                /\ (i = j -> i' = j').

Lemma perm_transports l l' : Permutation l l' -> transports l l'.
Proof.
  induction 1 as [|x l l' HP IH|x y l|l l' l'' HP1 IH1 HP2 IH2]; intros i' j' Hi Hj.
  - exists i', j'. repeat split; auto.
  - apply valid_cons_inv in Hi as (a & ir & -> & Ha & Hir).
    apply valid_cons_inv in Hj as (b & jr & -> & Hb & Hjr).
    destruct (IH ir jr Hir Hjr) as (i & j & Vi & Vj & Oi & Oj & Imp).
    exists (a :: i), (b :: j). repeat split; try (apply valid_cons; assumption).
    + cbn [offset]; lia.
    + cbn [offset]; lia.
    + intros E; inversion E; subst. f_equal. auto.
  - apply valid_cons_inv in Hi as (a & ir & -> & Ha & Hir).
    apply valid_cons_inv in Hir as (a2 & ir2 & -> & Ha2 & Hir2).
    apply valid_cons_inv in Hj as (b & jr & -> & Hb & Hjr).
    apply valid_cons_inv in Hjr as (b2 & jr2 & -> & Hb2 & Hjr2).
    exists (a2 :: a :: ir2), (b2 :: b :: jr2).
    repeat split; try (repeat apply valid_cons; assumption).
    + cbn [offset]; lia.
    + cbn [offset]; lia.
    + intros E; inversion E; subst; reflexivity.
  - destruct (IH2 i' j' Hi Hj) as (i1 & j1 & Vi1 & Vj1 & Oi1 & Oj1 & Imp1).
    destruct (IH1 i1 j1 Vi1 Vj1) as (i & j & Vi & Vj & Oi & Oj & Imp).
    exists i, j. repeat split; try assumption; try congruence. auto.
Qed.

Lemma transports_injective l l' : transports l l' -> injective l -> injective l'.
Proof.
  intros T Inj i' j' Hi Hj He.
  destruct (T i' j' Hi Hj) as (i & j & Vi & Vj & Oi & Oj & Imp).
  apply Imp, Inj; try assumption. congruence.
Qed.

(* size-1 dimensions only admit index 0 and contribute nothing *)
Lemma filter_transports l : transports (filter non_unit l) l.
Proof.
  induction l as [|d r IH]; intros i' j' Hi Hj.
  - exists i', j'. cbn. repeat split; auto.
  - apply valid_cons_inv in Hi as (a & ir & -> & Ha & Hir).
    apply valid_cons_inv in Hj as (b & jr & -> & Hb & Hjr).
    destruct (IH ir jr Hir Hjr) as (i & j & Vi & Vj & Oi & Oj & Imp).
    assert (Hnu : non_unit d = negb (d_size d =? 1)) by reflexivity.
    cbn [filter]. rewrite Hnu. destruct (d_size d =? 1) eqn:E1; cbn [negb].
    + apply N.eqb_eq in E1. assert (a = 0) by lia. assert (b = 0) by lia. subst a b.
      exists i, j. split; [assumption|]. split; [assumption|].
      split; [cbn [offset]; lia|]. split; [cbn [offset]; lia|].
      intros E; f_equal; auto.
    + exists (a :: i), (b :: j).
      split; [apply valid_cons; assumption|]. split; [apply valid_cons; assumption|].
      split; [cbn [offset]; lia|]. split; [cbn [offset]; lia|].
      intros E; inversion E; subst; f_equal; auto.
Qed.

(* ------------------------------------------------------------- sorting *)
Lemma insert_perm d l : Permutation (insert d l) (d :: l).
Proof.
  induction l as [|x r IH]; cbn [insert]; [reflexivity|].
  destruct (dim_leb d x); [reflexivity|].
  rewrite IH. apply perm_swap.
Qed.

Lemma isort_perm l : Permutation (isort l) l.
Proof.
  induction l as [|d r IH]; cbn [isort]; [reflexivity|].
  rewrite insert_perm. constructor. exact IH.
Qed.

(* ------------------------------------------------ the contiguous fast path *)
(* On the reversed (innermost-first) list, a passing contiguity test from product p
   means the stepping check passes from max_offset p - 1 on the non-unit dimensions. *)
Lemma contig_loop : forall rd p, 1 <= p ->
  Forall (fun d => d_size d <> 0) rd ->
  contig_aux false rd p = true -> overlap_loop false (filter non_unit rd) (p - 1) = false.
Proof.
  induction rd as [|d r IH]; intros p Hp Hnz Hc; [reflexivity|].
  inversion Hnz as [|? ? Hd Hr]; subst.
  assert (Hnu : non_unit d = negb (d_size d =? 1)) by reflexivity.
  cbn [contig_aux wr] in Hc. cbn [filter]. rewrite Hnu.
  destruct (d_size d =? 1) eqn:E1; cbn [negb].
  - apply IH; assumption.
  - destruct (d_stride d =? p) eqn:E2; [|discriminate].
    apply N.eqb_eq in E2. apply N.eqb_neq in E1.
    cbn [overlap_loop wr].
    destruct (d_stride d <=? p - 1) eqn:E3; [apply N.leb_le in E3; lia|].
    specialize (IH (p * d_size d)).
    replace (p - 1 + (d_size d - 1) * d_stride d) with (p * d_size d - 1) by nia.
    apply IH; try assumption. nia.
Qed.

Lemma existsb_zero_false dims :
  existsb (fun d => d_size d =? 0) dims = false -> Forall (fun d => d_size d <> 0) dims.
Proof.
  induction dims as [|d r IH]; cbn [existsb]; intros H; constructor.
  - apply orb_false_elim in H as [H _]. apply N.eqb_neq in H. exact H.
  - apply IH. apply orb_false_elim in H as [_ H]. exact H.
Qed.

Lemma filter_rev {A} (f : A -> bool) l : filter f (rev l) = rev (filter f l).
Proof.
  induction l as [|x r IH]; [reflexivity|].
  cbn [rev filter]. rewrite filter_app, IH. cbn [filter].
  destruct (f x); cbn [rev]; [reflexivity|apply app_nil_r].
Qed.

Lemma contiguous_injective dims :
  Forall (fun d => d_size d <> 0) dims -> is_contiguous false dims = true -> injective dims.
Proof.
  intros Hnz Hc. unfold is_contiguous in Hc.
  apply contig_loop in Hc; [|lia|apply Forall_rev; exact Hnz].
  change (1 - 1) with 0 in Hc.
  apply loop_injective in Hc.
  rewrite filter_rev in Hc.
  eapply transports_injective; [apply filter_transports|].
  eapply transports_injective; [apply perm_transports, Permutation_sym, Permutation_rev|].
  exact Hc.
Qed.

(* an empty tensor has no valid index at all *)
Lemma zero_size_no_index dims i :
  existsb (fun d => d_size d =? 0) dims = true -> ~ valid dims i.
Proof.
  revert i; induction dims as [|d r IH]; intros i H Hv; [discriminate|].
  apply valid_cons_inv in Hv as (i0 & ir & -> & Hi & Hr).
  cbn [existsb] in H. apply orb_true_iff in H as [H|H].
  - apply N.eqb_eq in H. lia.
  - exact (IH _ H Hr).
Qed.

(* -------------------------------------------------------- main (exact) *)
Theorem may_overlap_sound dims : may_overlap false dims = false -> injective dims.
Proof.
  unfold may_overlap. intros H.
  destruct (existsb (fun d => d_size d =? 0) dims) eqn:Z.
  - intros i j Hi. exfalso. exact (zero_size_no_index _ _ Z Hi).
  - destruct (is_contiguous false dims) eqn:C.
    + apply contiguous_injective; [apply existsb_zero_false; exact Z|exact C].
    + apply loop_injective in H.
      eapply transports_injective; [apply filter_transports|].
      eapply transports_injective; [apply perm_transports, isort_perm|].
      exact H.
Qed.

(* -------------------------------------------- API level: shape / strides *)
Lemma Forall2_len {A B} (R : A -> B -> Prop) l l' : Forall2 R l l' -> length l = length l'.
Proof. induction 1; cbn; congruence. Qed.

Lemma valid_combine : forall shape strides idx, length shape = length strides ->
  Forall2 N.lt idx shape -> valid (combine strides shape) idx.
Proof.
  induction shape as [|s sr IH]; intros strides idx Hl H.
  - inversion H; subst. destruct strides; constructor.
  - destruct strides as [|t tr]; [discriminate|]. inversion H; subst. cbn [combine].
    constructor; [assumption|]. apply IH; [cbn in Hl; lia|assumption].
Qed.

Lemma offset_combine : forall shape strides idx, length shape = length strides ->
  length idx = length shape -> offset (combine strides shape) idx = dot idx strides.
Proof.
  induction shape as [|s sr IH]; intros [|t tr] [|i ir] Hl Hi; cbn in *; try reflexivity; try discriminate.
  rewrite IH by lia. reflexivity.
Qed.

Theorem no_overlap_injective shape strides :
  length shape = length strides ->
  may_have_internal_overlap false shape strides = false ->
  forall i j, Forall2 N.lt i shape -> Forall2 N.lt j shape ->
    dot i strides = dot j strides -> i = j.
Proof.
  intros Hl H i j Hi Hj He.
  apply may_overlap_sound in H.
  pose proof (Forall2_len _ _ _ Hi) as Li. pose proof (Forall2_len _ _ _ Hj) as Lj.
  apply H; try (apply valid_combine; assumption).
  rewrite !offset_combine; try assumption; lia.
Qed.
