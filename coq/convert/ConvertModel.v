From RV Require Import Prelude.
From Convert Require Import ConvertBase Pins.
Open Scope Z_scope.

(* ---- correspondence case: one integer-valued constant through both real paths ----
   c_py / c_rust: what the extracted converter.py code (run under numpy) and the Rust ONNX loader
   produced; floats are handled by the differential part of the check, not here. *)
Record case := { c_dt : dt; c_val : Z; c_py : res; c_rust : res }.

Definition agree (c : case) : bool :=
  res_eqb (py_convert py_arms (c_dt c) (c_val c)) (c_py c)
  && res_eqb (rust_convert (c_dt c) (c_val c)) (c_rust c).

(* the property on the implementations' own answers: when both paths accept the constant they
   produce the same element type and value, and narrowing to i32 saturates *)
Definition prop_ok (c : case) : bool :=
  match c_py c, c_rust c with
  | Val t v, Val t' v' =>
      res_eqb (Val t v) (Val t' v')
      && (match t with RInt32 => v =? (match c_dt c with DBool => (if c_val c =? 0 then 0 else 1) | _ => sat_i32 (c_val c) end) | _ => true end)
  | _, _ => true
  end.

Definition show (c : case) := (py_convert py_arms (c_dt c) (c_val c), rust_convert (c_dt c) (c_val c)).
