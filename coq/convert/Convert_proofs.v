From RV Require Import Prelude.
From Convert Require Import ConvertBase Pins ConvertModel.
Open Scope Z_scope.

Lemma sat_in_range x : i32_min <= x <= i32_max -> sat_i32 x = x.
Proof. unfold sat_i32, i32_min, i32_max. lia. Qed.

Lemma wrap_in_range x : i32_min <= x <= i32_max -> wrap_i32 x = x.
Proof.
  unfold wrap_i32, i32_min, i32_max. intros H.
  rewrite Z.mod_small by lia. lia.
Qed.

Lemma wrap_sat x : wrap_i32 (sat_i32 x) = sat_i32 x.
Proof. apply wrap_in_range. unfold sat_i32, i32_min, i32_max. lia. Qed.

Lemma sat_spec x : i32_min <= sat_i32 x <= i32_max /\
  (x < i32_min -> sat_i32 x = i32_min) /\ (i32_max < x -> sat_i32 x = i32_max) /\
  (i32_min <= x <= i32_max -> sat_i32 x = x).
Proof. unfold sat_i32, i32_min, i32_max. lia. Qed.

(* For every integer-valued dtype that both paths accept, the converter (as its code reads NOW:
   [py_arms] is regenerated from converter.py) and the Rust ONNX loader produce the same element
   type and the same value, for every value of the dtype's range. *)
Theorem narrowing_agrees d x :
  in_range d x ->
  accepted (py_convert py_arms d x) = true -> accepted (rust_convert d x) = true ->
  py_convert py_arms d x = rust_convert d x.
Proof.
  unfold in_range. destruct d; cbn [int_range]; try (intros []; fail);
    unfold py_convert, rust_convert; cbv [lookup find py_arms dt_eqb fst native py_apply];
    cbn [accepted]; intros R A B; try discriminate; try reflexivity.
  all: rewrite ?wrap_sat; try reflexivity.
  all: try (rewrite wrap_in_range by (unfold i32_min, i32_max in *; lia); try reflexivity).
  - (* bool *) assert (x = 0 \/ x = 1) as [->| ->] by lia; reflexivity.
Qed.

(* narrowing to i32 saturates in the converter path *)
Theorem py_narrowing_saturates d x t v :
  in_range d x -> py_convert py_arms d x = Val t v -> t = RInt32 -> d <> DBool ->
  v = sat_i32 x.
Proof.
  unfold in_range. destruct d; cbn [int_range]; try (intros []; fail);
    unfold py_convert; cbv [lookup find py_arms dt_eqb fst native py_apply];
    intros R E T NB; try discriminate; inversion E; subst; try discriminate; try congruence.
  all: rewrite ?wrap_sat; try reflexivity.
  all: rewrite ?wrap_in_range by (unfold i32_min, i32_max in *; lia).
  all: symmetry; apply sat_in_range; unfold i32_min, i32_max in *; lia.
Qed.

Theorem rust_narrowing_saturates d x v :
  in_range d x -> rust_convert d x = Val RInt32 v -> d <> DBool -> v = sat_i32 x.
Proof.
  unfold in_range. destruct d; cbn [int_range]; try (intros []; fail);
    unfold rust_convert; intros R E NB; inversion E; subst; try congruence; try reflexivity.
  symmetry; apply sat_in_range; exact R.
Qed.

(* reflection: a case on which model and implementations agree satisfies the property oracle *)
Theorem agree_in_range_prop_ok c :
  in_range (c_dt c) (c_val c) -> agree c = true -> prop_ok c = true.
Proof.
  intros R A. unfold agree in A. apply andb_true_iff in A as [A1 A2].
  unfold prop_ok.
  destruct (c_py c) as [t v|] eqn:Ep; [|reflexivity].
  destruct (c_rust c) as [t' v'|] eqn:Er; [|reflexivity].
  assert (P : py_convert py_arms (c_dt c) (c_val c) = Val t v).
  { destruct (py_convert py_arms (c_dt c) (c_val c)) as [a b|]; cbn in A1; [|discriminate].
    apply andb_true_iff in A1 as [T V]. apply Z.eqb_eq in V. subst b.
    destruct a, t; try discriminate; reflexivity. }
  assert (Q : rust_convert (c_dt c) (c_val c) = Val t' v').
  { destruct (rust_convert (c_dt c) (c_val c)) as [a b|]; cbn in A2; [|discriminate].
    apply andb_true_iff in A2 as [T V]. apply Z.eqb_eq in V. subst b.
    destruct a, t'; try discriminate; reflexivity. }
  pose proof (narrowing_agrees (c_dt c) (c_val c) R) as N.
  rewrite P, Q in N. specialize (N eq_refl eq_refl). inversion N; subst t' v'.
  apply andb_true_iff. split.
  - cbn [res_eqb]. rewrite Z.eqb_refl. destruct t; reflexivity.
  - destruct t; try reflexivity.
    destruct (c_dt c) eqn:D;
      try (apply Z.eqb_eq; apply (rust_narrowing_saturates _ _ _ R Q); discriminate).
    (* bool *)
    cbn [rust_convert] in Q. inversion Q. apply Z.eqb_refl.
Qed.
