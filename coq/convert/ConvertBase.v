(* C20: constant narrowing in the two load paths.
   [pyop]: the numpy operations that rten-convert's converter.py applies to a constant; the table
   of operations per dtype is REGENERATED from converter.py on every run (Pins.v, written by
   checks/C20.py with Python's ast module). *)
From RV Require Import Prelude.
From Coq Require Import String.
Open Scope Z_scope.

Inductive pyop := PAstypeI32 | PAstypeF32 | PClipI32 | PRaise.

(* what the value is before narrowing *)
Inductive dt :=
| DFloat32 | DInt8 | DInt32 | DUInt8 | DBool | DInt16 | DUInt16 | DInt64 | DFloat16 | DFloat64
| DUInt32 | DUInt64 | DBFloat16
| AValueInt | AValueInts | AValueFloat | AValueFloats.   (* Constant-op attributes *)

Definition dt_eqb (a b : dt) : bool :=
  match a, b with
  | DFloat32, DFloat32 | DInt8, DInt8 | DInt32, DInt32 | DUInt8, DUInt8 | DBool, DBool
  | DInt16, DInt16 | DUInt16, DUInt16 | DInt64, DInt64 | DFloat16, DFloat16 | DFloat64, DFloat64
  | DUInt32, DUInt32 | DUInt64, DUInt64 | DBFloat16, DBFloat16
  | AValueInt, AValueInt | AValueInts, AValueInts | AValueFloat, AValueFloat
  | AValueFloats, AValueFloats => true
  | _, _ => false
  end.

(* integer-valued dtypes and the range of values a constant of that dtype can hold
   (attributes are int64 in ONNX) *)
Definition int_range (d : dt) : option (Z * Z) :=
  match d with
  | DInt8 => Some (-128, 127)
  | DUInt8 => Some (0, 255)
  | DInt16 => Some (-32768, 32767)
  | DUInt16 => Some (0, 65535)
  | DInt32 => Some (i32_min, i32_max)
  | DBool => Some (0, 1)
  | DInt64 | AValueInt | AValueInts => Some (i64_min, i64_max)
  | DUInt32 => Some (0, 4294967295)
  | DUInt64 => Some (0, 18446744073709551615)
  | _ => None
  end.
Definition in_range (d : dt) (x : Z) : Prop :=
  match int_range d with Some (lo, hi) => lo <= x <= hi | None => False end.

Definition sat_i32 (x : Z) : Z := Z.max i32_min (Z.min i32_max x).
(* numpy `astype(np.int32)` on an integer array: C-style truncation to 32 bits *)
Definition wrap_i32 (x : Z) : Z := (x + 2147483648) mod 4294967296 - 2147483648.

(* result of a conversion of an integer-valued constant: element type + value *)
Inductive rty := RInt8 | RUInt8 | RInt32 | RFloat32.
Inductive res := Val (t : rty) (v : Z) | Rejected.

Definition res_eqb (a b : res) : bool :=
  match a, b with
  | Rejected, Rejected => true
  | Val t v, Val t' v' =>
      (match t, t' with RInt8, RInt8 | RUInt8, RUInt8 | RInt32, RInt32 | RFloat32, RFloat32 => true | _, _ => false end)
      && (v =? v')
  | _, _ => false
  end.

(* the element type a dtype has without any conversion (numpy dtype kept as is) *)
Definition native (d : dt) : option rty :=
  match d with
  | DInt8 => Some RInt8 | DUInt8 => Some RUInt8 | DInt32 => Some RInt32 | DFloat32 => Some RFloat32
  | _ => None
  end.

(* python path on integer-valued constants *)
Fixpoint py_apply (ops : list pyop) (t : option rty) (v : Z) : res :=
  match ops with
  | [] => match t with Some t => Val t v | None => Rejected end
  | PClipI32 :: r => py_apply r t (sat_i32 v)        (* ndarray.clip keeps the dtype *)
  | PAstypeI32 :: r => py_apply r (Some RInt32) (wrap_i32 v)
  | PAstypeF32 :: r => Rejected                       (* not an integer conversion *)
  | PRaise :: _ => Rejected
  end.

Definition lookup (arms : list (dt * list pyop)) (d : dt) : list pyop :=
  match find (fun p => dt_eqb (fst p) d) arms with Some (_, ops) => ops | None => [PRaise] end.

Definition py_convert (arms : list (dt * list pyop)) (d : dt) (v : Z) : res :=
  py_apply (lookup arms d) (native d) v.

(* rust path (src/model/onnx_loader.rs: load_constant, load_constant_from_constant_op) *)
Definition rust_convert (d : dt) (v : Z) : res :=
  match d with
  | DInt8 => Val RInt8 v
  | DUInt8 => Val RUInt8 v
  | DInt32 => Val RInt32 v
  | DInt64 | AValueInt | AValueInts => Val RInt32 (sat_i32 v)   (* saturating_cast_i64_to_i32 *)
  | DBool => Val RInt32 (if v =? 0 then 0 else 1)
  | _ => Rejected                                                (* "unsupported data type" *)
  end.

Definition accepted (r : res) : bool := match r with Val _ _ => true | Rejected => false end.
