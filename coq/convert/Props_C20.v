(* C20 -- A model converted to .rten behaves like the ONNX original: the constant-narrowing
   sentence ("integer and boolean constants narrowed to i32 saturate ... identically in both
   paths").  [py_arms] is regenerated from rten-convert/rten_convert/converter.py on every run. *)
From RV Require Import Prelude.
From Convert Require Import ConvertBase Pins ConvertModel Convert_proofs.
Open Scope Z_scope.

Theorem C20_int_narrowing_agrees : forall d x,
  in_range d x ->
  accepted (py_convert py_arms d x) = true -> accepted (rust_convert d x) = true ->
  py_convert py_arms d x = rust_convert d x.
Proof. exact narrowing_agrees. Qed.

Theorem C20_py_narrowing_saturates : forall d x t v,
  in_range d x -> py_convert py_arms d x = Val t v -> t = RInt32 -> d <> DBool -> v = sat_i32 x.
Proof. exact py_narrowing_saturates. Qed.

Theorem C20_rust_narrowing_saturates : forall d x v,
  in_range d x -> rust_convert d x = Val RInt32 v -> d <> DBool -> v = sat_i32 x.
Proof. exact rust_narrowing_saturates. Qed.

Theorem C20_saturate_spec : forall x, i32_min <= sat_i32 x <= i32_max /\
  (x < i32_min -> sat_i32 x = i32_min) /\ (i32_max < x -> sat_i32 x = i32_max) /\
  (i32_min <= x <= i32_max -> sat_i32 x = x).
Proof. exact sat_spec. Qed.

Theorem C20_oracle_reflects : forall c,
  in_range (c_dt c) (c_val c) -> agree c = true -> prop_ok c = true.
Proof. exact agree_in_range_prop_ok. Qed.

(* non-vacuity: the ONNX "slice to the end" sentinel survives both paths as i32::MAX *)
Example C20_nonvacuous :
  py_convert py_arms DInt64 i64_max = Val RInt32 i32_max /\
  rust_convert DInt64 i64_max = Val RInt32 i32_max /\
  accepted (py_convert py_arms AValueInts i64_max) = true.
Proof. repeat split; vm_compute; reflexivity. Qed.
