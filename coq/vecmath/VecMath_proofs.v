(* C19 -- method-error proofs (real arithmetic) for the kernels of VecMathReal.v.  All numeric
   facts are discharged by Coq-Interval against the constants of Pins.v, which are re-extracted
   from the Rust source on every run: if a coefficient changes, these proofs are re-checked. *)
From Coq Require Import Reals ZArith List Lra Lia.
From Interval Require Import Tactic.
From VecMath Require Import Pins VecMathReal.
Import ListNotations.
Open Scope R_scope.

Ltac pins := cbv [Qr fst snd
  exp_poly exp_p0 exp_p1 exp_p2 exp_p3 exp_p4 exp_p5 exp_p6 exp_cutoff
  pin_exp_p0 pin_exp_p1 pin_exp_p2 pin_exp_p3 pin_exp_p4 pin_exp_p5 pin_exp_p6 pin_exp_overflow
  log2_hi log2_lo inv_log2 pin_log2_hi pin_log2_lo pin_inv_log2
  tanh_poly tanh_p1 tanh_p3 tanh_p5 tanh_p7 tanh_p9 pin_tanh_p1 pin_tanh_p3 pin_tanh_p5 pin_tanh_p7 pin_tanh_p9
  tanh_tiny tanh_small tanh_cutoff pin_tanh_tiny pin_tanh_small pin_tanh_cutoff
  sin_rat sin_a3 sin_a5 sin_b2 sin_b4 pin_sin_a3 pin_sin_a5 pin_sin_b2 pin_sin_b4
  two_pi_hi two_pi_lo sin_inv_2pi sin_pi sin_half_pi sin_large
  pin_sin_2pi_hi pin_sin_2pi_lo pin_sin_inv_2pi pin_sin_pi pin_sin_half_pi pin_sin_large
  erf_a0 erf_a1 erf_a2 erf_a3 erf_a4 pin_erf_a0 pin_erf_a1 pin_erf_a2 pin_erf_a3 pin_erf_a4].

(* ------------------------------------------------------------------ exp *)
Lemma exp_poly_abs r : Rabs r <= 3466/10000 -> Rabs (exp_poly r - exp r) <= 76/10000000000.
Proof. intros H. pins. interval with (i_taylor r, i_degree 12, i_bisect r, i_prec 60). Qed.

Lemma exp_poly_rel r : Rabs r <= 3466/10000 -> Rabs (exp_poly r - exp r) <= 63/10000000000 * exp r.
Proof.
  intros H.
  assert (H1 : exp_poly r - exp r - 63/10000000000 * exp r <= 0)
    by (pins; interval with (i_taylor r, i_degree 12, i_bisect r, i_prec 60)).
  assert (H2 : 0 <= exp_poly r - exp r + 63/10000000000 * exp r)
    by (pins; interval with (i_taylor r, i_degree 12, i_bisect r, i_prec 60)).
  apply Rabs_le. lra.
Qed.

Lemma ln2_split : Rabs (log2_hi + log2_lo + ln 2) <= 1/10000000000000.
Proof. pins. interval with (i_prec 80). Qed.

Lemma inv_ln2 : Rabs (inv_log2 * ln 2 - 1) <= 14/1000000000.
Proof. pins. interval with (i_prec 80). Qed.

(* k = the integer the rounding-magic trick produces: nearest to x * INV_LOG2 (one rounding with
   FMA; an extra half-ulp of 2^-17 without) *)
Definition near (v j : R) : Prop := Rabs (v - j) <= 50001/100000.

Lemma exp_range_reduction x j :
  Rabs x <= exp_cutoff -> near (x * inv_log2) j -> Rabs (exp_reduce x j) <= 3466/10000.
Proof.
  unfold near. intros Hx Ha. set (a := x * inv_log2 - j) in *.
  replace (exp_reduce x j) with (x * (1 + inv_log2 * (log2_hi + log2_lo)) - a * (log2_hi + log2_lo))
    by (unfold exp_reduce, a; ring).
  revert Hx. pins. intros Hx. interval with (i_prec 80).
Qed.

Lemma exp_j_bound x j : Rabs x <= exp_cutoff -> near (x * inv_log2) j -> Rabs j <= 151.
Proof.
  unfold near. intros Hx Ha. set (a := x * inv_log2 - j) in *.
  replace j with (x * inv_log2 - a) by (unfold a; ring).
  revert Hx. pins. intros Hx. interval with (i_prec 60).
Qed.

Lemma exp_core r t : Rabs r <= 3466/10000 -> Rabs t <= 2/100000000000 ->
  Rabs (exp_poly r - exp r * exp (- t)) <= 64/10000000000 * (exp r * exp (- t)).
Proof.
  intros Hr Ht.
  assert (H1 : exp_poly r - exp r * exp (- t) - 64/10000000000 * (exp r * exp (- t)) <= 0)
    by (pins; interval with (i_taylor r, i_degree 12, i_bisect r, i_prec 60)).
  assert (H2 : 0 <= exp_poly r - exp r * exp (- t) + 64/10000000000 * (exp r * exp (- t)))
    by (pins; interval with (i_taylor r, i_degree 12, i_bisect r, i_prec 60)).
  apply Rabs_le. lra.
Qed.

Lemma powerRZ_2_exp k : powerRZ 2 k = exp (IZR k * ln 2).
Proof. rewrite powerRZ_Rpower by lra. reflexivity. Qed.

(* End to end, in real arithmetic: 2^k * p(r) is within 6.4e-9 * e^x of e^x (about a tenth of an
   f32 ULP) for every input the polynomial path handles *)
Theorem exp_method_error x k :
  Rabs x <= exp_cutoff -> near (x * inv_log2) (IZR k) ->
  Rabs (exp_alg x k - exp x) <= 64/10000000000 * exp x.
Proof.
  intros Hx Hk. unfold exp_alg. set (j := IZR k) in *.
  set (r := exp_reduce x j).
  set (t := j * (log2_hi + log2_lo + ln 2)).
  assert (Hr : Rabs r <= 3466/10000) by (apply exp_range_reduction; assumption).
  assert (Ht : Rabs t <= 2/100000000000).
  { unfold t. rewrite Rabs_mult.
    apply Rle_trans with (151 * (1/10000000000000)); [|lra].
    apply Rmult_le_compat; try apply Rabs_pos; [apply (exp_j_bound x j Hx Hk)|apply ln2_split]. }
  assert (Hx2 : x = j * ln 2 + (r - t)) by (unfold r, t, exp_reduce; ring).
  rewrite powerRZ_2_exp. fold j.
  assert (He : exp x = exp (j * ln 2) * (exp r * exp (- t))).
  { rewrite <- !exp_plus. f_equal. lra. }
  rewrite He.
  rewrite <- Rmult_minus_distr_l, Rabs_mult, (Rabs_pos_eq (exp (j * ln 2))) by (left; apply exp_pos).
  rewrite <- Rmult_assoc, (Rmult_comm (64/10000000000)), Rmult_assoc.
  apply Rmult_le_compat_l; [left; apply exp_pos|]. apply exp_core; assumption.
Qed.

Lemma nonvacuous_exp : Rabs 1 <= exp_cutoff /\ near (1 * inv_log2) (IZR 1).
Proof.
  unfold near. split.
  - cbv [exp_cutoff Qr fst snd pin_exp_overflow]. rewrite Rabs_R1. lra.
  - pins. interval with (i_prec 60).
Qed.

(* ------------------------------------------------------------------ tanh *)
Lemma tanh_exp x : tanh x = (exp x - exp (- x)) / (exp x + exp (- x)).
Proof. unfold tanh, sinh, cosh. field. pose proof (exp_pos x). pose proof (exp_pos (- x)). lra. Qed.

Lemma tanh_poly_rel x :
  tanh_tiny <= x <= tanh_small -> Rabs (tanh_poly x - tanh x) <= 76/1000000000 * tanh x.
Proof.
  intros H. rewrite tanh_exp.
  assert (H1 : tanh_poly x - (exp x - exp (- x)) / (exp x + exp (- x))
               - 76/1000000000 * ((exp x - exp (- x)) / (exp x + exp (- x))) <= 0)
    by (revert H; pins; intros H; interval with (i_taylor x, i_degree 16, i_bisect x, i_prec 80, i_depth 30)).
  assert (H2 : 0 <= tanh_poly x - (exp x - exp (- x)) / (exp x + exp (- x))
               + 76/1000000000 * ((exp x - exp (- x)) / (exp x + exp (- x))))
    by (revert H; pins; intros H; interval with (i_taylor x, i_degree 16, i_bisect x, i_prec 80, i_depth 30)).
  apply Rabs_le. lra.
Qed.

Lemma tanh_tiny_abs x : 0 <= x <= tanh_tiny -> Rabs (x - tanh x) <= 22/1000000000000.
Proof.
  intros H. rewrite tanh_exp. revert H. pins. intros H.
  interval with (i_taylor x, i_degree 10, i_bisect x, i_prec 80).
Qed.

(* beyond the cut-off the correctly rounded result is 1.0: 1 - tanh x < 2^-25 *)
Lemma tanh_saturation x : tanh_cutoff <= x -> 0 <= 1 - tanh x <= 295/10000000000.
Proof.
  intros H. rewrite tanh_exp.
  pose proof (exp_pos x) as Ep. pose proof (exp_pos (- x)) as En.
  assert (Hd : 0 < exp x + exp (- x)) by lra.
  replace (1 - (exp x - exp (- x)) / (exp x + exp (- x))) with (2 * exp (- x) / (exp x + exp (- x))) by (field; lra).
  split.
  - apply Rmult_le_pos; [lra|]. left. apply Rinv_0_lt_compat. exact Hd.
  - apply Rle_trans with (2 * exp (- x) / exp x).
    + unfold Rdiv. apply Rmult_le_compat_l; [lra|]. apply Rinv_le_contravar; lra.
    + replace (2 * exp (- x) / exp x) with (2 * exp (- (2 * x))).
      2:{ replace (- (2 * x)) with (- x + - x) by ring. rewrite exp_plus. rewrite (exp_Ropp x). field. lra. }
      apply Rle_trans with (2 * exp (- (2 * tanh_cutoff))).
      * apply Rmult_le_compat_l; [lra|]. destruct (Req_dec x tanh_cutoff) as [->|Hne]; [lra|].
        left. apply exp_increasing. lra.
      * pins. interval with (i_prec 60).
Qed.

(* ------------------------------------------------------------------ sin / cos *)
Lemma sin_rational x : Rabs x <= 15732/10000 -> Rabs (sin_rat x - sin x) <= 22/1000000000.
Proof. intros H. pins. interval with (i_taylor x, i_degree 14, i_bisect x, i_prec 60). Qed.

Lemma two_pi_split : Rabs (two_pi_hi + two_pi_lo - 2 * PI) <= 11/1000000000000.
Proof. pins. interval with (i_prec 80). Qed.

(* after subtracting k * 2pi (k nearest to x / 2pi) the argument is within [-pi, pi] up to 0.002,
   so that after the two reflections it lies in the range covered by [sin_rational] *)
Lemma sin_range_reduction x k :
  Rabs x <= sin_large -> near (x * sin_inv_2pi) k -> Rabs (sin_reduce x k) <= PI + 2/1000.
Proof.
  unfold near. intros Hx Ha. set (a := x * sin_inv_2pi - k) in *.
  replace (sin_reduce x k) with (x * (1 - sin_inv_2pi * (two_pi_hi + two_pi_lo)) + a * (two_pi_hi + two_pi_lo))
    by (unfold sin_reduce, a; ring).
  revert Hx. pins. intros Hx. interval with (i_prec 80).
Qed.

(* ------------------------------------------------------------------ erf *)
(* Coq has no error function; only: the Abramowitz-Stegun coefficients sum to one, i.e. the
   approximation is 0 at 0 (t = 1, exp(-0) = 1) *)
Lemma erf_coeff_sum : Rabs (erf_a0 + erf_a1 + erf_a2 + erf_a3 + erf_a4 - 1) <= 1/1000000000.
Proof. pins. interval with (i_prec 80). Qed.

(* ------------------------------------------------------------------ softmax *)
Section Softmax.
  Variable ex : R -> R.
  Hypothesis ex_pos : forall x, 0 < ex x.

  Lemma rsum_pos l : l <> [] -> Forall (fun e => 0 < e) l -> 0 < rsum l.
  Proof.
    intros Hne Hf. destruct l as [|a l]; [contradiction|]. clear Hne.
    inversion Hf as [|? ? Ha Hl]; subst. cbn [rsum fold_right].
    assert (H0 : 0 <= rsum l).
    { clear -Hl. induction Hl as [|b l Hb Hl IH]; cbn [rsum fold_right]; [lra|]. unfold rsum in IH. lra. }
    unfold rsum in H0. lra.
  Qed.

  Lemma rsum_map_div s l : rsum (map (fun e => e / s) l) = rsum l / s.
  Proof.
    induction l as [|a l IH]; cbn [map rsum fold_right]; [unfold Rdiv; ring|].
    unfold rsum in IH. rewrite IH. unfold Rdiv. ring.
  Qed.

  Lemma exps_pos m xs : Forall (fun e => 0 < e) (map (fun x => ex (x - m)) xs).
  Proof. induction xs; cbn [map]; constructor; [apply ex_pos|assumption]. Qed.

  Lemma div_pos_all s l : 0 < s -> Forall (fun e => 0 < e) l -> Forall (fun y => 0 < y) (map (fun e => e / s) l).
  Proof.
    intros Hs Hf. induction Hf as [|e l He Hl IH]; cbn [map]; constructor; [|exact IH].
    apply Rdiv_lt_0_compat; assumption.
  Qed.

  Theorem softmax_positive m xs : xs <> [] -> Forall (fun y => 0 < y) (softmax ex m xs).
  Proof.
    intros Hne. unfold softmax.
    set (es := map (fun x => ex (x - m)) xs).
    assert (Hs : 0 < rsum es).
    { apply rsum_pos; [subst es; destruct xs; [contradiction|discriminate]|apply exps_pos]. }
    apply div_pos_all; [exact Hs|apply exps_pos].
  Qed.

  Theorem softmax_sums_to_one m xs : xs <> [] -> rsum (softmax ex m xs) = 1.
  Proof.
    intros Hne. unfold softmax.
    set (es := map (fun x => ex (x - m)) xs).
    assert (Hs : 0 < rsum es).
    { apply rsum_pos; [subst es; destruct xs; [contradiction|discriminate]|apply exps_pos]. }
    rewrite rsum_map_div. field. lra.
  Qed.
End Softmax.

(* subtracting the maximum (or any m) does not change the real-valued result *)
Lemma rsum_scale c l : rsum (map (fun e => e * c) l) = rsum l * c.
Proof. induction l as [|a l IH]; cbn [map rsum fold_right]; [ring|]. unfold rsum in IH. rewrite IH. ring. Qed.

Theorem softmax_shift_invariant m xs : softmax exp m xs = softmax exp 0 xs.
Proof.
  unfold softmax.
  assert (He : map (fun x => exp (x - m)) xs = map (fun e => e * exp (- m)) (map (fun x => exp (x - 0)) xs)).
  { rewrite map_map. apply map_ext. intros x. rewrite <- exp_plus. f_equal. ring. }
  rewrite He. set (es := map (fun x => exp (x - 0)) xs).
  rewrite rsum_scale, map_map. apply map_ext_in. intros e Hin.
  destruct xs as [|x0 xs]; [destruct Hin|].
  assert (Hs : 0 < rsum es).
  { apply rsum_pos; [subst es; discriminate|]. subst es. apply (exps_pos exp exp_pos). }
  pose proof (exp_pos (- m)). field. split; lra.
Qed.
