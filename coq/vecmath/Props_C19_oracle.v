(* C19 -- the executable oracles of VecMathModel.v: what they mean, and the witnesses of the
   recorded known findings (the oracle rejects exactly what was observed on the real code). *)
From RV Require Import Prelude.
From VecMath Require Import VecMathModel.
Open Scope Z_scope.

(* meaning of the ULP oracle on finite results: |a - e| <= (num/den) * ulp(e), computed exactly on
   the integers value * 2^149 *)
Theorem C19_ulp_oracle_meaning :
  forall a e num den, 0 < den ->
  within_ulps a e num den = true <-> Z.abs (fval149 a - fval149 e) * den <= num * fulp149 e.
Proof. intros a e num den _. unfold within_ulps. apply Z.leb_le. Qed.

Theorem C19_abs_oracle_meaning :
  forall a e num den, 0 < den ->
  within_abs a e num den = true <-> Z.abs (fval149 a - fval149 e) * den <= num * 2 ^ 149.
Proof. intros a e num den _. unfold within_abs. apply Z.leb_le. Qed.

(* sanity of the decoding: 1.0, the smallest subnormal, and the spacing just below / above 1.0 *)
Example C19_decode_examples :
  fval149 1065353216 = 2 ^ 149 /\ fval149 1 = 1 /\ fval149 2147483649 = -1
  /\ fulp149 1065353216 = 2 ^ 126 /\ fulp149 1065353215 = 2 ^ 125
  /\ ulp_ok 1065353217 1065353216 1 1 = true /\ ulp_ok 1065353218 1065353216 1 1 = false
  /\ ulp_ok 2143289344 2143289345 1 1 = true /\ ulp_ok 2139095040 2143289344 1 1 = false.
Proof. vm_compute. repeat split. Qed.

(* F54: sin(39355.035) on the generic ISA is 22 ulps (6.6e-7) from the reference: beyond the documented 3e-7 *)
Theorem C19_F54_witness :
  prop_ok (CSpecial 4 0 1 659707 2199023255552 1192868617 3197714729 3197714707) = false.
Proof. vm_compute; reflexivity. Qed.

(* F55: tanh(0.47315452): 4 ULP from glibc's tanhf (rejected), 2 ULP from the correctly rounded value (accepted) *)
Theorem C19_F55_witness :
  prop_ok (CSpecial 2 2 0 3 1 1056063823 1054976328 1054976324) = false
  /\ prop_ok (CSpecial 2 2 0 3 1 1056063823 1054976328 1054976326) = true.
Proof. split; vm_compute; reflexivity. Qed.
