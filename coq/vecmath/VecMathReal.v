(* C19 -- real-valued model of the rten-vecmath kernels over the constants pinned from the Rust
   source (Pins.v is regenerated on every run; every constant is the exact rational value of the
   f32 the literal denotes).  Evaluation order follows the code (Horner), in exact arithmetic. *)
From Coq Require Import Reals ZArith List.
From VecMath Require Import Pins.
Import ListNotations.
Open Scope R_scope.

Definition Qr (p : Z * Z) : R := IZR (fst p) / IZR (snd p).

(* ---- exp.rs ---- *)
Definition inv_log2 := Qr pin_inv_log2.
Definition log2_hi := Qr pin_log2_hi.
Definition log2_lo := Qr pin_log2_lo.
Definition exp_p0 := Qr pin_exp_p0.
Definition exp_p1 := Qr pin_exp_p1.
Definition exp_p2 := Qr pin_exp_p2.
Definition exp_p3 := Qr pin_exp_p3.
Definition exp_p4 := Qr pin_exp_p4.
Definition exp_p5 := Qr pin_exp_p5.
Definition exp_p6 := Qr pin_exp_p6.
Definition exp_cutoff := Qr pin_exp_overflow.
(* tmp = p6; tmp = tmp * r + p5; ... ; r = tmp * r + p0 *)
Definition exp_poly (r : R) : R :=
  (((((exp_p6 * r + exp_p5) * r + exp_p4) * r + exp_p3) * r + exp_p2) * r + exp_p1) * r + exp_p0.
(* r = (x + j * LOG2_HI) + j * LOG2_LO  (the constants are negative: -ln2 split in two) *)
Definition exp_reduce (x j : R) : R := (j * log2_hi + x) + j * log2_lo.
(* the whole algorithm in real arithmetic: 2^k * p(r) with k the integer nearest to x * INV_LOG2 *)
Definition exp_alg (x : R) (k : Z) : R := powerRZ 2 k * exp_poly (exp_reduce x (IZR k)).

(* ---- tanh.rs ---- *)
Definition tanh_p1 := Qr pin_tanh_p1.
Definition tanh_p3 := Qr pin_tanh_p3.
Definition tanh_p5 := Qr pin_tanh_p5.
Definition tanh_p7 := Qr pin_tanh_p7.
Definition tanh_p9 := Qr pin_tanh_p9.
Definition tanh_cutoff := Qr pin_tanh_cutoff.
Definition tanh_tiny := Qr pin_tanh_tiny.
Definition tanh_small := Qr pin_tanh_small.
(* y_small = ((((p9 * x2 + p7) * x2 + p5) * x2 + p3) * x2 + p1) * |x| *)
Definition tanh_poly (x : R) : R :=
  let s := x * x in ((((tanh_p9 * s + tanh_p7) * s + tanh_p5) * s + tanh_p3) * s + tanh_p1) * x.

(* ---- sin_cos.rs ---- *)
Definition sin_pi := Qr pin_sin_pi.
Definition sin_inv_2pi := Qr pin_sin_inv_2pi.
Definition sin_half_pi := Qr pin_sin_half_pi.
Definition sin_large := Qr pin_sin_large.
Definition two_pi_hi := Qr pin_sin_2pi_hi.
Definition two_pi_lo := Qr pin_sin_2pi_lo.
Definition sin_a3 := Qr pin_sin_a3.
Definition sin_a5 := Qr pin_sin_a5.
Definition sin_b2 := Qr pin_sin_b2.
Definition sin_b4 := Qr pin_sin_b4.
(* p = ((x2 * a5 + a3) * x2 + 1) * x;  q = (x2 * b4 + b2) * x2 + 1;  p / q *)
Definition sin_rat (x : R) : R :=
  let s := x * x in (((s * sin_a5 + sin_a3) * s + 1) * x) / ((s * sin_b4 + sin_b2) * s + 1).
(* x_rr = (x - k * two_pi_hi) - k * two_pi_lo *)
Definition sin_reduce (x k : R) : R := (x - k * two_pi_hi) - k * two_pi_lo.

(* ---- erf.rs ---- *)
Definition erf_a0 := Qr pin_erf_a0.
Definition erf_a1 := Qr pin_erf_a1.
Definition erf_a2 := Qr pin_erf_a2.
Definition erf_a3 := Qr pin_erf_a3.
Definition erf_a4 := Qr pin_erf_a4.

(* ---- softmax.rs, over the reals with an arbitrary exponential ---- *)
Definition rsum (l : list R) : R := fold_right Rplus 0 l.
Definition softmax (ex : R -> R) (m : R) (xs : list R) : list R :=
  let es := map (fun x => ex (x - m)) xs in map (fun e => e / rsum es) es.
