(* C19 -- executable part: the accuracy oracles evaluated on what the harness measured.
   Cases carry integers only (f32 bit patterns, counts, bounds as fractions); the distance between
   the implementation's result and the reference is RE-COMPUTED here exactly from the bit patterns.
   The real-valued model (polynomials over the pinned coefficients) is in VecMathReal.v and the
   Interval proofs in VecMath_proofs.v; they are not needed to evaluate cases. *)
From RV Require Import Prelude.
Open Scope Z_scope.

(* ---- f32 bit patterns ---- *)
Definition two31 : Z := 2147483648.
Definition fsign (b : Z) : bool := two31 <=? b.
Definition fmag (b : Z) : Z := if fsign b then b - two31 else b.
Definition fexp (b : Z) : Z := fmag b / 8388608.
Definition fman (b : Z) : Z := fmag b mod 8388608.
Definition fisnan (b : Z) : bool := (fexp b =? 255) && negb (fman b =? 0).
Definition fisinf (b : Z) : bool := (fexp b =? 255) && (fman b =? 0).
Definition ffinite (b : Z) : bool := fexp b <? 255.

(* value * 2^149 as an integer (finite patterns): subnormals m, normals (2^23 + m) * 2^(e-1) *)
Definition fval149 (b : Z) : Z :=
  let m := if fexp b =? 0 then fman b else (8388608 + fman b) * 2 ^ (fexp b - 1) in
  if fsign b then - m else m.
(* unit in the last place of the binade of b, * 2^149; as in rten-vecmath/src/ulp.rs (next_up - x)
   except at zero, where the spacing of the subnormals is used instead of the crate's f32::MIN
   (which makes the crate's own metric accept anything when the reference is zero) *)
Definition fulp149 (b : Z) : Z := if fexp b =? 0 then 1 else 2 ^ (fexp b - 1).

(* |actual - expected| <= (num/den) * ulp(expected): the crate's `diff_ulps <= threshold` *)
Definition within_ulps (a e num den : Z) : bool :=
  Z.abs (fval149 a - fval149 e) * den <=? num * fulp149 e.
(* |actual - expected| <= num/den (absolute tolerance) *)
Definition within_abs (a e num den : Z) : bool :=
  Z.abs (fval149 a - fval149 e) * den <=? num * 2 ^ 149.

(* comparison used by the crate's testing.rs: numerically equal results pass; NaN only matches
   NaN; an infinite reference only matches the same infinity *)
Definition same_class (a e : Z) : bool :=
  if fisnan e then fisnan a
  else if fisinf e then a =? e
  else ffinite a.

Definition ulp_ok (a e num den : Z) : bool :=
  same_class a e && (negb (ffinite e) || (fval149 a =? fval149 e) || within_ulps a e num den).
Definition abs_ok (a e num den : Z) : bool :=
  (fisnan e && fisnan a) || (negb (fisnan e) && negb (fisnan a) &&
     (if fisinf e || fisinf a then a =? e else within_abs a e num den)).

(* one measured worst case of a sweep on one ISA *)
Record worst := { w_isa : N; w_count : N; w_x : Z; w_actual : Z; w_expected : Z }.

Inductive case :=
  (* functions with a documented ULP bound: exp (1), sigmoid (4), tanh (3); bound = num/den *)
| CUlp (fn : N) (num den : Z) (ws : list worst)
  (* functions with a documented absolute bound: erf, sin, cos *)
| CAbs (fn : N) (num den : Z) (ws : list worst)
  (* special values (NaN, +-inf, +-0, extremes): one input, result on one ISA, reference *)
| CSpecial (fn isa : N) (kind : N) (num den : Z) (x a e : Z)
  (* softmax on one ISA: number of outputs that are negative or NaN, sum of outputs * 2^40
     (rounded to nearest), tolerance on the sum = num/den *)
| CSoftmax (isa len : N) (bad : N) (sum40 : Z) (num den : Z).

Definition prop_ok (c : case) : bool :=
  match c with
  | CUlp _ num den ws => forallb (fun w => ulp_ok (w_actual w) (w_expected w) num den) ws
  | CAbs _ num den ws => forallb (fun w => abs_ok (w_actual w) (w_expected w) num den) ws
  | CSpecial _ _ kind num den x a e =>
      match kind with
      | 0%N => ulp_ok a e num den
      | _ => abs_ok a e num den
      end
  | CSoftmax _ len bad sum40 num den =>
      (bad =? 0)%N && ((len =? 0)%N || (Z.abs (sum40 - 2 ^ 40) * den <=? num * 2 ^ 40))
  end.
(* there is no separate executable model of a float kernel: the model-side content is the set of
   Interval theorems over the pinned coefficients *)
Definition agree (c : case) : bool := prop_ok c.
Definition show (c : case) : list Z :=
  match c with
  | CUlp _ num den ws | CAbs _ num den ws =>
      flat_map (fun w => [w_x w; fval149 (w_actual w) - fval149 (w_expected w); fulp149 (w_expected w)]) ws
  | CSpecial _ _ _ _ _ x a e => [x; a; e]
  | CSoftmax _ _ bad s _ _ => [Z.of_N bad; s - 2 ^ 40]
  end.
