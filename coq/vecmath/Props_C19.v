(* C19 -- Vectorized math functions meet their documented accuracy: property statements.
   Everything here is about the METHOD error in real arithmetic of the kernels of VecMathReal.v,
   whose constants (Pins.v) are re-extracted from the Rust source on every run.  The f32 rounding
   error and the distance to std/libm are measured by the harness, not proved (see docs/C19.md). *)
From Coq Require Import Reals ZArith List Lra.
From VecMath Require Import Pins VecMathReal VecMath_proofs.
Import ListNotations.
Open Scope R_scope.

(* ---- exp.rs ---- *)
(* degree-6 polynomial on the reduced range |r| <= 0.3466 (ln2/2 = 0.34657...) *)
Theorem C19_exp_poly_abs : forall r, Rabs r <= 3466/10000 -> Rabs (exp_poly r - exp r) <= 76/10000000000.
Proof. exact exp_poly_abs. Qed.
Theorem C19_exp_poly_rel : forall r, Rabs r <= 3466/10000 -> Rabs (exp_poly r - exp r) <= 63/10000000000 * exp r.
Proof. exact exp_poly_rel. Qed.
(* Cody-Waite split of -ln 2 and the reciprocal used to find k *)
Theorem C19_ln2_split : Rabs (log2_hi + log2_lo + ln 2) <= 1/10000000000000.
Proof. exact ln2_split. Qed.
Theorem C19_inv_ln2 : Rabs (inv_log2 * ln 2 - 1) <= 14/1000000000.
Proof. exact inv_ln2. Qed.
(* for every |x| <= 104 (beyond: the overflow/underflow masks) and k within 0.50001 of x * LOG2_E, the
   reduced argument is in the range where the polynomial bound holds *)
Theorem C19_exp_range_reduction :
  forall x j, Rabs x <= exp_cutoff -> near (x * inv_log2) j -> Rabs (exp_reduce x j) <= 3466/10000.
Proof. exact exp_range_reduction. Qed.
(* the whole algorithm, exact arithmetic: relative error <= 6.4e-9 (an f32 half-ULP is >= 2.98e-8) *)
Theorem C19_exp_method_error :
  forall x k, Rabs x <= exp_cutoff -> near (x * inv_log2) (IZR k) ->
  Rabs (exp_alg x k - exp x) <= 64/10000000000 * exp x.
Proof. exact exp_method_error. Qed.

(* ---- tanh.rs ---- *)
Theorem C19_tanh_poly :
  forall x, tanh_tiny <= x <= tanh_small -> Rabs (tanh_poly x - tanh x) <= 76/1000000000 * tanh x.
Proof. exact tanh_poly_rel. Qed.
Theorem C19_tanh_tiny : forall x, 0 <= x <= tanh_tiny -> Rabs (x - tanh x) <= 22/1000000000000.
Proof. exact tanh_tiny_abs. Qed.
Theorem C19_tanh_saturation : forall x, tanh_cutoff <= x -> 0 <= 1 - tanh x <= 295/10000000000.
Proof. exact tanh_saturation. Qed.

(* ---- sin_cos.rs ---- *)
Theorem C19_sin_rational : forall x, Rabs x <= 15732/10000 -> Rabs (sin_rat x - sin x) <= 22/1000000000.
Proof. exact sin_rational. Qed.
Theorem C19_two_pi_split : Rabs (two_pi_hi + two_pi_lo - 2 * PI) <= 11/1000000000000.
Proof. exact two_pi_split. Qed.
Theorem C19_sin_range_reduction :
  forall x k, Rabs x <= sin_large -> near (x * sin_inv_2pi) k -> Rabs (sin_reduce x k) <= PI + 2/1000.
Proof. exact sin_range_reduction. Qed.

(* ---- erf.rs (no error function in Coq: only the value at zero) ---- *)
Theorem C19_erf_coeff_sum : Rabs (erf_a0 + erf_a1 + erf_a2 + erf_a3 + erf_a4 - 1) <= 1/1000000000.
Proof. exact erf_coeff_sum. Qed.

(* ---- softmax.rs over the reals, for ANY positive exponential function ---- *)
Theorem C19_softmax_positive :
  forall (ex : R -> R), (forall x, 0 < ex x) -> forall m xs, xs <> [] -> Forall (fun y => 0 < y) (softmax ex m xs).
Proof. exact softmax_positive. Qed.
Theorem C19_softmax_sums_to_one :
  forall (ex : R -> R), (forall x, 0 < ex x) -> forall m xs, xs <> [] -> rsum (softmax ex m xs) = 1.
Proof. exact softmax_sums_to_one. Qed.
Theorem C19_softmax_shift_invariant : forall m xs, softmax exp m xs = softmax exp 0 xs.
Proof. exact softmax_shift_invariant. Qed.

(* the hypotheses are satisfiable: x = 1, k = 1 (1 * LOG2_E = 1.4427, within 0.5 of 1) *)
Example C19_nonvacuous : Rabs 1 <= exp_cutoff /\ near (1 * inv_log2) (IZR 1).
Proof. exact nonvacuous_exp. Qed.

(* The thirteen method-error theorems above (and the non-vacuity example) as ONE obligation: reading back
   `Print Assumptions` walks the whole Coquelicot/Flocq/Interval dependency graph, which costs seconds per
   theorem; the check reads it once for this conjunction.  Each conjunct is literally the statement of the
   named theorem. *)
Theorem C19_method_errors :
  ltac:(let t := type of C19_exp_poly_abs in exact t) /\
  ltac:(let t := type of C19_exp_poly_rel in exact t) /\
  ltac:(let t := type of C19_ln2_split in exact t) /\
  ltac:(let t := type of C19_inv_ln2 in exact t) /\
  ltac:(let t := type of C19_exp_range_reduction in exact t) /\
  ltac:(let t := type of C19_exp_method_error in exact t) /\
  ltac:(let t := type of C19_tanh_poly in exact t) /\
  ltac:(let t := type of C19_tanh_tiny in exact t) /\
  ltac:(let t := type of C19_tanh_saturation in exact t) /\
  ltac:(let t := type of C19_sin_rational in exact t) /\
  ltac:(let t := type of C19_two_pi_split in exact t) /\
  ltac:(let t := type of C19_sin_range_reduction in exact t) /\
  ltac:(let t := type of C19_erf_coeff_sum in exact t) /\
  ltac:(let t := type of C19_nonvacuous in exact t).
Proof. split; [exact C19_exp_poly_abs|split; [exact C19_exp_poly_rel|split; [exact C19_ln2_split|split; [exact C19_inv_ln2|split; [exact C19_exp_range_reduction|split; [exact C19_exp_method_error|split; [exact C19_tanh_poly|split; [exact C19_tanh_tiny|split; [exact C19_tanh_saturation|split; [exact C19_sin_rational|split; [exact C19_two_pi_split|split; [exact C19_sin_range_reduction|split; [exact C19_erf_coeff_sum|exact C19_nonvacuous]]]]]]]]]]]]]. Qed.
