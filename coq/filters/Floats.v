(* f32 order model on BIT PATTERNS (DESIGN 0.4, "order model").
   A float is the N < 2^32 that `f32::to_bits` returns.  Two comparisons are modelled exactly:
     - `f32::total_cmp`   : the integer key Rust uses (bits ^ ((bits >> 31) as u32 >> 1)) as i32
     - `>` `<` `<=` `==`  : IEEE partial order, NaN incomparable, -0 == +0
   Arithmetic that feeds a decision (top-P cumulative sum, multinomial accumulation,
   Temperature scaling) is Flocq's binary32 (`Bplus`/`Bmult`/`Bdiv`, round-to-nearest-even),
   wrapped with the x86-64 SSE NaN rule (first NaN operand quieted, else default NaN 0xFFC00000).
   Executable definitions only. *)
From RV Require Import Prelude.
From Flocq Require Import IEEE754.BinarySingleNaN IEEE754.Binary IEEE754.Bits.
Open Scope N_scope.

Definition two31 : N := 2147483648.
Definition two32 : N := 4294967296.
Definition inf_bits : N := 2139095040.       (* 0x7F800000 *)
Definition one_bits : N := 1065353216.       (* 1.0 *)
Definition min_pos_bits : N := 8388608.      (* f32::MIN_POSITIVE = 0x00800000 *)
Definition qnan_neg : N := 4290772992.       (* 0xFFC00000: x86 default NaN *)
Definition quiet_bit : N := 4194304.         (* 0x00400000 *)

Definition fsign (b : N) : bool := two31 <=? b.
Definition fmag (b : N) : N := if fsign b then b - two31 else b.
Definition fisnan (b : N) : bool := inf_bits <? fmag b.
Definition fiszero (b : N) : bool := fmag b =? 0.

(* ---- f32::total_cmp ---- *)
Definition tkey (b : N) : Z := if fsign b then (- Z.of_N (fmag b) - 1)%Z else Z.of_N b.
Definition tgt (a b : N) : bool := (tkey b <? tkey a)%Z.     (* a.total_cmp(b) == Greater *)
Definition tge (a b : N) : bool := (tkey b <=? tkey a)%Z.

(* ---- IEEE partial order ---- *)
Definition ordval (b : N) : Z := if fsign b then (- Z.of_N (fmag b))%Z else Z.of_N b.
Definition fcomparable (a b : N) : bool := negb (fisnan a) && negb (fisnan b).
Definition fgt (a b : N) : bool := fcomparable a b && (ordval b <? ordval a)%Z.   (* a > b *)
Definition flt (a b : N) : bool := fgt b a.                                       (* a < b *)
Definition fle (a b : N) : bool := fcomparable a b && (ordval a <=? ordval b)%Z.  (* a <= b *)
Definition fge (a b : N) : bool := fle b a.
Definition feq (a b : N) : bool := fcomparable a b && (ordval a =? ordval b)%Z.   (* a == b *)

(* f32::max: "if one of the arguments is NaN, the other is returned" *)
Definition fmax (a b : N) : N :=
  if fisnan a then b else if fisnan b then a else if flt a b then b else a.

(* ---- arithmetic via Flocq binary32 ---- *)
Definition b32 (b : N) : binary32 := b32_of_bits (Z.of_N (b mod two32)).
Definition bits32 (x : binary32) : N := Z.to_N (bits_of_b32 x).

Definition nanfix (a b r : N) : N :=
  if fisnan a then N.lor a quiet_bit
  else if fisnan b then N.lor b quiet_bit
  else if fisnan r then qnan_neg else r.

(* sums are only ever compared (top-P cumulative sum, multinomial accumulation), so every NaN
   result is canonicalised; products (Temperature) are observable and keep the SSE payload rule *)
Definition fadd (a b : N) : N :=
  let r := bits32 (b32_plus mode_NE (b32 a) (b32 b)) in
  if fisnan a || fisnan b || fisnan r then qnan_neg else r.
Definition fmul (a b : N) : N := nanfix a b (bits32 (b32_mult mode_NE (b32 a) (b32 b))).
Definition fdiv (a b : N) : N := nanfix a b (bits32 (b32_div mode_NE (b32 a) (b32 b))).

(* ---- list helpers shared by the models ---- *)
Fixpoint list_N_eqb (a b : list N) : bool :=
  match a, b with
  | [], [] => true
  | x :: r, y :: s => (x =? y) && list_N_eqb r s
  | _, _ => false
  end.
