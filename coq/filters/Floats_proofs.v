(* Facts about the Flocq-backed f32 addition [fadd] (Floats.v): results are 32-bit patterns and
   adding a zero does not change comparisons.  These discharge the arithmetic hypotheses of the
   multinomial theorem (Samplers_proofs.v) for the addition the model actually uses. *)
From RV Require Import Prelude.
From Filters Require Import Floats ModelFilters ModelSamplers Samplers_proofs.
From Flocq Require Import IEEE754.BinarySingleNaN IEEE754.Binary IEEE754.Bits.
From Coq Require Import ZifyBool.
Open Scope N_scope.

Lemma bits32_b32 c : c < two32 -> bits32 (b32 c) = c.
Proof.
  intros H. unfold bits32, b32, bits_of_b32, b32_of_bits.
  rewrite N.mod_small by exact H.
  rewrite bits_of_binary_float_of_bits.
  - apply N2Z.id.
  - change (2 ^ (23 + 8 + 1))%Z with 4294967296%Z. unfold two32 in H. lia.
Qed.

Lemma bits32_range x : bits32 x < two32.
Proof.
  unfold bits32, bits_of_b32.
  pose proof (bits_of_binary_float_range 23 8 eq_refl eq_refl x) as R.
  change (2 ^ (23 + 8 + 1))%Z with 4294967296%Z in R. unfold two32. lia.
Qed.

Lemma nan_bits_isnan (s : bool) (pl : positive) (H : nan_pl 24 pl = true) :
  fisnan (bits32 (B754_nan 24 128 s pl H)) = true.
Proof.
  pose proof (split_bits_of_binary_float_correct 23 8 eq_refl eq_refl (B754_nan 24 128 s pl H)) as S.
  pose proof (bits32_range (B754_nan 24 128 s pl H)) as R.
  unfold bits32, bits_of_b32 in *. cbn [split_bits_of_binary_float] in S.
  set (c := bits_of_binary_float 23 8 (B754_nan 24 128 s pl H)) in *.
  unfold split_bits in S. cbv zeta in S.
  change (2 ^ 23)%Z with 8388608%Z in S. change (2 ^ 8)%Z with 256%Z in S.
  change (2 ^ 8 - 1)%Z with 255%Z in S.
  inversion S as [[S1 S2 S3]]. clear S S1.
  pose proof (bits_of_binary_float_range 23 8 eq_refl eq_refl (B754_nan 24 128 s pl H)) as R2.
  fold c in R2. change (2 ^ (23 + 8 + 1))%Z with 4294967296%Z in R2.
  unfold fisnan, fmag, fsign, inf_bits, two31, two32 in *.
  assert (P : (0 < Z.pos pl)%Z) by lia.
  destruct (2147483648 <=? Z.to_N c) eqn:E;
    [apply N.leb_le in E|apply N.leb_gt in E]; apply N.ltb_lt;
    Z.div_mod_to_equations; lia.
Qed.

Lemma zero_cases z : Wf32 z -> fiszero z = true -> z = 0 \/ z = two31.
Proof.
  unfold Wf32, fiszero, fmag, fsign, two32, two31. intros W H.
  destruct (2147483648 <=? z) eqn:E; [apply N.leb_le in E|apply N.leb_gt in E];
    apply N.eqb_eq in H; lia.
Qed.

Lemma b32_zero_pos : b32 0 = B754_zero 24 128 false.
Proof. vm_compute. reflexivity. Qed.
Lemma b32_zero_neg : b32 two31 = B754_zero 24 128 true.
Proof. vm_compute. reflexivity. Qed.

(* x + (+-0) in binary32: x itself, or a zero when x is a zero *)
Lemma plus_zero_bits c z : c < two32 -> fisnan c = false -> (z = 0 \/ z = two31) ->
  bits32 (b32_plus mode_NE (b32 c) (b32 z)) = c \/
  (fiszero (bits32 (b32_plus mode_NE (b32 c) (b32 z))) = true /\ fiszero c = true).
Proof.
  intros Hc Hn Hz. pose proof (bits32_b32 c Hc) as RT.
  assert (Zb : exists sz, b32 z = B754_zero 24 128 sz).
  { destruct Hz as [->| ->]; [exists false; apply b32_zero_pos|exists true; apply b32_zero_neg]. }
  destruct Zb as [sz ->].
  destruct (b32 c) as [s|s|s pl Hpl|s m e Hb] eqn:X.
  - right. rewrite <- RT. destruct s, sz; split; vm_compute; reflexivity.
  - left. rewrite <- RT. destruct s, sz; reflexivity.
  - exfalso. rewrite <- RT, nan_bits_isnan in Hn. discriminate.
  - left. rewrite <- RT. reflexivity.
Qed.

Lemma fadd_range a b : Wf32 a -> Wf32 b -> Wf32 (fadd a b).
Proof.
  intros _ _. unfold fadd, Wf32. cbv zeta.
  destruct (fisnan a || fisnan b || fisnan (bits32 (b32_plus mode_NE (b32 a) (b32 b)))).
  - vm_compute. reflexivity.
  - apply bits32_range.
Qed.

Lemma zero_not_nan r : fiszero r = true -> fisnan r = false.
Proof. unfold fiszero, fisnan. intros H. apply N.eqb_eq in H. rewrite H. reflexivity. Qed.

Lemma zero_ordval r : fiszero r = true -> ordval r = 0%Z.
Proof.
  unfold fiszero, ordval, fmag. intros H. apply N.eqb_eq in H.
  destruct (fsign r); rewrite H; reflexivity.
Qed.

Lemma fadd_zero t c z : Wf32 c -> Wf32 z -> fiszero z = true -> flt t (fadd c z) = flt t c.
Proof.
  intros Hc Hz Z. pose proof (zero_cases z Hz Z) as Zc.
  unfold fadd. cbv zeta. destruct (fisnan c) eqn:NC; cbn [orb].
  - unfold flt, fgt, fcomparable. rewrite NC. change (fisnan qnan_neg) with true. reflexivity.
  - rewrite (zero_not_nan z Z). cbn [orb].
    destruct (plus_zero_bits c z Hc NC Zc) as [E|[E1 E2]].
    + rewrite E, NC. reflexivity.
    + rewrite (zero_not_nan _ E1).
      unfold flt, fgt, fcomparable. rewrite (zero_not_nan _ E1), (zero_not_nan _ E2),
        (zero_ordval _ E1), (zero_ordval _ E2). reflexivity.
Qed.
