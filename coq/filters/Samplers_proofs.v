(* Proofs about the sampler model (ModelSamplers.v). *)
From RV Require Import Prelude.
From Filters Require Import Floats ModelFilters ModelSamplers.
From Coq Require Import ZifyBool.
Open Scope N_scope.

(* ------------------------------------------------------ IEEE `>` is a strict order *)
Lemma fgt_trans a b c : fgt a b = true -> fgt b c = true -> fgt a c = true.
Proof.
  unfold fgt, fcomparable. rewrite !andb_true_iff, !negb_true_iff, !Z.ltb_lt.
  intros [[A B] H1] [[_ C] H2]. repeat split; try assumption. lia.
Qed.

Lemma fgt_irrefl a : fgt a a = false.
Proof. unfold fgt. rewrite Z.ltb_irrefl. apply andb_false_r. Qed.

(* without NaNs, "x does not beat e" means e >= x *)
Lemma not_fgt_fge x e : fisnan x = false -> fisnan e = false -> fgt x e = false -> fge e x = true.
Proof.
  unfold fge, fle, fgt, fcomparable. intros -> ->. cbn [negb andb]. lia.
Qed.

(* ---------------------------------------------------------------- ArgMax *)
Definition NotBeaten (m x : entry) : Prop := fgt (e_sc x) (e_sc m) = false.

Lemma fold_argmax r : forall acc,
  let m := fold_left argmax_step r acc in
  (m = acc \/ In m r) /\
  (m = acc \/ fgt (e_sc m) (e_sc acc) = true) /\
  NotBeaten m acc /\ (forall x, In x r -> NotBeaten m x).
Proof.
  induction r as [|x r IH]; intros acc; cbn [fold_left].
  - split; [left; reflexivity|]. split; [left; reflexivity|].
    split; [apply fgt_irrefl|]. intros x [].
  - destruct (IH (argmax_step acc x)) as (M1 & M2 & M3 & M4).
    set (m := fold_left argmax_step r (argmax_step acc x)) in *.
    unfold argmax_step in M1, M2, M3. unfold NotBeaten in *.
    destruct (fgt (e_sc x) (e_sc acc)) eqn:G.
    + (* x replaced acc *)
      assert (R : m = acc \/ fgt (e_sc m) (e_sc acc) = true).
      { right. destruct M2 as [->|M2]; [exact G|]. eapply fgt_trans; eassumption. }
      split; [right; destruct M1 as [->|M1]; [left; reflexivity|right; exact M1]|].
      split; [exact R|]. split.
      * destruct (fgt (e_sc acc) (e_sc m)) eqn:C; [|reflexivity].
        assert (fgt (e_sc x) (e_sc m) = true) by (eapply fgt_trans; eassumption). congruence.
      * intros y [<-|Hy]; [exact M3|apply M4; exact Hy].
    + (* acc kept *)
      split; [destruct M1 as [->|M1]; [left; reflexivity|right; right; exact M1]|].
      split; [exact M2|]. split; [exact M3|].
      intros y [<-|Hy]; [|apply M4; exact Hy].
      destruct (fgt (e_sc x) (e_sc m)) eqn:C; [|reflexivity].
      destruct M2 as [E|M2].
      * rewrite E in C. congruence.
      * assert (fgt (e_sc x) (e_sc acc) = true) by (eapply fgt_trans; eassumption). congruence.
Qed.

Lemma argmax_entry_spec l e : argmax_entry l = Some e ->
  In e l /\ forall x, In x l -> fgt (e_sc x) (e_sc e) = false.
Proof.
  destruct l as [|e0 r]; cbn [argmax_entry]; intros H; [discriminate|]. inversion H; subst. clear H.
  destruct (fold_argmax r e0) as (M1 & _ & M3 & M4). split.
  - destruct M1 as [->|M1]; [left; reflexivity|right; exact M1].
  - intros x [<-|Hx]; [exact M3|apply M4; exact Hx].
Qed.

Lemma argmax_maximal l id : argmax l = SId id ->
  exists e, In e l /\ e_id e = id /\ forall x, In x l -> fgt (e_sc x) (e_sc e) = false.
Proof.
  unfold argmax. destruct (argmax_entry l) as [e|] eqn:E; [|discriminate].
  intros H. inversion H; subst. destruct (argmax_entry_spec l e E) as [H1 H2].
  exists e. auto.
Qed.

Lemma argmax_greatest_nan_free l id :
  (forall x, In x l -> fisnan (e_sc x) = false) -> argmax l = SId id ->
  exists e, In e l /\ e_id e = id /\ forall x, In x l -> fge (e_sc e) (e_sc x) = true.
Proof.
  intros Hn H. destruct (argmax_maximal l id H) as (e & H1 & H2 & H3).
  exists e. split; [exact H1|]. split; [exact H2|]. intros x Hx.
  apply not_fgt_fge; auto.
Qed.

Lemma argmax_in_candidates l id : argmax l = SId id -> In id (map e_id l).
Proof.
  intros H. destruct (argmax_maximal l id H) as (e & H1 & <- & _). apply in_map. exact H1.
Qed.

Lemma argmax_total l : l <> [] -> exists id, argmax l = SId id.
Proof. destruct l as [|e r]; [contradiction|]. intros _. unfold argmax. cbn [argmax_entry]. eauto. Qed.

Lemma argmax_empty : argmax [] = SPanic.
Proof. reflexivity. Qed.

Lemma argmax_ok_b_spec l id : argmax_ok_b l id = true <->
  exists e, In e l /\ e_id e = id /\ forall x, In x l -> fgt (e_sc x) (e_sc e) = false.
Proof.
  unfold argmax_ok_b. rewrite existsb_exists. split.
  - intros (e & He & H). apply andb_true_iff in H. destruct H as [H1 H2].
    apply N.eqb_eq in H1. rewrite forallb_forall in H2. exists e. split; [exact He|].
    split; [exact H1|]. intros x Hx. specialize (H2 x Hx). apply negb_true_iff in H2. exact H2.
  - intros (e & He & H1 & H2). exists e. split; [exact He|]. apply andb_true_iff. split.
    + apply N.eqb_eq. exact H1.
    + rewrite forallb_forall. intros x Hx. apply negb_true_iff. apply H2. exact Hx.
Qed.

(* ------------------------------------------------------------ Multinomial *)
Definition Wf32 (x : N) : Prop := x < two32.
(* a probability: a 32-bit pattern that is not NaN and not negative *)
Definition ProbWf (p : N) : Prop := Wf32 p /\ fisnan p = false /\ (fsign p = false \/ fiszero p = true).

Lemma prob_not_pos_zero p : ProbWf p -> fgt p 0 = false -> fiszero p = true.
Proof.
  intros (_ & Hn & Hs) H. destruct Hs as [Hs|Hs]; [|exact Hs].
  unfold fgt, fcomparable in H. rewrite Hn in H.
  change (fisnan 0) with false in H. change (ordval 0) with 0%Z in H. cbn [negb andb] in H.
  unfold ordval in H. rewrite Hs in H. unfold fiszero, fmag. rewrite Hs. lia.
Qed.

Section MultiProofs.
  Variable add : N -> N -> N.
  (* what the proof needs from f32 addition: results are 32-bit patterns, and adding a zero
     does not change how the sum compares (IEEE: x + (+-0) = x, up to the sign of a zero) *)
  Hypothesis add_range : forall a b, Wf32 a -> Wf32 b -> Wf32 (add a b).
  Hypothesis add_zero : forall t c z, Wf32 c -> Wf32 z -> fiszero z = true ->
                                      flt t (add c z) = flt t c.

  Lemma multi_loop_fixed target : forall probs cum idx lastnz i,
    Wf32 cum -> flt target cum = false -> Forall ProbWf probs ->
    multi_loop add true target cum idx lastnz probs = Some i ->
    ((idx <= i < idx + length probs)%nat /\ fgt (nth (i - idx) probs 0) 0 = true) \/ lastnz = Some i.
  Proof.
    induction probs as [|p r IH]; intros cum idx lastnz i Hc Ht Hp H; cbn [multi_loop] in H.
    - right. exact H.
    - inversion Hp as [|? ? Hp0 Hpr]; subst.
      destruct (flt target (add cum p)) eqn:F.
      + inversion H; subst i. left. split; [cbn [length]; lia|].
        rewrite Nat.sub_diag. cbn [nth].
        destruct (fgt p 0) eqn:G; [reflexivity|exfalso].
        pose proof (prob_not_pos_zero p Hp0 G) as Z.
        rewrite (add_zero target cum p Hc (proj1 Hp0) Z) in F. congruence.
      + assert (Hc' : Wf32 (add cum p)) by (apply add_range; [exact Hc|exact (proj1 Hp0)]).
        destruct (IH _ _ _ _ Hc' F Hpr H) as [[R1 R2]|R].
        * left. split; [cbn [length]; lia|].
          replace (i - idx)%nat with (S (i - S idx)) by lia. exact R2.
        * destruct (fgt p 0) eqn:G.
          { inversion R; subst i. left. split; [cbn [length]; lia|].
            rewrite Nat.sub_diag. exact G. }
          { right. exact R. }
  Qed.

  Lemma multi_loop_fixed_none target : forall probs cum idx lastnz,
    multi_loop add true target cum idx lastnz probs = None ->
    lastnz = None /\ forall p, In p probs -> fgt p 0 = false.
  Proof.
    induction probs as [|p r IH]; intros cum idx lastnz H; cbn [multi_loop] in H.
    - split; [exact H|]. intros p [].
    - destruct (flt target (add cum p)); [discriminate|].
      destruct (IH _ _ _ H) as [L Hr]. destruct (fgt p 0) eqn:G; [discriminate|].
      split; [exact L|]. intros q [<-|Hq]; [exact G|apply Hr; exact Hq].
  Qed.

  (* the fixed `multinomial`: a selected index is in range and has probability > 0;
     no selection only if no candidate has probability > 0 *)
  Lemma multinomial_fixed_valid target probs :
    flt target 0 = false -> Forall ProbWf probs ->
    match multinomial add true target probs with
    | Some i => (i < length probs)%nat /\ fgt (nth i probs 0) 0 = true
    | None => forall p, In p probs -> fgt p 0 = false
    end.
  Proof.
    intros Ht Hp. unfold multinomial.
    destruct (multi_loop add true target 0 0 None probs) as [i|] eqn:E.
    - assert (W0 : Wf32 0) by (unfold Wf32, two32; lia).
      destruct (multi_loop_fixed target probs 0 0%nat None i W0 Ht Hp E) as [[R1 R2]|R]; [|discriminate].
      rewrite Nat.sub_0_r in R2. split; [lia|exact R2].
    - apply (multi_loop_fixed_none target probs 0 0%nat None E).
  Qed.

  (* Multinomial::sample as a whole, with the softmax oracle [sm] *)
  Lemma sample_multi_fixed_valid sm target l :
    l <> [] -> length (sm (map e_sc l)) = length l ->
    flt target 0 = false -> Forall ProbWf (sm (map e_sc l)) ->
    exists i id, sample_multi add true sm target l = SId id /\
                 nth_error (map e_id l) i = Some id /\
                 (fgt (nth i (sm (map e_sc l)) 0) 0 = true \/
                  forall p, In p (sm (map e_sc l)) -> fgt p 0 = false).
  Proof.
    intros Hl Hlen Ht Hp. unfold sample_multi.
    destruct l as [|e0 r]; [contradiction|]. set (l := e0 :: r) in *.
    set (probs := sm (map e_sc l)) in *.
    assert (L : (length probs =? length l)%nat = true) by (apply Nat.eqb_eq; exact Hlen).
    rewrite L. pose proof (multinomial_fixed_valid target probs Ht Hp) as V.
    destruct (multinomial add true target probs) as [i|].
    - destruct V as [V1 V2].
      destruct (nth_error (map e_id l) i) as [id|] eqn:E.
      + exists i, id. auto.
      + apply nth_error_None in E. rewrite map_length in E. lia.
    - exists 0%nat, (e_id e0). split; [reflexivity|]. split; [reflexivity|]. right. exact V.
  Qed.

  Lemma sample_multi_empty fx sm target : sample_multi add fx sm target [] = SPanic.
  Proof. reflexivity. Qed.
End MultiProofs.

(* the sampler is a function of (probabilities, target): same oracle answers, same result --
   determinism under a fixed seed reduces to the RNG being a function of its state *)
Lemma sample_multi_deterministic add fx sm1 sm2 t1 t2 l :
  sm1 (map e_sc l) = sm2 (map e_sc l) -> t1 = t2 ->
  sample_multi add fx sm1 t1 l = sample_multi add fx sm2 t2 l.
Proof. intros H ->. unfold sample_multi. rewrite H. reflexivity. Qed.
