(* C33 -- Samplers choose only valid candidates.
   Only statements; every proof is `exact <lemma>` (witness lemmas: evaluation).
   Model: ModelSamplers.v.  Scores/probabilities are f32 BIT PATTERNS; [fgt] is IEEE `>`
   (NaN incomparable, -0 == +0).  Softmax [sm] and the random target are oracles: the theorems
   hold for EVERY softmax answer satisfying the stated structural hypotheses and EVERY target. *)
From RV Require Import Prelude.
From Filters Require Import Floats ModelFilters ModelSamplers Samplers_proofs Floats_proofs.
Open Scope N_scope.

(* (1) ArgMax returns the id of a candidate whose score no candidate strictly exceeds
       (all inputs, NaNs included: a NaN is incomparable, hence never "exceeded") *)
Theorem C33_argmax_maximal : forall l id, argmax l = SId id ->
  exists e, In e l /\ e_id e = id /\ forall x, In x l -> fgt (e_sc x) (e_sc e) = false.
Proof. exact argmax_maximal. Qed.

(* (1') on the property's domain (no NaN scores; -inf, ties, single candidates allowed) the
        returned candidate's score is >= every candidate's score *)
Theorem C33_argmax_greatest : forall l id,
  (forall x, In x l -> fisnan (e_sc x) = false) -> argmax l = SId id ->
  exists e, In e l /\ e_id e = id /\ forall x, In x l -> fge (e_sc e) (e_sc x) = true.
Proof. exact argmax_greatest_nan_free. Qed.

(* (2) ArgMax returns an id of the candidate set; it answers for every non-empty input and
       panics (as documented on `Sampler::sample`) exactly on the empty one *)
Theorem C33_argmax_in_candidates : forall l id, argmax l = SId id -> In id (map e_id l).
Proof. exact argmax_in_candidates. Qed.

Theorem C33_argmax_total : forall l, l <> [] -> exists id, argmax l = SId id.
Proof. exact argmax_total. Qed.

Theorem C33_argmax_empty_panics : argmax [] = SPanic.
Proof. exact argmax_empty. Qed.

(* (3) Multinomial (fixed code).  For every f32 addition [add] that yields 32-bit patterns and
       for which adding a zero does not change comparisons, every softmax answer [sm] of the
       right length consisting of non-NaN, non-negative values, and every target t >= 0:
       the sampler returns the id at some position i of the candidate list whose probability is
       > 0 -- unless no candidate at all has probability > 0 (then position 0, as documented). *)
Theorem C33_multinomial_valid : forall add,
  (forall a b, Wf32 a -> Wf32 b -> Wf32 (add a b)) ->
  (forall t c z, Wf32 c -> Wf32 z -> fiszero z = true -> flt t (add c z) = flt t c) ->
  forall sm target l,
  l <> [] -> length (sm (map e_sc l)) = length l ->
  flt target 0 = false -> Forall ProbWf (sm (map e_sc l)) ->
  exists i id, sample_multi add true sm target l = SId id /\
               nth_error (map e_id l) i = Some id /\
               (fgt (nth i (sm (map e_sc l)) 0) 0 = true \/
                forall p, In p (sm (map e_sc l)) -> fgt p 0 = false).
Proof. exact sample_multi_fixed_valid. Qed.

(* (3') the core loop: a selected index is in range with probability > 0; nothing is selected
        only if nothing has probability > 0 *)
Theorem C33_multinomial_loop_valid : forall add,
  (forall a b, Wf32 a -> Wf32 b -> Wf32 (add a b)) ->
  (forall t c z, Wf32 c -> Wf32 z -> fiszero z = true -> flt t (add c z) = flt t c) ->
  forall target probs, flt target 0 = false -> Forall ProbWf probs ->
  match multinomial add true target probs with
  | Some i => (i < length probs)%nat /\ fgt (nth i probs 0) 0 = true
  | None => forall p, In p probs -> fgt p 0 = false
  end.
Proof. exact multinomial_fixed_valid. Qed.

(* (3'') the same for the model's own addition [fadd] (Flocq binary32 `Bplus`, round to nearest
         even): both arithmetic hypotheses are proved, none is left *)
Theorem C33_multinomial_valid_binary32 : forall sm target l,
  l <> [] -> length (sm (map e_sc l)) = length l ->
  flt target 0 = false -> Forall ProbWf (sm (map e_sc l)) ->
  exists i id, sample_multi fadd true sm target l = SId id /\
               nth_error (map e_id l) i = Some id /\
               (fgt (nth i (sm (map e_sc l)) 0) 0 = true \/
                forall p, In p (sm (map e_sc l)) -> fgt p 0 = false).
Proof. exact (sample_multi_fixed_valid fadd fadd_range fadd_zero). Qed.

Theorem C33_multinomial_empty_panics : forall add fx sm target,
  sample_multi add fx sm target [] = SPanic.
Proof. exact sample_multi_empty. Qed.

(* (4) determinism: the sample is a function of the softmax answer and the target, so with a
       fixed seed (RNG = function of its state: exercised by running twice, not proved) the
       same inputs give the same sequence *)
Theorem C33_sample_function_of_oracles : forall add fx sm1 sm2 t1 t2 l,
  sm1 (map e_sc l) = sm2 (map e_sc l) -> t1 = t2 ->
  sample_multi add fx sm1 t1 l = sample_multi add fx sm2 t2 l.
Proof. exact sample_multi_deterministic. Qed.

(* (5) the executable ArgMax oracle used on the implementation's answers decides contract (1) *)
Theorem C33_argmax_oracle_reflects : forall l id, argmax_ok_b l id = true <->
  exists e, In e l /\ e_id e = id /\ forall x, In x l -> fgt (e_sc x) (e_sc e) = false.
Proof. exact argmax_ok_b_spec. Qed.

(* ---------------- the code AS FOUND violates the property: witnesses (F20) ----------------- *)
(* target = 0.0 (fastrand returns it once in 2^23 draws; seed 28420487 draws it first) and
   `target <= cum_prob`: logits [-inf, 0, 1] -> probabilities [0, .269, .731]; index 0 is
   returned although its probability is exactly 0 *)
Theorem C33_F20_zero_target_refuted : exists target probs i,
  flt target 0 = false /\ Forall ProbWf probs /\
  multinomial fadd false target probs = Some i /\ fgt (nth i probs 0) 0 = false /\
  exists p, In p probs /\ fgt p 0 = true.
Proof.
  exists 0, [0; 1049211569; 1060841128], 0%nat.
  split; [vm_compute; reflexivity|]. split.
  - repeat constructor; vm_compute; auto.
  - split; [vm_compute; reflexivity|]. split; [vm_compute; reflexivity|].
    exists 1049211569. split; [right; left; reflexivity|vm_compute; reflexivity].
Qed.

(* the softmax output sums (in f32) to less than the target 1 - 2^-23: `multinomial` returns
   None and `unwrap_or(0)` picks index 0, whose probability is 0 (first logit -inf).
   Probabilities as produced by the Rust run for logits
   [-inf, 2.59.., 2.24.., 1.47.., 2.86.., 2.38.., 0.19.., 2.78.., 0.81.., 1.60..] *)
Definition f20_probs : list N :=
  [0; 1042945510; 1039057394; 1030315256; 1046356858; 1040834144; 1014701084; 1045210729;
   1022222300; 1032075186].
Theorem C33_F20_fallback_refuted : exists target sm l,
  l <> [] /\ length (sm (map e_sc l)) = length l /\
  flt target 0 = false /\ Forall ProbWf (sm (map e_sc l)) /\
  multinomial fadd false target (sm (map e_sc l)) = None /\
  sample_multi fadd false sm target l = SId 0 /\
  nth 0 (sm (map e_sc l)) 0 = 0.
Proof.
  exists 1065353214, (fun _ => f20_probs),
    (combine [0;1;2;3;4;5;6;7;8;9]
             [4286578688;1076048691;1074563908;1069379748;1077168570;1075167887;1043005964;
              1076824637;1062098436;1070428324]).
  split; [discriminate|]. split; [reflexivity|]. split; [vm_compute; reflexivity|]. split.
  - repeat constructor; vm_compute; auto.
  - split; [vm_compute; reflexivity|]. split; [vm_compute; reflexivity|reflexivity].
Qed.

(* non-vacuity: the fixed model on the same inputs picks candidates with probability > 0 *)
Example C33_nonvacuous :
  multinomial fadd true 0 [0; 1049211569; 1060841128] = Some 1%nat /\
  multinomial fadd true 1065353214 f20_probs = Some 9%nat /\
  argmax [(7, 1065353216); (3, 2143289344); (5, 1073741824); (9, 1073741824)] = SId 5 /\
  argmax [(7, 4286578688)] = SId 7.
Proof. vm_compute. auto. Qed.
