(* C31 -- Logit filters implement their contracts for all inputs.
   Only statements; every proof is `exact <lemma>` (witness lemmas: evaluation).
   Model: ModelFilters.v ([fx = true]: the code after the fix commits F6/F6b/F7 on branch
   verif-filters; [fx = false]: the code as found).  Scores are f32 BIT PATTERNS; [tkey] is the
   integer key of `f32::total_cmp`; [flt] is IEEE `<`.  [w] is the SIMD width, [add] / [ops] the f32
   operations and [sm] the softmax: the theorems hold for EVERY w >= 1, add, ops and sm. *)
From RV Require Import Prelude.
From Filters Require Import Floats ModelFilters Filters_proofs.
From Coq Require Import Permutation Sorted.
Open Scope N_scope.

(* (1) top-K: never panics and returns exactly min(k, n) entries, sorted descending by the total
       order, that together with some [rest] are a rearrangement of the input, and no dropped
       entry exceeds a kept one -- i.e. the k largest under total_cmp (NaNs, -0 < +0 included) *)
Theorem C31_topk_spec : forall w k l, (1 <= w)%nat ->
  exists out, topk true w k l = Ok out /\
    N.of_nat (length out) = N.min k (N.of_nat (length l)) /\
    StronglySorted (fun a b => (tkey (e_sc b) <= tkey (e_sc a))%Z) out /\
    exists rest, Permutation l (out ++ rest) /\
      forall a b, In a out -> In b rest -> (tkey (e_sc b) <= tkey (e_sc a))%Z.
Proof. exact topk_fixed_spec. Qed.

(* (1') the contract pins the scores: ANY output meeting it carries exactly the scores (total_cmp
        keys, hence bit patterns) of sort-descending-then-truncate, so "the K largest" is unique;
        in particular the fixed top-K agrees with the unit test's `reference_topk` on scores *)
Theorem C31_topk_contract_fixes_scores : forall k l out, TopKSpec k l out ->
  map (fun e => tkey (e_sc e)) out =
  firstn (length out) (map (fun e => tkey (e_sc e)) (sort_desc l)).
Proof. exact topk_spec_scores. Qed.

Theorem C31_topk_scores_are_sort_truncate : forall w k l, (1 <= w)%nat ->
  exists out, topk true w k l = Ok out /\
    map (fun e => tkey (e_sc e)) out =
    firstn (N.to_nat (N.min k (N.of_nat (length l)))) (map (fun e => tkey (e_sc e)) (sort_desc l)).
Proof. exact topk_fixed_scores. Qed.

(* (2) top-K is total: no panic for ANY k and n (k > n, k = 0, n = 0 included) *)
Theorem C31_topk_total : forall w k l, (1 <= w)%nat -> topk true w k l <> Panic.
Proof. exact topk_fixed_total. Qed.

(* (3) SIMD chunk+tail processing equals the scalar loop for every width; holds for the code as
       found and as fixed, so the model's result does not depend on the ISA *)
Theorem C31_topk_simd_width_irrelevant : forall fx w w' k l,
  (1 <= w)%nat -> (1 <= w')%nat -> topk fx w k l = topk fx w' k l.
Proof. exact topk_width_independent. Qed.

Theorem C31_simd_loop_is_scalar_loop : forall gt w, (1 <= w)%nat ->
  forall fuel t es, (length es <= fuel)%nat -> simd_loop gt fuel w t es = update_all gt t es.
Proof. exact simd_loop_scalar. Qed.

(* (4) top-P.  With candidates [probs] = (id, softmax(score)) if normalising, else the input:
       p == 1.0 returns the input unchanged; otherwise the output [out]
         - is a descending top-|out| selection of the candidates (contract (1) with k = |out|),
         - no strictly shorter prefix has a cumulative probability reaching the threshold
           max(p, MIN_POSITIVE) (j-th partial sum < threshold for all j < |out|),
         - reaches the threshold itself, or is all of the candidates,
         - and is non-empty when the input is non-empty.
       Partial sums are the code's own f32 sums ([cums add 0 out]). *)
Theorem C31_topp_shortest_prefix : forall add sm p norm l out,
  topp add sm p norm l = Ok out ->
  (feq p one_bits = true /\ out = l) \/
  (feq p one_bits = false /\
   length (topp_probs sm norm l) = length l /\
   ((N.of_nat (length out) = N.min (N.of_nat (length out)) (N.of_nat (length (topp_probs sm norm l))) /\
     StronglySorted (fun a b => (tkey (e_sc b) <= tkey (e_sc a))%Z) out /\
     exists rest, Permutation (topp_probs sm norm l) (out ++ rest) /\
       forall a b, In a out -> In b rest -> (tkey (e_sc b) <= tkey (e_sc a))%Z) /\
    (forall j, (j < length out)%nat -> flt (nth j (cums add 0 out) 0) (fmax p min_pos_bits) = true) /\
    (length out = length (topp_probs sm norm l) \/
     flt (nth (length out) (cums add 0 out) 0) (fmax p min_pos_bits) = false)) /\
   (l <> [] -> out <> [])).
Proof. exact topp_spec. Qed.

Theorem C31_topp_nonempty : forall add sm p norm l out,
  l <> [] -> topp add sm p norm l = Ok out -> out <> [].
Proof.
  intros add sm p norm l out Hl H. destruct (topp_spec add sm p norm l out H) as [[_ ->]|(_ & _ & _ & Hn)].
  - exact Hl.
  - exact (Hn Hl).
Qed.

Theorem C31_topp_never_panics : forall add sm p norm l, topp add sm p norm l <> Panic.
Proof. exact topp_never_panics. Qed.

(* (5) chains: the empty chain is the identity, a chain is the (panic-propagating) composition
       of its filters, concatenation composes, nesting flattens, and the result is the outcome of
       the last filter when the filters are applied one at a time *)
Theorem C31_chain_is_composition : forall fx w ops sm,
  (forall l, run fx w ops sm (FChain []) l = Ok l) /\
  (forall g r l, run fx w ops sm (FChain (g :: r)) l =
                 bind (run fx w ops sm g l) (run fx w ops sm (FChain r))) /\
  (forall fs gs l, run fx w ops sm (FChain (fs ++ gs)) l =
                   bind (run fx w ops sm (FChain fs) l) (run fx w ops sm (FChain gs))) /\
  (forall fs l, run fx w ops sm (FChain fs) l = run fx w ops sm (FChain (flatten fs)) l) /\
  (forall fs l, run_list fx w ops sm fs l = last (run_steps fx w ops sm fs l) (Ok l)).
Proof.
  intros fx w ops sm. split; [|split; [|split; [|split]]].
  - exact (run_chain_nil fx w ops sm).
  - exact (run_chain_cons fx w ops sm).
  - exact (run_chain_app fx w ops sm).
  - exact (run_flatten fx w ops sm).
  - exact (run_list_steps fx w ops sm).
Qed.

(* (6) no filter (TopK, TopP, Temperature, token-id filter, Sort, Chain, nested chains) panics,
       for any sparse or dense input, including fewer candidates than K *)
Theorem C31_no_filter_panics : forall w ops sm, (1 <= w)%nat ->
  forall f l, run true w ops sm f l <> Panic.
Proof. exact run_fixed_never_panics. Qed.

(* (7) the executable oracles used on the implementation's outputs decide exactly these contracts *)
Theorem C31_topk_oracle_reflects : forall k l out,
  topk_ok_b k l out = true <-> TopKSpec k l out.
Proof. exact topk_ok_b_spec. Qed.

Theorem C31_topp_oracle_reflects : forall add sm p norm l out,
  topp_ok_b add sm p norm l out = true <->
  (feq p one_bits = true /\ out = l) \/
  (feq p one_bits = false /\
   length (topp_probs sm norm l) = length l /\
   ToppPrefixSpec add (fmax p min_pos_bits) (topp_probs sm norm l) out /\
   (l <> [] -> out <> [])).
Proof. exact topp_ok_b_spec. Qed.

(* (8) order model sanity: the total_cmp key separates distinct bit patterns, the threshold is
       always positive *)
Theorem C31_total_order_antisymmetric : forall a b,
  a < two32 -> b < two32 -> tkey a = tkey b -> a = b.
Proof. exact tkey_inj. Qed.

Theorem C31_topp_threshold_positive : forall p, flt 0 (fmax p min_pos_bits) = true.
Proof. exact flt_zero_threshold. Qed.

(* ---------------- the code AS FOUND violates the property: witnesses ---------------------- *)
Definition f6_in : list entry := [(0, 1065353216); (1, 1073741824); (2, 1056964608)].  (* 1, 2, .5 *)
(* F6: TopK::new(5) on three logits panics (range start index 5 out of range) *)
Theorem C31_F6_topk_k_gt_n_refuted : exists w k l, (1 <= w)%nat /\ topk false w k l = Panic.
Proof. exists 8%nat, 5, f6_in. split; [lia|vm_compute; reflexivity]. Qed.

Definition f6b_in : list entry :=      (* 1, 2, .5, NaN, .1 *)
  [(0, 1065353216); (1, 1073741824); (2, 1056964608); (3, 2143289344); (4, 1036831949)].
(* F6b: later entries admitted with `>`: TopK(2) returns [2, 1]; NaN is the maximum under total_cmp *)
Theorem C31_F6b_topk_partial_order_refuted : exists w k l out,
  (1 <= w)%nat /\ topk false w k l = Ok out /\ ~ TopKSpec k l out.
Proof.
  exists 8%nat, 2, f6b_in, [(1, 1073741824); (0, 1065353216)].
  split; [lia|]. split; [vm_compute; reflexivity|].
  intros H. apply topk_ok_b_spec in H. vm_compute in H. discriminate.
Qed.

Definition f7_in : list entry := [(0, 3212836864); (1, 3221225472); (2, 3225419776)].  (* -1, -2, -3 *)
Definition f7_sm : list N -> list N :=   (* the softmax values the Rust run produced *)
  sm_of_tbl [([3212836864; 3221225472; 3225419776], [1059736891; 1048222234; 1035493875])].
(* F7: TopP::new(0.5) (normalize documented "true by default") keeps all three raw logits,
       which is not the 0.5-nucleus of their softmax (0.665, 0.245, 0.090) *)
Theorem C31_F7_topp_default_refuted : exists p l out,
  run false 8 f32ops f7_sm (FTopP p NormDefault) l = Ok out /\
  out = l /\ topp_ok_b fadd f7_sm p true l out = false /\
  run true 8 f32ops f7_sm (FTopP p NormDefault) l = Ok [(0, 1059736891)].
Proof. exists 1056964608, f7_in, f7_in. vm_compute. auto. Qed.

(* non-vacuity: the fixed model on the same inputs *)
Example C31_nonvacuous :
  topk true 8 5 f6_in = Ok [(1, 1073741824); (0, 1065353216); (2, 1056964608)] /\
  topk true 8 2 f6b_in = Ok [(3, 2143289344); (1, 1073741824)] /\
  topk true 3 2 f6b_in = Ok [(3, 2143289344); (1, 1073741824)] /\
  topk_ok_b 2 f6b_in [(3, 2143289344); (1, 1073741824)] = true /\
  topp_ok_b fadd f7_sm 1056964608 true f7_in [(0, 1059736891)] = true.
Proof. vm_compute. auto 10. Qed.
