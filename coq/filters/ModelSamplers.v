(* Model of rten-generate/src/sampler.rs: ArgMax::sample, Multinomial::sample / multinomial.
   Executable definitions only.  Scores and probabilities are f32 bit patterns (Floats.v).
   Oracles (DESIGN 0.4 / C33): softmax ([sm], in the check: the probabilities the Rust run
   produced) and the random target `rng.f32()` (in the check: drawn by the harness from
   `fastrand::Rng::with_seed(seed)`, one per sample).
   [fx = false]: `multinomial` as found; [fx = true]: after the fix commit (F20). *)
From RV Require Import Prelude.
From Filters Require Import Floats ModelFilters.
Open Scope N_scope.

Inductive sres :=
| SId (id : N)
| SPanic
| SOracleMiss.       (* model only: softmax oracle answer has the wrong length *)

(* ---------------------------------------------------------------- ArgMax *)
(* logits.enumerate().reduce(|(max_i, max_val), (i, val)| if val > max_val {(i, val)} else {..})
   .expect("logits should be non-empty") *)
Definition argmax_step (acc x : entry) : entry := if fgt (e_sc x) (e_sc acc) then x else acc.
Definition argmax_entry (l : list entry) : option entry :=
  match l with [] => None | e :: r => Some (fold_left argmax_step r e) end.
Definition argmax (l : list entry) : sres :=
  match argmax_entry l with Some e => SId (e_id e) | None => SPanic end.

(* ------------------------------------------------------------ Multinomial *)
Section Multi.
  Variable add : N -> N -> N.

  (* for (idx, prob) in probs { [fx: if prob > 0 { last_nonzero = Some(idx) }]
       cum_prob += prob; if target <= cum_prob [fx: target < cum_prob] { return Some(idx) } }
     None [fx: last_nonzero] *)
  Fixpoint multi_loop (fx : bool) (target cum : N) (idx : nat) (lastnz : option nat)
           (probs : list N) : option nat :=
    match probs with
    | [] => if fx then lastnz else None
    | p :: r =>
        let lastnz' := if fgt p 0 then Some idx else lastnz in
        let cum' := add cum p in
        if (if fx then flt target cum' else fle target cum') then Some idx
        else multi_loop fx target cum' (S idx) lastnz' r
    end.

  Definition multinomial (fx : bool) (target : N) (probs : list N) : option nat :=
    multi_loop fx target 0 0%nat None probs.

  (* Multinomial::sample: assert non-empty; probs = softmax(logits); idx = multinomial(..)
     .unwrap_or(0); logits.indices()[idx] *)
  Definition sample_multi (fx : bool) (sm : list N -> list N) (target : N) (l : list entry) : sres :=
    match l with
    | [] => SPanic
    | _ =>
        let probs := sm (map e_sc l) in
        if (length probs =? length l)%nat then
          let idx := match multinomial fx target probs with Some i => i | None => 0%nat end in
          match nth_error (map e_id l) idx with Some id => SId id | None => SPanic end
        else SOracleMiss
    end.
End Multi.

(* ============================ correspondence case ======================================== *)
Inductive kind := KArgMax | KMulti.
Record case := {
  s_kind : kind;
  s_in : list entry;          (* candidates *)
  s_probs : list N;           (* oracle: softmax(scores) as computed by the Rust run *)
  s_targets : list N;         (* oracle: the targets the seeded RNG yields, one per sample *)
  s_out : list sres;          (* implementation: sampled ids (stops at the first panic) *)
  s_det : bool                (* implementation: a second run with the same seed gave the same ids *)
}.

Definition sres_eqb (a b : sres) : bool :=
  match a, b with
  | SId x, SId y => x =? y
  | SPanic, SPanic => true
  | SOracleMiss, SOracleMiss => true
  | _, _ => false
  end.
Fixpoint sres_list_eqb (a b : list sres) : bool :=
  match a, b with
  | [], [] => true
  | x :: r, y :: s => sres_eqb x y && sres_list_eqb r s
  | _, _ => false
  end.

Definition model_out (c : case) : list sres :=
  match s_kind c with
  | KArgMax => [argmax (s_in c)]
  | KMulti => map (fun t => sample_multi fadd true (fun _ => s_probs c) t (s_in c)) (s_targets c)
  end.

Definition agree (c : case) : bool := sres_list_eqb (model_out c) (s_out c).

(* ---- property oracles, evaluated on the implementation's own answers ---- *)
(* "the ID of a maximal score": some candidate carries this id and no candidate's score is
   strictly greater (IEEE `>`) than its score *)
Definition argmax_ok_b (l : list entry) (id : N) : bool :=
  existsb (fun e => (e_id e =? id) && forallb (fun x => negb (fgt (e_sc x) (e_sc e))) l) l.

(* a probability vector inside the property's domain: no NaN, nothing negative *)
Definition prob_wf_b (p : N) : bool := negb (fisnan p) && (negb (fsign p) || fiszero p).
Definition in_domain_b (probs : list N) : bool :=
  forallb prob_wf_b probs && existsb (fun p => fgt p 0) probs.

(* "an ID present in the candidate set with non-zero probability" (outside the domain, e.g. NaN
   or +inf scores, or all candidates -inf: only membership) *)
Definition multi_ok_b (l : list entry) (probs : list N) (id : N) : bool :=
  existsb (fun ep => (e_id (fst ep) =? id) && (negb (in_domain_b probs) || fgt (snd ep) 0))
          (combine l probs).

Definition prop_ok (c : case) : bool :=
  s_det c &&
  match s_in c with
  | [] => match s_out c with [SPanic] => true | _ => false end      (* documented panic *)
  | _ =>
      match s_kind c with
      | KArgMax => match s_out c with [SId id] => argmax_ok_b (s_in c) id | _ => false end
      | KMulti =>
          (length (s_probs c) =? length (s_in c))%nat
          && forallb (fun r => match r with SId id => multi_ok_b (s_in c) (s_probs c) id | _ => false end)
                     (s_out c)
      end
  end.

Definition show (c : case) := model_out c.
