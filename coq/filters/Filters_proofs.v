(* Proofs about the filter model (ModelFilters.v): order lemmas, sorting, the top-K loop
   invariant, SIMD chunking = scalar loop, top-P prefix characterisation, chains. *)
From RV Require Import Prelude.
From Filters Require Import Floats ModelFilters.
From Coq Require Import Permutation Sorted ZifyBool.
Open Scope N_scope.

(* ------------------------------------------------------------------ order *)
Definition key (e : entry) : Z := tkey (e_sc e).
Definition ge_key (a b : entry) : Prop := (key b <= key a)%Z.
Definition SortedDesc (l : list entry) : Prop := StronglySorted ge_key l.

Lemma tgt_true a b : tgt a b = true <-> (tkey b < tkey a)%Z.
Proof. unfold tgt. lia. Qed.
Lemma tgt_false a b : tgt a b = false <-> (tkey a <= tkey b)%Z.
Proof. unfold tgt. lia. Qed.
Lemma tge_true a b : tge a b = true <-> (tkey b <= tkey a)%Z.
Proof. unfold tge. lia. Qed.

Lemma entry_eqb_eq a b : entry_eqb a b = true <-> a = b.
Proof.
  destruct a as [i x], b as [j y]. unfold entry_eqb, e_id, e_sc. cbn [fst snd].
  rewrite andb_true_iff, !N.eqb_eq. split.
  - intros [-> ->]. reflexivity.
  - intros H. inversion H. auto.
Qed.

Lemma entries_eqb_eq a b : entries_eqb a b = true <-> a = b.
Proof.
  revert b. induction a as [|x r IH]; intros [|y s]; cbn [entries_eqb]; try (split; [discriminate|discriminate]).
  - tauto.
  - rewrite andb_true_iff, entry_eqb_eq, IH. split.
    + intros [-> ->]. reflexivity.
    + intros H. inversion H. auto.
Qed.

(* ---------------------------------------------------------------- sorting *)
Lemma insert_desc_perm x l : Permutation (x :: l) (insert_desc x l).
Proof.
  induction l as [|y t IH]; cbn [insert_desc].
  - apply Permutation_refl.
  - destruct (tgt (e_sc y) (e_sc x)).
    + eapply perm_trans. apply perm_swap. apply perm_skip. exact IH.
    + apply Permutation_refl.
Qed.

Lemma sort_desc_perm l : Permutation l (sort_desc l).
Proof.
  induction l as [|x r IH]; cbn [sort_desc].
  - apply perm_nil.
  - eapply perm_trans. 2: apply insert_desc_perm. apply perm_skip. exact IH.
Qed.

Lemma sort_desc_length l : length (sort_desc l) = length l.
Proof. symmetry. apply Permutation_length, sort_desc_perm. Qed.

Lemma insert_desc_sorted x l : SortedDesc l -> SortedDesc (insert_desc x l).
Proof.
  unfold SortedDesc. induction l as [|y t IH]; intros H; cbn [insert_desc].
  - constructor. constructor. constructor.
  - inversion H as [|? ? Ht Hy]; subst.
    destruct (tgt (e_sc y) (e_sc x)) eqn:E.
    + constructor. { apply IH. exact Ht. }
      eapply Permutation_Forall. apply insert_desc_perm.
      constructor. 2: exact Hy.
      apply tgt_true in E. unfold ge_key, key. lia.
    + constructor. { exact H. }
      apply tgt_false in E.
      constructor. { unfold ge_key, key. lia. }
      eapply Forall_impl. 2: exact Hy.
      intros a Ha. unfold ge_key, key in *. lia.
Qed.

Lemma sort_desc_sorted l : SortedDesc (sort_desc l).
Proof.
  induction l as [|x r IH]; cbn [sort_desc].
  - constructor.
  - apply insert_desc_sorted. exact IH.
Qed.

Lemma sorted_app_last f x : SortedDesc (f ++ [x]) -> SortedDesc f /\ Forall (fun a => ge_key a x) f.
Proof.
  unfold SortedDesc. induction f as [|y t IH]; cbn [app]; intros H.
  - split; constructor.
  - inversion H as [|? ? Ht Hy]; subst. destruct (IH Ht) as [S1 S2]. split.
    + constructor. exact S1. rewrite Forall_app in Hy. tauto.
    + constructor. 2: exact S2. rewrite Forall_app in Hy. destruct Hy as [_ Hy].
      inversion Hy; subst. assumption.
Qed.

Lemma sorted_desc_b_spec l : sorted_desc_b l = true <-> SortedDesc l.
Proof.
  unfold SortedDesc. induction l as [|x r IH].
  - cbn. split; [constructor|reflexivity].
  - cbn [sorted_desc_b]. destruct r as [|y s].
    + split; [|reflexivity]. intros _. constructor; constructor.
    + rewrite andb_true_iff, tge_true, IH. split.
      * intros [H1 H2]. constructor. exact H2. constructor.
        { unfold ge_key, key. lia. }
        inversion H2; subst. eapply Forall_impl. 2: eassumption.
        intros a Ha. unfold ge_key, key in *. lia.
      * intros H. inversion H as [|? ? Hs Hf]; subst. split. 2: exact Hs.
        inversion Hf; subst. unfold ge_key, key in *. lia.
Qed.

(* ------------------------------------------------------------- split_last *)
Lemma split_last_none t : split_last t = None <-> t = [].
Proof.
  unfold split_last. destruct (rev t) eqn:E.
  - split; [|intros; reflexivity]. intros _.
    rewrite <- (rev_involutive t), E. reflexivity.
  - split; [discriminate|]. intros ->. discriminate.
Qed.

Lemma split_last_some t f x : split_last t = Some (f, x) -> t = f ++ [x].
Proof.
  unfold split_last. destruct (rev t) eqn:E; [discriminate|].
  intros H. inversion H; subst. rewrite <- (rev_involutive t), E. reflexivity.
Qed.

Lemma split_last_app f x : split_last (f ++ [x]) = Some (f, x).
Proof. unfold split_last. rewrite rev_app_distr. cbn. rewrite rev_involutive. reflexivity. Qed.

Lemma split_last_nonempty t : t <> [] -> exists f x, split_last t = Some (f, x).
Proof.
  intros H. destruct (split_last t) as [[f x]|] eqn:E.
  - eauto.
  - apply split_last_none in E. contradiction.
Qed.

(* ------------------------------------------------------ top-K loop invariant *)
Definition Dominates (out rest : list entry) : Prop :=
  forall a b, In a out -> In b rest -> ge_key a b.

(* [pre] = the entries seen so far, [t] = running top-K list, [d] = entries dropped so far *)
Definition Inv (pre t d : list entry) : Prop :=
  SortedDesc t /\ Permutation pre (t ++ d) /\ Dominates t d.

Lemma update_inv pre t d e : t <> [] -> Inv pre t d ->
  exists t' d', update tgt t e = Some t' /\ Inv (pre ++ [e]) t' d' /\ length t' = length t.
Proof.
  intros Hne (Hs & Hp & Hd).
  destruct (split_last_nonempty t Hne) as (f & x & E).
  pose proof (split_last_some _ _ _ E) as Ht. subst t.
  destruct (sorted_app_last _ _ Hs) as [Hsf Hfx]. rewrite Forall_forall in Hfx.
  unfold update. rewrite E.
  destruct (tgt (e_sc e) (e_sc x)) eqn:G.
  - apply tgt_true in G.
    exists (sort_desc (f ++ [e])), (x :: d). split; [reflexivity|]. split; [split; [|split]|].
    + apply sort_desc_sorted.
    + apply perm_trans with ((f ++ [e]) ++ x :: d).
      * apply perm_trans with (((f ++ [x]) ++ d) ++ [e]).
        { apply Permutation_app_tail. exact Hp. }
        rewrite <- !app_assoc. apply Permutation_app_head. cbn [app].
        apply Permutation_sym.
        apply (Permutation_cons_append (x :: d) e).
      * apply Permutation_app_tail. apply sort_desc_perm.
    + intros a b Ha Hb.
      apply (Permutation_in _ (Permutation_sym (sort_desc_perm _))) in Ha.
      apply in_app_or in Ha.
      assert (Hxa : forall a', In a' f -> ge_key a' x) by (intros; apply Hfx; assumption).
      destruct Hb as [<-|Hb]; destruct Ha as [Ha|[<-|[]]].
      * apply Hxa. exact Ha.
      * unfold ge_key, key. lia.
      * apply Hd. apply in_or_app. left. exact Ha. exact Hb.
      * assert (ge_key x b) by (apply Hd; [apply in_or_app; right; left; reflexivity|exact Hb]).
        unfold ge_key, key in *. lia.
    + rewrite sort_desc_length, !app_length. reflexivity.
  - apply tgt_false in G.
    exists (f ++ [x]), (e :: d). split; [reflexivity|]. split; [split; [|split]|].
    + exact Hs.
    + apply perm_trans with (((f ++ [x]) ++ d) ++ [e]).
      { apply Permutation_app_tail. exact Hp. }
      rewrite <- !app_assoc. apply Permutation_app_head. apply Permutation_app_head.
      apply Permutation_sym. apply Permutation_cons_append.
    + intros a b Ha [<-|Hb].
      * apply in_app_or in Ha. destruct Ha as [Ha|[<-|[]]].
        { specialize (Hfx _ Ha). unfold ge_key, key in *. lia. }
        { unfold ge_key, key. lia. }
      * apply Hd; assumption.
    + reflexivity.
Qed.

Lemma update_all_inv es : forall pre t d, t <> [] -> Inv pre t d ->
  exists t' d', update_all tgt t es = Some t' /\ Inv (pre ++ es) t' d' /\ length t' = length t.
Proof.
  induction es as [|e r IH]; intros pre t d Hne HI.
  - exists t, d. rewrite app_nil_r. auto.
  - destruct (update_inv pre t d e Hne HI) as (t1 & d1 & E1 & I1 & L1).
    assert (Hne1 : t1 <> []).
    { intros ->. destruct t; [contradiction|discriminate]. }
    destruct (IH (pre ++ [e]) t1 d1 Hne1 I1) as (t2 & d2 & E2 & I2 & L2).
    exists t2, d2. cbn [update_all]. rewrite E1. split; [exact E2|]. split.
    + rewrite <- app_assoc in I2. exact I2.
    + congruence.
Qed.

(* ------------------------------------- SIMD chunks + tail = scalar loop, any width *)
Lemma update_all_app gt t a b :
  update_all gt t (a ++ b) =
  match update_all gt t a with Some t' => update_all gt t' b | None => None end.
Proof.
  revert t. induction a as [|e r IH]; intros t; cbn [app update_all].
  - reflexivity.
  - destruct (update gt t e); [apply IH|reflexivity].
Qed.

Lemma chunk_skip gt t f x c :
  split_last t = Some (f, x) ->
  existsb (fun e => gt (e_sc e) (e_sc x)) c = false ->
  update_all gt t c = Some t.
Proof.
  intros E. induction c as [|e r IH]; cbn [existsb update_all]; intros H.
  - reflexivity.
  - apply orb_false_iff in H. destruct H as [H1 H2].
    unfold update. rewrite E, H1. apply IH. exact H2.
Qed.

Lemma simd_loop_scalar gt w : (1 <= w)%nat ->
  forall fuel t es, (length es <= fuel)%nat -> simd_loop gt fuel w t es = update_all gt t es.
Proof.
  intros Hw. induction fuel as [|f IH]; intros t es Hlen.
  - cbn [simd_loop]. destruct (length es <? w)%nat eqn:L; [reflexivity|].
    apply Nat.ltb_ge in L. lia.
  - cbn [simd_loop]. destruct (length es <? w)%nat eqn:L; [reflexivity|].
    apply Nat.ltb_ge in L.
    assert (Hes : update_all gt t es = update_all gt t (firstn w es ++ skipn w es))
      by (rewrite firstn_skipn; reflexivity).
    assert (Hsk : (length (skipn w es) <= f)%nat) by (rewrite skipn_length; lia).
    destruct (split_last t) as [[fr x]|] eqn:E.
    + rewrite Hes, update_all_app.
      destruct (existsb (fun e => gt (e_sc e) (e_sc x)) (firstn w es)) eqn:X.
      * destruct (update_all gt t (firstn w es)); [apply IH; exact Hsk|reflexivity].
      * rewrite (chunk_skip gt t fr x _ E X). apply IH. exact Hsk.
    + destruct es as [|e r]; [cbn [length] in L; lia|].
      cbn [update_all]. unfold update. rewrite E. reflexivity.
Qed.

(* --------------------------------------------------------------- top-K spec *)
Definition TopKSpec (k : N) (l out : list entry) : Prop :=
  N.of_nat (length out) = N.min k (N.of_nat (length l)) /\
  SortedDesc out /\
  exists rest, Permutation l (out ++ rest) /\ Dominates out rest.

Lemma topk_fixed_spec w k l : (1 <= w)%nat ->
  exists out, topk true w k l = Ok out /\ TopKSpec k l out.
Proof.
  intros Hw. unfold topk, topk_gen. cbv zeta.
  destruct l as [|e0 l0].
  { exists []. split; [reflexivity|]. split; [cbn; lia|]. split; [constructor|].
    exists []. split; [constructor|]. intros a b []. }
  set (l := e0 :: l0).
  assert (Hl : (1 <= length l)%nat) by (cbn; lia).
  destruct (k =? 0) eqn:K0; cbn [orb].
  { apply N.eqb_eq in K0. subst k. rewrite N.min_0_l. cbn [N.to_nat firstn sort_desc].
    exists []. split; [reflexivity|]. split; [cbn; lia|]. split; [constructor|].
    exists l. split; [apply Permutation_refl|]. intros a b []. }
  apply N.eqb_neq in K0.
  destruct (N.of_nat (length l) <=? k) eqn:LE.
  { apply N.leb_le in LE.
    assert (Hm : N.min k (N.of_nat (length l)) = N.of_nat (length l)) by lia.
    rewrite Hm, Nat2N.id, firstn_all.
    exists (sort_desc l). split; [reflexivity|]. split; [|split].
    - rewrite sort_desc_length. lia.
    - apply sort_desc_sorted.
    - exists []. rewrite app_nil_r. split; [apply sort_desc_perm|]. intros a b _ []. }
  apply N.leb_gt in LE.
  assert (LT : (N.of_nat (length l) <? k) = false) by (apply N.ltb_ge; lia).
  rewrite LT.
  assert (W0 : (w =? 0)%nat = false) by (apply Nat.eqb_neq; lia).
  rewrite W0.
  assert (Hm : N.min k (N.of_nat (length l)) = k) by lia.
  rewrite Hm.
  set (kk := N.to_nat k).
  assert (Hkk : (1 <= kk < length l)%nat) by (unfold kk; lia).
  rewrite simd_loop_scalar; [|exact Hw|rewrite skipn_length; lia].
  assert (Hinit : Inv (firstn kk l) (sort_desc (firstn kk l)) []).
  { split; [apply sort_desc_sorted|]. split.
    - rewrite app_nil_r. apply sort_desc_perm.
    - intros a b _ []. }
  assert (Hne : sort_desc (firstn kk l) <> []).
  { intros H. apply (f_equal (@length entry)) in H.
    rewrite sort_desc_length, firstn_length in H. cbn [length] in H. lia. }
  destruct (update_all_inv (skipn kk l) _ _ _ Hne Hinit) as (t' & d' & E & (I1 & I2 & I3) & L).
  rewrite E. exists t'. split; [reflexivity|]. split; [|split].
  - rewrite L, sort_desc_length, firstn_length. unfold kk. lia.
  - exact I1.
  - exists d'. rewrite firstn_skipn in I2. split; assumption.
Qed.

(* both versions: the result does not depend on the SIMD width *)
Lemma topk_width_independent fx w w' k l :
  (1 <= w)%nat -> (1 <= w')%nat -> topk fx w k l = topk fx w' k l.
Proof.
  intros Hw Hw'. unfold topk, topk_gen. cbv zeta.
  assert (W0 : (w =? 0)%nat = false) by (apply Nat.eqb_neq; lia).
  assert (W0' : (w' =? 0)%nat = false) by (apply Nat.eqb_neq; lia).
  rewrite W0, W0'.
  destruct fx; destruct l as [|e0 l0]; try reflexivity.
  - rewrite !simd_loop_scalar by (try assumption; rewrite skipn_length; lia). reflexivity.
  - rewrite !simd_loop_scalar by (try assumption; rewrite skipn_length; lia). reflexivity.
Qed.

(* --------------------------------------- reflection of the top-K contract oracle *)
Lemma remove1_some x l l' : remove1 x l = Some l' -> Permutation l (x :: l').
Proof.
  revert l'. induction l as [|y t IH]; cbn [remove1]; intros l' H; [discriminate|].
  destruct (entry_eqb x y) eqn:E.
  - apply entry_eqb_eq in E. subst y. inversion H; subst. apply Permutation_refl.
  - destruct (remove1 x t) as [t'|] eqn:R; [|discriminate]. inversion H; subst.
    eapply perm_trans. { apply perm_skip. apply IH. reflexivity. } apply perm_swap.
Qed.

Lemma remove1_in x l : In x l -> exists l', remove1 x l = Some l'.
Proof.
  induction l as [|y t IH]; intros H; [destruct H|]. cbn [remove1].
  destruct (entry_eqb x y) eqn:E; [eauto|].
  destruct H as [->|H].
  - assert (entry_eqb x x = true) by (apply entry_eqb_eq; reflexivity). congruence.
  - destruct (IH H) as [l' ->]. eauto.
Qed.

Lemma msub_some out : forall l rest, msub l out = Some rest -> Permutation l (out ++ rest).
Proof.
  induction out as [|x r IH]; cbn [msub app]; intros l rest H.
  - inversion H; subst. apply Permutation_refl.
  - destruct (remove1 x l) as [l0|] eqn:R; [|discriminate].
    eapply perm_trans. { apply remove1_some. exact R. }
    apply perm_skip. apply IH. exact H.
Qed.

Lemma msub_complete out : forall l rest, Permutation l (out ++ rest) ->
  exists rest', msub l out = Some rest' /\ Permutation rest' rest.
Proof.
  induction out as [|x r IH]; cbn [msub app]; intros l rest H.
  - exists l. split; [reflexivity|exact H].
  - assert (Hin : In x l).
    { eapply Permutation_in. apply Permutation_sym. exact H. left. reflexivity. }
    destruct (remove1_in x l Hin) as [l0 R]. rewrite R.
    apply IH. apply Permutation_cons_inv with (a := x).
    eapply perm_trans. { apply Permutation_sym. apply remove1_some. exact R. } exact H.
Qed.

Lemma dominates_b_spec out rest : dominates_b out rest = true <-> Dominates out rest.
Proof.
  unfold dominates_b, Dominates. rewrite forallb_forall. split.
  - intros H a b Ha Hb. specialize (H a Ha). rewrite forallb_forall in H.
    specialize (H b Hb). apply tge_true in H. exact H.
  - intros H a Ha. rewrite forallb_forall. intros b Hb. apply tge_true. apply H; assumption.
Qed.

Lemma topk_ok_b_spec k l out : topk_ok_b k l out = true <-> TopKSpec k l out.
Proof.
  unfold topk_ok_b, TopKSpec. rewrite !andb_true_iff, N.eqb_eq, sorted_desc_b_spec. split.
  - intros [[H1 H2] H3]. destruct (msub l out) as [rest|] eqn:M; [|discriminate].
    split; [exact H1|]. split; [exact H2|]. exists rest. split.
    + apply msub_some. exact M.
    + apply dominates_b_spec. exact H3.
  - intros (H1 & H2 & rest & Hp & Hd). split; [split; assumption|].
    destruct (msub_complete out l rest Hp) as (rest' & M & Pr). rewrite M.
    apply dominates_b_spec. intros a b Ha Hb. apply Hd; [exact Ha|].
    eapply Permutation_in; eassumption.
Qed.

Lemma sorted_app a b : SortedDesc (a ++ b) -> SortedDesc a /\ Dominates a b.
Proof.
  unfold SortedDesc. induction a as [|x r IH]; cbn [app]; intros H.
  - split; [constructor|]. intros ? ? [].
  - inversion H as [|? ? Hs Hf]; subst. destruct (IH Hs) as [S1 D1].
    rewrite Forall_app in Hf. destruct Hf as [F1 F2]. split.
    + constructor; assumption.
    + intros p q [<-|Hp] Hq.
      * rewrite Forall_forall in F2. apply F2. exact Hq.
      * apply D1; assumption.
Qed.

(* ------------------------------------------------------------------- top-P *)
Lemma flt_zero_threshold p : flt 0 (fmax p min_pos_bits) = true.
Proof.
  unfold fmax. destruct (fisnan p) eqn:E; [vm_compute; reflexivity|].
  change (fisnan min_pos_bits) with false. cbv iota.
  destruct (flt p min_pos_bits) eqn:F; [vm_compute; reflexivity|].
  unfold flt, fgt, fcomparable in *. rewrite E in *.
  change (fisnan min_pos_bits) with false in F.
  change (ordval min_pos_bits) with 8388608%Z in F.
  change (fisnan 0) with false. change (ordval 0) with 0%Z.
  cbn [negb andb] in *. lia.
Qed.

Section TopPProofs.
  Variable add : N -> N -> N.

  Lemma cums_length s : forall cum, length (cums add cum s) = S (length s).
  Proof. induction s as [|e r IH]; intros cum; cbn [cums length]; [reflexivity|]. rewrite IH. reflexivity. Qed.

  Lemma topp_take_prefix thr : forall s cum, exists rest, s = topp_take add thr cum s ++ rest.
  Proof.
    induction s as [|e r IH]; intros cum; cbn [topp_take].
    - exists []. reflexivity.
    - destruct (flt cum thr).
      + destruct (IH (add cum (e_sc e))) as [rest Hr]. exists rest. cbn [app]. congruence.
      + exists (e :: r). reflexivity.
  Qed.

  Lemma topp_take_spec thr : forall s cum,
    (forall j, (j < length (topp_take add thr cum s))%nat ->
               flt (nth j (cums add cum (topp_take add thr cum s)) 0) thr = true) /\
    (topp_take add thr cum s = s \/
     flt (nth (length (topp_take add thr cum s)) (cums add cum (topp_take add thr cum s)) 0) thr = false).
  Proof.
    induction s as [|e r IH]; intros cum; cbn [topp_take].
    - split; [cbn; intros; lia|left; reflexivity].
    - destruct (flt cum thr) eqn:F.
      + destruct (IH (add cum (e_sc e))) as [H1 H2]. cbn [length cums]. split.
        * intros [|j] Hj; cbn [nth]; [exact F|]. apply H1. lia.
        * destruct H2 as [H2|H2]; [left; congruence|right]. cbn [nth]. exact H2.
      + split; [cbn; intros; lia|]. right. cbn. exact F.
  Qed.

  Lemma topp_take_nonempty thr cum s : s <> [] -> flt cum thr = true -> topp_take add thr cum s <> [].
  Proof. destruct s as [|e r]; [contradiction|]. intros _ F. cbn [topp_take]. rewrite F. discriminate. Qed.

  (* the contract: [out] is a descending top-|out| selection of the candidates [probs]
     (top-K contract with k = |out|); no strictly shorter prefix of it reaches the threshold;
     and it reaches the threshold itself unless it is all of the candidates.  The cumulative
     sums are the code's own f32 sums (same additions, same order). *)
  Definition ToppPrefixSpec (thr : N) (probs out : list entry) : Prop :=
    TopKSpec (N.of_nat (length out)) probs out /\
    (forall j, (j < length out)%nat -> flt (nth j (cums add 0 out) 0) thr = true) /\
    (length out = length probs \/ flt (nth (length out) (cums add 0 out) 0) thr = false).

  Lemma forallb_firstn_nth (f : N -> bool) d : forall m cs, (m <= length cs)%nat ->
    (forallb f (firstn m cs) = true <-> forall j, (j < m)%nat -> f (nth j cs d) = true).
  Proof.
    induction m as [|m IH]; intros cs Hm.
    - cbn. split; [intros; lia|reflexivity].
    - destruct cs as [|c r]; [cbn in Hm; lia|]. cbn [firstn forallb]. cbn [length] in Hm.
      rewrite andb_true_iff, (IH r) by lia. split.
      + intros [H0 H1] [|j] Hj; cbn [nth]; [exact H0|]. apply H1. lia.
      + intros H. split; [apply (H 0%nat); lia|]. intros j Hj. apply (H (S j)). lia.
  Qed.

  Lemma topp_prefix_ok_b_spec thr probs out :
    topp_prefix_ok_b add thr probs out = true <-> ToppPrefixSpec thr probs out.
  Proof.
    unfold topp_prefix_ok_b, ToppPrefixSpec. cbv zeta.
    rewrite !andb_true_iff, topk_ok_b_spec.
    rewrite (forallb_firstn_nth (fun c => flt c thr) 0) by (rewrite cums_length; lia).
    rewrite orb_true_iff, Nat.eqb_eq, negb_true_iff. tauto.
  Qed.

  Lemma topp_core_spec p probs :
    ToppPrefixSpec (fmax p min_pos_bits) probs (topp_core add p probs).
  Proof.
    unfold topp_core, topp_threshold. set (thr := fmax p min_pos_bits).
    set (s := sort_desc probs). set (out := topp_take add thr 0 s).
    destruct (topp_take_prefix thr s 0) as [rest Hr]. fold out in Hr.
    destruct (topp_take_spec thr s 0) as [H1 H2]. fold out in H1, H2.
    assert (Hlen : length s = length probs) by apply sort_desc_length.
    assert (Hss : SortedDesc (out ++ rest)) by (rewrite <- Hr; apply sort_desc_sorted).
    destruct (sorted_app _ _ Hss) as [So Do].
    split; [|split].
    - split; [|split].
      + apply (f_equal (@length entry)) in Hr. rewrite app_length in Hr. lia.
      + exact So.
      + exists rest. split; [|exact Do]. rewrite <- Hr. apply sort_desc_perm.
    - exact H1.
    - destruct H2 as [H2|H2]; [left|right; exact H2]. rewrite H2. exact Hlen.
  Qed.

  Lemma topp_core_nonempty p probs : probs <> [] -> topp_core add p probs <> [].
  Proof.
    intros H. unfold topp_core, topp_threshold. apply topp_take_nonempty.
    - intros E. apply (f_equal (@length entry)) in E. rewrite sort_desc_length in E.
      destruct probs; [contradiction|discriminate].
    - apply flt_zero_threshold.
  Qed.

  Variable sm : list N -> list N.

  (* candidates with their probabilities: softmax of the scores if normalising, else the raw scores *)
  Definition topp_probs (norm : bool) (l : list entry) : list entry :=
    if norm then combine (map e_id l) (sm (map e_sc l)) else l.

  Lemma topp_spec p norm l out :
    topp add sm p norm l = Ok out ->
    (feq p one_bits = true /\ out = l) \/
    (feq p one_bits = false /\
     length (topp_probs norm l) = length l /\
     ToppPrefixSpec (fmax p min_pos_bits) (topp_probs norm l) out /\
     (l <> [] -> out <> [])).
  Proof.
    unfold topp, topp_probs. destruct (feq p one_bits); intros H.
    - left. inversion H. auto.
    - right. split; [reflexivity|]. destruct norm.
      + destruct (length (sm (map e_sc l)) =? length l)%nat eqn:L; [|discriminate].
        apply Nat.eqb_eq in L. inversion H; subst.
        assert (Hc : length (combine (map e_id l) (sm (map e_sc l))) = length l)
          by (rewrite combine_length, map_length; lia).
        split; [exact Hc|]. split; [apply topp_core_spec|].
        intros Hl. apply topp_core_nonempty. intros E. rewrite E in Hc.
        destruct l; [contradiction|discriminate].
      + inversion H; subst. split; [reflexivity|]. split; [apply topp_core_spec|].
        apply topp_core_nonempty.
  Qed.

  Lemma topp_never_panics p norm l : topp add sm p norm l <> Panic.
  Proof.
    unfold topp. destruct (feq p one_bits); [discriminate|]. destruct norm; [|discriminate].
    destruct (length (sm (map e_sc l)) =? length l)%nat; discriminate.
  Qed.

  Lemma topp_ok_b_spec p norm l out :
    topp_ok_b add sm p norm l out = true <->
    (feq p one_bits = true /\ out = l) \/
    (feq p one_bits = false /\
     length (topp_probs norm l) = length l /\
     ToppPrefixSpec (fmax p min_pos_bits) (topp_probs norm l) out /\
     (l <> [] -> out <> [])).
  Proof.
    unfold topp_ok_b. fold (topp_probs norm l). destruct (feq p one_bits).
    - rewrite entries_eqb_eq. split; [intros ->; left; auto|intros [[_ H]|[H _]]; [exact H|discriminate]].
    - rewrite !andb_true_iff, Nat.eqb_eq, topp_prefix_ok_b_spec. split.
      + intros [[H1 H2] H3]. right. split; [reflexivity|]. split; [exact H1|]. split; [exact H2|].
        intros Hl E. subst out. destruct l; [contradiction|]. cbn in H3. discriminate.
      + intros [[H _]|(_ & H1 & H2 & H3)]; [discriminate|]. split; [split; assumption|].
        destruct l as [|e r]; [reflexivity|]. apply negb_true_iff, Nat.eqb_neq.
        intros E. apply H3; [discriminate|]. destruct out; [reflexivity|discriminate].
  Qed.
End TopPProofs.

(* ------------------------------------------------------------------ chains *)
Section FiltInd.
  Variable P : filt -> Prop.
  Hypothesis HK : forall k, P (FTopK k).
  Hypothesis HP : forall p m, P (FTopP p m).
  Hypothesis HT : forall t, P (FTemp t).
  Hypothesis HI : forall p, P (FIdF p).
  Hypothesis HS : P FSort.
  Hypothesis HC : forall fs, Forall P fs -> P (FChain fs).

  Fixpoint filt_ind' (f : filt) : P f :=
    match f with
    | FTopK k => HK k
    | FTopP p m => HP p m
    | FTemp t => HT t
    | FIdF p => HI p
    | FSort => HS
    | FChain fs =>
        HC fs ((fix go (fs : list filt) : Forall P fs :=
                  match fs with
                  | [] => Forall_nil P
                  | g :: r => Forall_cons g (filt_ind' g) (go r)
                  end) fs)
    end.
End FiltInd.

Lemma bind_ok_r o : bind o Ok = o.
Proof. destruct o; reflexivity. Qed.

Lemma bind_assoc o f g : bind (bind o f) g = bind o (fun l => bind (f l) g).
Proof. destruct o; reflexivity. Qed.

Lemma bind_ext o f g : (forall l, f l = g l) -> bind o f = bind o g.
Proof. intros H. destruct o; cbn [bind]; auto. Qed.

Lemma last_cons_default {A} (rs : list A) : forall a d, last (a :: rs) d = last rs a.
Proof.
  induction rs as [|b r IH]; intros a d; [reflexivity|].
  change (last (a :: b :: r) d) with (last (b :: r) d). rewrite !IH. reflexivity.
Qed.

Section ChainProofs.
  Variable fx : bool.
  Variable w : nat.
  Variable ops : fops.
  Variable sm : list N -> list N.
  Notation run := (run fx w ops sm).
  Notation run_list := (run_list fx w ops sm).
  Notation run_steps := (run_steps fx w ops sm).

  Lemma run_chain_nil l : run (FChain []) l = Ok l.
  Proof. reflexivity. Qed.

  Lemma run_chain_cons g r l : run (FChain (g :: r)) l = bind (run g l) (run (FChain r)).
  Proof. reflexivity. Qed.

  Lemma run_chain_app fs gs : forall l,
    run (FChain (fs ++ gs)) l = bind (run (FChain fs) l) (run (FChain gs)).
  Proof.
    induction fs as [|g r IH]; intros l.
    - reflexivity.
    - cbn [app]. rewrite !run_chain_cons, bind_assoc. apply bind_ext. exact IH.
  Qed.

  Lemma run_chain_single g l : run (FChain [g]) l = run g l.
  Proof. rewrite run_chain_cons. apply bind_ok_r. Qed.

  (* a nested chain behaves like its flattening *)
  Lemma run_flat1 f : forall l, run f l = run (FChain (flat1 f)) l.
  Proof.
    induction f as [k|p m|t|p| |fs IH] using filt_ind'; intros l;
      try (cbn [flat1]; rewrite run_chain_single; reflexivity).
    cbn [flat1]. revert l. induction IH as [|g r Hg _ IHr]; intros l.
    - reflexivity.
    - cbn [flat_map]. rewrite run_chain_cons, run_chain_app, Hg.
      apply bind_ext. exact IHr.
  Qed.

  Lemma run_flatten fs l : run (FChain fs) l = run (FChain (flatten fs)) l.
  Proof. apply (run_flat1 (FChain fs)). Qed.

  (* the Chain result is the outcome of the last filter applied one at a time *)
  Lemma run_list_steps fs : forall l, run_list fs l = last (run_steps fs l) (Ok l).
  Proof.
    unfold ModelFilters.run_list.
    induction fs as [|g r IH]; intros l.
    - reflexivity.
    - rewrite run_chain_cons. cbn [ModelFilters.run_steps].
      destruct (ModelFilters.run fx w ops sm g l) as [l'| |] eqn:E; cbn [bind].
      + rewrite last_cons_default. apply IH.
      + reflexivity.
      + reflexivity.
  Qed.
End ChainProofs.

(* no filter of the fixed code panics, for any input, K, P, SIMD width >= 1, softmax oracle *)
Lemma run_fixed_never_panics w ops sm : (1 <= w)%nat ->
  forall f l, run true w ops sm f l <> Panic.
Proof.
  intros Hw. induction f as [k|p m|t|p| |fs IH] using filt_ind'; intros l.
  - cbn [run]. destruct (topk_fixed_spec w k l Hw) as (out & E & _). rewrite E. discriminate.
  - cbn [run]. apply topp_never_panics.
  - discriminate.
  - discriminate.
  - discriminate.
  - revert l. induction IH as [|g r Hg _ IHr]; intros l.
    + discriminate.
    + rewrite run_chain_cons. destruct (run true w ops sm g l) as [l'| |] eqn:E; cbn [bind].
      * apply IHr.
      * exfalso. apply (Hg l). exact E.
      * discriminate.
Qed.

Lemma topk_fixed_total w k l : (1 <= w)%nat -> topk true w k l <> Panic.
Proof. intros Hw. destruct (topk_fixed_spec w k l Hw) as (out & E & _). rewrite E. discriminate. Qed.

(* the total_cmp key is injective on 32-bit patterns: equal keys = identical bits *)
Lemma tkey_inj a b : a < two32 -> b < two32 -> tkey a = tkey b -> a = b.
Proof.
  unfold tkey, fmag, fsign, two32, two31. intros Ha Hb.
  destruct (2147483648 <=? a) eqn:A; destruct (2147483648 <=? b) eqn:B;
    try apply N.leb_le in A; try apply N.leb_gt in A;
    try apply N.leb_le in B; try apply N.leb_gt in B; cbv beta iota; intros H; lia.
Qed.
(* ------------------------------------------- the top-K contract fixes the score list *)
Lemma sorted_Z_perm_eq : forall l1 l2 : list Z,
  StronglySorted Z.ge l1 -> StronglySorted Z.ge l2 -> Permutation l1 l2 -> l1 = l2.
Proof.
  induction l1 as [|a r IH]; intros l2 S1 S2 P.
  - apply Permutation_nil in P. subst. reflexivity.
  - destruct l2 as [|b s].
    { apply Permutation_sym, Permutation_nil in P. discriminate. }
    inversion S1 as [|? ? S1r F1]; subst. inversion S2 as [|? ? S2s F2]; subst.
    rewrite Forall_forall in F1, F2.
    assert (Hab : (a <= b)%Z).
    { assert (Hin : In a (b :: s)) by (eapply Permutation_in; [exact P|left; reflexivity]).
      destruct Hin as [->|Hin]; [lia|]. specialize (F2 _ Hin). lia. }
    assert (Hba : (b <= a)%Z).
    { assert (Hin : In b (a :: r)) by (eapply Permutation_in; [apply Permutation_sym; exact P|left; reflexivity]).
      destruct Hin as [->|Hin]; [lia|]. specialize (F1 _ Hin). lia. }
    assert (a = b) by lia. subst b. f_equal. apply IH; try assumption.
    eapply Permutation_cons_inv. exact P.
Qed.

Lemma sorted_map_key l : SortedDesc l -> StronglySorted Z.ge (map key l).
Proof.
  unfold SortedDesc. induction 1 as [|a r S IH F]; cbn [map]; constructor.
  - exact IH.
  - rewrite Forall_forall in *. intros z Hz. apply in_map_iff in Hz.
    destruct Hz as (e & <- & He). specialize (F e He). unfold ge_key in F. lia.
Qed.

Lemma sorted_app_intro a b : SortedDesc a -> SortedDesc b -> Dominates a b -> SortedDesc (a ++ b).
Proof.
  unfold SortedDesc. intros Sa Sb D. induction Sa as [|x r S IH F]; cbn [app].
  - exact Sb.
  - constructor.
    + apply IH. intros p q Hp Hq. apply D; [right; exact Hp|exact Hq].
    + apply Forall_app. split; [exact F|]. rewrite Forall_forall. intros q Hq.
      apply D; [left; reflexivity|exact Hq].
Qed.

(* any output meeting the top-K contract carries exactly the scores of sort-then-truncate *)
Lemma topk_spec_scores k l out : TopKSpec k l out ->
  map key out = firstn (length out) (map key (sort_desc l)).
Proof.
  intros (_ & So & rest & Hp & Hd).
  assert (S2 : SortedDesc (out ++ sort_desc rest)).
  { apply sorted_app_intro; [exact So|apply sort_desc_sorted|].
    intros a b Ha Hb. apply Hd; [exact Ha|].
    eapply Permutation_in; [apply Permutation_sym, sort_desc_perm|exact Hb]. }
  assert (P2 : Permutation (sort_desc l) (out ++ sort_desc rest)).
  { eapply perm_trans. { apply Permutation_sym, sort_desc_perm. }
    eapply perm_trans. { exact Hp. } apply Permutation_app_head. apply sort_desc_perm. }
  assert (E : map key (sort_desc l) = map key (out ++ sort_desc rest)).
  { apply sorted_Z_perm_eq.
    - apply sorted_map_key, sort_desc_sorted.
    - apply sorted_map_key, S2.
    - apply Permutation_map. exact P2. }
  rewrite E, map_app.
  rewrite <- (map_length key out) at 1.
  rewrite firstn_app, Nat.sub_diag, firstn_all. cbn [firstn]. rewrite app_nil_r. reflexivity.
Qed.

Lemma topk_fixed_scores w k l : (1 <= w)%nat ->
  exists out, topk true w k l = Ok out /\
    map key out = firstn (N.to_nat (N.min k (N.of_nat (length l)))) (map key (sort_desc l)).
Proof.
  intros Hw. destruct (topk_fixed_spec w k l Hw) as (out & E & Sp).
  exists out. split; [exact E|]. rewrite (topk_spec_scores k l out Sp).
  destruct Sp as (L & _). rewrite <- L, Nat2N.id. reflexivity.
Qed.
