(* Model of rten-generate/src/filter.rs (+ logits.rs): TopK / SimdTopK, TopP, Temperature,
   TokenIdFilter, Sort, Chain.  Executable definitions only.

   A `Logits` value is a list of entries (token id, score bit pattern), in storage order;
   `Logits::dense` is the special case ids = 0..n-1 (the harness exercises both constructors).
   Every function exists in two versions selected by [fx : bool]:
     fx = false : the code as found (snapshot 2be5214) -- used by the `_refuted` witnesses
     fx = true  : the code after the `fix:` commits on branch verif-filters (F6, F6b, F7)
   Softmax is an ORACLE: a function [sm : list N -> list N] (Section-style parameter; in the
   correspondence check it is a lookup table of the softmax calls the Rust run made). *)
From RV Require Import Prelude.
From Filters Require Import Floats.
Open Scope N_scope.

Definition entry := (N * N)%type.
Definition e_id (e : entry) : N := fst e.
Definition e_sc (e : entry) : N := snd e.

Inductive outcome :=
| Ok (l : list entry)
| Panic            (* the Rust call panicked *)
| OracleMiss.      (* model only: the softmax oracle has no answer of the right length *)

(* ---- slice::sort_by(|a, b| a.total_cmp(b).reverse()): stable, descending by total order.
   Modelled as stable insertion sort (trusted: any stable sort by a total preorder gives the
   same list). *)
Fixpoint insert_desc (x : entry) (l : list entry) : list entry :=
  match l with
  | [] => [x]
  | y :: t => if tgt (e_sc y) (e_sc x) then y :: insert_desc x t else x :: l
  end.
Fixpoint sort_desc (l : list entry) : list entry :=
  match l with [] => [] | x :: r => insert_desc x (sort_desc r) end.

(* ------------------------------------------------------------------ TopK *)
Definition split_last (t : list entry) : option (list entry * entry) :=
  match rev t with [] => None | x :: r => Some (rev r, x) end.

Section TopK.
  (* the comparison that admits a later entry: `logit > kth_logit` (partial order, as found)
     or `logit.total_cmp(kth_logit).is_gt()` (fixed); the SIMD pre-test uses the same relation *)
  Variable gt : N -> N -> bool.

  (* update_topk; `topk.last().unwrap()` on an empty list is a panic = None *)
  Definition update (t : list entry) (e : entry) : option (list entry) :=
    match split_last t with
    | None => None
    | Some (front, lst) =>
        Some (if gt (e_sc e) (e_sc lst) then sort_desc (front ++ [e]) else t)
    end.

  Fixpoint update_all (t : list entry) (es : list entry) : option (list entry) :=
    match es with
    | [] => Some t
    | e :: r => match update t e with None => None | Some t' => update_all t' r end
    end.

  (* SIMD loop over chunks of [w] lanes, then the scalar tail.  A whole chunk is skipped unless
     some lane beats the k-th logit as it was when the chunk started.  [fuel] only makes the
     recursion structural; running out of it is an error (None), never silently a result. *)
  Fixpoint simd_loop (fuel w : nat) (t es : list entry) : option (list entry) :=
    if (length es <? w)%nat then update_all t es
    else match fuel with
         | O => None
         | S f =>
             let c := firstn w es in
             let r := skipn w es in
             match split_last t with
             | None => None
             | Some (_, lst) =>
                 let t' := if existsb (fun e => gt (e_sc e) (e_sc lst)) c
                           then update_all t c else Some t in
                 match t' with None => None | Some t'' => simd_loop f w t'' r end
             end
         end.

  (* [len_le]: the early return is `logits.len() <= k` (fixed) instead of `== k` (as found) *)
  Definition topk_gen (len_le : bool) (w : nat) (k : N) (l : list entry) : outcome :=
    match l with
    | [] => Ok []                                         (* if logits.is_empty() return *)
    | _ =>
        let n := N.of_nat (length l) in
        let kk := N.to_nat (N.min k n) in
        let init := sort_desc (firstn kk l) in            (* .take(k) + sort_by *)
        if (k =? 0) || (if len_le then n <=? k else n =? k) then Ok init
        else if n <? k then Panic                         (* &indices[k..]: start > len *)
        else match (if (w =? 0)%nat then None             (* chunks_exact(0) panics *)
                    else simd_loop (length l) w init (skipn kk l)) with
             | Some t => Ok t
             | None => Panic
             end
    end.
End TopK.

Definition topk (fx : bool) (w : nat) (k : N) (l : list entry) : outcome :=
  if fx then topk_gen tgt true w k l else topk_gen fgt false w k l.

(* ------------------------------------------------------------------ TopP *)
Section TopP.
  Variable add : N -> N -> N.          (* f32 `+` *)

  (* while cum_prob < threshold && k < len { cum_prob += pairs[k].0; k += 1 }; truncate(k) *)
  Fixpoint topp_take (thr cum : N) (s : list entry) : list entry :=
    match s with
    | [] => []
    | e :: r => if flt cum thr then e :: topp_take thr (add cum (e_sc e)) r else []
    end.

  Definition topp_threshold (p : N) : N := fmax p min_pos_bits.

  (* sort + cumulative loop on (id, probability) pairs *)
  Definition topp_core (p : N) (probs : list entry) : list entry :=
    topp_take (topp_threshold p) 0 (sort_desc probs).

  Variable sm : list N -> list N.      (* softmax oracle *)

  Definition topp (p : N) (norm : bool) (l : list entry) : outcome :=
    if feq p one_bits then Ok l        (* if self.cumulative_prob == 1.0 return logits *)
    else if norm then
      let ps := sm (map e_sc l) in
      if (length ps =? length l)%nat then Ok (topp_core p (combine (map e_id l) ps))
      else OracleMiss
    else Ok (topp_core p l).
End TopP.

(* ----------------------------------------------------------- Temperature *)
(* the f32 operations the filters use; a parameter of the model so that the theorems hold for
   every implementation of them ([f32ops] below is the one the correspondence check uses) *)
Record fops := { op_add : N -> N -> N; op_mul : N -> N -> N; op_div : N -> N -> N }.
Definition f32ops : fops := {| op_add := fadd; op_mul := fmul; op_div := fdiv |}.

(* if t == 1.0 return; inv = 1.0 / t; for x in logits { *x *= inv } *)
Definition temperature (ops : fops) (t : N) (l : list entry) : list entry :=
  if feq t one_bits then l
  else let inv := op_div ops one_bits t in map (fun e => (e_id e, op_mul ops (e_sc e) inv)) l.

(* --------------------------------------------------------- TokenIdFilter *)
Inductive pred := PEven | PGt (c : N) | PLt (c : N).
Definition pred_b (p : pred) (id : N) : bool :=
  match p with PEven => N.even id | PGt c => c <? id | PLt c => id <? c end.
Definition id_filter (p : pred) (l : list entry) : list entry :=
  filter (fun e => pred_b p (e_id e)) l.

(* ---------------------------------------------------------------- filters *)
Inductive nmode := NormTrue | NormFalse | NormDefault.   (* .normalize(b) called, or not *)
Inductive filt :=
| FTopK (k : N)
| FTopP (p : N) (m : nmode)
| FTemp (t : N)
| FIdF (p : pred)
| FSort
| FChain (fs : list filt).

(* `TopP::new` leaves normalize = false as found, true (the documented default) when fixed *)
Definition norm_of (fx : bool) (m : nmode) : bool :=
  match m with NormTrue => true | NormFalse => false | NormDefault => fx end.

Section Run.
  Variable fx : bool.
  Variable w : nat.
  Variable ops : fops.
  Variable sm : list N -> list N.

  Definition bind (o : outcome) (f : list entry -> outcome) : outcome :=
    match o with Ok l => f l | other => other end.

  (* LogitsFilter::filter; Chain = fold over the filters *)
  Fixpoint run (f : filt) (l : list entry) : outcome :=
    match f with
    | FTopK k => topk fx w k l
    | FTopP p m => topp (op_add ops) sm p (norm_of fx m) l
    | FTemp t => Ok (temperature ops t l)
    | FIdF p => Ok (id_filter p l)
    | FSort => Ok (sort_desc l)
    | FChain fs =>
        (fix go (fs : list filt) (l : list entry) : outcome :=
           match fs with
           | [] => Ok l
           | g :: r => bind (run g l) (go r)
           end) fs l
    end.

  Definition run_list (fs : list filt) (l : list entry) : outcome := run (FChain fs) l.

  (* the filters of a chain applied one at a time: the outcomes after each step (stops at the
     first outcome that is not Ok) *)
  Fixpoint run_steps (fs : list filt) (l : list entry) : list outcome :=
    match fs with
    | [] => []
    | g :: r => match run g l with
                | Ok l' => Ok l' :: run_steps r l'
                | other => [other]
                end
    end.
End Run.

Fixpoint flat1 (f : filt) : list filt :=
  match f with
  | FChain gs => flat_map flat1 gs
  | g => [g]
  end.
Definition flatten (fs : list filt) : list filt := flat_map flat1 fs.

(* ============================ executable contracts (property oracles) ==================== *)
Definition entry_eqb (a b : entry) : bool := (e_id a =? e_id b) && (e_sc a =? e_sc b).
Fixpoint entries_eqb (a b : list entry) : bool :=
  match a, b with
  | [], [] => true
  | x :: r, y :: s => entry_eqb x y && entries_eqb r s
  | _, _ => false
  end.
Definition outcome_eqb (a b : outcome) : bool :=
  match a, b with
  | Ok x, Ok y => entries_eqb x y
  | Panic, Panic => true
  | OracleMiss, OracleMiss => true
  | _, _ => false
  end.
Fixpoint outcomes_eqb (a b : list outcome) : bool :=
  match a, b with
  | [], [] => true
  | x :: r, y :: s => outcome_eqb x y && outcomes_eqb r s
  | _, _ => false
  end.

(* remove one occurrence of x (same id and same bits) *)
Fixpoint remove1 (x : entry) (l : list entry) : option (list entry) :=
  match l with
  | [] => None
  | y :: t => if entry_eqb x y then Some t
              else match remove1 x t with Some t' => Some (y :: t') | None => None end
  end.
(* l minus the multiset out; None if out is not a sub-multiset of l *)
Fixpoint msub (l out : list entry) : option (list entry) :=
  match out with
  | [] => Some l
  | x :: r => match remove1 x l with Some l' => msub l' r | None => None end
  end.

Fixpoint sorted_desc_b (l : list entry) : bool :=
  match l with
  | [] => true
  | x :: r => match r with [] => true | y :: _ => tge (e_sc x) (e_sc y) && sorted_desc_b r end
  end.

(* "out is kept, rest is dropped": every kept score >= every dropped score in the total order *)
Definition dominates_b (out rest : list entry) : bool :=
  forallb (fun a => forallb (fun b => tge (e_sc a) (e_sc b)) rest) out.

(* Top-K contract: min(k, n) entries, a sub-multiset of the input, sorted descending, and
   nothing dropped beats anything kept. *)
Definition topk_ok_b (k : N) (l out : list entry) : bool :=
  (N.of_nat (length out) =? N.min k (N.of_nat (length l)))
  && sorted_desc_b out
  && match msub l out with Some rest => dominates_b out rest | None => false end.

Section TopPContract.
  Variable add : N -> N -> N.

  (* cumulative sums c_0 = 0, c_{j+1} = c_j + s_j  (same additions as the code) *)
  Fixpoint cums (cum : N) (s : list entry) : list N :=
    match s with [] => [cum] | e :: r => cum :: cums (add cum (e_sc e)) r end.

  (* top-P contract on (id, probability) pairs [probs] with threshold [thr]:
       out is a descending top-prefix of the candidates (as for top-K with k = |out|),
       no strictly shorter prefix reaches thr, and out reaches thr or is everything *)
  Definition topp_prefix_ok_b (thr : N) (probs out : list entry) : bool :=
    let m := length out in
    let cs := cums 0 out in
    topk_ok_b (N.of_nat m) probs out
    && forallb (fun c => flt c thr) (firstn m cs)
    && ((m =? length probs)%nat || negb (flt (nth m cs 0) thr)).

  Variable sm : list N -> list N.

  Definition topp_ok_b (p : N) (norm : bool) (l out : list entry) : bool :=
    if feq p one_bits then entries_eqb out l
    else
      let probs := if norm then combine (map e_id l) (sm (map e_sc l)) else l in
      (length probs =? length l)%nat
      && topp_prefix_ok_b (fmax p min_pos_bits) probs out
      && (match l with [] => true | _ => negb (length out =? 0)%nat end).
End TopPContract.

(* ================================ correspondence case ==================================== *)
Definition sm_of_tbl (tbl : list (list N * list N)) (xs : list N) : list N :=
  match find (fun e => list_N_eqb (fst e) xs) tbl with
  | Some e => snd e
  | None => match xs with [] => [] | _ => [] end
  end.

Record case := {
  c_in : list entry;                    (* input logits *)
  c_chain : list filt;                  (* the chain (possibly nested) *)
  c_tbl : list (list N * list N);       (* softmax oracle: observed (input, output) pairs *)
  c_steps : list outcome;               (* implementation, flattened chain, one filter at a time *)
  c_out : outcome                       (* implementation, Chain::filter on the whole chain *)
}.

Definition model_w : nat := 8.          (* any width >= 1 gives the same result (theorem) *)

Definition model_out (c : case) : outcome :=
  run_list true model_w f32ops (sm_of_tbl (c_tbl c)) (c_chain c) (c_in c).
Definition model_steps (c : case) : list outcome :=
  run_steps true model_w f32ops (sm_of_tbl (c_tbl c)) (flatten (c_chain c)) (c_in c).

Definition agree (c : case) : bool :=
  outcome_eqb (model_out c) (c_out c) && outcomes_eqb (model_steps c) (c_steps c).

(* per-filter contract evaluated on the implementation's own step input/output *)
Definition step_ok_b (sm : list N -> list N) (f : filt) (l : list entry) (o : outcome) : bool :=
  match o with
  | Ok out =>
      match f with
      | FTopK k => topk_ok_b k l out
      | FTopP p m => topp_ok_b fadd sm p (norm_of true m) l out
      | FTemp t => entries_eqb out (temperature f32ops t l)
      | FIdF p => entries_eqb out (id_filter p l)
      | FSort => (length out =? length l)%nat && topk_ok_b (N.of_nat (length l)) l out
      | FChain _ => false             (* flattened chains contain no FChain *)
      end
  | _ => false                          (* "no filter panics" *)
  end.

Fixpoint steps_ok_b (sm : list N -> list N) (fs : list filt) (l : list entry) (os : list outcome) : bool :=
  match fs, os with
  | [], [] => true
  | f :: fr, o :: orest =>
      step_ok_b sm f l o && match o with Ok l' => steps_ok_b sm fr l' orest | _ => false end
  | _, _ => false
  end.

Definition last_outcome (l : list entry) (os : list outcome) : outcome := last os (Ok l).

(* the property on the implementation's outcomes: every step meets its filter's contract
   (in particular none panics) and the Chain object returns what the last step returned *)
Definition prop_ok (c : case) : bool :=
  steps_ok_b (sm_of_tbl (c_tbl c)) (flatten (c_chain c)) (c_in c) (c_steps c)
  && outcome_eqb (c_out c) (last_outcome (c_in c) (c_steps c)).

Definition show (c : case) := (model_out c, model_steps c).
