(* C34 -- Tensor file formats round-trip and reject malformed files.
   Only statements; every proof is `exact <lemma>`.  Files are byte lists; tensor elements
   are bit patterns in logical order; [dbg] = build with overflow checks. *)
From RV Require Import Prelude.
From Coq Require Import String.
From Npy Require Import Npy Npy_basic Npy_total Npy_roundtrip.
Open Scope N_scope.

(* (1) Round trip, for every supported dtype, every shape (any rank, 0-d, empty) and every
       element list of matching length (the elements a view yields in logical order),
       in both build modes: reading what npy::write produced gives back the same dtype,
       shape and elements.  Hypotheses: the writer succeeded (header fits the u16 length
       field); the data is below the reader's 4 GiB cap (known finding F34.1 otherwise);
       the product of the non-zero dimensions fits usize (true of every tensor built
       without wrapping arithmetic). *)
Theorem C34_npy_roundtrip : forall dbg d shape elems bytes,
  prodN (map (N.max 1) shape) < two64 ->
  lenN elems = prodN shape ->
  Forall (valid_elem d) elems ->
  prodN shape * item_size d <= u32_max ->
  write d shape elems = Ok bytes ->
  read dbg bytes = ROk d shape elems.
Proof. exact npy_roundtrip. Qed.

(* (2) Totality on ALL byte strings, both build modes: the reader terminates (the model's
       fuel never runs out) and returns a value or an error; the Panic outcome (overflowing
       usize arithmetic with overflow checks, Tensor::from_data length mismatch, `descr[2..]`
       off a char boundary) is unreachable. *)
Theorem C34_parse_total : forall dbg bytes,
  match read dbg bytes with ROk _ _ _ | RErr _ => True | RPanic | RFuel | RTimeout => False end.
Proof. exact parse_total. Qed.

(* (3) Whatever is accepted is well-formed: as many elements as the shape says, dimensions
       are usize values, data below the cap. *)
Theorem C34_read_ok_shape : forall dbg bytes d shape elems,
  read dbg bytes = ROk d shape elems ->
  lenN elems = prodN shape /\ Forall (fun x => x < two64) shape /\ prodN shape * item_size d <= u32_max.
Proof. exact read_ok_shape. Qed.

(* (4) Format conformance of the writer: total header length is a multiple of 64; the writer
       refuses exactly the headers that do not fit the version-1 u16 length field. *)
Theorem C34_header_aligned : forall d shape h,
  build_header d shape = Ok h -> lenN h mod 64 = 0.
Proof. exact header_aligned. Qed.

Theorem C34_write_ok_iff : forall d shape elems,
  (exists bytes, write d shape elems = Ok bytes) <-> lenN (padded_dict d shape) <= 65535.
Proof. exact write_ok_iff. Qed.

(* (5) npz member naming and the safetensors dtype map are injective round trips *)
Theorem C34_npz_name_roundtrip : forall name member,
  npz_file_name name = Some member ->
  exists base, base <> [] /\ member = base ++ NPY_SUFFIX /\ npz_read_key member = Some base /\
               (name = base \/ name = base ++ NPY_SUFFIX).
Proof. exact npz_name_roundtrip. Qed.

Theorem C34_st_dtype_roundtrip : forall d, st_dtype_of_name (st_name d) = Some d.
Proof. exact st_dtype_roundtrip. Qed.

(* (6) Known finding F34.1: a tensor of more than u32::MAX bytes is written without complaint
       but cannot be read back ("array is too large"). *)
Theorem C34_large_tensor_rejected : forall dbg d shape h data,
  prodN (map (N.max 1) shape) < two64 -> prodN shape * item_size d < two64 ->
  u32_max < prodN shape * item_size d ->
  build_header d shape = Ok h ->
  read dbg (h ++ data) = RErr ETooLarge.
Proof. exact read_rejects_large. Qed.

Theorem C34_roundtrip_refuted_above_4GiB :
  exists d shape h, build_header d shape = Ok h /\ u32_max < prodN shape * item_size d /\
    forall dbg data, read dbg (h ++ data) = RErr ETooLarge.
Proof.
  exists DU64, [536870912].
  destruct (build_header DU64 [536870912]) as [h| | |] eqn:E; try (vm_compute in E; discriminate).
  exists h. split; [reflexivity|]. split; [vm_compute; reflexivity|].
  intros dbg data. apply (read_rejects_large dbg DU64 [536870912] h data); try (vm_compute; reflexivity). exact E.
Qed.

(* (7) the executable oracle of the correspondence check means what it says *)
Theorem C34_prop_ok_sound : forall c, prop_ok c = true ->
  match c with
  | CRead _ _ impl => total impl
  | CRound _ f d shape elems _ aux_in aux_out impl =>
      match f with
      | FNpz => (spec_key FNpz aux_in = [] /\ exists e, impl = RErr e) \/
                (impl = ROk d shape elems /\ aux_out = Some (spec_key FNpz aux_in))
      | _ => impl = ROk d shape elems
      end
  | CBig _ d shape _ _ impl => exists e, impl = ROk d shape e
  | CReadOther _ _ cls => cls < 2
  | CMulti _ f entries wrote rb ra =>
      let keys := map (fun e => spec_key f (fst e)) entries in
      if existsb (fun k => list_eqb k []) keys || negb (distinctb keys)
      then f = FNpz -> wrote = false
      else multi_ok f entries wrote rb ra
  end.
Proof. exact prop_ok_sound. Qed.

(* (8) the name specification used by the oracle agrees with the modelled naming rule: the key
       under which npz::read returns the member created for [name] is [spec_key FNpz name] *)
Theorem C34_npz_key_is_spec : forall name member,
  npz_file_name name = Some member -> npz_read_key member = Some (spec_key FNpz name).
Proof. exact npz_key_is_spec. Qed.

(* non-vacuity: a concrete 2x3 i16 round trip, a Fortran-order big-endian file, and the shape
   that used to overflow the stride computation *)
Example C34_nonvacuous :
  (exists bytes, write DI16 [2; 3] [1; 65535; 3; 4; 32768; 6] = Ok bytes /\
                 read true bytes = ROk DI16 [2; 3] [1; 65535; 3; 4; 32768; 6]) /\
  read false (MAGIC ++ [1; 0; 57; 0] ++ B "{'descr': '>i2', 'fortran_order': True, 'shape': (2,3), }" ++
              [0;1; 0;4; 0;2; 0;5; 0;3; 0;6]) = ROk DI16 [2; 3] [1; 2; 3; 4; 5; 6] /\
  read true (MAGIC ++ [1; 0; 97; 0] ++
             B "{'descr': '<i4', 'fortran_order': False, 'shape': (0,9223372036854775808,9223372036854775808), }" ++ [10])
    = RErr ECount /\
  read true [147; 78; 85] = RErr EEof.
Proof.
  split.
  - eexists. split; [vm_compute; reflexivity|]. vm_compute. reflexivity.
  - split; [vm_compute; reflexivity|]. split; vm_compute; reflexivity.
Qed.
