(* C34, totality: npy::read returns a value or an error on every byte string; the Panic and
   Fuel outcomes of the model are unreachable (both build modes).  The arithmetic part shows
   that once size_check accepts a shape, none of the stride / length computations of
   Tensor::from_data and of the Fortran-order reshape overflows, and the length check passes. *)
From RV Require Import Prelude.
From Coq Require Import String.
From Npy Require Import Npy Npy_basic.
Open Scope N_scope.

(* ------------------------------------------------------------ products *)
Definition pm (l : list N) : N := prodN (map (N.max 1) l).

Lemma prodN_app a c : prodN (a ++ c) = prodN a * prodN c.
Proof. unfold prodN. induction a as [|x a IH]; cbn [app fold_right]; [lia|]. rewrite IH. lia. Qed.

Lemma prodN_rev l : prodN (rev l) = prodN l.
Proof.
  induction l as [|x l IH]; [reflexivity|]. cbn [rev]. rewrite prodN_app, IH.
  unfold prodN. cbn [fold_right]. lia.
Qed.

Lemma pm_rev l : pm (rev l) = pm l.
Proof. unfold pm. rewrite map_rev. apply prodN_rev. Qed.

Lemma pm_cons d r : pm (d :: r) = N.max 1 d * pm r.
Proof. reflexivity. Qed.

Lemma prodN_cons d r : prodN (d :: r) = d * prodN r.
Proof. reflexivity. Qed.

Lemma pm_pos l : 1 <= pm l.
Proof. induction l as [|d r IH]; [cbn; lia|]. rewrite pm_cons. nia. Qed.

Lemma prodN_le_pm l : prodN l <= pm l.
Proof.
  induction l as [|d r IH]; [cbn; lia|]. rewrite pm_cons, prodN_cons.
  assert (d <= N.max 1 d) by lia. nia.
Qed.

Lemma checked_product_spec l : forall acc n,
  acc < two64 -> checked_product acc l = Some n -> n = acc * prodN l /\ n < two64.
Proof.
  induction l as [|d r IH]; intros acc n Ha; cbn [checked_product].
  - intros H; inversion H; subst. cbn. split; lia.
  - unfold checked_mul. destruct (acc * d <? two64) eqn:E; [|discriminate].
    apply N.ltb_lt in E. intros H. apply IH in H; [|exact E].
    destruct H as [-> Hl]. rewrite prodN_cons. split; [lia|exact Hl].
Qed.

Lemma checked_product_complete l : forall acc,
  acc * pm l < two64 -> checked_product acc l = Some (acc * prodN l).
Proof.
  induction l as [|d r IH]; intros acc H; cbn [checked_product].
  - f_equal. cbn. lia.
  - rewrite pm_cons in H. pose proof (pm_pos r).
    assert (d <= N.max 1 d) by lia.
    unfold checked_mul. assert (E : acc * d < two64) by nia.
    apply N.ltb_lt in E. rewrite E. rewrite IH by nia. f_equal. rewrite prodN_cons. lia.
Qed.

(* ------------------------------------------------------------ strides, len *)
Fixpoint strides_spec (l : list N) (s0 : N) : list N :=
  match l with [] => [] | d :: r => s0 :: strides_spec r (s0 * d) end.

Lemma mul_usize_ok dbg a c : a * c < two64 -> mul_usize dbg a c = Ok (a * c).
Proof. intros H. unfold mul_usize. apply N.ltb_lt in H. rewrite H. reflexivity. Qed.

Lemma add_usize_ok dbg a c : a + c < two64 -> add_usize dbg a c = Ok (a + c).
Proof. intros H. unfold add_usize. apply N.ltb_lt in H. rewrite H. reflexivity. Qed.

Lemma strides_loop_ok dbg l : forall s0,
  s0 * pm l < two64 -> strides_loop dbg l s0 = Ok (strides_spec l s0).
Proof.
  induction l as [|d r IH]; intros s0 H; cbn [strides_loop strides_spec]; [reflexivity|].
  rewrite pm_cons in H. pose proof (pm_pos r). assert (d <= N.max 1 d) by lia.
  rewrite mul_usize_ok by nia. cbn [bind]. rewrite IH by nia. reflexivity.
Qed.

Lemma product_usize_ok dbg l : forall acc,
  acc * pm l < two64 -> product_usize dbg l acc = Ok (acc * prodN l).
Proof.
  induction l as [|d r IH]; intros acc H; cbn [product_usize].
  - f_equal. cbn. lia.
  - rewrite pm_cons in H. pose proof (pm_pos r). assert (d <= N.max 1 d) by lia.
    rewrite mul_usize_ok by nia. cbn [bind]. rewrite IH by nia. f_equal. rewrite prodN_cons. lia.
Qed.

(* ------------------------------------------------------------ min_data_len *)
Definition sumf (ps : list (N * N)) : N := fold_right (fun p a => (fst p - 1) * snd p + a) 0 ps.

Lemma sumf_app a c : sumf (a ++ c) = sumf a + sumf c.
Proof. unfold sumf. induction a as [|p a IH]; cbn [app fold_right]; [lia|]. rewrite IH. lia. Qed.

Lemma sumf_rev ps : sumf (rev ps) = sumf ps.
Proof.
  induction ps as [|p ps IH]; [reflexivity|]. cbn [rev]. rewrite sumf_app, IH.
  unfold sumf. cbn [fold_right]. lia.
Qed.

Lemma max_offset_ok dbg ps : forall acc,
  acc + sumf ps < two64 -> max_offset dbg ps acc = Ok (acc + sumf ps).
Proof.
  induction ps as [|[size stride] r IH]; intros acc H; cbn [max_offset].
  - f_equal. cbn. lia.
  - assert (Hs : sumf ((size, stride) :: r) = (size - 1) * stride + sumf r) by reflexivity.
    rewrite Hs in H.
    rewrite mul_usize_ok by lia. cbn [bind].
    rewrite add_usize_ok by lia. cbn [bind].
    rewrite IH by lia. f_equal. rewrite Hs. lia.
Qed.

Lemma sum_contig l : forall s0,
  Forall (fun d => 1 <= d) l ->
  sumf (combine l (strides_spec l s0)) + s0 = s0 * prodN l.
Proof.
  induction l as [|d r IH]; intros s0 Hl; cbn [strides_spec combine].
  - cbn. lia.
  - inversion Hl as [|? ? Hd Hr]; subst.
    assert (Hs : sumf ((d, s0) :: combine r (strides_spec r (s0 * d))) =
                 (d - 1) * s0 + sumf (combine r (strides_spec r (s0 * d)))) by reflexivity.
    rewrite Hs. specialize (IH (s0 * d) Hr). rewrite prodN_cons.
    assert ((d - 1) * s0 + s0 = d * s0) by nia. nia.
Qed.

Lemma no_zero_all_pos l : existsb (N.eqb 0) l = false -> Forall (fun d => 1 <= d) l.
Proof.
  induction l as [|d r IH]; cbn [existsb]; [constructor|].
  intros H. apply orb_false_iff in H. destruct H as [Hd Hr]. apply N.eqb_neq in Hd.
  constructor; [lia|auto].
Qed.

Lemma has_zero_prod l : existsb (N.eqb 0) l = true -> prodN l = 0.
Proof.
  induction l as [|d r IH]; cbn [existsb]; [discriminate|].
  intros H. rewrite prodN_cons. apply orb_true_iff in H. destruct H as [H|H].
  - apply N.eqb_eq in H. subst d. lia.
  - rewrite IH by exact H. lia.
Qed.

Lemma min_data_len_ok dbg l :
  pm l < two64 -> min_data_len dbg l (strides_spec l 1) = Ok (prodN l).
Proof.
  intros H. unfold min_data_len.
  destruct (existsb (N.eqb 0) l) eqn:E.
  - rewrite (has_zero_prod _ E). reflexivity.
  - pose proof (sum_contig l 1 (no_zero_all_pos _ E)) as Hs.
    pose proof (prodN_le_pm l).
    rewrite max_offset_ok by (rewrite sumf_rev; lia). cbn [bind].
    rewrite sumf_rev. rewrite add_usize_ok by lia. f_equal. lia.
Qed.

Lemma from_data_check_ok dbg shape :
  pm shape < two64 -> from_data_check dbg shape (prodN shape) = Ok tt.
Proof.
  intros H. unfold from_data_check.
  rewrite strides_loop_ok by (rewrite pm_rev; lia). cbn [bind].
  rewrite min_data_len_ok by (rewrite pm_rev; exact H). cbn [bind].
  rewrite prodN_rev, N.eqb_refl. reflexivity.
Qed.

Lemma reshape_check_ok dbg shape' :
  pm shape' < two64 -> reshape_check dbg shape' (prodN shape') = Ok tt.
Proof.
  intros H. unfold reshape_check.
  pose proof (prodN_le_pm shape').
  assert (Hn : prodN [prodN shape'] = prodN shape') by (unfold prodN at 1; cbn [fold_right]; lia).
  assert (Hp1 : pm [prodN shape'] = N.max 1 (prodN shape')) by (unfold pm, prodN at 1; cbn [map fold_right]; lia).
  rewrite <- Hn at 2.
  assert (H1 : 1 < two64) by reflexivity.
  rewrite from_data_check_ok by (rewrite Hp1; lia). cbn [bind].
  rewrite strides_loop_ok by (rewrite pm_rev; lia). cbn [bind].
  rewrite product_usize_ok by lia. cbn [bind].
  rewrite N.mul_1_l, N.eqb_refl. reflexivity.
Qed.

(* ------------------------------------------------------------ size_check *)
Lemma size_check_ok d shape nb :
  size_check d shape = Ok nb ->
  pm shape < two64 /\ nb = prodN shape * item_size d /\ nb <= u32_max.
Proof.
  unfold size_check.
  destruct (checked_product 1 (map (N.max 1) shape)) as [P|] eqn:E1; [|discriminate].
  destruct (checked_product 1 shape) as [n|] eqn:E2; [|discriminate].
  apply checked_product_spec in E1; [|reflexivity]. apply checked_product_spec in E2; [|reflexivity].
  destruct E1 as [-> HP]. destruct E2 as [-> Hn].
  unfold checked_mul. destruct (1 * prodN shape * item_size d <? two64); [|discriminate].
  destruct (u32_max <? 1 * prodN shape * item_size d) eqn:E3; [discriminate|].
  apply N.ltb_ge in E3. intros H; inversion H; subst.
  split; [unfold pm; lia|]. split; lia.
Qed.

Lemma size_check_safe d shape : safe (size_check d shape).
Proof.
  unfold size_check.
  destruct (checked_product 1 (map (N.max 1) shape)); [|exact I].
  destruct (checked_product 1 shape); [|exact I].
  destruct (checked_mul _ _); [|exact I]. destruct (u32_max <? _); exact I.
Qed.

(* ------------------------------------------------------------ chunks *)
Lemma chunks_length size : (0 < size)%nat -> forall n data fuel,
  List.length data = (n * size)%nat -> (List.length data < fuel)%nat ->
  List.length (chunks fuel size data) = n.
Proof.
  intros Hs. induction n as [|n IH]; intros data fuel Hl Hf.
  - destruct fuel as [|f]; [lia|]. cbn [chunks].
    assert (E : (List.length data <? size)%nat = true) by (apply Nat.ltb_lt; lia).
    rewrite E. reflexivity.
  - destruct fuel as [|f]; [lia|]. cbn [chunks].
    assert (E : (List.length data <? size)%nat = false) by (apply Nat.ltb_ge; lia).
    rewrite E. cbn [List.length]. f_equal. apply IH.
    + rewrite skipn_length. lia.
    + rewrite skipn_length. lia.
Qed.

Lemma item_size_pos d : 0 < item_size d.
Proof. destruct d; reflexivity. Qed.

Lemma fortran_length shape values :
  lenN values = prodN shape -> lenN (fortran_to_row_major shape values) = prodN shape.
Proof.
  intros H. unfold fortran_to_row_major.
  destruct (List.length shape <? 2)%nat; [exact H|].
  unfold lenN. rewrite map_length, seq_length. apply N2Nat.id.
Qed.

(* the values read_typed produces once the size check has passed *)
Definition decoded (d : dtype) (be : bool) (nb : N) (rest : list N) : list N :=
  let data := firstn (N.to_nat nb) rest in
  map (decode_elem d be) (chunks (S (List.length data)) (N.to_nat (item_size d)) data).

Lemma decoded_length d be nb rest shape :
  nb = prodN shape * item_size d -> nb <= lenN rest ->
  lenN (decoded d be nb rest) = prodN shape.
Proof.
  intros Hnb Hr. unfold decoded, lenN. rewrite map_length.
  pose proof (item_size_pos d) as Hp.
  rewrite (chunks_length (N.to_nat (item_size d)) ltac:(lia) (N.to_nat (prodN shape))).
  - apply N2Nat.id.
  - rewrite firstn_length. unfold lenN in Hr. lia.
  - lia.
Qed.

Lemma read_typed_ok dbg d h rest nb :
  size_check d (h_shape h) = Ok nb -> nb <= lenN rest ->
  read_typed dbg d h rest =
  Ok (if h_fortran h && negb (List.length (h_shape h) <? 2)%nat
      then fortran_to_row_major (h_shape h) (decoded d (dd_be (h_dtype h)) nb rest)
      else decoded d (dd_be (h_dtype h)) nb rest).
Proof.
  intros Hsc Hr. unfold read_typed. rewrite Hsc. cbn [bind].
  apply size_check_ok in Hsc. destruct Hsc as (Hpm & Hnb & _).
  assert (E : (lenN rest <? nb) = false) by (apply N.ltb_ge; exact Hr). rewrite E.
  fold (decoded d (dd_be (h_dtype h)) nb rest).
  pose proof (decoded_length d (dd_be (h_dtype h)) nb rest (h_shape h) Hnb Hr) as Hlen.
  destruct (h_fortran h && negb (List.length (h_shape h) <? 2)%nat).
  - rewrite Hlen. rewrite <- (prodN_rev (h_shape h)).
    rewrite reshape_check_ok by (rewrite pm_rev; exact Hpm). cbn [bind].
    try rewrite prodN_rev. rewrite fortran_length by exact Hlen.
    rewrite from_data_check_ok by exact Hpm. reflexivity.
  - cbn [bind]. rewrite Hlen. rewrite from_data_check_ok by exact Hpm. reflexivity.
Qed.

Lemma read_typed_safe dbg d h rest : safe (read_typed dbg d h rest).
Proof.
  pose proof (size_check_safe d (h_shape h)) as Hs.
  destruct (size_check d (h_shape h)) as [nb| | |] eqn:E; try contradiction.
  - destruct (N.le_gt_cases nb (lenN rest)) as [Hle|Hgt].
    + rewrite (read_typed_ok dbg d h rest nb E Hle). exact I.
    + unfold read_typed. rewrite E. cbn [bind]. apply N.ltb_lt in Hgt. rewrite Hgt. exact I.
  - unfold read_typed. rewrite E. exact I.
Qed.

(* ------------------------------------------------------------ read_header, read *)
Lemma read_exact_safe n s : safe (read_exact n s).
Proof. unfold read_exact. destruct (n <=? lenN s); exact I. Qed.

Lemma read_header_safe s : safe (read_header s).
Proof.
  unfold read_header.
  apply safe_bind; [apply read_exact_safe|]. intros [magic r0] _.
  destruct (negb (list_eqb magic MAGIC)); [exact I|].
  apply safe_bind; [apply read_exact_safe|]. intros [ver r1] _.
  apply safe_bind.
  { destruct (hd 0 ver =? 1); [apply read_exact_safe|].
    destruct ((hd 0 ver =? 2) || (hd 0 ver =? 3)); [apply read_exact_safe|exact I]. }
  intros [lenb r2] _.
  apply safe_bind; [apply read_exact_safe|]. intros [hbytes r3] _.
  destruct (negb (utf8_valid hbytes)); [exact I|].
  apply safe_bind; [apply parse_header_safe|]. intros h _. exact I.
Qed.

Definition total (o : outcome) : Prop :=
  match o with ROk _ _ _ | RErr _ => True | RPanic | RFuel | RTimeout => False end.

Theorem parse_total dbg s : total (read dbg s).
Proof.
  unfold read. pose proof (read_header_safe s) as Hs.
  destruct (read_header s) as [[h rest]| | |]; try contradiction; [|exact I].
  destruct (data_type_of (h_dtype h)) as [d|]; [|exact I].
  pose proof (read_typed_safe dbg d h rest) as Ht.
  destruct (read_typed dbg d h rest); try contradiction; exact I.
Qed.

(* a successful read returns as many elements as the shape says, and a shape of usize values *)
Theorem read_ok_shape dbg s d shape elems :
  read dbg s = ROk d shape elems ->
  lenN elems = prodN shape /\ Forall (fun x => x < two64) shape /\ prodN shape * item_size d <= u32_max.
Proof.
  unfold read. destruct (read_header s) as [[h rest]| | |] eqn:Eh; try discriminate.
  destruct (data_type_of (h_dtype h)) as [d'|]; [|discriminate].
  destruct (size_check d' (h_shape h)) as [nb| | |] eqn:Es.
  - destruct (N.le_gt_cases nb (lenN rest)) as [Hle|Hgt].
    + rewrite (read_typed_ok dbg d' h rest nb Es Hle).
      intros H; inversion H; subst. clear H.
      assert (Es' := Es). apply size_check_ok in Es'. destruct Es' as (_ & Hnb & Hcap).
      split.
      * destruct (h_fortran h && negb (List.length (h_shape h) <? 2)%nat).
        -- apply fortran_length. eapply decoded_length; eauto.
        -- eapply decoded_length; eauto.
      * split; [|lia].
        unfold read_header in Eh.
        apply bind_ok in Eh. destruct Eh as ([m r0] & _ & Eh).
        destruct (negb (list_eqb m MAGIC)); [discriminate|].
        apply bind_ok in Eh. destruct Eh as ([v r1] & _ & Eh).
        apply bind_ok in Eh. destruct Eh as ([lb r2] & _ & Eh).
        apply bind_ok in Eh. destruct Eh as ([hb r3] & _ & Eh).
        destruct (negb (utf8_valid hb)); [discriminate|].
        apply bind_ok in Eh. destruct Eh as (h' & Hp & Eh). inversion Eh; subst.
        eapply parse_header_shape_bounded; eauto.
    + unfold read_typed. rewrite Es. cbn [bind]. apply N.ltb_lt in Hgt. rewrite Hgt. discriminate.
  - unfold read_typed. rewrite Es. discriminate.
  - unfold read_typed. rewrite Es. discriminate.
  - unfold read_typed. rewrite Es. discriminate.
Qed.
